"""./check configuration of C09 -- robustness: no request can crash or wedge the server (PARTIAL).

extra: supporting search, not part of the proof -- Go's native coverage-guided fuzzing of
       Mux.ServeHTTP (harness/c09fuzz_test.go, same executor as the generated cases: recover() +
       watchdog), seeded from corpus/C09, offline. A crash is reported as a violation whose replay
       file is an ordinary C09 case (./check C09 --replay <file>), to be added to corpus/C09.
"""
import os, re, shutil, time


def _nontrivial(line):
    f = line.split(" ; ")[0].split()
    if f and f[0] == "C09Q":
        return True                               # a history of several requests
    if len(f) < 11:
        return False
    # something a well-behaved client would not send as is: any header, query, body or a path beyond "/"
    return f[7] != "-" or len(f[6]) > 1 or len(f[8]) > 1 or len(f[5]) > 3


def extra(ROOT, REPO, BUILD, log, sh, tier, seed, build_harness):
    res = dict(problems=[], violation=None, evaluations=0, coverage={}, samples=[], known_lines=[])
    secs = os.environ.get("VERIF_C09_FUZZTIME") or ("300" if tier == "thorough" else "12")
    if secs == "0":
        res["coverage"]["supporting_search"] = dict(kind="go native fuzzing of Mux.ServeHTTP", ran=False, reason="disabled by VERIF_C09_FUZZTIME=0")
        return res
    h = os.path.join(ROOT, "harness")
    t0 = time.time()
    env = dict(os.environ, GOFLAGS="-mod=mod", GOPROXY="off", GOSUMDB="off", GOTOOLCHAIN="local",
               VERIF_C09_CORPUS=os.path.join(ROOT, "corpus", "C09"))
    td = os.path.join(h, "testdata", "fuzz", "FuzzC09")
    shutil.rmtree(td, ignore_errors=True)
    rc, o = sh(["go", "test", "-tags", "verif", "-run", "^$", "-fuzz", "^FuzzC09$", "-fuzztime", secs + "s", "."],
               int(secs) + 600, cwd=h, env=env)
    log.write("== go test -fuzz FuzzC09 %ss (rc=%s, %.1fs) ==\n%s\n" % (secs, rc, time.time() - t0, o[-6000:]))
    shutil.rmtree(os.path.join(h, "testdata"), ignore_errors=True)
    execs = [int(x) for x in re.findall(r"execs: (\d+)", o)]
    interesting = re.findall(r"new interesting: \d+ \(total: (\d+)\)", o)
    info = dict(kind="go native coverage-guided fuzzing of Mux.ServeHTTP (supporting search, not a proof)",
                fuzztime_s=int(secs), execs=max(execs) if execs else 0,
                corpus_entries=int(interesting[-1]) if interesting else 0, wall_s=round(time.time() - t0, 1), ran=True)
    res["coverage"]["supporting_search"] = info
    res["evaluations"] = info["execs"]
    m = re.search(r"C09CRASH (C09 .*?) ; (.*)", o)
    if m:
        line, obs = m.group(1).strip(), m.group(2).strip()
        res["violation"] = ("# property C09: native fuzzing of Mux.ServeHTTP found a request that crashes or wedges the server\n"
                            "# observation: %s\n# replay: ./check C09 --replay <this file>; then add the line to corpus/C09\n%s ; %s\n"
                            % (obs, line, obs))
        info["crash"] = obs[:200]
    elif rc != 0:
        if "no test files" in o or "cannot find" in o or "build failed" in o or "[build failed]" in o or "[setup failed]" in o:
            res["problems"].append(("build", "the fuzz target harness/c09fuzz_test.go does not build against the repo: " + o[-500:],
                                    "go test -fuzz FuzzC09 failed to build\n" + o[-3000:]))
        else:
            res["problems"].append(("harness", "go test -fuzz FuzzC09 failed without a crash report (rc=%s): %s" % (rc, o[-500:]),
                                    "go test -fuzz FuzzC09 failed (rc=%s)\n%s\n" % (rc, o[-3000:])))
    return res


CFG = dict(
    rule="C09 cases: one request each through Mux.ServeHTTP of a rich mux (api/testpb services + a dynamic service with "
         "multi-segment '**' variables, typed variables (int32, bool, enum, bytes, Timestamp, Int64Value, FieldMask, Duration), "
         "nested / repeated / map fields, body '*' / field / none, response_body, HttpBody in and out, unary, server-, client- "
         "and bidi-streaming methods, WEBSOCKET bindings, a '*' verb binding) built in the 4 combinations {interceptors, "
         "stats handler} on/off. Requests: every valid base request of every entry path, then mostly-valid requests with 1-3 "
         "mutations (path: invalid UTF-8, NUL, '%', 1-10 kB segments, 60-70 tokens, ':' and '/' everywhere, truncations; raw "
         "query: bad escapes, repeated keys, dotted keys through scalar / repeated / map fields, 200-deep dotted keys, 20-70 kB "
         "values, junk for every typed field; headers: Content-Type / Accept / Accept-Encoding / Content-Encoding / Grpc-Encoding "
         "/ Grpc-Timeout / Upgrade / Twirp-Version junk incl. the internal codec names 'google.api.HttpBody' and '+body', "
         "failing handlers with codes 0..2^32-1, non-UTF-8 messages and details; bodies: empty, truncated, invalid gzip, invalid "
         "JSON, 25k-deep nesting, invalid UTF-8, invalid / truncated / bit-flipped protobuf, 5-byte frames with length prefixes "
         "up to 2^32-1, compressed flag games, gzip bombs, invalid / truncated / doubly padded base64; ContentLength right, "
         "unknown or lying; three body-reader styles) plus purely random requests, on HTTP transcoding (incl. /Service/Method "
         "paths and Twirp), gRPC (ProtoMajor 2), gRPC-web, gRPC-web-text (in process, ResponseRecorder) and WebSocket upgrades "
         "with hostile frames over a loopback TCP connection. Every call runs under recover() and a 3 s watchdog. "
         "SPECFAIL: panic, hang, HTTP status outside 100..599, a gRPC / gRPC-web 200 without grpc-status, a gRPC-web 200 whose "
         "body is not frames ending in one trailer frame. MISMATCH (in-process cases): the extracted Model/Serve.v (entry "
         "dispatch; every refusal of serveGRPCWeb / serveGRPC before a handler with its status, incl. decodeTimeout; whether a "
         "handler is reached and on which stream type), Model/Lexer.v (a path lexPath refuses is 404, ASCII paths) and "
         "Model/Negotiate.v (media type of an error body written before any handler) predict something else. "
         "non-trivial = the request carries a header, a query, a body or a path longer than one byte",
    nontrivial=_nontrivial,
    extra=extra,
    assumptions=[
        "handlers return (the services of the harness echo, fail on request, and loop over at most 6 RecvMsg calls): a handler that blocks forever is not a defect of the mux",
        "interceptors call the handler and return what it returns (an interceptor returning (nil, nil) for a unary method makes SendMsg(nil) panic: C18's imode_ok)",
        "the codec table is the default one (JSON, protobuf, octet-stream + the internal HttpBody codec); user-supplied codecs that panic are outside the claim",
        "body readers return at least one byte per Read unless at EOF (io.Reader discourages 0, nil)",
        "receive limit = the default 4 MiB: a length prefix above it is refused before allocation; memory use below the limit is not part of the claim",
        "strings.EqualFold(Upgrade, \"websocket\") in serveGRPCWeb is modelled on ASCII (U+212A / U+017F are not generated)",
        "cases and verdicts are deterministic per seed; the recorded status of a request with several bad query keys may be 400 or 500 "
        "depending on which key Go's map iteration in parseQueryParams reports first (about 6 of 7.9k lines); no verdict depends on it",
    ],
    trusted=[
        "httptest.ResponseRecorder stands for the HTTP client of in-process cases (it cannot be hijacked: an in-process WebSocket upgrade is an error path; real upgrades go over loopback TCP)",
        "the classification of a response into (status, grpc-status, Content-Type, reached stream type, frames ok/bad) and of a panic into its first larking frame is the harness's",
        "the watchdog (3 s per request) decides 'hang'; a slower machine can only turn a slow request into a false hang, never hide one",
        "native fuzzing is a supporting search: its corpus lives in the Go build cache and is not deterministic; only the crash it prints (a replayable case line) is evidence",
    ],
    partial="total-ness (never Panic, never OutOfFuel) is proved for the modelled arithmetic and control flow of every model in "
            "coq/theories/Model (30 theorems); panics inside net/http, protobuf-go / protojson, gobwas/ws, compress/gzip, "
            "encoding/base64, grpc-go's status/metadata packages and in glue no model covers (header writing, pools, stats "
            "plumbing) are outside the models: only the hostile-request run and the native fuzzing look for them",
    timeout=900,
)

CFG["rule"] += ' C09Q: histories of 6-150 requests on one mux executed in one goroutine with GOMAXPROCS(1) (HTTP client stream read to its end, HTTP unary, a body above the 4 MiB limit, HttpBody reply, gRPC / gRPC-web unary of n pseudo-random bytes, gRPC with gzip in both directions for every n in 0..150 upwards, downwards and each from freshly collected pools, garbage collections in between; random histories over a 16-step alphabet): no request of a history may crash or wedge the server.'
CFG["rule"] += ' cfg 4: a mux on which nothing was ever registered -- six base HTTP requests, four gRPC methods on the three gRPC entries and a WebSocket handshake.'
