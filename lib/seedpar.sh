#!/bin/sh
# seedpar.sh <workspace n> <property> <seed dir> [checks...]: like seedtest.sh, but in the private workspace
# /var/tmp/par<n>/{verif,repo} (a copy of /verif with its build output and a worktree of /repo), so that several
# seeds can be tried at the same time and /repo itself is never touched.
export GOFLAGS=-mod=mod GOPROXY=off GOSUMDB=off GOTOOLCHAIN=local
N="$1"; P="$2"; D=$(cd "$3" && pwd); shift 3
CHECKS="${*:-$P}"
W=/var/tmp/par$N
[ -d $W/repo ] || git -C /repo worktree add -q --detach $W/repo HEAD || exit 2
git -C $W/repo checkout -q --detach "$(git -C /repo rev-parse HEAD)" 2>/dev/null
git -C $W/repo reset -q --hard; git -C $W/repo clean -fdq
mkdir -p $W/verif && rsync -a --delete --exclude .git --exclude evidence /verif/ $W/verif/
R=$W/repo
cp "$D/demo_test.go" $R/larking/zz_mutdemo_test.go
( cd $R && go test -vet=off -count=1 -run 'TestMutDemo' ./larking/ >$W/a.log 2>&1 ); A=$?
rm $R/larking/zz_mutdemo_test.go
git -C $R apply "$D/patch.diff" 2>/dev/null || git -C $R apply --3way "$D/patch.diff" >/dev/null 2>&1 || { echo "SEED $P $D: patch does not apply"; exit 2; }
git -C $R diff HEAD > $W/patch.diff; git -C $R reset -q
( cd $R && go build ./... >$W/b.log 2>&1 ); B=$?
( cd $R && go test -vet=off -count=1 ./... >$W/s.log 2>&1 ); S=$?
cp "$D/demo_test.go" $R/larking/zz_mutdemo_test.go
( cd $R && go test -vet=off -count=1 -run 'TestMutDemo' ./larking/ >$W/c.log 2>&1 ); C=$?
rm $R/larking/zz_mutdemo_test.go
echo "SEED $P $(basename $(dirname $D))/$(basename $D): demo-without-change rc=$A (want 0) build rc=$B (want 0) suite rc=$S (want 0) demo-with-change rc=$C (want !=0)"
[ $S -ne 0 ] && tail -8 $W/s.log
cp $W/patch.diff "$D/patch.diff"
for c in $CHECKS; do
  OUT=$(cd $W/verif && VERIF_REPO=$R VERIF_NOEVIDENCE=1 ./check $c --tier quick 2>&1 | tail -4)
  echo "$OUT" | grep -q '^VIOLATION' && echo "  check $c: CAUGHT  $(echo "$OUT" | grep '^VIOLATION' | sed "s#$W/verif#/verif#")" || echo "  check $c: MISSED"
  echo "$OUT" | grep -v '^VIOLATION' | tail -2 | sed 's/^/    /'
done
git -C $R checkout -q -- .
