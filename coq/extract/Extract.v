(* Extraction of the executable specifications and models to OCaml.
   Directives used: those of ExtrOcamlBasic only (bool, option, unit, list, prod, sumbool,
   sumor as OCaml types; andb/orb inlined). nat, N, Z, positive stay the extracted inductives. *)
Require Import ExtrOcamlBasic.
From Larking Require Import Base.GoSem Base.Reader Base.Varint Spec.Frames Model.Codec Model.Timeout Base.Pct Base.B64 Model.Status Model.Metadata.
Extraction Language OCaml.
Set Extraction KeepSingleton.
Separate Extraction
  GoSem.bytes_eqb N.of_nat N.to_nat Z.of_nat Z.to_nat Z.of_N N.add N.mul Z.add Z.mul Z.opp Z.eqb N.eqb Nat.eqb
  Frames.obs_ok Frames.parse_all Frames.parse
  Codec.read_next Codec.recv_all Codec.write_next
  Timeout.decode_timeout Timeout.timeout_obs_ok
  Pct.pct_encode Pct.pct_decode B64.b64_encode B64.b64_decode
  Status.http_status_code Status.ws_status_code Status.twirp_name Status.web_body_frames Status.frame Status.ws_reason
  Metadata.incoming Metadata.set_outgoing Metadata.out_vals Metadata.decode_any Metadata.is_reserved Metadata.is_framing Metadata.is_whitelisted Metadata.is_bin Metadata.lower Metadata.reserved_keys Metadata.framing_keys.
