(* grpc-message percent-encoding: larking's encodeGrpcMessage (grpc.go) and the decoder a
   grpc-go client applies (decodeGrpcMessageUnchecked). *)
From Larking Require Import Base.GoSem.
Local Open Scope N_scope.

Definition hexdigit (n : N) : byte := if n <? 10 then 48 + n else 87 + n.   (* %02x: lower case *)
Definition unhex (c : byte) : option N :=
  if (48 <=? c) && (c <=? 57) then Some (c - 48)
  else if (97 <=? c) && (c <=? 102) then Some (c - 87)
  else if (65 <=? c) && (c <=? 70) then Some (c - 55)
  else None.

Definition needs_escape (c : byte) : bool := (c <? 32) || (126 <? c) || (c =? 37).

(* encodeGrpcMessage: bytes outside ' '..'~' and '%' become %xx; everything else is copied *)
Fixpoint pct_encode (m : bytes) : bytes :=
  match m with
  | [] => []
  | c :: r => if needs_escape c then 37 :: hexdigit (c / 16) :: hexdigit (c mod 16) :: pct_encode r
              else c :: pct_encode r
  end.

(* grpc-go: a '%' followed by two hex digits is one byte; anything else is copied *)
Fixpoint pct_decode_f (fuel : nat) (m : bytes) : bytes :=
  match fuel with
  | O => []
  | S f =>
    match m with
    | [] => []
    | c :: r =>
      if c =? 37 then
        match r with
        | a :: b :: r' =>
          match unhex a, unhex b with
          | Some x, Some y => (x * 16 + y) :: pct_decode_f f r'
          | _, _ => c :: pct_decode_f f r
          end
        | _ => c :: pct_decode_f f r
        end
      else c :: pct_decode_f f r
    end
  end.
Definition pct_decode (m : bytes) : bytes := pct_decode_f (S (length m)) m.

Lemma unhex_hexdigit n : n < 16 -> unhex (hexdigit n) = Some n.
Proof.
  intros H. unfold unhex, hexdigit.
  destruct (n <? 10) eqn:E.
  - replace ((48 <=? 48 + n) && (48 + n <=? 57)) with true by lia. f_equal; lia.
  - replace ((48 <=? 87 + n) && (87 + n <=? 57)) with false by lia.
    replace ((97 <=? 87 + n) && (87 + n <=? 102)) with true by lia. f_equal; lia.
Qed.

Lemma pct_encode_len m : (length m <= length (pct_encode m) <= 3 * length m)%nat.
Proof. induction m as [|c r IH]; cbn [pct_encode length]; [lia|]. destruct (needs_escape c); cbn [length]; lia. Qed.

Lemma dec_enc_f : forall m fuel, Forall (fun b => b < 256) m -> (length (pct_encode m) < fuel)%nat ->
  pct_decode_f fuel (pct_encode m) = m.
Proof.
  induction m as [|c r IH]; intros fuel Hwf Hf.
  - destruct fuel; [cbn in Hf; lia|reflexivity].
  - inversion Hwf as [|? ? Hc Hr]; subst. cbn [pct_encode] in *.
    destruct fuel as [|f]; [lia|].
    destruct (needs_escape c) eqn:E.
    + cbn [pct_decode_f]. replace (37 =? 37) with true by reflexivity.
      rewrite !unhex_hexdigit by (try apply N.mod_lt; try apply N.div_lt_upper_bound; lia).
      cbn [length] in Hf. rewrite IH by (auto; lia). f_equal.
      pose proof (N.div_mod c 16). lia.
    + unfold needs_escape in E. cbn [pct_decode_f].
      replace (c =? 37) with false by lia. f_equal. cbn [length] in Hf. apply IH; auto. lia.
Qed.

Theorem pct_roundtrip m : Forall (fun b => b < 256) m -> pct_decode (pct_encode m) = m.
Proof. intros H. unfold pct_decode. apply dec_enc_f; auto. Qed.

Lemma hexdigit_printable n : n < 16 -> 32 <= hexdigit n <= 126.
Proof. unfold hexdigit. destruct (n <? 10) eqn:E; lia. Qed.

Theorem pct_header_safe m : Forall (fun b => b < 256) m -> Forall (fun b => 32 <= b <= 126) (pct_encode m).
Proof.
  induction m as [|c r IH]; intros H; cbn [pct_encode]; [constructor|].
  inversion H as [|? ? Hc Hr]; subst. destruct (needs_escape c) eqn:E.
  - repeat constructor; try lia; try (apply hexdigit_printable; try apply N.mod_lt; try apply N.div_lt_upper_bound; lia); auto.
  - unfold needs_escape in E. constructor; [lia|auto].
Qed.
