(* protowire varints: AppendVarint / ConsumeVarint for uint64. *)
From Larking Require Import Base.GoSem.
Local Open Scope N_scope.

Inductive vres := VOk (v : N) (n : nat) | VTrunc | VOverflow.

(* k = number of bytes still allowed (10 for uint64); the last allowed byte must be < 2 *)
Fixpoint cv (k : nat) (b : bytes) : vres :=
  match k with
  | O => VOverflow
  | S k' =>
    match b with
    | [] => VTrunc
    | x :: r =>
      if Nat.eqb k' 0 then (if x <? 2 then VOk x 1 else VOverflow)
      else if x <? 128 then VOk x 1
      else match cv k' r with
           | VOk v n => VOk (x - 128 + 128 * v) (S n)
           | e => e
           end
    end
  end.
Definition consume_varint (b : bytes) : vres := cv 10 b.

Fixpoint enc_f (k : nat) (v : N) : bytes :=
  match k with
  | O => []
  | S k' => if v <? 128 then [v] else (v mod 128 + 128) :: enc_f k' (v / 128)
  end.
Definition encode_varint (v : N) : bytes := enc_f 10 v.

Lemma cv_enc : forall k v r, (0 < k)%nat -> v < 2 * 128 ^ (N.of_nat k - 1) ->
  cv k (enc_f k v ++ r) = VOk v (length (enc_f k v)).
Proof.
  induction k as [|k IH]; intros v r Hk Hv; [lia|].
  cbn [enc_f cv]. destruct k as [|k'].
  - cbn in Hv. replace (v <? 128) with true by lia. cbn. replace (v <? 2) with true by lia. reflexivity.
  - destruct (v <? 128) eqn:E.
    + cbn [app Nat.eqb length]. rewrite E. reflexivity.
    + cbn [app Nat.eqb length].
      replace (v mod 128 + 128 <? 128) with false by lia.
      assert (Hd : v / 128 < 2 * 128 ^ (N.of_nat (S k') - 1)).
      { replace (N.of_nat (S (S k')) - 1) with (N.succ (N.of_nat (S k') - 1)) in Hv by lia.
        rewrite N.pow_succ_r' in Hv. apply N.div_lt_upper_bound; lia. }
      rewrite IH by (try lia; exact Hd).
      f_equal. pose proof (N.div_mod v 128). lia.
Qed.

Theorem consume_encode v r : v < 2 ^ 64 ->
  consume_varint (encode_varint v ++ r) = VOk v (length (encode_varint v)).
Proof.
  intros H. apply cv_enc; [lia|]. change (2 * 128 ^ (N.of_nat 10 - 1)) with (2 ^ 64). exact H.
Qed.

Lemma enc_f_len k v : (0 < k)%nat -> (1 <= length (enc_f k v) <= k)%nat.
Proof.
  revert v. induction k as [|k IH]; intros v Hk; [lia|]. cbn [enc_f].
  destruct (v <? 128); cbn [length]; [lia|]. destruct k as [|k']; [cbn; lia|].
  specialize (IH (v / 128)). lia.
Qed.

(* prefix stability: once decided on a prefix, the answer is the same on any extension *)
Lemma cv_prefix_ok : forall k b v n x, cv k b = VOk v n -> cv k (b ++ x) = VOk v n /\ (n <= length b)%nat /\ (1 <= n)%nat.
Proof.
  induction k as [|k IH]; intros b v n x H; cbn [cv] in *; [discriminate|].
  destruct b as [|y r]; [discriminate|]. cbn [app length].
  destruct (Nat.eqb k 0).
  - destruct (y <? 2); inversion H; subst. repeat split; lia.
  - destruct (y <? 128); [inversion H; subst; repeat split; lia|].
    destruct (cv k r) as [v' n'| |] eqn:E; try discriminate. inversion H; subst.
    destruct (IH _ _ _ x E) as (E' & L1 & L2). rewrite E'. repeat split; lia.
Qed.
Lemma cv_prefix_ovf : forall k b x, cv k b = VOverflow -> cv k (b ++ x) = VOverflow.
Proof.
  induction k as [|k IH]; intros b x H; cbn [cv] in *; [reflexivity|].
  destruct b as [|y r]; [discriminate|]. cbn [app].
  destruct (Nat.eqb k 0).
  - destruct (y <? 2); [discriminate|reflexivity].
  - destruct (y <? 128); [discriminate|].
    destruct (cv k r) eqn:E; try discriminate. now rewrite (IH _ x E).
Qed.
(* a truncated answer means every byte so far has the continuation bit and fewer than k bytes were seen *)
Lemma cv_trunc : forall k b, cv k b = VTrunc -> (length b < k)%nat /\ Forall (fun y => 128 <= y) b.
Proof.
  induction k as [|k IH]; intros b H; cbn [cv] in *; [discriminate|].
  destruct b as [|y r]; [cbn; split; [lia|constructor]|].
  destruct (Nat.eqb k 0) eqn:K.
  - destruct (y <? 2); discriminate.
  - destruct (y <? 128) eqn:Y; [discriminate|].
    destruct (cv k r) eqn:E; try discriminate. destruct (IH _ E) as [L F].
    cbn [length]. split; [lia|constructor; [cbn beta; lia|exact F]].
Qed.
(* decided as soon as a terminator is present or k bytes are available *)
Lemma cv_decided : forall k b, (k <= length b)%nat \/ Exists (fun y => y <? 128 = true) b -> cv k b <> VTrunc.
Proof.
  intros k b H E. apply cv_trunc in E. destruct E as [L F]. destruct H as [H|H]; [lia|].
  apply Exists_exists in H. destruct H as (y & Hin & Hy). rewrite Forall_forall in F. specialize (F _ Hin). cbn beta in *. lia.
Qed.
