(* encoding/base64: StdEncoding / URLEncoding, padded and raw, and the decoders larking calls. *)
From Larking Require Import Base.GoSem.
Local Open Scope N_scope.

(* alphabets: url = true replaces + / by - _ *)
Definition b64_char (url : bool) (v : N) : byte :=
  if v <? 26 then 65 + v
  else if v <? 52 then 97 + (v - 26)
  else if v <? 62 then 48 + (v - 52)
  else if v =? 62 then (if url then 45 else 43)
  else (if url then 95 else 47).
Definition b64_val (url : bool) (c : byte) : option N :=
  if (65 <=? c) && (c <=? 90) then Some (c - 65)
  else if (97 <=? c) && (c <=? 122) then Some (c - 97 + 26)
  else if (48 <=? c) && (c <=? 57) then Some (c - 48 + 52)
  else if c =? (if url then 45 else 43) then Some 62
  else if c =? (if url then 95 else 47) then Some 63
  else None.

Lemma b64_val_char url v : v < 64 -> b64_val url (b64_char url v) = Some v.
Proof.
  intros H. unfold b64_val, b64_char.
  destruct (v <? 26) eqn:A.
  { replace ((65 <=? 65 + v) && (65 + v <=? 90)) with true by lia. f_equal; lia. }
  destruct (v <? 52) eqn:B.
  { replace ((65 <=? 97 + (v - 26)) && (97 + (v - 26) <=? 90)) with false by lia.
    replace ((97 <=? 97 + (v - 26)) && (97 + (v - 26) <=? 122)) with true by lia. f_equal; lia. }
  destruct (v <? 62) eqn:C.
  { replace ((65 <=? 48 + (v - 52)) && (48 + (v - 52) <=? 90)) with false by lia.
    replace ((97 <=? 48 + (v - 52)) && (48 + (v - 52) <=? 122)) with false by lia.
    replace ((48 <=? 48 + (v - 52)) && (48 + (v - 52) <=? 57)) with true by lia. f_equal; lia. }
  destruct (v =? 62) eqn:D.
  - destruct url; cbn; f_equal; lia.
  - assert (v = 63) by lia. subst v. destruct url; reflexivity.
Qed.

(* encode: 3 bytes -> 4 characters; tail of 1 or 2 bytes -> 2 or 3 characters (+ '=' padding) *)
Fixpoint b64_encode (url pad : bool) (m : bytes) : bytes :=
  match m with
  | a :: b :: c :: r =>
      b64_char url (a / 4) :: b64_char url ((a mod 4) * 16 + b / 16) ::
      b64_char url ((b mod 16) * 4 + c / 64) :: b64_char url (c mod 64) :: b64_encode url pad r
  | [a; b] =>
      b64_char url (a / 4) :: b64_char url ((a mod 4) * 16 + b / 16) :: b64_char url ((b mod 16) * 4) ::
      (if pad then [61] else [])
  | [a] =>
      b64_char url (a / 4) :: b64_char url ((a mod 4) * 16) :: (if pad then [61; 61] else [])
  | [] => []
  end.

(* decode, strict about the final quantum as Go's decoder is: with padding the input is whole
   4-character groups, the last possibly ending in = or ==; raw input has a 2- or 3-character tail *)
Fixpoint b64_decode_f (fuel : nat) (url pad : bool) (s : bytes) : option bytes :=
  match fuel with
  | O => None
  | S f =>
    match s with
    | [] => Some []
    | [w; x] =>
      if pad then None else
      match b64_val url w, b64_val url x with
      | Some w, Some x => Some [w * 4 + x / 16]     (* trailing bits are not checked (non-strict) *)
      | _, _ => None
      end
    | [w; x; y] =>
      if pad then None else
      match b64_val url w, b64_val url x, b64_val url y with
      | Some w, Some x, Some y => Some [w * 4 + x / 16; (x mod 16) * 16 + y / 4]
      | _, _, _ => None
      end
    | w :: x :: y :: z :: r =>
      match b64_val url w, b64_val url x with
      | Some w, Some x =>
        if (y =? 61) && (z =? 61) && is_nil r && pad then Some [w * 4 + x / 16]
        else match b64_val url y with
             | None => None
             | Some y =>
               if (z =? 61) && is_nil r && pad then Some [w * 4 + x / 16; (x mod 16) * 16 + y / 4]
               else match b64_val url z with
                    | None => None
                    | Some z =>
                      match b64_decode_f f url pad r with
                      | Some t => Some (w * 4 + x / 16 :: (x mod 16) * 16 + y / 4 :: (y mod 4) * 64 + z :: t)
                      | None => None
                      end
                    end
             end
      | _, _ => None
      end
    | _ => None
    end
  end.
Definition b64_decode (url pad : bool) (s : bytes) : option bytes := b64_decode_f (S (length s)) url pad s.

Lemma b64_val_not_pad url c v : b64_val url c = Some v -> c <> 61.
Proof.
  unfold b64_val. intros H E. subst c. destruct url; cbn in H; discriminate.
Qed.

Ltac b64arith := match goal with |- _ => try apply N.mod_lt; try apply N.div_lt_upper_bound; lia end.

Lemma sext1 a : a < 256 -> a / 4 < 64. Proof. intros; apply N.div_lt_upper_bound; lia. Qed.
Lemma sext2 a b : a < 256 -> b < 256 -> (a mod 4) * 16 + b / 16 < 64.
Proof. intros. pose proof (N.mod_lt a 4). assert (b / 16 < 16) by (apply N.div_lt_upper_bound; lia). lia. Qed.
Lemma sext3 b c : b < 256 -> c < 256 -> (b mod 16) * 4 + c / 64 < 64.
Proof. intros. pose proof (N.mod_lt b 16). assert (c / 64 < 4) by (apply N.div_lt_upper_bound; lia). lia. Qed.
Lemma sext4 c : c mod 64 < 64. Proof. apply N.mod_lt; lia. Qed.

Lemma byte1 a b : a < 256 -> b < 256 -> (a / 4) * 4 + ((a mod 4) * 16 + b / 16) / 16 = a.
Proof.
  intros. assert (b / 16 < 16) by (apply N.div_lt_upper_bound; lia).
  replace (((a mod 4) * 16 + b / 16) / 16) with (a mod 4).
  - pose proof (N.div_mod a 4). lia.
  - symmetry. rewrite N.add_comm, N.div_add by lia. rewrite N.div_small by lia. reflexivity.
Qed.
Lemma byte2 a b c : a < 256 -> b < 256 -> c < 256 ->
  (((a mod 4) * 16 + b / 16) mod 16) * 16 + ((b mod 16) * 4 + c / 64) / 4 = b.
Proof.
  intros. assert (b / 16 < 16) by (apply N.div_lt_upper_bound; lia).
  assert (c / 64 < 4) by (apply N.div_lt_upper_bound; lia).
  replace (((a mod 4) * 16 + b / 16) mod 16) with (b / 16).
  - replace (((b mod 16) * 4 + c / 64) / 4) with (b mod 16).
    + pose proof (N.div_mod b 16). lia.
    + symmetry. rewrite N.add_comm, N.div_add by lia. rewrite N.div_small by lia. reflexivity.
  - symmetry. rewrite N.add_comm, N.mod_add by lia. apply N.mod_small. lia.
Qed.
Lemma byte3 b c : b < 256 -> c < 256 -> (((b mod 16) * 4 + c / 64) mod 4) * 64 + c mod 64 = c.
Proof.
  intros. assert (c / 64 < 4) by (apply N.div_lt_upper_bound; lia).
  replace (((b mod 16) * 4 + c / 64) mod 4) with (c / 64).
  - pose proof (N.div_mod c 64). lia.
  - symmetry. rewrite N.add_comm, N.mod_add by lia. apply N.mod_small. lia.
Qed.

Theorem b64_roundtrip_f : forall fuel url pad m, Forall (fun b => b < 256) m ->
  (length m < fuel)%nat -> b64_decode_f fuel url pad (b64_encode url pad m) = Some m.
Proof.
  induction fuel as [|f IH]; intros url pad m H Hf; [lia|].
  destruct m as [|a [|b [|c r]]].
  - reflexivity.
  - inversion H as [|? ? Ha _]; subst. cbn [b64_encode].
    assert (V1 := b64_val_char url _ (sext1 a Ha)).
    assert (V2 : b64_val url (b64_char url (a mod 4 * 16)) = Some (a mod 4 * 16)).
    { apply b64_val_char. pose proof (N.mod_lt a 4). lia. }
    destruct pad; cbn [app b64_decode_f]; rewrite V1, V2.
    + rewrite !N.eqb_refl. cbn [is_nil andb].
      f_equal. f_equal. replace ((a mod 4 * 16) / 16) with (a mod 4) by (symmetry; apply N.div_mul; lia).
      pose proof (N.div_mod a 4). lia.
    + f_equal. f_equal. replace ((a mod 4 * 16) / 16) with (a mod 4) by (symmetry; apply N.div_mul; lia).
      pose proof (N.div_mod a 4). lia.
  - inversion H as [|? ? Ha H']; subst. inversion H' as [|? ? Hb _]; subst. cbn [b64_encode].
    assert (V1 := b64_val_char url _ (sext1 a Ha)).
    assert (V2 := b64_val_char url _ (sext2 a b Ha Hb)).
    assert (V3 : b64_val url (b64_char url (b mod 16 * 4)) = Some (b mod 16 * 4)).
    { apply b64_val_char. pose proof (N.mod_lt b 16). lia. }
    assert (E2 : ((a mod 4 * 16 + b / 16) mod 16) * 16 + (b mod 16 * 4) / 4 = b).
    { pose proof (byte2 a b 0 Ha Hb ltac:(lia)) as B. cbn in B. rewrite N.add_0_r in B. exact B. }
    destruct pad; cbn [app b64_decode_f]; rewrite V1, V2.
    + assert (N61 : b64_char url (b mod 16 * 4) <> 61) by (eapply b64_val_not_pad; eauto).
      replace (b64_char url (b mod 16 * 4) =? 61) with false by lia. cbn [andb]. rewrite V3.
      rewrite !N.eqb_refl. cbn [is_nil andb].
      f_equal. f_equal; [apply byte1; auto|f_equal; exact E2].
    + rewrite V3. f_equal. f_equal; [apply byte1; auto|f_equal; exact E2].
  - inversion H as [|? ? Ha H']; subst. inversion H' as [|? ? Hb H'']; subst.
    inversion H'' as [|? ? Hc Hr]; subst. cbn [b64_encode b64_decode_f].
    rewrite (b64_val_char url _ (sext1 a Ha)), (b64_val_char url _ (sext2 a b Ha Hb)).
    assert (V3 := b64_val_char url _ (sext3 b c Hb Hc)). assert (V4 := b64_val_char url _ (sext4 c)).
    assert (N3 : b64_char url (b mod 16 * 4 + c / 64) <> 61) by (eapply b64_val_not_pad; eauto).
    assert (N4 : b64_char url (c mod 64) <> 61) by (eapply b64_val_not_pad; eauto).
    replace (b64_char url (b mod 16 * 4 + c / 64) =? 61) with false by lia.
    replace (b64_char url (c mod 64) =? 61) with false by lia. cbn [andb]. rewrite V3, V4.
    cbn [length] in Hf. rewrite IH by (auto; lia).
    rewrite byte1, byte2, byte3 by auto. reflexivity.
Qed.

Lemma b64_encode_len url pad : forall n m, (length m <= n)%nat -> (length m <= length (b64_encode url pad m))%nat.
Proof.
  induction n as [|n IH]; intros m Hn.
  - destruct m; [cbn; lia|cbn in Hn; lia].
  - destruct m as [|a [|b [|c r]]]; cbn [b64_encode length] in *; try lia.
    specialize (IH r). lia.
Qed.

Theorem b64_roundtrip url pad m : Forall (fun b => b < 256) m -> b64_decode url pad (b64_encode url pad m) = Some m.
Proof.
  intros H. unfold b64_decode. apply b64_roundtrip_f; auto.
  pose proof (b64_encode_len url pad (length m) m ltac:(lia)). lia.
Qed.
