(* Go semantics layer shared by all models: bytes, outcomes, slices, integer wrap. *)
From Coq Require Export List NArith ZArith Bool Arith Lia.
From Coq Require Export ZifyBool ZifyNat ZifyN.
Export ListNotations.

Notation byte := N (only parsing).
Notation bytes := (list N) (only parsing).
Definition wfb (b : byte) : Prop := (b < 256)%N.

(* Error classes (never error text). *)
Inductive err :=
| EEOF | EUnexpectedEOF | ETooLarge | EVarint | EUnbalanced
| ENotFound | EMethod | EInvalid | EUnimplemented | EInternal | EOther.

Definition err_eqb (a b : err) : bool :=
  match a, b with
  | EEOF, EEOF | EUnexpectedEOF, EUnexpectedEOF | ETooLarge, ETooLarge | EVarint, EVarint
  | EUnbalanced, EUnbalanced | ENotFound, ENotFound | EMethod, EMethod | EInvalid, EInvalid
  | EUnimplemented, EUnimplemented | EInternal, EInternal | EOther, EOther => true
  | _, _ => false
  end.

(* Go run-time failures are values of the model, not totalised away. *)
Inductive pcode := PSlice | PIndex | PNil | PExplicit | PKind.

Inductive outcome (A : Type) := Ok (a : A) | Err (e : err) | Panic (p : pcode) | OutOfFuel.
Arguments Ok {A}. Arguments Err {A}. Arguments Panic {A}. Arguments OutOfFuel {A}.

Definition bind {A B} (x : outcome A) (f : A -> outcome B) : outcome B :=
  match x with Ok a => f a | Err e => Err e | Panic p => Panic p | OutOfFuel => OutOfFuel end.
Notation "'do' x <- a ; b" := (bind a (fun x => b)) (at level 200, x pattern, a at level 100, b at level 200).

Definition is_ok {A} (x : outcome A) := match x with Ok _ => true | _ => false end.
Definition is_panic {A} (x : outcome A) := match x with Panic _ => true | _ => false end.
Definition no_crash {A} (x : outcome A) : Prop :=
  match x with Panic _ | OutOfFuel => False | _ => True end.

(* s[i:] and s[i:j] with Go's bounds checks *)
Definition slice_from {A} (i : nat) (s : list A) : outcome (list A) :=
  if Nat.leb i (length s) then Ok (skipn i s) else Panic PSlice.
Definition slice {A} (i j : nat) (s : list A) : outcome (list A) :=
  if Nat.leb i j && Nat.leb j (length s) then Ok (firstn (j - i) (skipn i s)) else Panic PSlice.
Definition index {A} (i : nat) (s : list A) : outcome A :=
  match nth_error s i with Some x => Ok x | None => Panic PIndex end.

(* int(x) of a uint64 on a 64-bit platform *)
Definition wrap64 (x : Z) : Z :=
  let y := (x mod 2^64)%Z in if (y <? 2^63)%Z then y else (y - 2^64)%Z.
Definition u32 (x : Z) : Z := (x mod 2^32)%Z.

Definition is_nil {A} (l : list A) := match l with [] => true | _ => false end.

Fixpoint list_eqb {A} (eqb : A -> A -> bool) (a b : list A) : bool :=
  match a, b with
  | [], [] => true
  | x :: a', y :: b' => eqb x y && list_eqb eqb a' b'
  | _, _ => false
  end.
Definition bytes_eqb := list_eqb N.eqb.

Lemma list_eqb_eq {A} (eqb : A -> A -> bool) :
  (forall x y, eqb x y = true <-> x = y) -> forall a b, list_eqb eqb a b = true <-> a = b.
Proof.
  intros H. induction a as [|x a IH]; destruct b as [|y b]; cbn; split; intros E; try congruence; try discriminate.
  - apply andb_true_iff in E. destruct E as [E1 E2]. apply H in E1. apply IH in E2. congruence.
  - inversion E; subst. apply andb_true_iff. split; [apply H|apply IH]; reflexivity.
Qed.
Lemma bytes_eqb_eq a b : bytes_eqb a b = true <-> a = b.
Proof. apply list_eqb_eq. intros; apply N.eqb_eq. Qed.

Lemma skipn_app_len {A} (l r : list A) k : skipn (length l + k) (l ++ r) = skipn k r.
Proof. induction l as [|a l IH]; cbn; auto. Qed.
Lemma firstn_app_len {A} (l r : list A) k : firstn (length l + k) (l ++ r) = l ++ firstn k r.
Proof. induction l as [|a l IH]; cbn; auto. now rewrite IH. Qed.
