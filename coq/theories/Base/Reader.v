(* io.Reader as a scheduled source: the k-th Read returns min(room, sched_k, remaining) bytes,
   at least one when any remain; EOF arrives with the last bytes or on the next call. *)
From Larking Require Import Base.GoSem.

Record src := Src { rem : bytes; sched : list nat; eofWithData : bool }.

(* one Read(p) with len(p) = room *)
Definition read1 (room : nat) (s : src) : bytes * bool * src :=
  match rem s with
  | [] => ([], true, s)
  | _ =>
    let want := match sched s with [] => length (rem s) | k :: _ => Nat.max 1 k end in
    let k := Nat.min room want in
    let r' := skipn k (rem s) in
    (firstn k (rem s), eofWithData s && is_nil r', Src r' (tl (sched s)) (eofWithData s))
  end.

(* Read into spare capacity: capacity is not modelled (it only lowers a read size, which is
   another schedule), so the room is whatever remains. *)
Definition read_any (s : src) := read1 (length (rem s)) s.

Lemma read1_split room s ch e s' : read1 room s = (ch, e, s') -> ch ++ rem s' = rem s.
Proof.
  unfold read1. destruct (rem s) as [|x r] eqn:E; intros H; inversion H; subst; cbn [rem].
  - now rewrite E.
  - apply firstn_skipn.
Qed.

Lemma read1_progress room s ch e s' :
  0 < room -> read1 room s = (ch, e, s') -> rem s <> [] -> ch <> [].
Proof.
  unfold read1. destruct (rem s) as [|x r] eqn:E; intros Hr H Hne; [congruence|].
  inversion H; subst.
  assert (0 < Nat.min room (match sched s with [] => length (x :: r) | k :: _ => Nat.max 1 k end)).
  { destruct (sched s); cbn [length]; lia. }
  destruct (Nat.min room _) eqn:M; [lia|]. cbn [firstn]. discriminate.
Qed.

Lemma read1_len room s ch e s' : read1 room s = (ch, e, s') -> length ch <= room.
Proof.
  unfold read1. destruct (rem s); intros H; inversion H; subst; cbn [length]; [lia|].
  rewrite firstn_length. lia.
Qed.

Lemma read1_nil_eof room s ch e s' : read1 room s = (ch, e, s') -> rem s = [] -> ch = [] /\ e = true /\ s' = s.
Proof. unfold read1. intros H E. rewrite E in H. inversion H; auto. Qed.

(* EOF is only ever reported when nothing remains afterwards *)
Lemma read1_eof_rem room s ch s' : read1 room s = (ch, true, s') -> rem s' = [].
Proof.
  unfold read1. destruct (rem s) as [|x r] eqn:E; intros H; inversion H; subst; cbn [rem]; auto.
  match goal with H1 : _ && is_nil ?l = true |- _ => destruct l; [reflexivity|] end.
  rewrite andb_false_r in *. discriminate.
Qed.

Lemma read_any_progress s ch e s' : read_any s = (ch, e, s') -> rem s <> [] -> ch <> [].
Proof.
  unfold read_any. intros H Hne.
  assert (Hpos : 0 < length (rem s)) by (destruct (rem s); [congruence|cbn [length]; lia]).
  exact (read1_progress _ _ _ _ _ Hpos H Hne).
Qed.
