(* C18 -- what a stats handler and the interceptors must observe for one RPC. Written without
   looking at larking's control flow: the vocabulary of observations (interceptor calls, stats
   events), the automaton of well-formed event sequences, and the boolean predicates the harness
   evaluates on the implementation's own recordings. *)
From Larking Require Import Base.GoSem.

Definition mname := list N.            (* "/package.Service/Method" *)

(* google.golang.org/grpc/stats: RPCTagInfo (TagRPC) and the RPCStats handed to HandleRPC *)
Inductive ev :=
| ETag (m : mname)                     (* TagRPC, FullMethodName *)
| EInHeader (m : mname)                (* InHeader, FullMethod *)
| EBegin (cs ss : bool)                (* Begin, IsClientStream / IsServerStream *)
| EInPayload (len wire : nat)          (* InPayload, Length / WireLength *)
| EOutHeader
| EOutPayload (len wire : nat)
| EOutTrailer
| EEnd (code : nat).                   (* End, status code of Error (0 = nil) *)

(* one call of the configured grpc.UnaryServerInterceptor / grpc.StreamServerInterceptor *)
Inductive icall :=
| IUnary (m : mname)                           (* UnaryServerInfo.FullMethod *)
| IStream (m : mname) (cs ss : bool).          (* StreamServerInfo *)

Definition name_eqb (a b : mname) := bytes_eqb a b.
Definition icall_eqb (a b : icall) : bool :=
  match a, b with
  | IUnary m, IUnary m' => name_eqb m m'
  | IStream m c s, IStream m' c' s' => name_eqb m m' && Bool.eqb c c' && Bool.eqb s s'
  | _, _ => false
  end.

(* Tag . InHeader . Begin . InPayload* . (OutHeader . (InPayload | OutPayload)* )? . OutTrailer? . End
   -- the automaton of the property, sharpened: the response header is announced at most once and
   before the first response message. *)
Inductive astate := A0 | A1 | A2 | AN | AH | AT | AE.

Definition astep (q : astate) (e : ev) : option astate :=
  match q, e with
  | A0, ETag _ => Some A1
  | A1, EInHeader _ => Some A2
  | A2, EBegin _ _ => Some AN
  | AN, EInPayload _ _ => Some AN
  | AN, EOutHeader => Some AH
  | AH, EInPayload _ _ => Some AH
  | AH, EOutPayload _ _ => Some AH
  | AN, EOutTrailer => Some AT
  | AH, EOutTrailer => Some AT
  | AN, EEnd _ => Some AE
  | AH, EEnd _ => Some AE
  | AT, EEnd _ => Some AE
  | _, _ => None
  end.

Fixpoint arun (q : astate) (l : list ev) : option astate :=
  match l with
  | [] => Some q
  | e :: r => match astep q e with Some q' => arun q' r | None => None end
  end.

Definition accepts (l : list ev) : bool := match arun A0 l with Some AE => true | _ => false end.

(* projections of an event list *)
Fixpoint in_payloads (l : list ev) : list (nat * nat) :=
  match l with [] => [] | EInPayload n w :: r => (n, w) :: in_payloads r | _ :: r => in_payloads r end.
Fixpoint out_payloads (l : list ev) : list (nat * nat) :=
  match l with [] => [] | EOutPayload n w :: r => (n, w) :: out_payloads r | _ :: r => out_payloads r end.
Fixpoint end_codes (l : list ev) : list nat :=
  match l with [] => [] | EEnd c :: r => c :: end_codes r | _ :: r => end_codes r end.
Fixpoint out_headers (l : list ev) : nat :=
  match l with [] => 0 | EOutHeader :: r => S (out_headers r) | _ :: r => out_headers r end.

(* a message of n bytes is reported with Length n and WireLength n + 5 (the gRPC frame header) *)
Definition payload_stat (n : nat) : nat * nat := (n, n + 5).

Definition pair_eqb (a b : nat * nat) := Nat.eqb (fst a) (fst b) && Nat.eqb (snd a) (snd b).

Definition head_ok (m : mname) (cs ss : bool) (l : list ev) : bool :=
  match l with
  | ETag m1 :: EInHeader m2 :: EBegin c s :: _ => name_eqb m1 m && name_eqb m2 m && Bool.eqb c cs && Bool.eqb s ss
  | _ => false
  end.

(* The trace predicate of the property: for the RPC to method m with streaming flags (cs, ss), in
   which the handler received messages of the sizes recvd and sent messages of the sizes sent, and
   which ended with status code, the event list l is well formed. *)
Definition trace_ok (m : mname) (cs ss : bool) (recvd sent : list nat) (code : nat) (l : list ev) : bool :=
  accepts l && head_ok m cs ss l
  && list_eqb pair_eqb (in_payloads l) (map payload_stat recvd)
  && list_eqb pair_eqb (out_payloads l) (map payload_stat sent)
  && list_eqb Nat.eqb (end_codes l) [code].

(* exactly one interceptor call, of the kind the method is registered with *)
Definition expected_call (unary : bool) (m : mname) (cs ss : bool) : icall :=
  if unary then IUnary m else IStream m cs ss.
Definition calls_ok (unary : bool) (m : mname) (cs ss : bool) (l : list icall) : bool :=
  list_eqb icall_eqb l [expected_call unary m cs ss].
