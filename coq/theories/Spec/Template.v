(* google.api.http path templates, read independently of larking's lexer and trie:
   a template is parsed by splitting its text (never by scanning tokens), a request path is an
   instance of a template when its "/"-separated pieces line up with the template's segments.
   Used by the harness as the oracle on what the implementation did (SPECFAIL), and as the
   reference the theorems of Properties/C16, C01, C02 are read against.
     Template = "/" Segments [ ":" LITERAL ] ;   Segments = Segment { "/" Segment } ;
     Segment  = "*" | "**" | LITERAL | "{" FieldPath [ "=" Segments ] "}" ;
     FieldPath = IDENT { "." IDENT } ;
   LITERAL = a letter followed by literal runes (the verb: literal runes); IDENT = ident runes;
   plus http.proto's side conditions: no variable inside a variable, "**" only as the very last
   segment; and larking's own cap of 64 tokens. *)
From Larking Require Import Base.GoSem.
Local Open Scope N_scope.

Definition sstr := list N.
Definition sstr_eqb : sstr -> sstr -> bool := list_eqb N.eqb.

Inductive pseg : Type := PLit : sstr -> pseg | PStar : pseg | PStarStar : pseg.
Inductive tseg : Type := TPlain : pseg -> tseg | TVar : list sstr -> list pseg -> tseg.   (* field path, pattern *)
Record tmpl := { t_segs : list tseg; t_verb : option sstr }.

Section Spec.
Variables isLetter isNumber : N -> bool.

Definition s_ident (r : N) := isLetter r || isNumber r || (r =? 95) || (r =? 45).
Definition s_literal (r : N) := s_ident r || (r =? 46).
Definition s_path (r : N) : bool :=
  s_literal r || existsb (N.eqb r) [126; 33; 36; 38; 39; 40; 41; 42; 43; 44; 59; 61; 64].

(* split s at every c: "a/b" -> ["a";"b"], "" -> [""] *)
Fixpoint split_on (c : N) (s : sstr) : list sstr :=
  match s with
  | [] => [[]]
  | x :: r =>
    match split_on c r with
    | h :: t => if x =? c then [] :: h :: t else (x :: h) :: t
    | [] => [[x]]
    end
  end.
(* split at the first c *)
Fixpoint cut (c : N) (s : sstr) : sstr * option sstr :=
  match s with
  | [] => ([], None)
  | x :: r => if x =? c then ([], Some r) else let '(a, b) := cut c r in (x :: a, b)
  end.
(* split at "/" outside braces; None on a nested, unopened or unclosed brace *)
Fixpoint split_top (depth : bool) (s : sstr) : option (list sstr) :=
  match s with
  | [] => if depth then None else Some [[]]
  | x :: r =>
    if x =? 123 then (if depth then None else
      match split_top true r with Some (h :: t) => Some ((x :: h) :: t) | _ => None end)
    else if x =? 125 then (if depth then
      match split_top false r with Some (h :: t) => Some ((x :: h) :: t) | _ => None end else None)
    else if (x =? 47) && negb depth then
      match split_top false r with Some l => Some ([] :: l) | None => None end
    else match split_top depth r with Some (h :: t) => Some ((x :: h) :: t) | _ => None end
  end.

Definition nonempty_all (p : N -> bool) (s : sstr) := negb (is_nil s) && forallb p s.
Definition literal_ok (s : sstr) := match s with x :: _ => isLetter x && forallb s_literal s | [] => false end.

Definition parse_pseg (s : sstr) : option pseg :=
  if sstr_eqb s [42] then Some PStar
  else if sstr_eqb s [42; 42] then Some PStarStar
  else if literal_ok s then Some (PLit s) else None.
Fixpoint map_opt {A B} (f : A -> option B) (l : list A) : option (list B) :=
  match l with
  | [] => Some []
  | x :: r => match f x, map_opt f r with Some y, Some ys => Some (y :: ys) | _, _ => None end
  end.
(* a segment and the number of tokens larking's lexer spends on it *)
Definition parse_tseg (s : sstr) : option (tseg * nat) :=
  match s with
  | 123 :: r =>
    match rev r with
    | 125 :: ri =>
      let inner := rev ri in
      let '(fp, pat) := cut 61 inner in
      let keys := split_on 46 fp in
      if forallb (nonempty_all s_ident) keys then
        match pat with
        | None => Some (TVar keys [PStar], 2 * length keys + 1)%nat
        | Some p => match map_opt parse_pseg (split_on 47 p) with
                    | Some ps => Some (TVar keys ps, 2 * length keys + 1 + 2 * length ps)%nat
                    | None => None end
        end
      else None
    | _ => None
    end
  | _ => match parse_pseg s with Some p => Some (TPlain p, 1%nat) | None => None end
  end.

Definition flat (t : tmpl) : list pseg :=
  flat_map (fun s => match s with TPlain p => [p] | TVar _ ps => ps end) (t_segs t).
Fixpoint starstar_last (l : list pseg) : bool :=
  match l with
  | [] => true
  | PStarStar :: r => is_nil r
  | _ :: r => starstar_last r
  end.
(* a template is accepted when it parses, ** is last, and it needs at most 64 tokens *)
Definition parse_tmpl (s : sstr) : option tmpl :=
  match s with
  | 47 :: rest =>
    let '(segpart, verb) := cut 58 rest in
    let verb_fine := match verb with None => true | Some v => nonempty_all s_literal v end in
    if verb_fine then
      match split_top false segpart with
      | Some parts =>
        match map_opt parse_tseg parts with
        | Some segs =>
          let t := {| t_segs := map fst segs; t_verb := verb |} in
          let ntok := (length segs + fold_right Nat.add 0 (map snd segs) + (match verb with Some _ => 2 | None => 0 end) + 1)%nat in
          if starstar_last (flat t) && Nat.leb ntok 64 then Some t else None
        | None => None
        end
      | None => None
      end
    else None
  | _ => None
  end.

(* ---- instances ---- *)
Definition join (sep : N) (l : list sstr) : sstr :=
  match l with [] => [] | h :: t => h ++ flat_map (fun x => sep :: x) t end.

(* match a pattern against the head of the pieces: Some (consumed, rest) *)
Fixpoint match_pat (ps : list pseg) (pieces : list sstr) : option (list sstr * list sstr) :=
  match ps with
  | [] => Some ([], pieces)
  | p :: ps' =>
    match pieces with
    | [] => None
    | x :: r =>
      match p with
      | PLit l => if sstr_eqb l x then match match_pat ps' r with Some (c, z) => Some (x :: c, z) | None => None end else None
      | PStar => match match_pat ps' r with Some (c, z) => Some (x :: c, z) | None => None end
      | PStarStar => match ps' with [] => Some (pieces, []) | _ => None end
      end
    end
  end.
Fixpoint match_segs (segs : list tseg) (pieces : list sstr) : option (list (list sstr * sstr)) :=
  match segs with
  | [] => if is_nil pieces then Some [] else None
  | TPlain p :: segs' =>
    match match_pat [p] pieces with
    | Some (_, rest) => match_segs segs' rest
    | None => None
    end
  | TVar fp ps :: segs' =>
    match match_pat ps pieces with
    | Some (c, rest) =>
      match match_segs segs' rest with Some caps => Some ((fp, join 47 c) :: caps) | None => None end
    | None => None
    end
  end.

Definition s_normalise (p : sstr) : sstr :=
  let p1 := match p with 47 :: _ => p | _ => 47 :: p end in
  match rev p1 with 47 :: r => rev r | _ => p1 end.
Fixpoint strip_suffix (suf s : sstr) : option sstr :=
  if sstr_eqb s suf then Some []
  else match s with [] => None | x :: r => match strip_suffix suf r with Some a => Some (x :: a) | None => None end end.

(* [strict]: pieces are made of documented path characters only (so contain no ':' and no '/') *)
Definition inst (strict : bool) (t : tmpl) (path : sstr) : option (list (list sstr * sstr)) :=
  match s_normalise path with
  | 47 :: body =>
    let segpart := match t_verb t with
                   | Some v => strip_suffix (58 :: v) body
                   | None => Some body
                   end in
    match segpart with
    | Some sp =>
      let pieces := split_on 47 sp in
      if forallb (fun x => negb (is_nil x)) pieces && (negb strict || forallb (forallb s_path) pieces)
      then match_segs (t_segs t) pieces else None
    | None => None
    end
  | _ => None
  end.

Definition covers (rule_verb req_verb : sstr) : bool := sstr_eqb rule_verb req_verb || sstr_eqb rule_verb [42].

(* literal-over-wildcard: [a] beats [b] when, at the first segment where the two templates
   differ, [a] spells a literal and [b] has a wildcard or variable *)
Definition seg_key (s : tseg) : option sstr :=
  match s with TPlain (PLit l) => Some l | _ => None end.
Fixpoint pseg_eqb (a b : pseg) : bool :=
  match a, b with
  | PLit x, PLit y => sstr_eqb x y | PStar, PStar => true | PStarStar, PStarStar => true | _, _ => false
  end.
Definition tseg_shape_eqb (a b : tseg) : bool :=
  match a, b with
  | TPlain x, TPlain y => pseg_eqb x y
  | TVar _ p, TVar _ q => list_eqb pseg_eqb p q
  | TPlain PStar, TVar _ [PStar] | TVar _ [PStar], TPlain PStar => true
  | TPlain PStarStar, TVar _ [PStarStar] | TVar _ [PStarStar], TPlain PStarStar => true
  | _, _ => false
  end.
Fixpoint beats (a b : list tseg) : bool :=
  match a, b with
  | x :: a', y :: b' =>
    if tseg_shape_eqb x y then beats a' b'
    else match seg_key x, seg_key y with Some _, None => true | _, _ => false end
  | _, _ => false
  end.

End Spec.
