(* What "message size limits hold" means, written without looking at any gate of larking.
   A call is a sequence of messages put on the wire by one side; the other side observes which
   of them were handed over (their encoded sizes after decompression) and how the call ended.
   The two predicates below are what the harness evaluates on the implementation's own
   observations (extracted), and what the model of the gates is proved to satisfy. *)
From Larking Require Import Base.GoSem.
Local Open Scope Z_scope.

(* one message as sent *)
Record sent := Sent {
  s_size : Z;      (* encoded size, after decompression where the transport compresses *)
  s_wire : Z;      (* size of the frame that carries it (= s_size when not compressed) *)
  s_ok   : bool;   (* it is a complete, decodable message (not truncated, not garbage) *)
}.

Definition within (limit : Z) (m : sent) : bool := (s_size m <=? limit) && (s_wire m <=? limit).

(* Receive side. [got]: sizes of the messages the handler received, in order; [ended_ok]: the call
   succeeded. The handler reads exactly as many messages as were sent and stops at the first error.
   - a decodable message within the limit (frame and message) must be delivered, at its size;
   - a message over the limit is never delivered and the call fails;
   - a decodable message within the limit whose compressed frame is over the limit may be refused
     (the frame is judged before it is inflated) but if delivered, at its size;
   - a truncated / undecodable message is never delivered;
   - nothing is delivered that was not sent, and a call whose messages were all delivered succeeds. *)
Fixpoint recv_ok (limit : Z) (msgs : list sent) (got : list Z) (ended_ok : bool) : bool :=
  match msgs with
  | [] => is_nil got && ended_ok
  | m :: ms =>
    if s_ok m && within limit m then
      match got with g :: gs => (g =? s_size m) && recv_ok limit ms gs ended_ok | [] => false end
    else if s_ok m && (s_size m <=? limit) then
      match got with g :: gs => (g =? s_size m) && recv_ok limit ms gs ended_ok | [] => negb ended_ok end
    else if s_ok m then is_nil got && negb ended_ok
    else is_nil got
  end.

(* Send side. [att]: encoded sizes of the replies the handler tried to send, in order, stopping at
   the first refusal; [res]: whether each attempt was accepted; [arr]: sizes that reached the client.
   A reply within the limit is accepted and arrives; a reply over the limit is refused, does not
   arrive, and is the last attempt. *)
Fixpoint send_ok (limit : Z) (att : list Z) (res : list bool) (arr : list Z) : bool :=
  match att, res with
  | [], [] => is_nil arr
  | a :: att', r :: res' =>
    if a <=? limit then
      r && match arr with x :: arr' => (x =? a) && send_ok limit att' res' arr' | [] => false end
    else negb r && is_nil att' && is_nil res' && is_nil arr
  | _, _ => false
  end.

(* the two halves of the property for a single verdict, as used in the theorem statements *)
Definition never_over (limit : Z) (o : outcome Z) : Prop :=
  match o with Ok size => size <= limit | _ => True end.
Definition size_refusal (o : outcome Z) : Prop := o = Err ETooLarge.
