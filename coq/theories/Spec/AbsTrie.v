(* The abstract routing map of Model/Registry.v, re-stated over arbitrary types of nodes, verbs and
   methods with boolean equalities: a finite map from binding keys (node, verb) to methods, the
   distinguished verb [star] being the kind "*".  [a_find], [a_lookup], [a_add], [a_add_all],
   [a_add_rule], [a_add_rules], [a_del] are word-for-word copies of Registry.t_find ... t_del;
   [a_append] is the effect of Registry.append_handler on the map, [a_register] the method loop of
   Registry.process.  The last section proves that the Registry functions are the instance at
   nat / Nat.eqb / star = 0.
   [a_add_loose] is Registry.t_add as it was before the refinement proof (Proofs/RefineProofs.v) found
   it to depart from larking/rules.go: refuse iff a_lookup finds another method, "already registered"
   iff it finds this one.  It is kept only so that the two refutations stay checked
   (RefineProofs.refine_add_refuted, refine_add_state_refuted). *)
From Larking Require Import Base.GoSem.
From Larking Require Model.Registry.

Section AbsTrie.
Variables Nd Vb M : Type.
Variable nd_eqb : Nd -> Nd -> bool.
Variable vb_eqb : Vb -> Vb -> bool.
Variable m_eqb : M -> M -> bool.
Variable star : Vb.

Record akey := AKey { ak_node : Nd; ak_verb : Vb; ak_valid : bool }.
Record arule := ARule { ar_main : akey; ar_add : list akey }.

Definition atrie := list (Nd * Vb * M).
Definition a_find (t : atrie) (n : Nd) (v : Vb) : option M :=
  match find (fun e => nd_eqb (fst (fst e)) n && vb_eqb (snd (fst e)) v) t with
  | Some e => Some (snd e)
  | None => None
  end.
Definition a_lookup (t : atrie) (n : Nd) (v : Vb) : option M :=
  match a_find t n v with Some m => Some m | None => a_find t n star end.

Definition a_other (x : option M) (m : M) : bool :=
  match x with Some m' => negb (m_eqb m' m) | None => false end.
(* every binding of node n belongs to m *)
Definition a_owned (t : atrie) (n : Nd) (m : M) : bool :=
  forallb (fun e => negb (nd_eqb (fst (fst e)) n) || m_eqb (snd e) m) t.
Definition a_add (t : atrie) (k : akey) (m : M) : outcome (atrie * bool) :=
  if negb (ak_valid k) then Err EInvalid
  else if a_other (a_find t (ak_node k) star) m then Err EInvalid
  else if vb_eqb (ak_verb k) star then
    if negb (a_owned t (ak_node k) m) then Err EInvalid
    else match a_find t (ak_node k) star with
         | Some _ => Ok (t, false)
         | None => Ok ((ak_node k, ak_verb k, m) :: t, true)
         end
  else match a_find t (ak_node k) (ak_verb k) with
       | Some m' => if m_eqb m' m then Ok (t, false) else Err EInvalid
       | None => Ok ((ak_node k, ak_verb k, m) :: t, true)
       end.
(* Registry.t_add before the repair *)
Definition a_add_loose (t : atrie) (k : akey) (m : M) : outcome (atrie * bool) :=
  if negb (ak_valid k) then Err EInvalid else
  match a_lookup t (ak_node k) (ak_verb k) with
  | Some m' => if m_eqb m' m then Ok (t, false) else Err EInvalid
  | None => Ok ((ak_node k, ak_verb k, m) :: t, true)
  end.
Fixpoint a_add_all (t : atrie) (ks : list akey) (m : M) : outcome atrie :=
  match ks with
  | [] => Ok t
  | k :: ks' => do r <- a_add t k m; a_add_all (fst r) ks' m
  end.
Definition a_add_rule (t : atrie) (r : arule) (m : M) : outcome atrie :=
  do x <- a_add t (ar_main r) m;
  a_add_all (fst x) (ar_add r) m.
Fixpoint a_add_rules (t : atrie) (rs : list arule) (m : M) : outcome atrie :=
  match rs with
  | [] => Ok t
  | r :: rs' => do t' <- a_add_rule t r m; a_add_rules t' rs' m
  end.
Definition a_del (t : atrie) (m : M) : atrie := filter (fun e => negb (m_eqb (snd e) m)) t.

(* a method as a registration sees it: its name, the key of the implicit rule, its rules *)
Record adecl := ADecl { ad_name : M; ad_implicit : akey; ad_rules : list arule }.
Definition a_append (t : atrie) (d : adecl) : outcome atrie :=
  do x <- a_add t (ad_implicit d) (ad_name d);
  a_add_rules (fst x) (ad_rules d) (ad_name d).
Fixpoint a_register (t : atrie) (ds : list adecl) : outcome atrie :=
  match ds with
  | [] => Ok t
  | d :: ds' => do t' <- a_append t d; a_register t' ds'
  end.
(* all or nothing, like the publication of the clone *)
Definition a_register_service (t : atrie) (ds : list adecl) : atrie :=
  match a_register t ds with Ok t' => t' | _ => t end.

(* removing from an optional method *)
Definition odel (x : M) (o : option M) : option M :=
  match o with Some m => if m_eqb m x then None else Some m | None => None end.
Definition oelse (a b : option M) : option M := match a with Some m => Some m | None => b end.

Hypothesis nd_eqb_eq : forall a b, nd_eqb a b = true <-> a = b.
Hypothesis vb_eqb_eq : forall a b, vb_eqb a b = true <-> a = b.
Hypothesis m_eqb_eq : forall a b, m_eqb a b = true <-> a = b.

Lemma nd_eqb_refl a : nd_eqb a a = true.
Proof. now apply nd_eqb_eq. Qed.
Lemma vb_eqb_refl a : vb_eqb a a = true.
Proof. now apply vb_eqb_eq. Qed.
Lemma m_eqb_refl a : m_eqb a a = true.
Proof. now apply m_eqb_eq. Qed.
Lemma m_eqb_neq a b : m_eqb a b = false <-> a <> b.
Proof.
  split.
  - intros H E. apply m_eqb_eq in E. congruence.
  - intros H. destruct (m_eqb a b) eqn:E; [apply m_eqb_eq in E; contradiction|reflexivity].
Qed.

Definition keyb (n : Nd) (v : Vb) (e : Nd * Vb * M) : bool := nd_eqb (fst (fst e)) n && vb_eqb (snd (fst e)) v.
Lemma keyb_true n v e : keyb n v e = true <-> fst e = (n, v).
Proof.
  unfold keyb. destruct e as [[n0 v0] m0]. cbn [fst snd]. rewrite andb_true_iff, nd_eqb_eq, vb_eqb_eq.
  split; [intros [-> ->]; reflexivity|intros E; injection E as -> ->; auto].
Qed.

(* ---- find ---- *)
Lemma a_find_nil n v : a_find [] n v = None.
Proof. reflexivity. Qed.
Lemma a_find_cons n0 v0 m0 t n v :
  a_find ((n0, v0, m0) :: t) n v = if nd_eqb n0 n && vb_eqb v0 v then Some m0 else a_find t n v.
Proof. unfold a_find. cbn [find fst snd]. destruct (nd_eqb n0 n && vb_eqb v0 v); reflexivity. Qed.
Lemma a_find_cons_same n v m t : a_find ((n, v, m) :: t) n v = Some m.
Proof. now rewrite a_find_cons, nd_eqb_refl, vb_eqb_refl. Qed.
Lemma a_find_cons_other n0 v0 m0 t n v : (n0, v0) <> (n, v) -> a_find ((n0, v0, m0) :: t) n v = a_find t n v.
Proof.
  intros Hne. rewrite a_find_cons. destruct (nd_eqb n0 n && vb_eqb v0 v) eqn:E; [|reflexivity].
  apply andb_true_iff in E. destruct E as [E1 E2]. apply nd_eqb_eq in E1. apply vb_eqb_eq in E2. subst. contradiction.
Qed.

Lemma a_find_in t n v m : a_find t n v = Some m -> In (n, v, m) t.
Proof.
  unfold a_find. destruct (find _ t) as [e|] eqn:E; [|discriminate]. intros H. injection H as <-.
  apply find_some in E. destruct E as [Hin Hk]. change (keyb n v e = true) in Hk. apply keyb_true in Hk.
  destruct e as [[n0 v0] m0]. cbn [fst snd] in *. injection Hk as -> ->. exact Hin.
Qed.
Lemma a_find_none t n v : a_find t n v = None -> ~ In (n, v) (map fst t).
Proof.
  unfold a_find. destruct (find _ t) as [e|] eqn:E; [discriminate|]. intros _ Hin.
  apply in_map_iff in Hin. destruct Hin as (e & He & Hin). pose proof (find_none _ _ E e Hin) as Hk.
  change (keyb n v e = false) in Hk. assert (keyb n v e = true) by now apply keyb_true. congruence.
Qed.
Lemma a_in_find t n v m : NoDup (map fst t) -> In (n, v, m) t -> a_find t n v = Some m.
Proof.
  induction t as [|[[n0 v0] m0] t IH]; intros Hnd Hin; [contradiction|].
  cbn [map fst] in Hnd. inversion Hnd as [|x l Hnotin Hnd']; subst.
  destruct Hin as [E|Hin].
  - injection E as -> -> ->. apply a_find_cons_same.
  - rewrite a_find_cons_other; [now apply IH|]. intros E. injection E as -> ->. apply Hnotin.
    apply in_map_iff. exists (n, v, m). auto.
Qed.

(* ---- add ---- *)
Lemma a_other_false x m : a_other x m = false <-> forall m', x = Some m' -> m' = m.
Proof.
  unfold a_other. destruct x as [m0|].
  - rewrite negb_false_iff, m_eqb_eq. split; [intros -> m' H; now injection H|auto].
  - split; [intros _ m' H; discriminate|reflexivity].
Qed.
Lemma a_owned_true t n m : a_owned t n m = true <-> forall v m', In (n, v, m') t -> m' = m.
Proof.
  unfold a_owned. rewrite forallb_forall. split.
  - intros H v m' Hin. specialize (H _ Hin). cbn [fst snd] in H. rewrite nd_eqb_refl in H. now apply m_eqb_eq in H.
  - intros H [[n0 v0] m0] Hin. cbn [fst snd]. destruct (nd_eqb n0 n) eqn:Q; [|reflexivity].
    apply nd_eqb_eq in Q. subst n0. cbn [negb orb]. apply m_eqb_eq. eauto.
Qed.
Lemma a_add_inv t k m t' fl : a_add t k m = Ok (t', fl) ->
  ak_valid k = true /\ a_other (a_find t (ak_node k) star) m = false /\
  (ak_verb k = star -> a_owned t (ak_node k) m = true) /\
  ((fl = false /\ t' = t /\ a_find t (ak_node k) (ak_verb k) = Some m) \/
   (fl = true /\ t' = (ak_node k, ak_verb k, m) :: t /\ a_find t (ak_node k) (ak_verb k) = None)).
Proof.
  unfold a_add. destruct (ak_valid k); cbn [negb]; [|discriminate].
  destruct (a_other (a_find t (ak_node k) star) m) eqn:Eo; [discriminate|].
  destruct (vb_eqb (ak_verb k) star) eqn:Ev.
  - apply vb_eqb_eq in Ev. destruct (a_owned t (ak_node k) m) eqn:Ew; cbn [negb]; [|discriminate].
    rewrite Ev. destruct (a_find t (ak_node k) star) as [m0|] eqn:Ef; intro H; injection H as <- <-.
    + split; [reflexivity|]. split; [reflexivity|]. split; [reflexivity|]. left. split; [reflexivity|]. split; [reflexivity|].
      f_equal. apply (proj1 (a_other_false _ _) Eo). reflexivity.
    + split; [reflexivity|]. split; [reflexivity|]. split; [reflexivity|]. right. auto.
  - assert (Hne : ak_verb k <> star) by (intro Q; apply vb_eqb_eq in Q; congruence).
    destruct (a_find t (ak_node k) (ak_verb k)) as [m0|] eqn:Ef.
    + destruct (m_eqb m0 m) eqn:Em; [|discriminate]. apply m_eqb_eq in Em. subst m0. intro H; injection H as <- <-.
      split; [reflexivity|]. split; [reflexivity|]. split; [intro; contradiction|]. left. auto.
    + intro H; injection H as <- <-. split; [reflexivity|]. split; [reflexivity|]. split; [intro; contradiction|]. right. auto.
Qed.
Lemma a_add_ok t k m :
  is_ok (a_add t k m) =
  ak_valid k && negb (a_other (a_find t (ak_node k) star) m) &&
  (if vb_eqb (ak_verb k) star then a_owned t (ak_node k) m else negb (a_other (a_find t (ak_node k) (ak_verb k)) m)).
Proof.
  unfold a_add. destruct (ak_valid k); cbn [negb andb]; [|reflexivity].
  destruct (a_other (a_find t (ak_node k) star) m); cbn [negb andb]; [reflexivity|].
  destruct (vb_eqb (ak_verb k) star).
  - destruct (a_owned t (ak_node k) m); cbn [negb]; [|reflexivity]. destruct (a_find t (ak_node k) star); reflexivity.
  - destruct (a_find t (ak_node k) (ak_verb k)) as [m'|]; cbn [a_other]; [|reflexivity]. destruct (m_eqb m' m); reflexivity.
Qed.
Lemma a_add_err t k m : match a_add t k m with Ok _ => True | Err e => e = EInvalid | _ => False end.
Proof.
  unfold a_add. destruct (negb (ak_valid k)); [reflexivity|]. destruct (a_other _ m); [reflexivity|].
  destruct (vb_eqb (ak_verb k) star).
  - destruct (negb (a_owned t (ak_node k) m)); [reflexivity|]. destruct (a_find t (ak_node k) star); exact I.
  - destruct (a_find t (ak_node k) (ak_verb k)) as [m'|]; [|exact I]. destruct (m_eqb m' m); [exact I|reflexivity].
Qed.
Lemma a_add_invalid t k m : ak_valid k = false -> a_add t k m = Err EInvalid.
Proof. intros H. unfold a_add. now rewrite H. Qed.

(* ---- keys stay keys ---- *)
Lemma a_lookup_none_find t n v : a_lookup t n v = None -> a_find t n v = None.
Proof. unfold a_lookup. destruct (a_find t n v); [discriminate|reflexivity]. Qed.
Lemma a_add_nodup t k m t' fl : a_add t k m = Ok (t', fl) -> NoDup (map fst t) -> NoDup (map fst t').
Proof.
  intros H Hnd. destruct (a_add_inv _ _ _ _ _ H) as (_ & _ & _ & [(_ & -> & _)|(_ & -> & Hl)]); [exact Hnd|].
  cbn [map fst]. constructor; [|exact Hnd]. now apply a_find_none.
Qed.
Lemma NoDup_map_filter' {A B : Type} (g : A -> B) f l : NoDup (map g l) -> NoDup (map g (filter f l)).
Proof.
  induction l as [|a l IH]; cbn [map filter]; intros H; [constructor|].
  inversion H as [|x l' Hnotin Hnd]; subst. destruct (f a); cbn [map]; auto.
  constructor; [|auto]. intros Hin. apply Hnotin. apply in_map_iff in Hin. destruct Hin as (z & E & Hz).
  apply filter_In in Hz. apply in_map_iff. exists z. tauto.
Qed.
Lemma a_del_nodup t x : NoDup (map fst t) -> NoDup (map fst (a_del t x)).
Proof. apply NoDup_map_filter'. Qed.
Lemma a_del_in t x e : In e (a_del t x) <-> In e t /\ snd e <> x.
Proof. unfold a_del. rewrite filter_In, negb_true_iff, m_eqb_neq. tauto. Qed.

Lemma a_add_all_nodup ks : forall t m t', a_add_all t ks m = Ok t' -> NoDup (map fst t) -> NoDup (map fst t').
Proof.
  induction ks as [|k ks IH]; intros t m t' H Hnd; cbn [a_add_all] in H.
  - injection H as <-. exact Hnd.
  - destruct (a_add t k m) as [[t1 fl]| | |] eqn:E; try discriminate. cbn [bind fst] in H.
    eapply IH; [exact H|]. eapply a_add_nodup; eauto.
Qed.
Lemma a_add_rule_nodup t r m t' : a_add_rule t r m = Ok t' -> NoDup (map fst t) -> NoDup (map fst t').
Proof.
  unfold a_add_rule. intros H Hnd. destruct (a_add t (ar_main r) m) as [[t1 fl]| | |] eqn:E; try discriminate.
  cbn [bind fst] in H. eapply a_add_all_nodup; [exact H|]. eapply a_add_nodup; eauto.
Qed.
Lemma a_add_rules_nodup rs : forall t m t', a_add_rules t rs m = Ok t' -> NoDup (map fst t) -> NoDup (map fst t').
Proof.
  induction rs as [|r rs IH]; intros t m t' H Hnd; cbn [a_add_rules] in H.
  - injection H as <-. exact Hnd.
  - destruct (a_add_rule t r m) as [t1| | |] eqn:E; try discriminate. cbn [bind] in H.
    eapply IH; [exact H|]. eapply a_add_rule_nodup; eauto.
Qed.

(* ---- find after del ---- *)
Lemma a_find_del t x n v : NoDup (map fst t) -> a_find (a_del t x) n v = odel x (a_find t n v).
Proof.
  induction t as [|[[n0 v0] m0] t IH]; intros Hnd; [reflexivity|].
  cbn [map fst] in Hnd. inversion Hnd as [|y l Hnotin Hnd']; subst.
  unfold a_del. cbn [filter snd]. fold (a_del t x). rewrite a_find_cons.
  destruct (nd_eqb n0 n && vb_eqb v0 v) eqn:Ek.
  - apply andb_true_iff in Ek. destruct Ek as [E1 E2]. apply nd_eqb_eq in E1. apply vb_eqb_eq in E2. subst n0 v0.
    cbn [odel]. destruct (m_eqb m0 x) eqn:Em; cbn [negb].
    + rewrite (IH Hnd'). destruct (a_find t n v) as [m1|] eqn:Ef; [|reflexivity].
      exfalso. apply Hnotin. apply in_map_iff. exists (n, v, m1). split; [reflexivity|now apply a_find_in].
    + apply a_find_cons_same.
  - destruct (m_eqb m0 x); cbn [negb]; [now apply IH|]. rewrite a_find_cons, Ek. now apply IH.
Qed.

(* ---- the two laws of "own binding, else the '*' binding" that make it survive add and del ---- *)
Lemma oelse_odel x (av ast cv cst : option M) :
  ast = cst -> oelse av ast = oelse cv cst -> oelse (odel x av) (odel x ast) = oelse (odel x cv) (odel x cst).
Proof.
  intros <-. destruct av as [a|], cv as [c|], ast as [s|]; cbn [oelse odel]; intros H;
    try discriminate; try (injection H as ->); repeat (destruct (m_eqb _ x)); reflexivity.
Qed.

Lemma a_lookup_oelse t n v : a_lookup t n v = oelse (a_find t n v) (a_find t n star).
Proof. reflexivity. Qed.
Lemma a_lookup_del t x n v : NoDup (map fst t) ->
  a_lookup (a_del t x) n v = oelse (odel x (a_find t n v)) (odel x (a_find t n star)).
Proof. intros Hnd. unfold a_lookup. now rewrite !a_find_del. Qed.
Lemma a_lookup_star t n : a_lookup t n star = a_find t n star.
Proof. unfold a_lookup. destruct (a_find t n star); reflexivity. Qed.

End AbsTrie.

Arguments AKey {Nd Vb}.
Arguments ak_node {Nd Vb}.
Arguments ak_verb {Nd Vb}.
Arguments ak_valid {Nd Vb}.
Arguments ARule {Nd Vb}.
Arguments ar_main {Nd Vb}.
Arguments ar_add {Nd Vb}.
Arguments ADecl {Nd Vb M}.
Arguments ad_name {Nd Vb M}.
Arguments ad_implicit {Nd Vb M}.
Arguments ad_rules {Nd Vb M}.
Arguments odel {M}.
Arguments oelse {M}.

(* ---- Model/Registry.v is the instance at nat ---- *)
Module RegistryInstance.
Definition key_of (k : Registry.bkey) : akey nat nat := AKey (Registry.knode k) (Registry.kverb k) (Registry.kvalid k).
Definition rule_of (r : Registry.rule) : arule nat nat := ARule (key_of (Registry.rmain r)) (map key_of (Registry.radd r)).
Definition decl_of (d : Registry.mdesc) : adecl nat nat nat :=
  ADecl (Registry.mname d) (key_of (Registry.BKey (Registry.mnode d) 0 true)) (map rule_of (Registry.mrules d)).

Notation nfind := (a_find nat nat nat Nat.eqb Nat.eqb).
Notation nlookup := (a_lookup nat nat nat Nat.eqb Nat.eqb 0).
Notation nadd := (a_add nat nat nat Nat.eqb Nat.eqb Nat.eqb 0).
Notation nadd_all := (a_add_all nat nat nat Nat.eqb Nat.eqb Nat.eqb 0).
Notation nadd_rule := (a_add_rule nat nat nat Nat.eqb Nat.eqb Nat.eqb 0).
Notation nadd_rules := (a_add_rules nat nat nat Nat.eqb Nat.eqb Nat.eqb 0).
Notation ndel := (a_del nat nat nat Nat.eqb).
Notation nappend := (a_append nat nat nat Nat.eqb Nat.eqb Nat.eqb 0).
Notation nregister := (a_register nat nat nat Nat.eqb Nat.eqb Nat.eqb 0).

Lemma t_find_instance t n v : Registry.t_find t n v = nfind t n v.
Proof. reflexivity. Qed.
Lemma t_lookup_instance t n v : Registry.t_lookup t n v = nlookup t n v.
Proof. reflexivity. Qed.
Lemma t_add_instance t k m : Registry.t_add t k m = nadd t (key_of k) m.
Proof. reflexivity. Qed.
Lemma t_add_all_instance ks : forall t m, Registry.t_add_all t ks m = nadd_all t (map key_of ks) m.
Proof.
  induction ks as [|k ks IH]; intros t m; [reflexivity|].
  cbn [Registry.t_add_all a_add_all map]. rewrite t_add_instance.
  destruct (nadd t (key_of k) m) as [r| | |]; cbn [bind]; [apply IH|reflexivity|reflexivity|reflexivity].
Qed.
Lemma t_add_rule_instance t r m : Registry.t_add_rule t r m = nadd_rule t (rule_of r) m.
Proof.
  unfold Registry.t_add_rule, a_add_rule. rewrite t_add_instance. cbn [ar_main ar_add rule_of].
  destruct (nadd t (key_of (Registry.rmain r)) m) as [x| | |]; cbn [bind]; [apply t_add_all_instance|reflexivity|reflexivity|reflexivity].
Qed.
Lemma t_add_rules_instance rs : forall t m, Registry.t_add_rules t rs m = nadd_rules t (map rule_of rs) m.
Proof.
  induction rs as [|r rs IH]; intros t m; [reflexivity|].
  cbn [Registry.t_add_rules a_add_rules map]. rewrite t_add_rule_instance.
  destruct (nadd_rule t (rule_of r) m) as [t1| | |]; cbn [bind]; [apply IH|reflexivity|reflexivity|reflexivity].
Qed.
Lemma t_del_instance t m : Registry.t_del t m = ndel t m.
Proof. reflexivity. Qed.

(* appendHandler and the method loop, as far as the routing map goes *)
Definition spath_of (r : outcome Registry.state) : outcome Registry.trie :=
  match r with Ok s => Ok (Registry.spath s) | Err e => Err e | Panic p => Panic p | OutOfFuel => OutOfFuel end.
Lemma append_handler_instance s d h :
  spath_of (Registry.append_handler s d h) = nappend (Registry.spath s) (decl_of d).
Proof.
  unfold Registry.append_handler, a_append. rewrite t_add_instance. cbn [ad_implicit ad_name ad_rules decl_of].
  pose proof (a_add_err nat nat nat Nat.eqb Nat.eqb Nat.eqb 0 (Registry.spath s)
                (key_of (Registry.BKey (Registry.mnode d) 0 true)) (Registry.mname d)) as He.
  destruct (nadd (Registry.spath s) (key_of (Registry.BKey (Registry.mnode d) 0 true)) (Registry.mname d)) as [x|e| |];
    cbn [bind]; try contradiction.
  - rewrite t_add_rules_instance.
    match goal with |- spath_of (bind ?a _) = ?b => change b with a; destruct a as [t'| | |] end; reflexivity.
  - reflexivity.
Qed.
Lemma process_instance ds : forall s o next acc,
  match Registry.process s o ds next acc with
  | Ok r => nregister (Registry.spath s) (map decl_of ds) = Ok (Registry.spath (fst r))
  | Err e => nregister (Registry.spath s) (map decl_of ds) = Err e
  | Panic p => nregister (Registry.spath s) (map decl_of ds) = Panic p
  | OutOfFuel => nregister (Registry.spath s) (map decl_of ds) = OutOfFuel
  end.
Proof.
  induction ds as [|d ds IH]; intros s o next acc; [reflexivity|].
  cbn [Registry.process a_register map].
  pose proof (append_handler_instance s d (Registry.Handler next o (Registry.mname d))) as Ha.
  destruct (Registry.append_handler s d (Registry.Handler next o (Registry.mname d))) as [s'| | |]; cbn [spath_of] in Ha; rewrite <- Ha; cbn [bind]; try reflexivity.
  apply IH.
Qed.

(* registerService as Registry.step sees it: the published map afterwards is a_register_service *)
Lemma step_reglocal_instance m l ds :
  Registry.spath (Registry.clone (Registry.published (fst (Registry.step m (Registry.RegLocal l ds))))) =
  a_register_service nat nat nat Nat.eqb Nat.eqb Nat.eqb 0
    (Registry.spath (Registry.clone (Registry.published m))) (map decl_of ds).
Proof.
  unfold Registry.step, a_register_service.
  pose proof (process_instance ds (Registry.clone (Registry.published m)) (Registry.OLocal l) (Registry.fresh m) []) as Hp.
  destruct (Registry.process (Registry.clone (Registry.published m)) (Registry.OLocal l) ds (Registry.fresh m) []) as [r| | |];
    rewrite Hp; reflexivity.
Qed.
End RegistryInstance.
