(* The abstraction relation between the two specifications of templates:
     token level  (Spec/Grammar.v, the grammar [Tmpl] over [list token]) and
     string level (Spec/Template.v, the value [tmpl] that [parse_tmpl] produces by splitting text).
   [AbsT toks t]: the token list [toks] is a rendering of the template value [t], following the grammar
   production by production. The relation is purely structural (it does not mention the classifiers):
   well-formedness of literals / identifiers is the business of [Tmpl] on one side and of [parse_tmpl]
   on the other. It is not a bijection: "{x}" and "{x=*}" are different token lists with the same [tmpl]. *)
From Larking Require Import Base.GoSem Model.Lexer Spec.Grammar Spec.Template.
Local Open Scope N_scope.

(* "*" | "**" | LITERAL *)
Inductive AbsP : list token -> pseg -> Prop :=
| AP_lit v : AbsP [Tok TLiteral v] (PLit v)
| AP_star : AbsP [tStar] PStar
| AP_starstar : AbsP [tStarStar] PStarStar.

(* X { "/" X } *)
Inductive AbsL {E : Type} (AbsE : list token -> E -> Prop) : list token -> list E -> Prop :=
| AL_one ts e : AbsE ts e -> AbsL AbsE ts [e]
| AL_cons ts e rest es : AbsE ts e -> AbsL AbsE rest es -> AbsL AbsE (ts ++ tSlash :: rest) (e :: es).

Definition AbsPs : list token -> list pseg -> Prop := AbsL AbsP.

(* IDENT { "." IDENT } ~ the list of keys *)
Inductive AbsFP : list token -> list sstr -> Prop :=
| AF_one v : AbsFP [Tok TIdent v] [v]
| AF_cons v rest ks : AbsFP rest ks -> AbsFP (Tok TIdent v :: tDot :: rest) (v :: ks).

(* a plain segment; "{" fp "}" ~ the variable with the default pattern "*"; "{" fp "=" segments "}" *)
Inductive AbsSeg : list token -> tseg -> Prop :=
| AS_plain ts p : AbsP ts p -> AbsSeg ts (TPlain p)
| AS_var fp ks : AbsFP fp ks -> AbsSeg (tOpen :: fp ++ [tClose]) (TVar ks [PStar])
| AS_varpat fp ks ps pp : AbsFP fp ks -> AbsPs ps pp -> AbsSeg (tOpen :: fp ++ tEq :: ps ++ [tClose]) (TVar ks pp).

Definition AbsSegs : list token -> list tseg -> Prop := AbsL AbsSeg.

(* "/" segments [ ":" verb ] EOF *)
Inductive AbsT : list token -> tmpl -> Prop :=
| AT_plain ss sl : AbsSegs ss sl -> AbsT (tSlash :: ss ++ [tEOF]) {| t_segs := sl; t_verb := None |}
| AT_verb ss sl v : AbsSegs ss sl ->
    AbsT (tSlash :: ss ++ [tColon; Tok TLiteral v; tEOF]) {| t_segs := sl; t_verb := Some v |}.
