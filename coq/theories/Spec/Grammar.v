(* The documented template grammar (larking/lexer.go header, google/api/http.proto) as an
   inductive definition over tokens -- no scanning, no state:
     Template = "/" Segments [ ":" LITERAL ] ;  Segments = Segment { "/" Segment } ;
     Segment  = "*" | "**" | LITERAL | "{" FieldPath [ "=" Segments ] "}" ;  FieldPath = IDENT { "." IDENT }
   with http.proto's side conditions: the segments of a variable contain no variable, and "**"
   is the last segment of the template (the boolean index records "ends with **").
   LITERAL of a segment starts with a letter; the verb LITERAL and IDENT are non-empty runs. *)
From Larking Require Import Base.GoSem Model.Lexer.
Local Open Scope N_scope.

Section Grammar.
Variables isLetter isNumber : N -> bool.
Notation is_ident := (is_ident isLetter isNumber).
Notation is_literal := (is_literal isLetter isNumber).

Definition ident_ok (v : str) : bool := negb (is_nil v) && forallb is_ident v.
Definition lit_ok (v : str) : bool := match v with x :: _ => isLetter x && forallb is_literal v | [] => false end.
Definition verb_ok (v : str) : bool := negb (is_nil v) && forallb is_literal v.

Definition tSlash := Tok TSlash [47].
Definition tDot := Tok TDot [46].
Definition tEq := Tok TEqual [61].
Definition tOpen := Tok TVarStart [123].
Definition tClose := Tok TVarEnd [125].
Definition tColon := Tok TVerb [58].
Definition tEOF := Tok TEOF [].
Definition tStar := Tok TStar [42].
Definition tStarStar := Tok TStarStar [42; 42].

(* a segment that is not a variable; the flag says "it is **" *)
Inductive PSeg : list token -> bool -> Prop :=
| PS_lit v : lit_ok v = true -> PSeg [Tok TLiteral v] false
| PS_star : PSeg [tStar] false
| PS_starstar : PSeg [tStarStar] true.

(* S { "/" S } for a segment shape S; only the last may be a ** *)
Inductive SegsG (SG : list token -> bool -> Prop) : list token -> bool -> Prop :=
| Ss_one ts b : SG ts b -> SegsG SG ts b
| Ss_cons ts rest b : SG ts false -> SegsG SG rest b -> SegsG SG (ts ++ tSlash :: rest) b.
Definition PSegs := SegsG PSeg.

Inductive FieldPath : list token -> Prop :=
| FP_one v : ident_ok v = true -> FieldPath [Tok TIdent v]
| FP_cons v rest : ident_ok v = true -> FieldPath rest -> FieldPath (Tok TIdent v :: tDot :: rest).

Inductive Seg : list token -> bool -> Prop :=
| S_plain ts b : PSeg ts b -> Seg ts b
| S_var fp : FieldPath fp -> Seg (tOpen :: fp ++ [tClose]) false
| S_varpat fp ps b : FieldPath fp -> PSegs ps b -> Seg (tOpen :: fp ++ tEq :: ps ++ [tClose]) b.

Definition Segs := SegsG Seg.

Inductive Tmpl : list token -> Prop :=
| T_plain ss b : Segs ss b -> Tmpl (tSlash :: ss ++ [tEOF])
| T_verb ss b v : Segs ss b -> verb_ok v = true -> Tmpl (tSlash :: ss ++ [tColon; Tok TLiteral v; tEOF]).

(* the delimiters of the grammar are not letters or numbers (true of unicode.IsLetter / IsNumber) *)
Definition Sane : Prop :=
  forall r, In r [42; 46; 47; 58; 61; 123; 125] -> isLetter r = false /\ isNumber r = false.

End Grammar.
