(* Schedule-free meaning of the three stream framings: a pure parser on the logical byte
   stream. Nothing here mentions reads, buffers or capacities. *)
From Larking Require Import Base.GoSem Base.Varint.

Inductive codec := CProto | CJSON | CBody.

Inductive fres :=
| FMsg (m r : bytes)     (* next message, remaining stream *)
| FEnd                   (* clean end of stream: no further message *)
| FErr (e : err).

(* --- length-delimited protobuf: varint(len) ++ payload --- *)
Definition parse_proto (limit : nat) (L : bytes) : fres :=
  match L with
  | [] => FEnd
  | _ =>
    match consume_varint L with
    | VTrunc => FErr EUnexpectedEOF
    | VOverflow => FErr EVarint
    | VOk v n =>
      if (N.of_nat limit <? v)%N then FErr ETooLarge
      else let body := skipn n L in
           let k := N.to_nat v in
           if Nat.ltb (length body) k then FErr EUnexpectedEOF
           else FMsg (firstn k body) (skipn k body)
    end
  end.
Definition write_proto (m : bytes) : bytes := encode_varint (N.of_nat (length m)) ++ m.

(* --- JSON objects delimited by brace matching (strings and escapes respected) --- *)
Record jst := JSt { depth : nat; inStr : bool; esc : bool }.
Definition jst0 := JSt 0 false false.
Inductive jstep := JCont (s : jst) | JDone | JUnbalanced.
Definition json_step (s : jst) (c : byte) : jstep :=
  if esc s then JCont (JSt (depth s) (inStr s) false)
  else if inStr s then
    (if (c =? 92)%N then JCont (JSt (depth s) true true)
     else if (c =? 34)%N then JCont (JSt (depth s) false false)
     else JCont s)
  else if (c =? 123)%N then JCont (JSt (S (depth s)) false false)
  else if (c =? 125)%N then
    (match depth s with
     | O => JUnbalanced
     | S O => JDone
     | S d => JCont (JSt d false false)
     end)
  else if (c =? 34)%N then JCont (JSt (depth s) true false)
  else JCont s.

(* scan at most [room] further bytes; [i] bytes have been accepted so far *)
Inductive jres := JFrame (n : nat) | JEnd (s : jst) | JTooLarge | JErr.
Fixpoint json_scan (room : nat) (s : jst) (l : bytes) (i : nat) : jres :=
  match room with
  | O => JTooLarge
  | S room' =>
    match l with
    | [] => JEnd s
    | c :: l' =>
      match json_step s c with
      | JCont s' => json_scan room' s' l' (S i)
      | JDone => JFrame (S i)
      | JUnbalanced => JErr
      end
    end
  end.
Definition parse_json (limit : nat) (L : bytes) : fres :=
  match json_scan limit jst0 L 0 with
  | JFrame n => FMsg (firstn n L) (skipn n L)
  | JEnd s => if Nat.eqb (depth s) 0 then FEnd else FErr EUnexpectedEOF
  | JTooLarge => FErr ETooLarge
  | JErr => FErr EUnbalanced
  end.
Definition write_json (m : bytes) : bytes := m.

(* --- google.api.HttpBody uploads: chunks of at most [limit] bytes --- *)
Definition parse_body (limit : nat) (L : bytes) : fres :=
  match L with
  | [] => FEnd
  | _ => FMsg (firstn limit L) (skipn limit L)
  end.

Definition parse (c : codec) (limit : nat) (L : bytes) : fres :=
  match c with CProto => parse_proto limit L | CJSON => parse_json limit L | CBody => parse_body limit L end.

(* the whole stream: messages in order and how it ends *)
Inductive send := SClean | SErr (e : err) | SFuel.
Fixpoint parse_all (fuel : nat) (c : codec) (limit : nat) (L : bytes) : list bytes * send :=
  match fuel with
  | O => ([], SFuel)
  | S f =>
    match parse c limit L with
    | FMsg m r => let '(ms, e) := parse_all f c limit r in (m :: ms, e)
    | FEnd => ([], SClean)
    | FErr e => ([], SErr e)
    end
  end.

(* ---- what one ReadNext call reported, and the judgement of it against the parser ---- *)
(* e = None is a nil error *)
Record robs := RObs { o_dst : bytes; o_n : Z; o_err : option err }.

Definition obs_ok (c : codec) (limit : nat) (L unread : bytes) (o : robs) : bool :=
  let n := Z.to_nat (o_n o) in
  if (o_n o <? 0)%Z || (Z.of_nat (length (o_dst o)) <? o_n o)%Z then false else
  let m := firstn n (o_dst o) in
  let rest := skipn n (o_dst o) ++ unread in
  let as_msg :=
    match parse c limit L with
    | FMsg m' r' => bytes_eqb m m' && bytes_eqb rest r'
    | _ => false
    end in
  match c, o_err o with
  | CBody, None => negb (Nat.eqb n 0) && as_msg
  | CBody, Some EEOF =>
      if Nat.eqb n 0 then (match parse c limit L with FEnd => true | _ => false end)
      else as_msg && is_nil rest
  | CBody, Some _ => false
  | _, None => as_msg
  | _, Some EEOF => (match parse c limit L with FEnd => Nat.eqb n 0 && bytes_eqb rest L | _ => false end)
  | _, Some e => Nat.eqb n 0 && (match parse c limit L with FErr e' => err_eqb e e' | _ => false end)
  end.
