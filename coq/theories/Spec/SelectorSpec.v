(* C19 -- what "a selector covers a method name" means, written without looking at the trie of
   larking/mux.go. Strings are byte lists; a qualified name is its list of '.'-separated
   components (strings.Split(s, ".")).

   google.api selector syntax: a qualified name, which may end in the component "*"; the wildcard
   stands for one or more components; the whole pattern "*" selects everything. *)
From Larking Require Import Base.GoSem.

Definition str := list N.
Definition dot : N := 46%N.
Definition star_c : str := [42%N].

(* strings.Split(s, "."): never empty, "" -> [""] *)
Fixpoint split (s : str) : list str :=
  match s with
  | [] => [[]]
  | c :: s' => if N.eqb c dot then [] :: split s'
               else match split s' with h :: t => (c :: h) :: t | [] => [[c]] end
  end.

(* strings.Join(cs, ".") *)
Fixpoint join (cs : list str) : str :=
  match cs with
  | [] => []
  | [c] => c
  | c :: cs' => c ++ dot :: join cs'
  end.

(* --- declarative, on component lists --- *)
Definition covers_cs (scs ncs : list str) : Prop :=
  scs = ncs \/ exists p q, scs = p ++ [star_c] /\ ncs = p ++ q /\ q <> [].

(* --- declarative, on the strings themselves --- *)
Definition covers (sel name : str) : Prop :=
  sel = name \/ sel = star_c \/ exists p q, sel = p ++ [dot; 42%N] /\ name = p ++ dot :: q.

(* --- decision procedure run by the harness on the implementation's observations --- *)
Fixpoint is_prefix (p l : list str) : bool :=
  match p, l with
  | [], _ => true
  | a :: p', b :: l' => bytes_eqb a b && is_prefix p' l'
  | _ :: _, [] => false
  end.

Definition covers_cs_b (scs ncs : list str) : bool :=
  list_eqb bytes_eqb scs ncs
  || match rev scs with
     | l :: rp => bytes_eqb l star_c && is_prefix (rev rp) ncs && Nat.ltb (length rp) (length ncs)
     | [] => false
     end.

Definition covers_b (sel name : str) : bool := covers_cs_b (split sel) (split name).

(* well-formed selectors and names (the domain of the property) *)
Definition nonempty (c : str) : bool := negb (is_nil c).
Fixpoint wf_sel_cs (scs : list str) : bool :=
  match scs with
  | [] => false
  | [c] => nonempty c
  | c :: rest => nonempty c && negb (bytes_eqb c star_c) && wf_sel_cs rest
  end.
Definition wf_name_cs (ncs : list str) : bool := negb (is_nil ncs) && forallb nonempty ncs.
Definition wf_sel (s : str) : bool := wf_sel_cs (split s).
Definition wf_name (s : str) : bool := wf_name_cs (split s).
