(* C20 -- what "mount prefixes are transparent" demands of ONE observed response, written without the
   dispatch algorithm of the model (no table, no fold for the best match): the patterns of a
   configuration are read off the options directly and ownership of a path is "matches, and no
   other pattern of the configuration that matches is longer". The harness evaluates spec_ok on what
   the real server did. No proofs in this file. *)
From Coq Require Import List NArith Bool Arith.
From Larking Require Import Model.Mount.
Import ListNotations.

(* the patterns a configuration mounts the mux on (MuxHandleOption, default "/") *)
Fixpoint opt_mounts_raw (opts : list server_option) : option (list str) :=
  match opts with
  | [] => None
  | OMux (Some l) :: _ => Some l
  | _ :: rest => opt_mounts_raw rest
  end.
Definition opt_mounts (opts : list server_option) : list str :=
  match opt_mounts_raw opts with
  | None | Some [] => [[slash]]
  | Some l => l
  end.

(* the other handlers: (position of the option, its pattern) *)
Fixpoint opt_extras (opts : list server_option) (i : nat) : list (nat * str) :=
  match opts with
  | [] => []
  | OHandler pat false :: rest => (i, pat) :: opt_extras rest (S i)
  | _ :: rest => opt_extras rest (S i)
  end.

Definition mount_pat (m : str) : str := mount_prefix m ++ [slash].

Definition all_pats (mounts : list str) (extras : list (nat * str)) : list str :=
  map mount_pat mounts ++ map snd extras.

(* q owns path: q matches it and nothing longer in the configuration does *)
Definition owns (pats : list str) (q path : str) : bool :=
  claims q path && forallb (fun q' => negb (claims q' path) || (length q' <=? length q)) pats.

(* net/http answers "/p" with a redirect to "/p/" when "/p/" is a pattern and "/p" is not *)
Definition slash_redirected (pats : list str) (path : str) : bool :=
  negb (existsb (str_eqb path) pats) && negb (ends_slash path) && existsb (str_eqb (path ++ [slash])) pats.

Definition spec_ok (mounts : list str) (extras : list (nat * str)) (path : str) (obs : response) : bool :=
  let pats := all_pats mounts extras in
  if negb (is_clean path) then
    (* outside the domain of the property: net/http redirects; all that is required is that no handler ran *)
    match obs with ToMux _ | ToExtra _ _ => false | _ => true end
  else
    (* transparent: a path owned by the mount at prefix p is handed to the mux without p *)
    forallb (fun m =>
      if owns pats (mount_pat m) path && negb (slash_redirected pats path)
      then match obs with ToMux x => str_eqb (mount_prefix m ++ x) path | _ => false end
      else true) mounts
    &&
    (* outside: the mux only ever sees a path that lies under one of its prefixes, with that prefix removed *)
    match obs with
    | ToMux x => existsb (fun m => str_eqb (mount_prefix m ++ x) path && has_prefix (mount_pat m) path) mounts
    | _ => true
    end
    &&
    (* other handlers keep their patterns: a path owned by an extra handler reaches it unchanged ... *)
    forallb (fun ie =>
      if owns pats (snd ie) path && negb (slash_redirected pats path)
      then match obs with ToExtra j x => Nat.eqb j (fst ie) && str_eqb x path | _ => false end
      else true) extras
    &&
    (* ... and it sees nothing but paths its pattern matches, unchanged *)
    match obs with
    | ToExtra j x => str_eqb x path && existsb (fun ie => Nat.eqb (fst ie) j && claims (snd ie) path) extras
    | _ => true
    end.

(* ---- which configurations NewServer accepts ------------------------------------------------------- *)
(* a MuxHandleOption that runs after one that left a non-nil pattern slice is refused *)
Fixpoint mux_dup (seen : bool) (opts : list server_option) : bool :=
  match opts with
  | [] => false
  | OMux ps :: rest => seen || mux_dup (match ps with Some _ => true | None => false end) rest
  | _ :: rest => mux_dup seen rest
  end.

Definition nil_handler_free (opts : list server_option) : bool :=
  forallb (fun o => match o with OHandler _ true => false | _ => true end) opts.

(* every pattern handed to ServeMux.Handle, in registration order *)
Definition config_patterns (opts : list server_option) : list str :=
  map snd (opt_extras opts 0) ++ map mount_pat (opt_mounts opts).

Definition wf_options (opts : list server_option) : Prop :=
  mux_dup false opts = false /\ nil_handler_free opts = true /\
  NoDup (config_patterns opts) /\ Forall (fun p => plain p = true) (config_patterns opts).
