(* C06: schedule-free meaning of a message stream on each transport. Everything here is a pure
   function of the logical byte stream (and, for text mode, of how the transport decoding ends);
   nothing mentions reads, buffers, carry-over or counters.
   Library behaviour that is not larking's logic enters as parameters: [valid] (does the codec's
   Unmarshal accept this frame) and [gunzip] (the installed decompressor). *)
From Larking Require Import Base.GoSem Base.Varint Base.B64 Spec.Frames.

(* ---------- HTTP transcoding: JSON / length-delimited protobuf / HttpBody chunks ---------- *)
(* HttpBody chunks are handed to the handler as raw data: no Unmarshal takes place *)
Definition vld (c : codec) (valid : bytes -> bool) (m : bytes) : bool :=
  match c with CBody => true | _ => valid m end.

(* the handler-visible sequence: frames in order until the stream ends, fails, or a frame is
   refused by the codec *)
Fixpoint http_stream (fuel : nat) (c : codec) (limit : nat) (valid : bytes -> bool) (L : bytes)
  : list bytes * send :=
  match fuel with
  | O => ([], SFuel)
  | S f =>
    match parse c limit L with
    | FMsg m r =>
      if vld c valid m then let '(ms, e) := http_stream f c limit valid r in (m :: ms, e)
      else ([], SErr EInvalid)
    | FEnd => ([], SClean)
    | FErr e => ([], SErr e)
    end
  end.

(* a request that is not a client stream is one message: the whole body, if it fits *)
Definition single_request (limit : nat) (valid : bytes -> bool) (L : bytes) : list bytes * send :=
  if Nat.ltb limit (length L) then ([], SErr ETooLarge)
  else if valid L then ([L], SClean) else ([], SErr EInvalid).

(* ---------- gRPC / gRPC-web: 5-byte frames ---------- *)
Local Open Scope N_scope.
Definition gbe32 (n : N) : bytes := [(n / 16777216) mod 256; (n / 65536) mod 256; (n / 256) mod 256; n mod 256].
Definition gun_be32 (a b c d : N) : N := a * 16777216 + b * 65536 + c * 256 + d.
Definition gframe (flag : byte) (payload : bytes) : bytes := flag :: gbe32 (N.of_nat (length payload)) ++ payload.
Local Close Scope N_scope.

(* how the transport's byte stream ends: normally, or because the transport decoding failed after
   the bytes given (base64 text mode: input cut inside a quantum, or corrupt) *)
Inductive tail := TClean | TCut | TCorrupt.
(* the error of a read that finds the stream exhausted; [some] = bytes of the item were already read *)
Definition short_err (t : tail) (some : bool) : err :=
  match t with TCut => EUnexpectedEOF | TCorrupt => EOther | TClean => if some then EUnexpectedEOF else EEOF end.

Inductive gres := GMsg (flag : byte) (payload rest : bytes) | GEnd | GErr (e : err).

Definition parse_gframe (limit : N) (t : tail) (L : bytes) : gres :=
  match L with
  | [] => match t with TClean => GEnd | _ => GErr (short_err t false) end
  | flag :: a :: b :: c :: d :: r =>
    let size := gun_be32 a b c d in
    if (limit <? size)%N then GErr ETooLarge
    else let n := N.to_nat size in
         if Nat.ltb (length r) n then GErr (short_err t true) else GMsg flag (firstn n r) (skipn n r)
  | _ => GErr (short_err t true)
  end.

(* flag 1 = compressed with the negotiated encoding; any other value is taken as identity *)
Definition gmessage (gunzip : option (bytes -> option bytes)) (valid : bytes -> bool) (flag : byte) (p : bytes)
  : bytes + err :=
  let plain :=
    if (flag =? 1)%N then match gunzip with Some z => z p | None => None end else Some p in
  match plain with
  | None => inr EOther
  | Some m => if valid m then inl m else inr EInvalid
  end.

Fixpoint grpc_stream (fuel limit : nat) (gunzip : option (bytes -> option bytes)) (valid : bytes -> bool)
  (t : tail) (L : bytes) : list bytes * send :=
  match fuel with
  | O => ([], SFuel)
  | S f =>
    match parse_gframe (N.of_nat limit) t L with
    | GEnd => ([], SClean)
    | GErr e => ([], SErr e)
    | GMsg flag p r =>
      match gmessage gunzip valid flag p with
      | inl m => let '(ms, e) := grpc_stream f limit gunzip valid t r in (m :: ms, e)
      | inr e => ([], SErr e)
      end
    end
  end.

(* ---------- gRPC-web text mode: the body is one base64 (std, padded) stream ---------- *)
(* decoded bytes of the leading whole quanta, and how the decoding ends *)
Definition is_nl (c : byte) : bool := (c =? 10)%N || (c =? 13)%N.
Fixpoint b64_stream (fuel : nat) (s : bytes) : bytes * tail :=
  match fuel with
  | O => ([], TCorrupt)
  | S f =>
    match s with
    | [] => ([], TClean)
    | w :: x :: y :: z :: r =>
      match b64_val false w, b64_val false x with
      | Some w, Some x =>
        if (y =? 61)%N then
          (if (z =? 61)%N && is_nil r then ([w * 4 + x / 16]%N, TClean) else ([], TCorrupt))
        else match b64_val false y with
             | None => ([], TCorrupt)
             | Some y =>
               if (z =? 61)%N then
                 (if is_nil r then ([w * 4 + x / 16; (x mod 16) * 16 + y / 4]%N, TClean) else ([], TCorrupt))
               else match b64_val false z with
                    | None => ([], TCorrupt)
                    | Some z =>
                      let '(t, e) := b64_stream f r in
                      ((w * 4 + x / 16 :: (x mod 16) * 16 + y / 4 :: (y mod 4) * 64 + z :: t)%N, e)
                    end
             end
      | _, _ => ([], TCorrupt)
      end
    | _ => ([], TCut)           (* 1..3 characters left: cut inside a quantum *)
    end
  end.
Definition web_text_decode (body : bytes) : bytes * tail :=
  let s := filter (fun c => negb (is_nl c)) body in b64_stream (S (length s)) s.

(* ---------- responses ---------- *)
(* a gRPC-web response body: data frames, then exactly one trailer frame (MSB of the flag set),
   nothing after it. Result: the data frames (flag, payload) and the trailer block. *)
Fixpoint parse_web_resp (fuel : nat) (L : bytes) : option (list (byte * bytes) * bytes) :=
  match fuel with
  | O => None
  | S f =>
    match parse_gframe (2 ^ 32)%N TClean L with
    | GMsg flag p r =>
      if (128 <=? flag)%N then (if is_nil r then Some ([], p) else None)
      else match parse_web_resp f r with Some (ms, t) => Some ((flag, p) :: ms, t) | None => None end
    | _ => None
    end
  end.
(* a gRPC response body: data frames only (the status travels in HTTP trailers) *)
Fixpoint parse_grpc_resp (fuel : nat) (L : bytes) : option (list (byte * bytes)) :=
  match fuel with
  | O => None
  | S f =>
    match parse_gframe (2 ^ 32)%N TClean L with
    | GMsg flag p r => match parse_grpc_resp f r with Some ms => Some ((flag, p) :: ms) | None => None end
    | GEnd => Some []
    | GErr _ => None
    end
  end.

(* ---------- WebSocket: what the two ends exchange, frame by frame ---------- *)
Inductive wsev := WData (m : bytes) | WClose (code : N) | WAbort.

(* ---------- executable judgements used by the harness on the implementation's observations ---------- *)
Definition send_eqb (a b : send) : bool :=
  match a, b with
  | SClean, SClean => true | SErr x, SErr y => err_eqb x y | SFuel, SFuel => true | _, _ => false
  end.
Definition seq_eqb (a b : list bytes) : bool := list_eqb bytes_eqb a b.

(* the handler saw [got] ending in [e]; the client sent [sent] in order and ended the stream *)
Definition delivered_ok (sent got : list bytes) (e : send) : bool := seq_eqb sent got && send_eqb e SClean.
(* the body was cut strictly inside frame [j] of [sent]: the first j arrive, then an error *)
Definition truncated_ok (sent : list bytes) (j : nat) (got : list bytes) (e : send) : bool :=
  seq_eqb (firstn j sent) got && match e with SErr _ => true | _ => false end.
(* HttpBody upload: the chunks are the upload, cut every [limit] bytes, none empty *)
Definition chunks_ok (limit : nat) (L : bytes) (got : list bytes) (e : send) : bool :=
  bytes_eqb (concat got) L && forallb (fun m => Nat.ltb 0 (length m) && Nat.leb (length m) limit) got && send_eqb e SClean.
