(* Vocabulary of the C04 statements about the response path (Model/Response.v), written without
   the Go control flow: the response_body selection, what SendMsg has to put on the wire, how a
   client undoes Content-Encoding, and what a sane codec configuration is. No proofs here. *)
From Larking Require Import Base.GoSem Model.Negotiate Model.Response.
Local Open Scope nat_scope.
Local Open Scope bool_scope.

(* a client undoes the encoding the Content-Encoding header names, if there is one *)
Definition decode_wire (decompress : bytes -> bytes -> bytes) (ce : option bytes) (wire : bytes) : bytes :=
  match ce with Some e => decompress e wire | None => wire end.

Section ResponseSpec.
  Variables msg field : Type.
  Variable get_msg : field -> msg -> option msg.
  Variable full_name : msg -> bytes.
  Variable body_ct body_data : msg -> bytes.
  Variable marshal : codec -> msg -> outcome bytes.
  Variable marshal_status : codec -> N -> outcome bytes.

  (* response_body: the selected field (None: some field of the path is not a singular message) *)
  Fixpoint select (path : list field) (m : msg) : option msg :=
    match path with
    | [] => Some m
    | fd :: r => match get_msg fd m with Some m' => select r m' | None => None end
    end.

  (* the bytes and the content type of a reply: HttpBody values are their data under their own
     type, everything else is marshalled by the codec under the negotiated type *)
  Definition payload (c : codec) (accept : bytes) (cur : msg) : outcome (bytes * bytes) :=
    if bytes_eqb (full_name cur) http_body_name then Ok (body_data cur, body_ct cur)
    else match marshal c cur with
         | Ok b => Ok (b, accept) | Err _ => Err EInternal | Panic p => Panic p | OutOfFuel => OutOfFuel
         end.

  (* the internal codec is registered under the HttpBody message name only, JSON is registered,
     the other codecs do not panic *)
  Definition sane (cfg : config) : Prop :=
    (forall k, lookup k (codecs cfg) = Some CBody -> k = http_body_name) /\
    (exists c, lookup json_type (codecs cfg) = Some c) /\
    (forall c m, c <> CBody -> no_crash (marshal c m)) /\
    (forall c n, c <> CBody -> no_crash (marshal_status c n)).
End ResponseSpec.
