(* What "the Accept header admits a type" means (the reading of C04), written without looking at
   the negotiation loop: a media range of the parsed header matches a type exactly, as type/*
   (prefix up to and including the slash) or as */*; it admits the type when its q is positive.
   Ranges are ordered by (q, specificity): higher q first, then exact < type/* < */*.
   Boolean decision procedures for the harness are next to the declarative versions; their
   equivalence is proved in Proofs/NegotiateProofs.v. *)
From Coq Require Import QArith.
From Larking Require Import Base.GoSem Model.Negotiate.
Local Close Scope Q_scope.
Local Open Scope nat_scope.
Local Open Scope bool_scope.

(* 0 = exact, 1 = type/*, 2 = */* *)
Definition wild (v : bytes) : nat :=
  if bytes_eqb v star_star then 2 else if has_suffix slash_star v then 1 else 0.

Definition matches (v t : bytes) : bool :=
  if bytes_eqb v star_star then true
  else if has_suffix slash_star v then has_prefix (removelast v) t
  else bytes_eqb v t.

Definition admits_by (sp : spec) (t : bytes) : Prop := (0 < sq sp)%Q /\ matches (sval sp) t = true.
Definition admits (specs : list spec) (t : bytes) : Prop := exists sp, In sp specs /\ admits_by sp t.

Definition admits_byb (sp : spec) (t : bytes) : bool := qltb 0%Q (sq sp) && matches (sval sp) t.
Definition admitsb (specs : list spec) (t : bytes) : bool := existsb (fun sp => admits_byb sp t) specs.

(* range a is strictly better than range b *)
Definition better (a b : spec) : Prop :=
  (sq b < sq a)%Q \/ ((sq a == sq b)%Q /\ wild (sval a) < wild (sval b)).
Definition betterb (a b : spec) : bool :=
  qltb (sq b) (sq a) || (Qeq_bool (sq a) (sq b) && Nat.ltb (wild (sval a)) (wild (sval b))).

(* r is a best choice: some range admits it and no range admitting any offer is strictly better *)
Definition best_choice (specs : list spec) (offers : list bytes) (r : bytes) : Prop :=
  exists sp, In sp specs /\ admits_by sp r /\
    forall o sp', In o offers -> In sp' specs -> admits_by sp' o -> ~ better sp' sp.
Definition best_choiceb (specs : list spec) (offers : list bytes) (r : bytes) : bool :=
  existsb (fun sp => admits_byb sp r &&
    forallb (fun o => forallb (fun sp' => negb (admits_byb sp' o && betterb sp' sp)) specs) offers) specs.

(* the (offer, range) pairs in the order the negotiation visits them: offers outer, ranges inner *)
Definition pairs (specs : list spec) (offers : list bytes) : list (bytes * spec) :=
  flat_map (fun o => map (fun sp => (o, sp)) specs) offers.

Definition mem (t : bytes) (l : list bytes) : bool := existsb (bytes_eqb t) l.

(* the whole reading, as evaluated on an observed choice r *)
Definition choice_ok (specs : list spec) (offers : list bytes) (def r : bytes) : bool :=
  if existsb (admitsb specs) offers
  then mem r offers && admitsb specs r && best_choiceb specs offers r
  else bytes_eqb r def.

(* T7, the stricter RFC 7231 reading, evaluated separately: a type is excluded when the most
   specific range matching it has q = 0 *)
Definition most_specific_q0 (specs : list spec) (t : bytes) : bool :=
  existsb (fun sp => matches (sval sp) t && Qeq_bool (sq sp) 0%Q &&
    forallb (fun sp' => negb (matches (sval sp') t && Nat.ltb (wild (sval sp')) (wild (sval sp)))) specs) specs.
