(* What it means, on tokens, for a request path to be covered by a sequence of trie edges.
   Declarative: no search, no indices. A literal edge spells one separator and the text after it;
   a variable edge covers a "/" and then an instance of its pattern, where "*" covers everything up
   to the next separator and "**" everything up to the next ":" separator; the capture is the text
   covered. *)
From Larking Require Import Base.GoSem Model.Lexer Model.Trie.

Definition nosep (t : token) : Prop := is TSlash t = false /\ is TVerb t = false.
Definition noverb (t : token) : Prop := is TVerb t = false.
Definition at_sep (l : list token) : Prop := match l with [] => True | t :: _ => is TSlash t = true \/ is TVerb t = true end.
Definition at_verb (l : list token) : Prop := match l with [] => True | t :: _ => is TVerb t = true end.

(* MatchPat pat c z: the pattern covers exactly the tokens c, and z is what follows *)
Inductive MatchPat : list token -> list token -> list token -> Prop :=
| MP_nil z : MatchPat [] [] z
| MP_slash p t pat c z :
    ttyp p = TSlash -> is TSlash t = true -> MatchPat pat c z -> MatchPat (p :: pat) (t :: c) z
| MP_lit p t pat c z :
    ttyp p = TLiteral -> is TPath t = true -> tval p = tval t -> MatchPat pat c z -> MatchPat (p :: pat) (t :: c) z
| MP_star p a pat c z :
    ttyp p = TStar -> Forall nosep a -> at_sep (c ++ z) -> a ++ c ++ z <> [] ->
    MatchPat pat c z -> MatchPat (p :: pat) (a ++ c) z
| MP_starstar p a pat c z :
    ttyp p = TStarStar -> Forall noverb a -> at_verb (c ++ z) -> a ++ c ++ z <> [] ->
    MatchPat pat c z -> MatchPat (p :: pat) (a ++ c) z.

(* MatchEdges es toks caps: the edge sequence covers the whole token list (up to the end marker);
   caps are the captured texts, deepest variable first (the order larking builds its parameters in) *)
Inductive MatchEdges : list edge -> list token -> list str -> Prop :=
| ME_end toks : (length toks <= 1)%nat -> MatchEdges [] toks []
| ME_lit t0 t1 rest es caps :
    MatchEdges es rest caps -> MatchEdges (ELit (tval t0 ++ tval t1) :: es) (t0 :: t1 :: rest) caps
| ME_var pat t0 c z es caps :
    is TSlash t0 = true -> c ++ z <> [] -> MatchPat pat c z -> MatchEdges es z caps ->
    MatchEdges (EVar pat :: es) (t0 :: c ++ z) (caps ++ [spell c]).

(* Reach nd es nd': following the edges es from nd leads to nd' *)
Inductive Reach : node -> list edge -> node -> Prop :=
| R_here nd : Reach nd [] nd
| R_lit nd k c es nd' : assoc k (n_segs nd) = Some c -> Reach c es nd' -> Reach nd (ELit k :: es) nd'
| R_var nd pat c es nd' : In (pat, c) (n_vars nd) -> Reach c es nd' -> Reach nd (EVar pat :: es) nd'.

(* the binding a node offers to a request verb: the verb's own, else the '*'-kind one *)
Definition bound_at (verb : str) (nd : node) : option minfo :=
  match assoc verb (n_meths nd) with Some m => Some m | None => n_mall nd end.

Fixpoint nvars (es : list edge) : nat :=
  match es with [] => 0 | EVar _ :: r => S (nvars r) | ELit _ :: r => nvars r end.

(* tokens a variable's pattern may consist of *)
Definition pat_tok_ok (t : token) : bool :=
  match ttyp t with TSlash | TStar | TStarStar | TLiteral => true | _ => false end.

(* the trie invariant search relies on: every binding below a node has one field path per variable
   edge on the way to it ([k] variables were crossed above the node), and patterns are patterns *)
Definition TrieInv (nd : node) (k : nat) : Prop :=
  (forall es nd' verb m, Reach nd es nd' -> bound_at verb nd' = Some m -> length (m_vars m) = (k + nvars es)%nat) /\
  (forall es nd' pat c, Reach nd es nd' -> In (pat, c) (n_vars nd') -> forallb pat_tok_ok pat = true).

(* reading an edge sequence back as text: a literal edge is spelled as registered, a variable edge is
   "/" followed by its capture (captures in the order of the variables) *)
Fixpoint fill (es : list edge) (cs : list str) : option str :=
  match es with
  | [] => match cs with [] => Some [] | _ => None end
  | ELit k :: es' => match fill es' cs with Some r => Some (k ++ r) | None => None end
  | EVar _ :: es' =>
    match cs with
    | c :: cs' => match fill es' cs' with Some r => Some (47%N :: c ++ r) | None => None end
    | [] => None
    end
  end.

