(* The proto3-JSON text forms of the scalar kinds a URL can carry, written as a grammar and
   independently of the conversion algorithm of Model/Params.v: white space, literals, and the
   value of a digit string as a positional sum (not as an accumulator loop). *)
From Larking Require Import Base.GoSem.
Local Open Scope N_scope.

Definition j3_ws (c : N) : Prop := c = 32 \/ c = 9 \/ c = 10 \/ c = 13.
Definition j3_digit (c : N) : Prop := 48 <= c /\ c <= 57.

(* value of a digit string: sum of digit * 10^position *)
Fixpoint pos_value (ds : bytes) : Z :=
  match ds with
  | [] => 0%Z
  | d :: r => (Z.of_N (d - 48) * 10 ^ Z.of_nat (length r) + pos_value r)%Z
  end.

(* 0 | [1-9][0-9]* with value n *)
Definition nat_text (n : Z) (ds : bytes) : Prop :=
  ds <> [] /\ Forall j3_digit ds /\ (length ds = 1%nat \/ hd 0 ds <> 48) /\ pos_value ds = n.

Definition t_null : bytes := [110; 117; 108; 108].
Definition t_true : bytes := [116; 114; 117; 101].
Definition t_false : bytes := [102; 97; 108; 115; 101].

(* an integer: null (the default), digits, or '-' digits for the signed kinds ("-0" is 0) *)
Inductive int_body (unsigned : bool) : Z -> bytes -> Prop :=
| ib_null : int_body unsigned 0%Z t_null
| ib_pos n ds : nat_text n ds -> int_body unsigned n ds
| ib_neg n ds : unsigned = false -> nat_text n ds -> int_body unsigned (- n)%Z (45 :: ds).

Definition padded (body : bytes -> Prop) (txt : bytes) : Prop :=
  exists w1 b w2, txt = w1 ++ b ++ w2 /\ Forall j3_ws w1 /\ Forall j3_ws w2 /\ body b.

Definition json3_int (unsigned : bool) (lo hi z : Z) (txt : bytes) : Prop :=
  padded (int_body unsigned z) txt /\ (lo <= z <= hi)%Z.

Inductive bool_body : bool -> bytes -> Prop :=
| bb_true : bool_body true t_true
| bb_false : bool_body false t_false
| bb_null : bool_body false t_null.
Definition json3_bool (b : bool) (txt : bytes) : Prop := padded (bool_body b) txt.

(* an enum: its number as an int32 text, or -- for text that is no int32 text -- the first value
   carrying that name *)
Definition int32_text (z : Z) (txt : bytes) : Prop := json3_int false (- 2 ^ 31) (2 ^ 31 - 1) z txt.
Definition name_text (vals : list (bytes * Z)) (z : Z) (txt : bytes) : Prop :=
  exists l1 l2, vals = l1 ++ (txt, z) :: l2 /\ forall nz, In nz l1 -> fst nz <> txt.
Definition json3_enum (vals : list (bytes * Z)) (z : Z) (txt : bytes) : Prop :=
  int32_text z txt \/ ((forall z', ~ int32_text z' txt) /\ name_text vals z txt).
