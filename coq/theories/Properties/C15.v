(* C15 -- gRPC deadlines reach the handler: the timeout function.
   Model: Model/Timeout.v (decodeTimeout / timeoutUnit of larking/grpc.go); specification: the gRPC
   wire grammar, 1..8 ASCII digits and one unit of H M S m u n, value clamped to the largest Duration.
   The cancellation half of C15 is the run-time's doing (net/http cancels the request context);
   it is observed by the harness on a loopback server, not proved: the claim is partial there. *)
From Larking Require Import Base.GoSem Model.Timeout Proofs.TimeoutProofs Model.TimeoutForward Proofs.TimeoutForwardProofs.
Local Open Scope Z_scope.

(* exactness: a string is accepted iff it is legal, and then the duration is value x unit, clamped *)
Theorem C15_timeout_exact : forall s ns, decode_timeout s = Some ns <-> legal s ns.
Proof. intros s ns. split; [apply decode_timeout_sound|apply decode_timeout_complete]. Qed.
Print Assumptions C15_timeout_exact.

(* every string that is not legal -- empty, unit only, nine or more digits, signs, spaces,
   unknown units, non-digits -- is refused *)
Theorem C15_malformed_refused : forall s, (forall ns, ~ legal s ns) -> decode_timeout s = None.
Proof. exact decode_timeout_refuses. Qed.
Print Assumptions C15_malformed_refused.

(* in particular no accepted string starts with a sign or a space *)
Theorem C15_no_sign : forall s ns c r, decode_timeout s = Some ns -> s = c :: r ->
  c <> 43%N /\ c <> 45%N /\ c <> 32%N.
Proof. intros s ns c r H. apply legal_no_sign with (ns := ns). now apply decode_timeout_sound. Qed.
Print Assumptions C15_no_sign.

(* the int64 multiplication never wraps: an accepted duration is positive-or-zero and at most 2^63-1 *)
Theorem C15_duration_range : forall s ns, decode_timeout s = Some ns -> 0 <= ns <= max_i64.
Proof.
  intros s ns H. apply decode_timeout_sound in H. destruct H as (ds & u & d & _ & Hl & Hd & Hu & ->).
  pose proof (digits_val_bound ds 0 Hd ltac:(lia)). pose proof (unit_ns_pos _ _ Hu).
  assert (0 < 10 ^ Z.of_nat (length ds)) by (apply Z.pow_pos_nonneg; lia). unfold max_i64. nia.
Qed.
Print Assumptions C15_duration_range.

(* ---- the proxied call (a method served by a backend behind RegisterConn): the handler of the RPC is the backend's, and
   what it is told is the time left on the front call's context, written by grpc-go's EncodeDuration
   (Model/TimeoutForward.v, a library function: modelled, see the trusted base) ---- *)

(* the backend is never told less than the time that was left, and less than one unit (of the unit chosen) more *)
Theorem C15_forwarded_timeout_covers_time_left : forall t, 0 < t ->
  let (v, u) := encode_duration t in t <= v * u < t + u /\ 0 < v.
Proof. exact forwarded_sound. Qed.
Print Assumptions C15_forwarded_timeout_covers_time_left.

(* the value written has at most eight digits (the wire grammar), up to the largest timeout a caller can state *)
Theorem C15_forwarded_value_is_legal : forall t, 0 < t -> t <= max_timeout_value * hour_ns ->
  let (v, _) := encode_duration t in v <= max_timeout_value.
Proof. exact forwarded_value_fits. Qed.
Print Assumptions C15_forwarded_value_is_legal.

(* rounding up never extends the deadline: a call that came with the legal timeout string s (T ns) and has t of it
   left reaches the backend with at most T -- so the backend's handler, too, runs under a deadline at most T after
   receipt of the request by the mux (and, by the theorem above, not before the front call's own deadline) *)
Theorem C15_proxied_deadline_within_callers : forall s T t,
  decode_timeout s = Some T -> T < max_i64 -> 0 < t <= T -> forwarded_ns t <= T.
Proof. exact proxied_deadline_within_callers. Qed.
Print Assumptions C15_proxied_deadline_within_callers.

Example forwarded_instances :
  encode_duration 999500000 = (999500, 1000) /\ encode_duration 99999999 = (99999999, 1) /\
  encode_duration 100000000 = (100000, 1000) /\ encode_duration 0 = (0, 1) /\
  forwarded_ns (99999999 * 3600000000000 - 1000000) <= 99999999 * 3600000000000.
Proof. vm_compute. repeat split; discriminate. Qed.

Example legal_instances :
  decode_timeout [49;83]%N = Some 1000000000 /\                                  (* "1S" *)
  decode_timeout [57;57;57;57;57;57;57;57;72]%N = Some max_i64 /\                (* "99999999H" clamps *)
  decode_timeout [48;48;53;109]%N = Some 5000000 /\                              (* "005m" *)
  decode_timeout [45;53;83]%N = None /\ decode_timeout [83]%N = None /\          (* "-5S", "S" *)
  decode_timeout [49;50;51;52;53;54;55;56;57;110]%N = None.                      (* nine digits *)
Proof. repeat split; reflexivity. Qed.
