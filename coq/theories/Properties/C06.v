(* C06 -- Stream sequence fidelity on every streaming transport.
   Statements only; each is closed by the lemma that proves it (Proofs/StreamProofs.v).
   Models: Model/StreamHTTP.v (streamHTTP.readMsg / RecvMsg of larking/http.go after the fix of the
   phantom trailing message, on top of Model/Codec.v's ReadNext), Model/GrpcFrame.v
   (streamGRPC.RecvMsg / SendMsg of grpc.go, the gRPC-web bodies of web.go, larking's use of
   gobwas/ws). Meaning: Spec/StreamSpec.v + Spec/Frames.v -- pure parsers of the logical byte
   stream that never mention reads, buffers, carry-over or counters.
   [valid] = "the codec's Unmarshal accepts this frame", [gzip]/[gunzip] = the negotiated
   compressor pair: library behaviour, universally quantified (an inverse pair where needed). *)
From Larking Require Import Base.GoSem Base.Reader Base.Varint Base.B64 Spec.Frames Spec.StreamSpec
  Model.Codec Model.StreamHTTP Model.GrpcFrame Proofs.CodecProofs Proofs.StreamProofs.

(* ---- receive side, HTTP transcoding ---- *)

(* Iterating the modelled RecvMsg over a request body framed as JSON objects, length-delimited
   protobuf or HttpBody chunks gives the handler exactly the frames the pure parser finds in the
   body, in order, and the same ending (clean end of stream, or the same error class) -- for EVERY
   schedule of read sizes and both ways a reader may report EOF. *)
Theorem C06_http_stream_recv : forall c limit valid body sch eofwd,
  0 < limit -> (N.of_nat limit < 2 ^ 63)%N ->
  let fuel := S (length body) in
  let r := http_recv_all fuel (HCfg c limit true true) valid (hst0 (Src body sch eofwd)) in
  let p := http_stream fuel c limit valid body in
  fst r = map RFrame (fst p) /\ end_rel (snd r) (snd p).
Proof. intros c limit valid body sch eofwd Hl Hi. exact (http_recv_is_parser c limit valid (Src body sch eofwd) Hl Hi). Qed.
Print Assumptions C06_http_stream_recv.

(* The same from any reachable stream state: carry-over buffer, reader and EOF latch together
   stand for the unparsed rest of the body (the invariant that makes the induction go through). *)
Theorem C06_http_recv_invariant : forall fuel cf valid st L,
  streamingClient cf = true -> withBody cf = true -> 0 < hlimit cf -> (N.of_nat (hlimit cf) < 2 ^ 63)%N ->
  hinv st L -> length L < fuel ->
  fst (http_recv_all fuel cf valid st) = map RFrame (fst (http_stream fuel (hcodec cf) (hlimit cf) valid L)) /\
  end_rel (snd (http_recv_all fuel cf valid st)) (snd (http_stream fuel (hcodec cf) (hlimit cf) valid L)).
Proof. exact http_recv_refines. Qed.
Print Assumptions C06_http_recv_invariant.

(* No phantom, dropped, merged, reordered or truncated message: what the client wrote with
   WriteNext is what the parser finds, followed by a clean end ... *)
Theorem C06_parse_encode : forall msgs c limit valid,
  0 < limit -> (N.of_nat limit < 2 ^ 63)%N -> Forall (fits c limit) msgs -> Forall (fun m => valid m = true) msgs ->
  let L := concat (map (write_next c) msgs) in
  http_stream (S (length L)) c limit valid L = (msgs, SClean).
Proof. intros. apply http_stream_roundtrip; auto. Qed.
Print Assumptions C06_parse_encode.

(* ... and therefore what the handler receives, for every schedule. *)
Theorem C06_http_roundtrip : forall c msgs limit valid sch eofwd,
  0 < limit -> (N.of_nat limit < 2 ^ 63)%N -> Forall (fits c limit) msgs -> Forall (fun m => valid m = true) msgs ->
  let L := concat (map (write_next c) msgs) in
  http_recv_all (S (length L)) (HCfg c limit true true) valid (hst0 (Src L sch eofwd)) = (map RFrame msgs, EndClean).
Proof. exact http_recv_roundtrip. Qed.
Print Assumptions C06_http_roundtrip.

(* HttpBody uploads of every length: the chunks concatenate to the upload (no lost or phantom
   byte), none is empty (no phantom chunk when the length is a multiple of the limit), none is
   above the limit; then a clean end. *)
Theorem C06_http_upload : forall limit valid L sch eofwd,
  0 < limit -> (N.of_nat limit < 2 ^ 63)%N ->
  exists chunks,
    http_recv_all (S (length L)) (HCfg CBody limit true true) valid (hst0 (Src L sch eofwd)) = (map RFrame chunks, EndClean) /\
    concat chunks = L /\ Forall (fun m => 0 < length m <= limit) chunks.
Proof. exact http_recv_upload. Qed.
Print Assumptions C06_http_upload.

(* A body cut strictly inside a message (protobuf: anywhere inside prefix or payload; JSON: inside
   an object) yields exactly the complete messages before it, then io.ErrUnexpectedEOF -- for every
   cut offset k, at the parser ... *)
Theorem C06_truncation : forall c limit valid pre m post k,
  0 < limit -> (N.of_nat limit < 2 ^ 63)%N -> Forall (wellformed c limit) pre -> wellformed c limit m ->
  Forall (fun x => valid x = true) pre ->
  length (concat (map (write_next c) pre)) < k < length (concat (map (write_next c) (pre ++ [m]))) ->
  let L := firstn k (concat (map (write_next c) (pre ++ m :: post))) in
  http_stream (S (length L)) c limit valid L = (pre, SErr EUnexpectedEOF).
Proof. exact http_stream_cut_offset. Qed.
Print Assumptions C06_truncation.

(* ... and at the handler, for every schedule. *)
Theorem C06_truncation_recv : forall c limit valid pre m post k sch eofwd,
  0 < limit -> (N.of_nat limit < 2 ^ 63)%N -> Forall (wellformed c limit) pre -> wellformed c limit m ->
  Forall (fun x => valid x = true) pre ->
  length (concat (map (write_next c) pre)) < k < length (concat (map (write_next c) (pre ++ [m]))) ->
  let L := firstn k (concat (map (write_next c) (pre ++ m :: post))) in
  http_recv_all (S (length L)) (HCfg c limit true true) valid (hst0 (Src L sch eofwd)) = (map RFrame pre, EndErr EUnexpectedEOF).
Proof.
  intros c limit valid pre m post k sch eofwd Hl Hi Hw Hm Hv Hk. cbv zeta.
  set (L := firstn k (concat (map (write_next c) (pre ++ m :: post)))).
  pose proof (http_recv_is_parser c limit valid (Src L sch eofwd) Hl Hi) as H. cbv zeta in H. cbn [rem] in H.
  pose proof (http_stream_cut_offset c limit valid pre m post k Hl Hi Hw Hm Hv Hk) as P. cbv zeta in P. fold L in P.
  rewrite P in H. destruct (http_recv_all (S (length L)) (HCfg c limit true true) valid (hst0 (Src L sch eofwd))) as [ms en].
  cbn [fst snd] in H. destruct H as [-> H2]. destruct en; cbn in H2; try contradiction. now subst.
Qed.
Print Assumptions C06_truncation_recv.

(* A request without a body is one message built from the parameters, then a clean end; a request
   that is not a client stream is one message: the whole body, when it fits. *)
Theorem C06_http_no_body : forall cf valid s n,
  withBody cf = false -> http_recv_all (S (S n)) cf valid (hst0 s) = ([RParams], EndClean).
Proof. exact http_recv_nobody. Qed.
Print Assumptions C06_http_no_body.

Theorem C06_http_single_request : forall c limit valid s n, c <> CBody ->
  let r := http_recv_all (S (S n)) (HCfg c limit false true) valid (hst0 s) in
  fst r = map RFrame (fst (single_request limit valid (rem s))) /\ end_rel (snd r) (snd (single_request limit valid (rem s))).
Proof. exact http_recv_single. Qed.
Print Assumptions C06_http_single_request.

(* ---- receive side, gRPC and gRPC-web ---- *)

(* Iterating the modelled streamGRPC.RecvMsg over a reader that ends normally or with a transport
   error gives exactly the messages of the 5-byte frames the pure parser finds, in order, and ends
   cleanly iff the parser does -- for every schedule, every tail, with or without a decompressor. *)
Theorem C06_grpc_recv : forall limit gunzip valid body t sch eofwd,
  let fuel := S (length body) in
  let r := grpc_recv_all fuel limit gunzip valid (XSrc (Src body sch eofwd) t) in
  let p := grpc_stream fuel limit gunzip valid t body in
  fst r = fst p /\ end_sim (snd r) (snd p).
Proof.
  intros. apply (grpc_recv_refines (S (length body)) limit gunzip valid (XSrc (Src body sch eofwd) t)). cbn. lia.
Qed.
Print Assumptions C06_grpc_recv.

(* gRPC-web: binary bodies are read as they are; text bodies through the base64 decoder, whose
   output is the bytes of the whole quanta followed by a clean end, a cut or a corruption. *)
Theorem C06_web_recv : forall text body sch eofwd limit gunzip valid,
  let x := web_src text body sch eofwd in
  let '(L, t) := if text then web_text_decode body else (body, TClean) in
  fst (grpc_recv_all (S (length L)) limit gunzip valid x) = fst (grpc_stream (S (length L)) limit gunzip valid t L) /\
  end_sim (snd (grpc_recv_all (S (length L)) limit gunzip valid x)) (snd (grpc_stream (S (length L)) limit gunzip valid t L)).
Proof. exact web_recv_refines. Qed.
Print Assumptions C06_web_recv.

Theorem C06_web_text_roundtrip : forall m, Forall (fun b => (b < 256)%N) m ->
  web_text_decode (b64_encode false true m) = (m, TClean).
Proof. exact web_text_roundtrip. Qed.
Print Assumptions C06_web_text_roundtrip.

(* The frame parser inverts SendMsg's framing (with or without per-message compression, for any
   compressor pair that is an inverse pair): the messages, in order, then a clean end ... *)
Theorem C06_grpc_parse_encode : forall gzip gunzip, (forall m, gunzip (gzip m) = Some m) ->
  forall limit on valid msgs,
  Forall (sendable gzip limit on) msgs -> Forall (fun m => valid m = true) msgs ->
  let L := grpc_send (fst (comp_pair gzip gunzip on)) msgs in
  grpc_stream (S (length L)) limit (snd (comp_pair gzip gunzip on)) valid TClean L = (msgs, SClean).
Proof. exact grpc_stream_sent. Qed.
Print Assumptions C06_grpc_parse_encode.

(* ... and a body cut strictly inside a frame gives the messages before it, then an error. *)
Theorem C06_grpc_truncation : forall gzip gunzip, (forall m, gunzip (gzip m) = Some m) ->
  forall limit on valid pre m j,
  Forall (sendable gzip limit on) pre -> Forall (fun x => valid x = true) pre ->
  (N.of_nat (length (if on then gzip m else m)) < 2 ^ 32)%N ->
  0 < j < length (grpc_send1 (fst (comp_pair gzip gunzip on)) m) ->
  let L := grpc_send (fst (comp_pair gzip gunzip on)) pre ++ firstn j (grpc_send1 (fst (comp_pair gzip gunzip on)) m) in
  exists e, grpc_stream (S (length L)) limit (snd (comp_pair gzip gunzip on)) valid TClean L = (pre, SErr e).
Proof. exact grpc_stream_truncated. Qed.
Print Assumptions C06_grpc_truncation.

(* ---- send side ---- *)

(* HTTP: the bytes written for the handler's replies parse back to exactly those replies, then a
   clean end (C06_parse_encode, since http_send = concat of WriteNext). gRPC: exactly one frame per
   reply, in order, nothing else. gRPC-web: the same followed by exactly one trailer frame and
   nothing after it; in text mode the body is one base64 stream of exactly those bytes. *)
Theorem C06_send : forall gzip gunzip, (forall m, gunzip (gzip m) = Some m) ->
  forall out on trailer,
  Forall (small gzip on) out -> (N.of_nat (length trailer) < 2 ^ 32)%N ->
  let enc := fst (comp_pair gzip gunzip on) in
  parse_grpc_resp (S (length (grpc_send enc out))) (grpc_send enc out) = Some (map (wire gzip on) out) /\
  parse_web_resp (S (length (web_resp false enc out true trailer))) (web_resp false enc out true trailer)
    = Some (map (wire gzip on) out, trailer).
Proof.
  intros gzip gunzip Hz out on trailer Hs Ht. cbv zeta. split.
  - apply grpc_resp_frames; auto.
  - unfold web_resp. apply web_resp_frames; auto.
Qed.
Print Assumptions C06_send.

Theorem C06_send_http : forall c out limit,
  0 < limit -> (N.of_nat limit < 2 ^ 63)%N -> Forall (fits c limit) out ->
  let L := http_send c true out in
  parse_all (S (length L)) c limit L = (out, SClean).
Proof. intros. unfold http_send. apply parse_all_roundtrip; auto. Qed.
Print Assumptions C06_send_http.

Theorem C06_send_text : forall gzip gunzip, (forall m, gunzip (gzip m) = Some m) -> forall on out trailer,
  Forall (fun m => Forall (fun b => (b < 256)%N) (snd (wire gzip on m))) out -> Forall (fun b => (b < 256)%N) trailer ->
  b64_decode false true (web_resp true (fst (comp_pair gzip gunzip on)) out true trailer) =
  Some (web_resp false (fst (comp_pair gzip gunzip on)) out true trailer).
Proof. exact web_resp_text. Qed.
Print Assumptions C06_send_text.

(* ---- WebSocket (framing is the gobwas/ws library; this is larking's use of it) ---- *)
(* One data frame per message; a normal close by the client (1000) is a clean end of stream; any
   other close or a connection that just ends is an error after the messages received so far; the
   server sends one data frame per reply and then exactly one close frame carrying the status. *)
Theorem C06_ws : forall valid msgs out code,
  Forall (fun m => valid m = true) msgs ->
  ws_recv_all valid (map WData msgs ++ [WClose 1000]) = (msgs, EndClean) /\
  (exists e, ws_recv_all valid (map WData msgs ++ [WAbort]) = (msgs, EndErr e)) /\
  (forall c, c <> 1000%N -> exists e, ws_recv_all valid (map WData msgs ++ [WClose c]) = (msgs, EndErr e)) /\
  ws_send out code = map WData out ++ [WClose code].
Proof.
  intros valid msgs out code Hv. repeat split.
  - now apply ws_recv_normal_close.
  - apply ws_recv_broken; auto.
  - intros c Hc. apply ws_recv_broken; auto. right. eauto.
Qed.
Print Assumptions C06_ws.

(* ---- non-vacuity: the hypotheses are met by concrete, non-trivial instances ---- *)
Example c06_wellformed_instances :
  wellformed CJSON 64 [123;34;116;34;58;34;125;34;125]%N /\ wellformed CProto 3 [18;1;97]%N /\ fits CJSON 2 [123;125]%N.
Proof. repeat split; try reflexivity. cbn. lia. Qed.
(* three protobuf messages (one empty) read one byte at a time with EOF on a separate read *)
Example c06_http_instance :
  http_recv_all 20 (HCfg CProto 4 true true) (fun _ => true)
    (hst0 (Src (concat (map (write_next CProto) [[18;1;97]; []; [9]]%N)) [1;1;1;1;1;1;1;1] false))
  = (map RFrame [[18;1;97]; []; [9]]%N, EndClean).
Proof. reflexivity. Qed.
(* the same stream cut inside the first message: nothing is delivered, then an error *)
Example c06_truncated_instance :
  http_recv_all 20 (HCfg CProto 4 true true) (fun _ => true) (hst0 (Src [3;18;1]%N [2;1] true)) = ([], EndErr EUnexpectedEOF).
Proof. reflexivity. Qed.
(* an upload of twice the chunk size: two chunks, no phantom third *)
Example c06_upload_instance :
  http_recv_all 20 (HCfg CBody 2 true true) (fun _ => true) (hst0 (Src [1;2;3;4]%N [4] false))
  = ([RFrame [1;2]; RFrame [3;4]]%N, EndClean).
Proof. reflexivity. Qed.
(* two gRPC frames read in awkward pieces; then the second frame cut after its header *)
Example c06_grpc_instance :
  grpc_recv_all 20 64 None (fun _ => true) (XSrc (Src (gframe 0 [7;8] ++ gframe 0 [])%N [3;1;4;1] true) TClean)
  = ([[7;8]; []]%N, EndClean) /\
  grpc_recv_all 20 64 None (fun _ => true) (XSrc (Src (gframe 0 [7;8] ++ [0;0;0;0;3])%N [5;2;5] false) TClean)
  = ([[7;8]]%N, EndErr EUnexpectedEOF).
Proof. split; reflexivity. Qed.
(* an identity "compressor" is an inverse pair: the hypothesis of the gzip theorems is satisfiable *)
Example c06_pair_instance : forall m : list N, (fun x => Some x) ((fun x : list N => x) m) = Some m.
Proof. reflexivity. Qed.
(* text mode: "AAAAAAEH" is one frame with payload [7]; cut after 6 characters it is an error *)
Example c06_text_instance :
  web_text_decode [65;65;65;65;65;65;69;72]%N = ([0;0;0;0;1;7]%N, TClean) /\
  snd (web_text_decode [65;65;65;65;65;65]%N) = TCut.
Proof. split; reflexivity. Qed.
