(* C14 -- Metadata fidelity between HTTP headers and gRPC metadata.
   Model: Model/Metadata.v (isReservedHeader, isWhitelistedHeader, decodeBinHeader,
   encodeBinHeader, newIncomingContext, setOutgoingHeader of larking/grpc.go; net/http's trailer
   delivery rule is a modelled library fact). *)
From Larking Require Import Base.GoSem Base.B64 Model.Metadata Proofs.MetadataProofs Model.TrailerBlock Proofs.TrailerBlockProofs.

(* the metadata a handler sees is exactly: every non-reserved request header, key lower-cased,
   all values in order, -bin values base64-decoded *)
Theorem C14_incoming_exact : forall h k vs,
  In (k, vs) (incoming h) <->
  exists k0 vs0, In (k0, vs0) h /\ k = lower k0 /\
    (is_reserved k && negb (is_whitelisted k) = false) /\
    vs = (if is_bin k then map (fun v => match decode_bin v with Some b => b | None => [] end) vs0 else vs0).
Proof. exact incoming_exact. Qed.
Print Assumptions C14_incoming_exact.

(* -bin request values decode to the client's bytes whether the client padded them or not *)
Theorem C14_bin_padded : forall m, Forall (fun b => (b < 256)%N) m -> decode_bin (b64_encode false true m) = Some m.
Proof. exact decode_bin_padded. Qed.
Print Assumptions C14_bin_padded.
Theorem C14_bin_unpadded : forall m, Forall (fun b => (b < 256)%N) m -> decode_bin (b64_encode false false m) = Some m.
Proof. exact decode_bin_raw. Qed.
Print Assumptions C14_bin_unpadded.

(* -bin response values are byte-exact for a client that accepts either spelling *)
Theorem C14_outgoing_bin_exact : forall m, Forall (fun b => (b < 256)%N) m -> decode_any (encode_bin m) = Some m.
Proof. exact decode_any_encode_bin. Qed.
Print Assumptions C14_outgoing_bin_exact.

(* no forgery: whatever metadata the handler sets, every protocol-reserved key and every key owned
   by net/http's framing keeps the value the server computed *)
Theorem C14_no_forgery : forall md h k,
  is_reserved (lower k) || is_framing (lower k) = true -> hget k (set_outgoing h md) = hget k h.
Proof. exact outgoing_no_forgery. Qed.
Print Assumptions C14_no_forgery.

(* every other key the handler sets reaches the response with all its values in order *)
Theorem C14_outgoing_complete : forall md h k vs,
  NoDup (map (fun e => lower (fst e)) md) -> In (k, vs) md ->
  is_reserved (lower k) || is_framing (lower k) = false ->
  hget k (set_outgoing h md) = Some (out_vals k vs).
Proof. exact outgoing_complete. Qed.
Print Assumptions C14_outgoing_complete.

(* trailer metadata written under http.TrailerPrefix is delivered without having been announced *)
Theorem C14_trailers_arrive : forall declared h k vs,
  In (trailer_prefix ++ k, vs) h -> In (k, vs) (delivered_trailers declared h).
Proof. exact prefixed_trailer_delivered. Qed.
Print Assumptions C14_trailers_arrive.

(* ---- the gRPC-web trailer block (Model/TrailerBlock.v): web.go writes the trailers into the body with net/http's
   Header.Write; a gRPC-web client reads that text line by line ---- *)

(* no field can be forged through a value: whatever bytes a handler puts into its trailer values -- line breaks followed
   by "grpc-status: 13" included -- the client reads back exactly the fields that were written, one per value, in order *)
Theorem C14_trailer_block_no_injection : forall l, Forall (fun kv => key_ok (fst kv)) l ->
  parse_block (write_block l) = map (fun kv => Some (fst kv, wire_value (snd kv))) l.
Proof. exact parse_write. Qed.
Print Assumptions C14_trailer_block_no_injection.

(* what travels of a value: no line break ever, and the value itself when it has none and no blank space at its ends *)
Theorem C14_trailer_value_single_line : forall v, forallb (fun c => negb (is_nl c)) (wire_value v) = true.
Proof. exact wire_value_no_nl. Qed.
Print Assumptions C14_trailer_value_single_line.

Theorem C14_trailer_value_faithful : forall v, forallb (fun c => negb (is_nl c)) v = true ->
  match v with c :: _ => is_ws c = false | [] => True end ->
  match rev v with c :: _ => is_ws c = false | [] => True end -> wire_value v = v.
Proof. exact wire_value_id. Qed.
Print Assumptions C14_trailer_value_faithful.

Example forged_trailer_value :   (* x-t: "bye\r\ngrpc-status: 13" arrives as one field "bye  grpc-status: 13" *)
  parse_block (write_block [([120;45;116], [98;121;101;13;10;103;114;112;99;45;115;116;97;116;117;115;58;32;49;51])])%N
  = [Some ([120;45;116], [98;121;101;32;32;103;114;112;99;45;115;116;97;116;117;115;58;32;49;51])%N].
Proof. vm_compute. reflexivity. Qed.

Example reserved_and_framing :
  is_reserved k_grpc_status = true /\ is_framing k_trailer = true /\ is_reserved k_trailer = false /\
  decode_bin (str_of [65;81;61;61]) = Some [1%N] /\ decode_bin (str_of [65;81]) = Some [1%N] /\   (* "AQ==" and "AQ" *)
  is_bin (str_of [120;45;98;105;110]) = true.
Proof. repeat split; reflexivity. Qed.
