(* C01 -- Routing soundness: a request only reaches a method whose rule covers it.
   Model: Model/Lexer.v (lexPath), Model/Match.v (variable.index, path.search, path.match, the
   path normalisation of ServeHTTP), Model/Trie.v (what registration builds).
   Spec: Spec/Route.v -- MatchEdges: a sequence of trie edges covers the request's tokens, a literal
   edge by spelling separator and text, a variable edge by a "/" and an instance of its pattern
   ("*" up to the next separator, "**" up to the next ":"), the capture being the text covered.
   L is the list of (method, binding) pairs registered so far -- annotation, additional bindings,
   service-config rules and the implicit /Service/Method binding alike (decl_bindings). *)
From Larking Require Import Base.GoSem Model.Lexer Model.Trie Model.Match Spec.Grammar Spec.Route
  Spec.Template
  Proofs.LexerProofs Proofs.MatchProofs Proofs.TrieProofs Proofs.RoutingProofs Proofs.SpellProofs Proofs.TemplateInstProofs.
Local Open Scope N_scope.

(* every trie that any history of registerService calls publishes satisfies the registration
   invariant for a list L of bindings that were declared by those services *)
Theorem C01_published_states : forall isLetter isNumber resolves body_ok resp_ok svcs,
  exists L, Inv isLetter isNumber resolves L (run_services isLetter isNumber resolves body_ok resp_ok empty_node svcs) /\
    forall x, In x L -> exists ds, In ds svcs /\ decls_regs ds x.
Proof.
  intros isLetter isNumber resolves body_ok resp_ok svcs.
  destruct (published_Inv isLetter isNumber resolves body_ok resp_ok svcs [] empty_node (Inv_empty isLetter isNumber resolves)) as (L' & HI & HL).
  exists (L' ++ []). split; [exact HI|]. intros x Hx. rewrite app_nil_r in Hx. now apply HL.
Qed.
Print Assumptions C01_published_states.

(* dispatch is sound: if the request is routed to a binding m with captures caps, then a binding b
   was registered for exactly that method, b carries the request's verb (or is of kind '*'), and the
   edges b's template compiles to cover the request path's tokens, with exactly these captures *)
Theorem C01_dispatch_sound :
  forall isLetter isNumber resolves okconv, Sane isLetter isNumber ->
  forall L root verb p m caps,
  Inv isLetter isNumber resolves L root -> route okconv isLetter isNumber root verb p = Ok (m, caps) ->
  exists mid b es toks,
    In (mid, b) L /\ m_id m = mid /\ covers_verb (b_verb b) verb /\ m_body m = b_body b /\
    compiled isLetter isNumber resolves mid b es (m_vars m) /\
    lex_path isLetter isNumber (normalise p) = Ok toks /\ MatchEdges es toks caps.
Proof. exact dispatch_sound. Qed.
Print Assumptions C01_dispatch_sound.

(* the tokens of a request path are the path: separator, text, separator, text, ..., end; they
   spell it exactly (nothing invented, nothing dropped) and there are at most 64 *)
Theorem C01_path_tokens : forall isLetter isNumber p toks,
  lex_path isLetter isNumber p = Ok toks ->
  PathToks isLetter isNumber toks /\ spell toks = p /\ (length toks <= 64)%nat.
Proof. exact lex_path_sound. Qed.
Print Assumptions C01_path_tokens.

(* the same read back as text: the (normalised) request path is the registered template's edge
   sequence with every literal piece spelled as registered and every variable replaced by "/" and
   its capture, in order -- so the fields hold exactly the path text the variables cover, and every
   other character of the path is a literal of the template *)
Theorem C01_path_is_instance :
  forall isLetter isNumber resolves okconv, Sane isLetter isNumber ->
  forall L root verb p m caps,
  Inv isLetter isNumber resolves L root -> route okconv isLetter isNumber root verb p = Ok (m, caps) ->
  exists mid b es,
    In (mid, b) L /\ m_id m = mid /\ covers_verb (b_verb b) verb /\
    compiled isLetter isNumber resolves mid b es (m_vars m) /\
    fill es (rev caps) = Some (normalise p).
Proof. exact path_is_instance. Qed.
Print Assumptions C01_path_is_instance.

(* the token-level covering and the string-level reading of "the path is an instance of the
   template" (Spec/Template.v: split the path at "/", line the pieces up with the segments) are the
   same relation, with the same captures: for a registered binding whose template the string-level
   reader parses to t, and a request path the path lexer accepts, the compiled edges cover the path's
   tokens iff the path is an instance of t, and the named captures coincide (unnamed * / ** segments
   have a capture in larking and none in the string-level reading: the filter) *)
Theorem C01_covering_is_instance : forall isLetter isNumber resolves, Sane isLetter isNumber ->
  forall mid b es vfs t p ptoks,
  compiled isLetter isNumber resolves mid b es vfs ->
  parse_tmpl isLetter isNumber (b_tmpl b) = Some t ->
  lex_path isLetter isNumber (normalise p) = Ok ptoks ->
  (forall cs, inst isLetter isNumber true t p = Some cs ->
     exists caps, MatchEdges es ptoks caps /\ cs = filter (fun fc => negb (is_nil (fst fc))) (combine vfs (rev caps))) /\
  (forall caps, MatchEdges es ptoks caps ->
     exists cs, inst isLetter isNumber true t p = Some cs /\ cs = filter (fun fc => negb (is_nil (fst fc))) (combine vfs (rev caps))).
Proof. exact inst_iff_cover. Qed.
Print Assumptions C01_covering_is_instance.

(* a variable's capture is determined by its pattern and the tokens: variable.index returns exactly
   the covering the specification describes, or reports that there is none *)
Theorem C01_capture_exact : forall pat rest c z,
  var_index pat rest = Ok (Some (c, z)) <-> (rest = c ++ z /\ MatchPat pat c z).
Proof.
  intros pat rest c z. split.
  - apply var_index_sound.
  - intros [-> H]. now apply var_index_complete.
Qed.
Print Assumptions C01_capture_exact.

(* one capture per variable of the binding, in the order the request decoder expects: routing sets
   the fields bound by the template's variables and no other (path_params pairs them up) *)
Theorem C01_only_bound_fields :
  forall isLetter isNumber resolves okconv, Sane isLetter isNumber ->
  forall L root verb p m caps,
  Inv isLetter isNumber resolves L root -> route okconv isLetter isNumber root verb p = Ok (m, caps) ->
  length caps = length (m_vars m) /\
  path_params (m, caps) = filter (fun fc => negb (is_nil (fst fc))) (combine (rev (m_vars m)) caps).
Proof.
  intros isLetter isNumber resolves okconv sane L root verb p m caps HI H. split; [|reflexivity].
  unfold route in H. destruct (lex_path isLetter isNumber (normalise p)) as [toks| | |]; try discriminate.
  pose proof (search_sound okconv _ _ _ _ _ H) as HS.
  pose proof (sound_caps_length okconv verb root 0%nat toks m caps
                (WFn_TrieInv (PatG isLetter isNumber) (PatG_ok isLetter isNumber) 0%nat root (inv_wf _ _ _ _ _ HI)) HS) as HL.
  cbn in HL. lia.
Qed.
Print Assumptions C01_only_bound_fields.

(* ---- a concrete instance ---- *)
Definition asciiL (r : N) : bool := ((65 <=? r) && (r <=? 90)) || ((97 <=? r) && (r <=? 122)).
Definition asciiN (r : N) : bool := (48 <=? r) && (r <=? 57).
Definition all_ok (_ : str) (_ : list str) := true.
Definition conv_ok (_ : list str) (_ : str) := true.
Definition sv (l : list N) : str := l.
Definition mA : str := sv [47;83;47;65].                  (* "/S/A" *)
Definition mB : str := sv [47;83;47;66].
Definition GET := sv [71;69;84].
Definition mk verb tmpl := {| h_main := {| b_verb := verb; b_tmpl := tmpl; b_body := BNone; b_resp := []; b_nested := false |}; h_adds := [] |}.
(* A: GET /aa/{s1}:v     B: GET /aa/{s2=bb/**} *)
Definition svc : list mdecl :=
  [ {| d_id := mA; d_config := []; d_annot := Some (mk GET (sv [47;97;97;47;123;115;49;125;58;118])) |};
    {| d_id := mB; d_config := []; d_annot := Some (mk GET (sv [47;97;97;47;123;115;50;61;98;98;47;42;42;125])) |} ].
Definition root1 := run_services asciiL asciiN all_ok all_ok all_ok empty_node [svc].

Example routes :
  (* "/aa/xy:v" -> A with capture "xy";  "/aa/bb/c/d" -> B with capture "bb/c/d";
     "/aa:v" is not captured by {s1} (the ':' is a verb separator, not part of a segment);
     the implicit binding "/S/B" answers any verb *)
  (exists m, route conv_ok asciiL asciiN root1 GET (sv [47;97;97;47;120;121;58;118]) = Ok (m, [sv [120;121]]) /\ m_id m = mA) /\
  (exists m, route conv_ok asciiL asciiN root1 GET (sv [47;97;97;47;98;98;47;99;47;100]) = Ok (m, [sv [98;98;47;99;47;100]]) /\ m_id m = mB) /\
  route conv_ok asciiL asciiN root1 GET (sv [47;97;97;58;118]) = Err ENotFound /\
  (exists m, route conv_ok asciiL asciiN root1 (sv [80;85;84]) (sv [47;83;47;66]) = Ok (m, []) /\ m_id m = mB).
Proof. repeat split; try (eexists; split; vm_compute; reflexivity); try (vm_compute; reflexivity). Qed.

(* ---------- routing composed with conversion (Proofs/BoundFieldProofs.v) ---------- *)
From Larking Require Import Base.B64 Model.Schema Model.Params Model.Transcode Spec.Json3 Proofs.ParamsProofs Proofs.ParamsConvProofs Proofs.BoundFieldProofs.

(* C01, last clause.  For every schema sch, every assignment req of request message types to method
   ids, and every trie with the registration invariant built with the schema's resolution oracle:
   if the request path p is routed to the binding m with captures caps (by a router using ANY
   conversion oracle okconv), then
   - a binding b registered for method m_id m covers the tokens of the normalised path with exactly
     these captures, and the path is b's edge sequence with every variable replaced by "/" and its
     capture (rev caps is template order);
   - every named variable resolves (Params.field_path) in the method's request message, and okconv
     accepted its capture;
   - if okconv implies the schema's convertibility (okconv_of: Params.parse_param succeeds), the
     conversion serveHTTP performs on the path parameters succeeds;
   - whenever that conversion gives ps and params.set ps succeeds on any message M0, then for EVERY
     named variable i, with names ns and capture c: ns resolves to fds, c converts to v, (fds, v) is
     among the parameters, c is a proto3-JSON text of v (bool, the integer kinds, string, enum,
     bytes), and -- if the last field is singular and the variables before i in the template do not
     write into fds (earlier_leave; nothing to ask for the first named variable) -- the message has
     at and under the steps of fds exactly the image of v. *)
Theorem C01_bound_field_is_converted_capture :
  forall (ofloat : bool -> bytes -> option N) (owkt : wkt -> bool -> bytes -> option subtree)
         (sch : schema) (req : str -> option nat) (isLetter isNumber : N -> bool),
  Sane isLetter isNumber ->
  forall okconv L root verb p m caps,
  TrieProofs.Inv isLetter isNumber (resolves_of sch req) L root ->
  Match.route okconv isLetter isNumber root verb p = Ok (m, caps) ->
  exists b es toks,
    In (m_id m, b) L /\ covers_verb (b_verb b) verb /\ m_body m = b_body b /\
    TrieProofs.compiled isLetter isNumber (resolves_of sch req) (m_id m) b es (m_vars m) /\
    lex_path isLetter isNumber (normalise p) = Ok toks /\ MatchEdges es toks caps /\
    fill es (rev caps) = Some (normalise p) /\
    length caps = length (m_vars m) /\
    (forall i ns, nth_error (m_vars m) i = Some ns -> ns <> [] ->
       exists rm fds, req (m_id m) = Some rm /\ field_path sch (req_fields sch rm) ns = Some fds /\ fds <> []) /\
    (forall i ns c, nth_error (m_vars m) i = Some ns -> ns <> [] -> nth_error (rev caps) i = Some c ->
       okconv ns c = true) /\
    forall rm, req (m_id m) = Some rm ->
      ((forall ns c, okconv ns c = true -> okconv_of ofloat owkt sch rm ns c = true) ->
         exists ps, convert_params ofloat owkt sch rm (Match.path_params (m, caps)) = Ok ps) /\
      forall ps M0 M', convert_params ofloat owkt sch rm (Match.path_params (m, caps)) = Ok ps -> params_set ps M0 = Ok M' ->
      forall i ns c, nth_error (m_vars m) i = Some ns -> ns <> [] -> nth_error (rev caps) i = Some c ->
      exists fds v,
        field_path sch (req_fields sch rm) ns = Some fds /\ fds <> [] /\
        parse_param ofloat owkt sch fds c = Ok v /\ In (fds, v) ps /\
        ((exact_kind (f_kind (snd (last_step fds))) = true \/ f_kind (snd (last_step fds)) = KBytes) ->
           json3_text sch (f_kind (snd (last_step fds))) v c) /\
        (singular_last fds -> earlier_leave sch rm (m_vars m) i fds ->
           forall rel, Schema.lookup (steps_path fds ++ rel) M' = Schema.lookup rel (field_image (snd (last_step fds)) v)).
Proof. exact bound_fields_are_converted_captures. Qed.
Print Assumptions C01_bound_field_is_converted_capture.

(* the same without any hypothesis about the other variables: a variable preceded by bare wildcards
   only (the variable of a one-variable template, the first named variable of any template) *)
Theorem C01_bound_field_first_variable :
  forall (ofloat : bool -> bytes -> option N) (owkt : wkt -> bool -> bytes -> option subtree)
         (sch : schema) (req : str -> option nat) (isLetter isNumber : N -> bool),
  Sane isLetter isNumber ->
  forall okconv L root verb p m caps,
  TrieProofs.Inv isLetter isNumber (resolves_of sch req) L root ->
  Match.route okconv isLetter isNumber root verb p = Ok (m, caps) ->
  forall rm ps M0 M', req (m_id m) = Some rm ->
  convert_params ofloat owkt sch rm (Match.path_params (m, caps)) = Ok ps -> params_set ps M0 = Ok M' ->
  forall i ns c, nth_error (m_vars m) i = Some ns -> ns <> [] -> nth_error (rev caps) i = Some c ->
  (forall j nsj, (j < i)%nat -> nth_error (m_vars m) j = Some nsj -> nsj = []) ->
  exists fds v,
    field_path sch (req_fields sch rm) ns = Some fds /\ parse_param ofloat owkt sch fds c = Ok v /\
    ((exact_kind (f_kind (snd (last_step fds))) = true \/ f_kind (snd (last_step fds)) = KBytes) ->
       json3_text sch (f_kind (snd (last_step fds))) v c) /\
    (singular_last fds ->
       forall rel, Schema.lookup (steps_path fds ++ rel) M' = Schema.lookup rel (field_image (snd (last_step fds)) v)).
Proof. exact bound_fields_are_converted_captures_partial. Qed.
Print Assumptions C01_bound_field_first_variable.

(* for the kinds with a grammar the conversion is exact in both directions: the capture converts to
   v iff it is a proto3-JSON text of v *)
Theorem C01_capture_conversion_exact :
  forall (ofloat : bool -> bytes -> option N) (owkt : wkt -> bool -> bytes -> option subtree) sch fds c v,
  fds <> [] -> exact_kind (f_kind (snd (last_step fds))) = true ->
  (parse_param ofloat owkt sch fds c = Ok v <-> json3_text sch (f_kind (snd (last_step fds))) v c).
Proof. exact converted_iff_json3. Qed.
Print Assumptions C01_capture_conversion_exact.

(* what "do not write into" means for two field paths *)
Theorem C01_untouched_meaning : forall fds q,
  untouched fds q = true <->
  (fds = [] \/ exists A st B n q', fds = A ++ st :: B /\ q = steps_path A ++ n :: q' /\
     n <> step_num st /\ ~ In n (sibs (fst st) (snd st))).
Proof. exact untouched_iff_diverge. Qed.
Print Assumptions C01_untouched_meaning.
