(* C17 -- Stream codec framing is fragmentation-invariant and limit-safe.
   Statements only; each is closed by the lemma that proves it. Model: Model/Codec.v
   (CodecProto / CodecJSON / codecHTTPBody ReadNext and WriteNext of larking/codec.go over
   scheduled readers); meaning: Spec/Frames.v (a parser of the logical byte stream that never
   mentions reads). Limits are positive Go ints, as the mux always passes them. *)
From Larking Require Import Base.GoSem Base.Reader Base.Varint Spec.Frames Model.Codec Proofs.CodecProofs.

(* Every ReadNext call, for every codec, every carried-over buffer b, every remaining input,
   every schedule of read sizes and both EOF styles, reports exactly what the pure parser says
   about the logical stream b ++ rem s: the message is the parser's next frame, the bytes after
   the reported length followed by what the reader still holds are exactly the parser's rest,
   a clean EOF only at a message boundary with nothing lost, an error exactly when the parser
   reports that error; never a panic, never a length outside the returned buffer. *)
Theorem C17_call_refines_parser : forall c b s limit,
  0 < limit -> (N.of_nat limit < 2 ^ 63)%N ->
  refines c limit (b ++ rem s) (read_next c b s limit).
Proof. exact read_next_refines. Qed.
Print Assumptions C17_call_refines_parser.

(* The same fact phrased with the executable predicate that the harness evaluates on what the
   implementation returned (extracted to OCaml): every model result passes it. *)
Theorem C17_call_passes_oracle : forall c b s limit dst n e s',
  0 < limit -> (N.of_nat limit < 2 ^ 63)%N ->
  read_next c b s limit = RRet dst n e s' ->
  obs_ok c limit (b ++ rem s) (rem s') (RObs dst (Z.of_nat n) e) = true.
Proof.
  intros c b s limit dst n e s' H1 H2 H. apply refines_obs_ok. rewrite <- H. now apply read_next_refines.
Qed.
Print Assumptions C17_call_passes_oracle.

(* Round trip: WriteNext then repeated ReadNext with carry := dst[n:] returns the same messages
   in order followed by a clean end, for every schedule and EOF style (protobuf: messages within
   the limit; JSON: texts the brace automaton delimits exactly, see Example below). *)
Theorem C17_roundtrip : forall c msgs limit sch e,
  0 < limit -> (N.of_nat limit < 2 ^ 63)%N -> Forall (fits c limit) msgs ->
  let L := concat (map (write_next c) msgs) in
  recv_all (S (length L)) c limit [] (Src L sch e) = (msgs, EndClean).
Proof. exact recv_all_roundtrip. Qed.
Print Assumptions C17_roundtrip.

(* The reader loop is the schedule-free parser: same messages, same ending, for any stream
   (well-formed or not), any carry-over, any schedule. *)
Theorem C17_loop_is_parser : forall fuel c limit carry s,
  0 < limit -> (N.of_nat limit < 2 ^ 63)%N -> length (carry ++ rem s) < fuel ->
  fst (recv_all fuel c limit carry s) = fst (parse_all fuel c limit (carry ++ rem s)) /\
  end_rel (snd (recv_all fuel c limit carry s)) (snd (parse_all fuel c limit (carry ++ rem s))).
Proof. exact recv_all_parse_all. Qed.
Print Assumptions C17_loop_is_parser.

(* HttpBody uploads: the chunks concatenate to the upload (no lost or phantom byte), each chunk is
   non-empty and within the limit, and the stream ends cleanly -- for every length and schedule. *)
Theorem C17_body_chunks : forall limit L sch e, 0 < limit -> (N.of_nat limit < 2 ^ 63)%N ->
  let r := recv_all (S (length L)) CBody limit [] (Src L sch e) in
  snd r = EndClean /\ concat (fst r) = L /\ Forall (fun m => 0 < length m <= limit) (fst r).
Proof. exact recv_all_body. Qed.
Print Assumptions C17_body_chunks.

(* Limit safety: any decodable length prefix above the limit (1..10 bytes, values >= 2^63
   included) is an error of the size class with n = 0 -- never a truncated message. *)
Theorem C17_proto_limit_safe : forall b s limit v n,
  0 < limit -> (N.of_nat limit < 2 ^ 63)%N ->
  consume_varint (b ++ rem s) = VOk v n -> (N.of_nat limit < v)%N ->
  exists dst s', proto_next b s limit = RRet dst 0 (Some ETooLarge) s'.
Proof. exact proto_limit_safe. Qed.
Print Assumptions C17_proto_limit_safe.

Theorem C17_json_limit_safe : forall b s limit,
  0 < limit -> json_scan limit jst0 (b ++ rem s) 0 = JTooLarge ->
  exists dst s', json_next b s limit = RRet dst 0 (Some ETooLarge) s'.
Proof. exact json_limit_safe. Qed.
Print Assumptions C17_json_limit_safe.

Theorem C17_never_crashes : forall c b s limit, 0 < limit -> (N.of_nat limit < 2 ^ 63)%N ->
  match read_next c b s limit with RRet dst n _ _ => n <= length dst | RPanic | RFuel => False end.
Proof. exact read_next_safe. Qed.
Print Assumptions C17_never_crashes.

(* The varint encoder and decoder are inverse on all of uint64. *)
Theorem C17_varint_roundtrip : forall v r, (v < 2 ^ 64)%N ->
  consume_varint (encode_varint v ++ r) = VOk v (length (encode_varint v)).
Proof. exact consume_encode. Qed.
Print Assumptions C17_varint_roundtrip.

(* ---- non-vacuity: the hypotheses are met by concrete non-trivial instances ---- *)
Example json_texts_fit :
  fits CJSON 64 [123;34;97;34;58;34;125;92;34;34;125]%N /\
  fits CJSON 2 [123;125]%N /\ fits CProto 3 [1;2;3]%N.
Proof. repeat split; try reflexivity. cbn. lia. Qed.
Example roundtrip_instance :
  recv_all 20 CProto 4 [] (Src (concat (map (write_next CProto) [[1;2;3]; []; [9]]%N)) [1;2;1;1] true)
  = ([[1;2;3]; []; [9]]%N, EndClean).
Proof. reflexivity. Qed.
Example huge_prefix_refused :
  exists dst s', proto_next [] (Src [255;255;255;255;255;255;255;255;255;1;7]%N [3;1] false) 100
                 = RRet dst 0 (Some ETooLarge) s'.
Proof. eexists. eexists. reflexivity. Qed.
