(* C13 -- Concurrent requests are isolated: pooled buffers, pooled compressors never leak or
   corrupt bytes across requests.
   Model: Model/Pools.v (event scripts, the boolean checker [well_bracketed], the concurrent
   system: any number of requests, any interleaving, a Get returns any pooled or a new object).
   Gen/PoolScripts.v: the scripts of larking/*.go, regenerated from the source by harness/c13gen
   on every run of ./check C13 (one script per control-flow path of every function that obtains
   an object from bytesPool, bufPool, poolCompressor, poolDecompressor; callees inlined).
   PARTIAL: sync.Pool, the library calls on the translator's whitelist, and the translator itself
   are trusted; data-race freedom of the binary is only searched for (go test -race style stress
   in the harness), not proved. *)
From Larking Require Import Model.Pools Proofs.PoolsProofs Gen.PoolScripts.
Require Import List Arith Bool.
Import ListNotations.

(* If every script is well-bracketed then, for every number of requests and every schedule, in
   the state reached no pooled object is referenced twice (so not by two requests), no object
   lying in a pool is still referenced, no object lies in the pools twice; and every step touched
   only an object its request held at that moment and read only bytes that this request itself
   wrote since it reset the object after its Get. *)
Theorem C13_exclusive :
  forall (scripts : rid -> script),
    (forall r, well_bracketed (scripts r) = true) ->
    forall sched st ls, run (init scripts) sched = Some (st, ls) ->
      exclusive st /\ Forall access_ok ls.
Proof. exact exclusive_all_interleavings. Qed.
Print Assumptions C13_exclusive.

(* holding is exclusive: an object one request holds is held by nobody else and is in no pool *)
Theorem C13_one_holder : forall st r r' b p,
  exclusive st -> In (r, b) (refs st) ->
  (In (r', b) (refs st) -> r = r') /\ ~ In (p, b) (pools st).
Proof.
  intros st r r' b p He Hin. split.
  - intro H. exact (exclusive_holder st r r' b He Hin H).
  - exact (exclusive_not_pooled st r p b He Hin).
Qed.
Print Assumptions C13_one_holder.

(* the scripts of the code as it is now: every one of them is well-bracketed (re-proved by
   vm_compute on the regenerated file on every run) *)
Theorem C13_scripts_well_bracketed : forallb well_bracketed all_scripts = true.
Proof. exact all_scripts_well_bracketed. Qed.
Print Assumptions C13_scripts_well_bracketed.

(* hence: any number of concurrent activations of larking's pool-using functions, along any of
   their paths, in any interleaving, are isolated *)
Theorem C13_larking_isolated :
  forall scripts : rid -> script, (forall r, In (scripts r) all_scripts \/ scripts r = []) ->
  forall sched st ls, run (init scripts) sched = Some (st, ls) ->
    exclusive st /\ Forall access_ok ls.
Proof. exact (exclusive_for_script_set all_scripts all_scripts_well_bracketed). Qed.
Print Assumptions C13_larking_isolated.

(* the gzip request reader after the fix: what a request observes from its reader (its own
   payload, then EOF for ever) depends on its own operations only, whatever other requests do *)
Theorem C13_gzip_reader_local : forall g g' o,
  gfind (gop_rid o) (gopen g) = gfind (gop_rid o) (gopen g') ->
  snd (gstep g o) = snd (gstep g' o) /\
  gfind (gop_rid o) (gopen (fst (gstep g o))) = gfind (gop_rid o) (gopen (fst (gstep g' o))).
Proof. exact gstep_obs_own. Qed.
Print Assumptions C13_gzip_reader_local.

Theorem C13_gzip_reader_frame : forall g o r,
  gop_rid o <> r -> gfind r (gopen (fst (gstep g o))) = gfind r (gopen g).
Proof. exact gstep_local. Qed.
Print Assumptions C13_gzip_reader_frame.

(* ---------- non-vacuity ---------- *)

(* the shape of streamGRPC.SendMsg with compression: two pools, aliases, a conditional put *)
Definition ex_send : script :=
  [Get 0 0; Reset 0; Alias 0 1; Write 1; Get 1 2; Reset 2; Write 2; Read 1; Read 2; Write 1; Put 1 2; Read 1; Put 0 0].

Example ex_send_wb : well_bracketed ex_send = true.
Proof. vm_compute. reflexivity. Qed.

Example all_scripts_nonempty : (100 <=? length all_scripts) = true /\ existsb (fun s => 15 <=? length s) all_scripts = true.
Proof. vm_compute. split; reflexivity. Qed.

(* two requests running ex_send, the second one reusing both objects of the first: a real run *)
Definition two (s1 s2 : script) : rid -> script := fun r => match r with 0 => s1 | 1 => s2 | _ => [] end.
Definition seq (r : rid) (n : nat) (c : option bufid) : list (rid * option bufid) := repeat (r, c) n.

Example ex_two_requests_reuse :
  exists st ls, run (init (two ex_send ex_send))
      (seq 0 13 None ++ [(1, Some 0)] ++ seq 1 3 None ++ [(1, Some 1)] ++ seq 1 8 None) = Some (st, ls)
    /\ length ls = 26 /\ length (pools st) = 2 /\ refs st = [].
Proof. eexists. eexists. vm_compute. repeat split; reflexivity. Qed.

(* ---------- the hypothesis does real work ---------- *)

(* a script that reads its buffer after having put it back: the pre-fix gzip reader
   (Read after the Put on EOF), or a bytesPool.Put moved before the last use *)
Definition ex_use_after_put : script := [Get 0 0; Reset 0; Write 0; Put 0 0; Read 0].

Example ex_use_after_put_rejected : well_bracketed ex_use_after_put = false.
Proof. vm_compute. reflexivity. Qed.

(* ... and it does break isolation: request 0 puts, request 1 gets the same object and writes,
   request 0 then reads request 1's bytes from an object it no longer holds *)
Example C13_use_after_put_refuted :
  exists sched st ls,
    run (init (two ex_use_after_put [Get 0 0; Reset 0; Write 0])) sched = Some (st, ls) /\
    ~ Forall access_ok ls.
Proof.
  exists (seq 0 4 None ++ [(1, Some 0)] ++ seq 1 2 None ++ [(0, None)]).
  eexists. eexists. split; [vm_compute; reflexivity|].
  intro H. rewrite Forall_forall in H.
  refine (access_ok_b_false _ _ (H _ _)); [|right; right; right; right; right; right; right; left; reflexivity].
  vm_compute. reflexivity.
Qed.

(* a double Put (the pre-fix gzip reader read twice after EOF) hands one object to two requests *)
Example C13_double_put_refuted :
  exists sched st ls,
    run (init (fun r => match r with 0 => [Get 3 0; Reset 0; Read 0; Put 3 0; Read 0; Put 3 0]
                                   | 1 | 2 => [Get 3 0; Reset 0; Read 0] | _ => [] end)) sched = Some (st, ls) /\
    ~ exclusive st.
Proof.
  exists (seq 0 6 None ++ [(1, Some 0); (2, Some 0)]).
  eexists. eexists. split; [vm_compute; reflexivity|].
  apply exclusive_b_false. vm_compute. reflexivity.
Qed.

(* retaining a pooled buffer (a reference kept in a struct field, HttpBody data not copied) is
   rejected; retaining the private copy is accepted *)
Example ex_retain : well_bracketed [Get 0 0; Reset 0; Write 0; Retain 0; Put 0 0] = false /\
                    well_bracketed [Get 0 0; Reset 0; Write 0; CopyOut 0 1; Retain 1; Put 0 0] = true /\
                    well_bracketed [Get 1 0; Write 0; Read 0; Put 1 0] = false.   (* no Reset after Get *)
Proof. vm_compute. repeat split; reflexivity. Qed.

(* the gzip reader model: three requests, reads after EOF, in an arbitrary order *)
Example ex_gzip_model :
  grun g_init [GOpen 0; GReadAll 0; GReadMore 0; GOpen 1; GOpen 2; GReadMore 0; GReadAll 2; GReadAll 1; GReadMore 1]
  = [GNone; GOwn; GEof; GNone; GNone; GEof; GOwn; GOwn; GEof].
Proof. vm_compute. reflexivity. Qed.

(* ---- the handler-return barrier of a stream (Model/Barrier.v) ----
   Every stream operation registers with a sync.WaitGroup and the serving function waits for the operations in flight
   before it returns; a goroutine the handler left behind (the proxy's pump) may call a stream method while the
   serving function is returning. An Add at counter zero concurrent with Wait is a misuse of the WaitGroup -- a data
   race on the serving path (found by the race stress in the pinned code, repaired: findings, C13). *)
From Larking Require Import Model.Barrier Proofs.BarrierProofs Gen.BarrierSkeleton.

(* under the guarded discipline (an operation registers under the mutex and is refused once closed; the serving function
   sets closed under the mutex before it waits) no schedule of operations, closes and waits misuses the WaitGroup *)
Theorem C13_barrier_never_misused : forall es,
  closes_before_wait false es = true -> misuse (brun true es) = false.
Proof. exact guarded_barrier_safe. Qed.
Print Assumptions C13_barrier_never_misused.

(* the source follows that discipline at every Add and every Wait of every WaitGroup-owning type
   (Gen/BarrierSkeleton.v is regenerated from larking/*.go on every run) *)
Theorem C13_barrier_source_is_guarded : forallb btype_ok barrier_types = true.
Proof. exact barrier_types_ok. Qed.
Print Assumptions C13_barrier_source_is_guarded.

(* the pinned discipline (Add at once, Wait at once) is misused on a three-event schedule: the handler has returned,
   the serving function waits, the pump enters its next RecvMsg *)
Theorem C13_pinned_barrier_refuted : exists es,
  closes_before_wait false es = true /\ misuse (brun false es) = true.
Proof. exact unguarded_barrier_refuted_even_with_close. Qed.
Print Assumptions C13_pinned_barrier_refuted.
