(* C10 -- Proxying through RegisterConn is transparent.
   Model: Model/Proxy.v (createConnHandler's unary and stream forwarders of larking/mux.go, as
   repaired: backend stream opened before the first message, CloseSend after the pump, no wait for
   the pump once the backend has finished, header/trailer metadata forwarded; client and backend
   as deterministic processes over FIFO channels with half-close marker and final status).
   A schedule is a list of process ids; a process that cannot move is skipped, so every
   interleaving of the four processes (client, backend, handler main loop, pump goroutine) is a
   schedule.  "Resting" (stuck_p / stuck_d) = no process can move: the call has ended or hangs. *)
From Larking Require Import Base.GoSem Model.Proxy Proofs.ProxyProofs.

(* for every script and every interleaving: a resting state of the proxied system has the
   transcript (backend: received messages, end-of-stream, request metadata; client: received
   messages, final code / message / details / header and trailer metadata, or "hangs") of every
   resting state of the direct two-process system *)
Theorem C10_transparent : forall sc (sp : list ppid) (sd : list dpid),
  stuck_p sc (run_p sc sp (init_p sc)) -> stuck_d sc (run_d sc sd (init_d sc)) ->
  transcript_p (run_p sc sp (init_p sc)) = transcript_d sc (run_d sc sd (init_d sc)).
Proof. exact transparent. Qed.
Print Assumptions C10_transparent.

(* stronger: up to the messages held in the handler's two buffers, it is the same state *)
Theorem C10_refinement : forall sc sp sd,
  stuck_p sc (run_p sc sp (init_p sc)) -> stuck_d sc (run_d sc sd (init_d sc)) ->
  abs (run_p sc sp (init_p sc)) = run_d sc sd (init_d sc).
Proof. exact proxy_refines_direct. Qed.
Print Assumptions C10_refinement.

(* every single step of the proxied system, from any reachable state, is a step of the direct
   system or moves a message inside the handler *)
Theorem C10_step_simulated : forall sc p s s', pinv sc s -> step_p sc p s = Some s' ->
  pinv sc s' /\ (abs s' = abs s \/ exists q, step_d sc q (abs s) = Some (abs s')).
Proof. exact sim_step. Qed.
Print Assumptions C10_step_simulated.

(* the reference itself is deterministic: all interleavings of client and backend rest in one state *)
Theorem C10_direct_confluent : forall sc sa sb,
  stuck_d sc (run_d sc sa (init_d sc)) -> stuck_d sc (run_d sc sb (init_d sc)) ->
  run_d sc sa (init_d sc) = run_d sc sb (init_d sc).
Proof. exact direct_confluent. Qed.
Print Assumptions C10_direct_confluent.

(* unary calls in closed form: whatever the interleaving, the backend receives exactly the request
   and the request metadata, the client the reply (if OK) and the backend's status and metadata *)
Theorem C10_unary_transparent : forall req x f reqmd cops sp,
  let sc := unary_script req x f reqmd cops in
  stuck_p sc (run_p sc sp (init_p sc)) ->
  transcript_p (run_p sc sp (init_p sc)) = Transcript [req] false reqmd (if ok f then [x] else []) (Some f).
Proof. exact unary_transparent. Qed.
Print Assumptions C10_unary_transparent.

(* no deadlock is added: when the proxied system cannot move, the direct system in the
   corresponding state cannot move either (P4: a missing CloseSend would leave the backend able to
   move in the direct system only) *)
Theorem C10_no_stuck : forall sc sp,
  stuck_p sc (run_p sc sp (init_p sc)) -> stuck_d sc (abs (run_p sc sp (init_p sc))).
Proof. exact no_stuck. Qed.
Print Assumptions C10_no_stuck.

(* ... hence a call that ends when made directly never hangs through the proxy *)
Theorem C10_no_hang_added : forall sc sp sd,
  stuck_p sc (run_p sc sp (init_p sc)) -> stuck_d sc (run_d sc sd (init_d sc)) ->
  cfin (dcl (run_d sc sd (init_d sc))) <> None -> cfin (pcl (run_p sc sp (init_p sc))) <> None.
Proof. exact no_hang_added. Qed.
Print Assumptions C10_no_hang_added.

(* every interleaving ends: no schedule makes more than measure(init) effective steps, and every
   schedule can be continued to a resting state (so the hypotheses above are met by every script) *)
Theorem C10_bounded : forall sc sched, exists n,
  steps (step_p sc) n (init_p sc) (run_p sc sched (init_p sc)) /\ n <= measure (init_p sc).
Proof. exact bounded_runs. Qed.
Print Assumptions C10_bounded.
Theorem C10_terminates : forall sc sched, exists more, stuck_p sc (run_p sc (sched ++ more) (init_p sc)).
Proof. exact terminates. Qed.
Print Assumptions C10_terminates.

(* ---- non-vacuity: concrete scripts, run to rest under two different schedules ---- *)
Definition okfin := Fin 0 [] [] [([120; 45; 104], [[49]])]%N [([120; 45; 116], [[50]])]%N.
Definition nofin := Fin 5 [110; 111]%N [1; 100]%N [] [([120; 45; 116], [[50]])]%N.
Definition rr := [PClient; PBackend; PMain; PPump].
Definition rev_rr := [PPump; PMain; PBackend; PClient].

(* P1: a client stream with no message: the backend sees end-of-stream and its reply arrives *)
Example zero_message_client_stream :
  let sc := Script Cs [] [CClose] [BDrain; BSend [98]%N] okfin [([120; 45; 97], [[118]])]%N in
  is_stuck_p sc (drive_p sc rr 20 (init_p sc)) = true /\
  is_stuck_p sc (drive_p sc rev_rr 20 (init_p sc)) = true /\
  transcript_p (drive_p sc rr 20 (init_p sc)) =
    Transcript [] true [([120; 45; 97], [[118]])]%N [[98]%N] (Some okfin) /\
  transcript_p (drive_p sc rev_rr 20 (init_p sc)) = transcript_p (drive_p sc rr 20 (init_p sc)).
Proof. vm_compute. repeat split. Qed.

(* P4 / failure after half-close: the backend reads to end-of-stream, then fails with details *)
Example fail_after_half_close :
  let sc := Script Bi [] [CSend [1]%N; CSend [2]%N; CClose] [BRecv; BSend [9]%N; BDrain] nofin [] in
  is_stuck_p sc (drive_p sc rr 30 (init_p sc)) = true /\
  transcript_p (drive_p sc rr 30 (init_p sc)) = Transcript [[1]; [2]]%N true [] [[9]%N] (Some nofin) /\
  transcript_p (drive_p sc rev_rr 30 (init_p sc)) = transcript_p (drive_p sc rr 30 (init_p sc)).
Proof. vm_compute. repeat split. Qed.

(* P2: the backend finishes OK while the client, which never half-closes, waits for a reply *)
Example early_ok_without_half_close :
  let sc := Script Bi [] [CSend [1]%N; CRecv; CRecv; CSend [2]%N] [BRecv; BSend [9]%N] okfin [] in
  is_stuck_p sc (drive_p sc rr 30 (init_p sc)) = true /\
  transcript_p (drive_p sc rr 30 (init_p sc)) = Transcript [[1]%N] false [] [[9]%N] (Some okfin) /\
  transcript_d sc (drive_d sc 30 (init_d sc)) = transcript_p (drive_p sc rr 30 (init_p sc)).
Proof. vm_compute. repeat split. Qed.

(* a script on which the direct call hangs (both sides wait): the proxied call hangs in the same way *)
Example deadlock_is_preserved :
  let sc := Script Bi [] [CRecv; CSend [1]%N] [BRecv; BSend [9]%N] okfin [] in
  is_stuck_d sc (drive_d sc 10 (init_d sc)) = true /\ is_stuck_p sc (drive_p sc rr 10 (init_p sc)) = true /\
  t_cfin (transcript_p (drive_p sc rr 10 (init_p sc))) = None /\
  transcript_d sc (drive_d sc 10 (init_d sc)) = transcript_p (drive_p sc rr 10 (init_p sc)).
Proof. vm_compute. repeat split. Qed.
