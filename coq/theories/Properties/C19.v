(* C19 -- Service-config rules bind exactly the selected methods.
   Model: Model/Selector.v (ruleSelector.setRules / getRules of larking/mux.go after the two fix:
   commits of this property, the service-config part of appendHandler, AddHealthz's selectors).
   Spec: Spec/SelectorSpec.v (covers: equal, "*", or p.* with "p." a prefix of the name).
   Rules are an arbitrary type R with a selector; strings are byte lists; select = setRules followed
   by getRules, the recursion on strings.Cut carried by fuel. *)
From Larking Require Import Base.GoSem Spec.SelectorSpec Model.Selector Proofs.SelectorProofs.
From Coq Require Import Permutation.

(* a rule is returned for a method name iff it was configured and its selector covers the name --
   for every rule list and every name (well-formed: no empty component, '*' only as last component) *)
Theorem C19_bind_iff : forall (R : Type) (sel : R -> str) (rs : list R) (name : str),
  (forall r, In r rs -> wf_sel (sel r) = true) -> wf_name name = true ->
  exists l, select sel rs name = Ok l /\ forall r, In r l <-> In r rs /\ covers (sel r) name.
Proof. exact bind_iff_thm. Qed.
Print Assumptions C19_bind_iff.

(* ... with multiplicity: the returned list is a permutation of the configured rules whose selector
   covers the name (a rule configured twice is returned twice, none is duplicated or lost) *)
Theorem C19_bind_multiplicity : forall (R : Type) (sel : R -> str) (rs : list R) (name : str),
  (forall r, In r rs -> wf_sel (sel r) = true) -> wf_name name = true ->
  exists l, select sel rs name = Ok l /\ Permutation l (filter (fun r => covers_b (sel r) name) rs).
Proof. exact bind_multiplicity_thm. Qed.
Print Assumptions C19_bind_multiplicity.

(* the decision procedure the harness runs is the declarative reading, on strings and on components *)
Theorem C19_covers_decided : forall sel name,
  (covers_b sel name = true <-> covers sel name) /\ (covers sel name <-> covers_cs (split sel) (split name)).
Proof. exact covers_decided_thm. Qed.
Print Assumptions C19_covers_decided.

(* the order in which bound rules are added: wildcards from the root down, then the exact selector,
   configuration order within one node *)
Theorem C19_bound_order : forall (R : Type) (sel : R -> str) (rs : list R) (name : str),
  (forall r, In r rs -> wf_sel (sel r) = true) -> wf_name name = true ->
  select sel rs name = Ok (spec_walk R sel rs [] (split name)).
Proof. exact select_order. Qed.
Print Assumptions C19_bound_order.

(* the negative direction spelled out (finding L1): a selector that is not a wildcard binds only the
   method it names -- never the methods below a package or service it names *)
Theorem C19_exact_binds_only_itself : forall (R : Type) (sel : R -> str) (rs : list R) (name : str) l r,
  (forall r, In r rs -> wf_sel (sel r) = true) -> wf_name name = true ->
  select sel rs name = Ok l -> In r l -> last (sel r) 0%N <> 42%N -> sel r = name.
Proof. exact exact_binds_only_itself_thm. Qed.
Print Assumptions C19_exact_binds_only_itself.

(* every input: setRules/getRules return or raise the explicit panic, never run out of fuel;
   the panic is raised iff some selector has a '*' component followed by more than a trailing dot *)
Theorem C19_total : forall (R : Type) (sel : R -> str) (rs : list R) (name : str),
  ((exists l, select sel rs name = Ok l) \/ select sel rs name = Panic PExplicit) /\
  (select sel rs name = Panic PExplicit <->
   exists r a b, In r rs /\ split (sel r) = a ++ star_c :: b /\ rest_nil b = false /\
                 Forall (fun c => is_nil c = false /\ bytes_eqb c star_c = false) a).
Proof. exact total_thm. Qed.
Print Assumptions C19_total.

(* every selector, well-formed or not: what setRules makes of it (norm: exact path / wildcard below a
   path, cut at the first empty component) decides which names it is returned for *)
Theorem C19_select_norm : forall (R : Type) (sel : R -> str) (rs : list R) (name : str),
  (forall r, In r rs -> norm (sel r) <> NPanic) -> wf_name name = true ->
  exists l, select sel rs name = Ok l /\
    Permutation l (filter (fun r => ncov_b (norm (sel r)) [] (split name)) rs) /\
    forall r, In r l <-> In r rs /\ ncov (norm (sel r)) (split name).
Proof. exact select_norm. Qed.
Print Assumptions C19_select_norm.

(* once bound, a config rule goes through the same addRule as an annotation: a configuration that
   binds exactly r to the method registers what the annotation r registers (any addRule, any state) *)
Theorem C19_same_as_annotation : forall (R : Type) (sel : R -> str) (St : Type) (add_rule : R -> St -> outcome St)
    (implicit r : R) rs name t s,
  set_rules sel rs = Ok t -> get_rules t name = Ok [r] ->
  append_handler add_rule implicit t name None s = append_handler add_rule implicit empty name (Some r) s.
Proof. exact append_same_as_annotation. Qed.
Print Assumptions C19_same_as_annotation.

(* AddHealthz: whatever other (well-formed) rules the configuration holds, its two rules are bound
   to exactly Health.Check and Health.Watch *)
Theorem C19_healthz : forall (R : Type) (sel : R -> str) (rs : list R) (hc hw : R) (name : str),
  sel hc = healthz_check -> sel hw = healthz_watch ->
  (forall r, In r rs -> wf_sel (sel r) = true) -> wf_name name = true ->
  exists l, select sel (rs ++ [hc; hw]) name = Ok l /\
    (In hc l <-> name = healthz_check) /\ (In hw l <-> name = healthz_watch).
Proof. exact healthz_thm. Qed.
Print Assumptions C19_healthz.

(* --- the hypotheses are satisfiable, the statements are not vacuous --- *)
Definition s_ (l : list nat) : str := map N.of_nat l.
(* "a.S.Me" "a.S" "a" "a.S.*" "a.*" "*" "a.S.Me.*" "ab.*" *)
Definition n_aSMe := s_ [97;46;83;46;77;101].
Definition ex_rules : list (nat * str) :=
  [(0, s_ [97;46;83]); (1, n_aSMe); (2, s_ [97]); (3, s_ [97;46;83;46;42]); (4, s_ [42]);
   (5, s_ [97;46;42]); (6, s_ [97;46;83;46;77;101;46;42]); (7, s_ [97;98;46;42]); (8, n_aSMe)].
Example C19_ex_wf : forallb (fun r => wf_sel (snd r)) ex_rules = true /\ wf_name n_aSMe = true /\
                    wf_name healthz_check = true /\ wf_sel healthz_watch = true.
Proof. repeat split; vm_compute; reflexivity. Qed.
(* bound to a.S.Me: "*", "a.*", "a.S.*", then the two exact rules in configuration order; not the
   package "a", not the service "a.S" (L1), not "a.S.Me.*" (a wildcard needs one more component) *)
Example C19_ex_select : option_map (map fst) (match select snd ex_rules n_aSMe with Ok l => Some l | _ => None end)
                        = Some [4; 5; 3; 1; 8].
Proof. vm_compute. reflexivity. Qed.
(* "*.x" panics; "a..S" is the exact selector "a"; "a.*." is "a.*" *)
Example C19_ex_malformed :
  select snd [(0, s_ [42;46;120])] n_aSMe = Panic PExplicit /\
  norm (s_ [97;46;46;83]) = NExact [s_ [97]] /\ norm (s_ [97;46;42;46]) = NWild [s_ [97]].
Proof. repeat split; vm_compute; reflexivity. Qed.
