(* C18 -- Interceptors and stats handlers see every RPC exactly once.
   Model: Model/Events.v (serveHTTP / serveGRPC / serveGRPCWeb, the RecvMsg / SendMsg / SendHeader of
   streamHTTP and streamGRPC, the unary and stream handler wrappers of handler.go with the nil-safe
   interceptor call, stats.go), for the tree after the C18 fix commits. `serve false` is that code;
   `serve true` re-enables the pre-fix slicing of the gRPC stats path (finding F6).
   Spec: Spec/EventsSpec.v (event vocabulary, automaton, trace_ok, calls_ok).
   A scenario = protocol x method shape x request messages (payload, oracle "unmarshals") x
   HTTP rule with / without body x handler script (Recv / Send / SendHeader / cancel, final status)
   x interceptor behaviour x options on / off. All theorems quantify over every scenario. *)
From Larking Require Import Base.GoSem Spec.EventsSpec Model.Events Proofs.EventsProofs Proofs.EventsReplyProofs.

(* The fixed code never panics in the modelled paths (the only Panic left in `serve false` is
   SendMsg(nil), reached when an interceptor returns (nil, nil) for a unary method). *)
Theorem C18_no_crash : forall sc,
  imode_ok (is_unary (s_hs sc)) (eff_mode sc) -> exists r, serve false sc = Ok r.
Proof. exact serve_total. Qed.
Print Assumptions C18_no_crash.

(* Exactly one interceptor call, with the full method name and the streaming flags, and what the
   interceptor returns is what the client gets.
   - a stream handler always reaches the interceptor; the client's status is the code it returned;
   - a unary handler reaches it iff the request message could be received (as in grpc-go, the
     generated code decodes before it calls the interceptor); a non-OK code it returns is the
     client's status and no message is sent; OK means the client gets exactly the message the
     interceptor returned -- reply_of: its own message in the modes IReplace m / IAnswer m, the
     handler's reply otherwise (on gRPC provided the handler did not cancel the call meanwhile; an
     interceptor that answers without calling the handler needs no such condition);
   - never more than one call.
   The statement covers all five interceptor modes. *)
Theorem C18_once : forall sc r,
  serve false sc = Ok r -> s_routed sc = true -> s_icpt sc = true ->
  (r_iret r <> None -> calls_ok (is_unary (s_hs sc)) (s_name sc) (s_cs sc) (s_ss sc) (r_calls r) = true) /\
  (r_iret r = None -> r_calls r = []) /\
  (is_unary (s_hs sc) = false -> exists k, r_iret r = Some k /\ r_status r = Some k) /\
  (forall pre reply final, s_hs sc = HUnary pre reply final ->
     (first_ok sc = false -> r_iret r = None /\ r_replies r = []) /\
     (first_ok sc = true -> exists k, r_iret r = Some k /\
        (k <> 0 -> r_status r = Some k /\ r_replies r = []) /\
        (k = 0 -> s_proto sc = PHttp \/ no_cancel pre = true \/ (exists m, s_imode sc = IAnswer m) ->
         r_status r = Some 0 /\ r_replies r = [reply_of (s_imode sc) reply]))).
Proof. exact once. Qed.
Print Assumptions C18_once.

(* What the interceptor returns is what the client gets, for an interceptor that returns a message
   of its own with a nil error: on every protocol (s_proto is not constrained) the client receives
   exactly [m] with status OK, and the interceptor was called exactly once, as a unary interceptor
   with the method's full name.
   - IAnswer m (the handler is not called): no further hypothesis;
   - IReplace m (the handler is called, its reply replaced): the handler must succeed -- said through
     the same RPC with a pass-through interceptor, whose interceptor layer returns nil -- and, as for
     the handler's own reply in C18_once, on gRPC it must not have cancelled the call (SendMsg then
     answers Canceled whatever the message). *)
Theorem C18_interceptor_reply_is_delivered : forall sc r pre reply final m,
  serve false sc = Ok r -> s_routed sc = true -> s_icpt sc = true ->
  s_hs sc = HUnary pre reply final -> first_ok sc = true ->
  (s_imode sc = IAnswer m \/
   (s_imode sc = IReplace m /\
    (exists r0, serve false (set_imode IPass sc) = Ok r0 /\ r_iret r0 = Some 0) /\
    (s_proto sc = PHttp \/ no_cancel pre = true))) ->
  r_replies r = [m] /\ r_status r = Some 0 /\ r_iret r = Some 0 /\
  r_calls r = [IUnary (s_name sc)] /\
  calls_ok true (s_name sc) (s_cs sc) (s_ss sc) (r_calls r) = true.
Proof. exact interceptor_reply_is_delivered. Qed.
Print Assumptions C18_interceptor_reply_is_delivered.

(* the same for a handler given syntactically: it neither cancels nor sends the header (Recv / Send
   do nothing in a unary handler) and ends with OK *)
Theorem C18_replace_delivered_plain : forall sc r pre reply final m,
  serve false sc = Ok r -> s_routed sc = true -> s_icpt sc = true -> s_imode sc = IReplace m ->
  s_hs sc = HUnary pre reply final -> first_ok sc = true ->
  filter unary_act pre = [] -> final = 0 ->
  r_replies r = [m] /\ r_status r = Some 0 /\ r_iret r = Some 0 /\ r_calls r = [IUnary (s_name sc)].
Proof. exact replace_delivered_plain. Qed.
Print Assumptions C18_replace_delivered_plain.

(* IReplace m returns the handler's error unchanged: against the same RPC with a pass-through
   interceptor the interceptor's return code, the client's status, the handler's view and the
   interceptor calls are the same, and m stands wherever the handler's reply would have been sent *)
Theorem C18_replace_follows_handler : forall sc m pre reply final,
  eff_mode sc = IReplace m -> s_hs sc = HUnary pre reply final ->
  exists r r0, serve false sc = Ok r /\ serve false (set_imode IPass sc) = Ok r0 /\
    r_iret r = r_iret r0 /\ r_status r = r_status r0 /\ r_herr r = r_herr r0 /\
    r_hlog r = r_hlog r0 /\ r_dlv r = r_dlv r0 /\ r_calls r = r_calls r0 /\
    r_replies r = map (fun _ => m) (r_replies r0) /\
    (r_replies r0 = [] \/ r_replies r0 = [reply]).
Proof. exact replace_follows_handler. Qed.
Print Assumptions C18_replace_follows_handler.

(* IAnswer m: the handler is not called. Its script plays no part in the result -- any other unary
   script gives the same calls, events, replies, status and handler-side log -- and the log holds
   the decode's RecvMsg and nothing else. *)
Theorem C18_answer_skips_handler : forall sc m pre reply final,
  s_icpt sc = true -> s_imode sc = IAnswer m -> s_hs sc = HUnary pre reply final ->
  (forall pre' reply' final', serve false (set_hs (HUnary pre' reply' final') sc) = serve false sc) /\
  (forall r, serve false sc = Ok r -> s_routed sc = true -> first_ok sc = true ->
     r_hlog r = [ROk] /\ r_iret r = Some 0 /\ r_status r = Some 0 /\ r_replies r = [m]).
Proof. exact answer_skips_handler. Qed.
Print Assumptions C18_answer_skips_handler.

(* The stats trace: accepted by Tag.InHeader.Begin.InPayload*.(OutHeader.(InPayload|OutPayload)* )?.OutTrailer?.End,
   Tag / InHeader carry the method name and Begin its flags, exactly one InPayload (Length n,
   WireLength n+5) per message delivered to the handler, exactly one OutPayload per message the
   client receives, End exactly once, last, carrying the handler's error -- which is also the status
   the client sees. By induction over the handler's script (run_acts_good). *)
Theorem C18_trace_wf : forall sc r,
  serve false sc = Ok r -> s_routed sc = true -> s_stats sc = true ->
  trace_ok (s_name sc) (s_cs sc) (s_ss sc) (map (@length N) (r_dlv r)) (map (@length N) (r_replies r)) (r_herr r) (r_events r) = true
  /\ r_status r = Some (r_herr r).
Proof. exact trace_wf. Qed.
Print Assumptions C18_trace_wf.

(* nothing is reported for a request that matches no handler, nor through options not installed *)
Theorem C18_silent : forall sc r,
  serve false sc = Ok r ->
  (s_routed sc = false -> r_calls r = [] /\ r_events r = [] /\ r_replies r = []) /\
  (s_stats sc = false -> r_events r = []) /\
  (s_icpt sc = false -> r_calls r = []).
Proof. exact silent. Qed.
Print Assumptions C18_silent.

(* Installing a stats handler and pass-through interceptors changes neither what the client sees
   (messages, status) nor what the handler sees (operation results, delivered messages). *)
Theorem C18_transparent : forall sc,
  eff_mode sc = IPass ->
  exists r r0, serve false sc = Ok r /\ serve false (plain sc) = Ok r0 /\
    client_view r = client_view r0 /\ r_hlog r = r_hlog r0 /\ r_dlv r = r_dlv r0 /\ r_herr r = r_herr r0.
Proof. exact transparent. Qed.
Print Assumptions C18_transparent.

(* ---- non-vacuity ---- *)

Definition nm : mname := map N.of_nat [47; 115; 47; 109].            (* "/s/m" *)
Definition m3 : bytes := [18; 1; 97]%N.                               (* text: "a" *)
Definition m7 : bytes := [18; 5; 97; 98; 99; 100; 101]%N.

(* a bidi call on gRPC: two request messages (7 and 0 bytes), the handler echoes and ends with code 5 *)
Definition ex_bidi : scenario :=
  mkScenario PGrpc true true nm true true [(m7, true); ([], true)]
    (HStream [ARecv; ASend m7; ARecv; ASend []; ARecv; AHeader] 5) IPass true true.

Example ex_bidi_runs :
  exists r, serve false ex_bidi = Ok r /\
    r_calls r = [IStream nm true true] /\
    r_events r = [ETag nm; EInHeader nm; EBegin true true; EInPayload 7 12; EOutHeader; EOutPayload 7 12;
                  EInPayload 0 5; EOutPayload 0 5; EOutTrailer; EEnd 2] /\
    r_hlog r = [ROk; ROk; ROk; ROk; REof; RErr 2] /\
    client_view r = ([m7; []], Some 2).
Proof. eexists. split; [vm_compute; reflexivity|]. repeat split. Qed.

(* a unary call transcoded from a GET: no body, the message still counts (finding E4) *)
Definition ex_get : scenario :=
  mkScenario PHttp false false nm true false [] (HUnary [AHeader] m3 0) IPass true true.
Example ex_get_runs :
  exists r, serve false ex_get = Ok r /\
    r_events r = [ETag nm; EInHeader nm; EBegin false false; EInPayload 0 5; EOutHeader; EOutPayload 3 8; EOutTrailer; EEnd 0] /\
    r_calls r = [IUnary nm] /\ client_view r = ([m3], Some 0) /\
    first_ok ex_get = true /\ imode_ok true (eff_mode ex_get).
Proof. eexists. split; [vm_compute; reflexivity|]. repeat split. Qed.

(* cancellation while the handler runs: the status still reaches the client and End is emitted (E5) *)
Definition ex_cancel : scenario :=
  mkScenario PGrpc true false nm true true [(m3, true)] (HStream [ARecv; ACancel; ASend m3] 0) IPass false true.
Example ex_cancel_runs :
  exists r, serve false ex_cancel = Ok r /\
    r_events r = [ETag nm; EInHeader nm; EBegin true false; EInPayload 3 8; EOutHeader; EOutTrailer; EEnd 1] /\
    client_view r = ([], Some 1).
Proof. eexists. split; [vm_compute; reflexivity|]. repeat split. Qed.

(* an interceptor that overrides the handler's result *)
Definition ex_override : scenario :=
  mkScenario PWeb false true nm true true [(m3, true)] (HStream [ARecv; ASend m7] 0) (IOverride 7) true true.
Example ex_override_runs :
  exists r, serve false ex_override = Ok r /\ r_iret r = Some 7 /\ client_view r = ([m7], Some 7) /\
    end_codes (r_events r) = [7].
Proof. eexists. split; [vm_compute; reflexivity|]. repeat split. Qed.

(* interceptors that answer with their own message m7 although the handler would reply m3 *)
Definition ex_replace (p : protocol) : scenario :=
  mkScenario p false false nm true true [(m3, true)] (HUnary [AHeader] m3 0) (IReplace m7) true true.
Example ex_replace_http :
  exists r, serve false (ex_replace PHttp) = Ok r /\
    r_calls r = [IUnary nm] /\ r_iret r = Some 0 /\ client_view r = ([m7], Some 0) /\ r_hlog r = [ROk; ROk] /\
    r_events r = [ETag nm; EInHeader nm; EBegin false false; EInPayload 3 8; EOutHeader; EOutPayload 7 12; EOutTrailer; EEnd 0].
Proof. eexists. split; [vm_compute; reflexivity|]. repeat split. Qed.
Example ex_replace_grpc :
  exists r, serve false (ex_replace PGrpc) = Ok r /\
    r_calls r = [IUnary nm] /\ r_iret r = Some 0 /\ client_view r = ([m7], Some 0) /\ r_hlog r = [ROk; ROk] /\
    r_events r = [ETag nm; EInHeader nm; EBegin false false; EInPayload 3 8; EOutHeader; EOutPayload 7 12; EOutTrailer; EEnd 0].
Proof. eexists. split; [vm_compute; reflexivity|]. repeat split. Qed.
(* the handler fails: its error passes through, nothing is sent *)
Example ex_replace_handler_fails :
  exists r, serve false (mkScenario PGrpc false false nm true true [(m3, true)] (HUnary [] m3 9) (IReplace m7) true true) = Ok r /\
    r_calls r = [IUnary nm] /\ r_iret r = Some 9 /\ client_view r = ([], Some 9).
Proof. eexists. split; [vm_compute; reflexivity|]. repeat split. Qed.

(* the handler would send the header, cancel and fail: none of it happens *)
Definition ex_answer (p : protocol) : scenario :=
  mkScenario p false false nm true true [(m3, true)] (HUnary [AHeader; ACancel] m3 9) (IAnswer m7) true true.
Example ex_answer_http :
  exists r, serve false (ex_answer PHttp) = Ok r /\
    r_calls r = [IUnary nm] /\ r_iret r = Some 0 /\ client_view r = ([m7], Some 0) /\ r_hlog r = [ROk] /\
    r_events r = [ETag nm; EInHeader nm; EBegin false false; EInPayload 3 8; EOutHeader; EOutPayload 7 12; EOutTrailer; EEnd 0].
Proof. eexists. split; [vm_compute; reflexivity|]. repeat split. Qed.
Example ex_answer_grpc :
  exists r, serve false (ex_answer PGrpc) = Ok r /\
    r_calls r = [IUnary nm] /\ r_iret r = Some 0 /\ client_view r = ([m7], Some 0) /\ r_hlog r = [ROk] /\
    r_events r = [ETag nm; EInHeader nm; EBegin false false; EInPayload 3 8; EOutHeader; EOutPayload 7 12; EOutTrailer; EEnd 0].
Proof. eexists. split; [vm_compute; reflexivity|]. repeat split. Qed.
(* on a stream method the two modes pass through *)
Example ex_answer_stream :
  exists r, serve false (mkScenario PGrpc false true nm true true [(m3, true)] (HStream [ARecv; ASend m3] 0) (IAnswer m7) true true) = Ok r /\
    r_calls r = [IStream nm false true] /\ client_view r = ([m3], Some 0).
Proof. eexists. split; [vm_compute; reflexivity|]. repeat split. Qed.

(* ---- finding F6: the pre-fix gRPC stats path, kept as `serve true` ---- *)

Definition ex_small : scenario :=
  mkScenario PGrpc false false nm true true [(m3, true)] (HUnary [] m3 0) IPass false true.

(* a 3-byte request with a stats handler installed: b[headerLen:] panics ... *)
Example F6_legacy_panics : serve true ex_small = Panic PSlice.
Proof. vm_compute. reflexivity. Qed.
(* ... although the same call without the stats handler succeeds: the option was not transparent *)
Example F6_legacy_not_transparent :
  exists r0, serve true (plain ex_small) = Ok r0 /\ client_view r0 = ([m3], Some 0).
Proof. eexists. split; [vm_compute; reflexivity|]. reflexivity. Qed.
(* ... and a 7-byte request is reported with Length 2 *)
Example F6_legacy_wrong_length :
  exists r, serve true (mkScenario PGrpc false false nm true true [(m7, true)] (HUnary [] m3 0) IPass false true) = Ok r /\
    in_payloads (r_events r) = [(2, 7)].
Proof. eexists. split; [vm_compute; reflexivity|]. reflexivity. Qed.

(* an interceptor returning (nil, nil) for a unary method is outside the hypothesis of C18_no_crash:
   larking then calls SendMsg(nil) *)
Example nil_reply_panics :
  serve false (mkScenario PHttp false false nm true true [(m3, true)] (HUnary [] m3 0) (IReject 0) true true) = Panic PNil.
Proof. vm_compute. reflexivity. Qed.
