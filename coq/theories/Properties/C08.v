(* C08 -- Message size limits hold on every protocol.
   Model: Model/Limits.v (readAll / writeAll of mux.go, the limit tests of the three stream codecs,
   streamGRPC.RecvMsg / SendMsg also used by gRPC-web, streamWS.RecvMsg / SendMsg, streamHTTP.writeMsg),
   meaning: Spec/SizeLimit.v. Limits are positive Go ints (64-bit). A wire message carries its
   declared length (any value its prefix field can hold), the bytes really present, what gzip
   makes of them (any expansion) and whether they unmarshal, independently of each other.
   "Err ETooLarge" is the size class of refusals. *)
From Larking Require Import Base.GoSem Base.Reader Base.Varint Spec.Frames Spec.SizeLimit
  Model.Codec Model.Limits Proofs.CodecProofs Proofs.LimitsProofs.
Local Open Scope Z_scope.

(* Receive, every path p (HTTP unary under any read schedule, HTTP JSON / protobuf streams, gRPC and
   gRPC-web with or without a negotiated compressor, WebSocket): whatever is handed to the handler
   is the message on the wire, complete and decodable, and its encoded size after decompression is
   within the receive limit. *)
Theorem C08_never_over : forall p c w n, wf_cfg c -> wf_wire p w ->
  recv p c w = Ok n -> n = msg_size p w /\ decodable p w = true /\ n <= maxRecv c.
Proof. exact recv_ok_sound. Qed.
Print Assumptions C08_never_over.

(* ... and no message whose size (after decompression) and frame are within the limit is refused
   on size grounds, whatever else is wrong with it; exactly at the limit included. *)
Theorem C08_never_under_refused : forall p c w, wf_cfg c -> wf_wire p w ->
  msg_size p w <= maxRecv c -> wire_len p w <= maxRecv c -> recv p c w <> Err ETooLarge.
Proof. exact recv_not_size_refused. Qed.
Print Assumptions C08_never_under_refused.

(* A complete decodable message within the limit is delivered, at its size ... *)
Theorem C08_within_delivered : forall p c w, wf_cfg c -> wf_wire p w ->
  decodable p w = true -> msg_size p w <= maxRecv c -> wire_len p w <= maxRecv c ->
  recv p c w = Ok (msg_size p w).
Proof. exact recv_complete. Qed.
Print Assumptions C08_within_delivered.

(* ... and one over the limit fails with the size error -- also when only its decompressed size is
   over the limit (a 1 MiB message in a 1 KiB frame), and for every length prefix up to 2^64-1. *)
Theorem C08_over_refused : forall p c w, wf_cfg c -> wf_wire p w ->
  decodable p w = true -> maxRecv c < msg_size p w -> recv p c w = Err ETooLarge.
Proof. exact recv_over_refused. Qed.
Print Assumptions C08_over_refused.

(* The unary HTTP gate does not depend on how the body arrives. *)
Theorem C08_read_all_schedule_free : forall limit r1 r2,
  0 <= limit -> Forall (fun n => 0 <= n) r1 -> Forall (fun n => 0 <= n) r2 -> sum r1 = sum r2 ->
  read_all limit 0 r1 = read_all limit 0 r2.
Proof. exact read_all_schedule_free. Qed.
Print Assumptions C08_read_all_schedule_free.

(* HttpBody uploads of any length arrive as chunks of 1..limit bytes that add up to the upload:
   never over, and never refused. *)
Theorem C08_body_chunks : forall fuel limit total, 1 <= limit -> total < Z.of_nat fuel ->
  Forall (fun n => 1 <= n <= limit) (body_chunks fuel limit total) /\
  sum (body_chunks fuel limit total) = Z.max 0 total.
Proof. exact body_chunks_spec. Qed.
Print Assumptions C08_body_chunks.

(* A whole call (the handler takes messages until the first error) passes the executable
   specification predicate that the harness evaluates on the implementation's observations. *)
Theorem C08_recv_call_meets_spec : forall p c, wf_cfg c -> forall ws, Forall (wf_wire p) ws ->
  recv_ok (maxRecv c) (map (sent_of p) ws) (fst (recv_run p c ws))
          (match snd (recv_run p c ws) with EndOk => true | _ => false end) = true.
Proof. exact recv_run_meets_spec. Qed.
Print Assumptions C08_recv_call_meets_spec.

(* Send, every path (HTTP unary, HTTP server streams, gRPC, gRPC-web, WebSocket): a reply that is
   written has exactly its size on the wire and is within the send limit; *)
Theorem C08_send_never_over : forall p c size n, wf_cfg c -> 0 <= size ->
  send p c size = Ok n -> n = size /\ size <= maxSend c.
Proof. exact send_ok_sound. Qed.
Print Assumptions C08_send_never_over.

(* a reply within the send limit (and within what a frame header can express) is never refused on
   size grounds -- whatever the receive limit is -- and is written; one over the limit is refused. *)
Theorem C08_send_never_under_refused : forall p c size,
  0 <= size -> size <= maxSend c -> size < 2 ^ 32 -> send p c size <> Err ETooLarge.
Proof. exact send_not_size_refused. Qed.
Print Assumptions C08_send_never_under_refused.
Theorem C08_send_within_written : forall p c size, wf_cfg c ->
  0 <= size -> size <= maxSend c -> size < 2 ^ 32 -> send p c size = Ok size.
Proof. exact send_complete. Qed.
Print Assumptions C08_send_within_written.
Theorem C08_send_over_refused : forall p c size, maxSend c < size -> send p c size = Err ETooLarge.
Proof. exact send_over_refused. Qed.
Print Assumptions C08_send_over_refused.

Theorem C08_send_call_meets_spec : forall p c, wf_cfg c -> forall sizes, Forall (fun s => 0 <= s) sizes ->
  (match p with SGrpc | SGrpcWeb => maxSend c < 2 ^ 32 | _ => True end) ->
  let '(res, arr) := send_run p c sizes in
  send_ok (maxSend c) (firstn (length res) sizes) res arr = true.
Proof. exact send_run_meets_spec. Qed.
Print Assumptions C08_send_call_meets_spec.

(* The stream codecs at byte level (the model of C17: every carried-over buffer, every remaining
   input, every schedule of read sizes): a message returned by ReadNext is within the limit, and a
   message that fits the limit is returned, not refused. *)
Theorem C08_codec_never_over : forall c b s limit dst n s',
  (0 < limit)%nat -> (N.of_nat limit < 2 ^ 63)%N ->
  read_next c b s limit = RRet dst n None s' -> (n <= limit)%nat.
Proof. exact codec_never_over. Qed.
Print Assumptions C08_codec_never_over.
Theorem C08_codec_never_under_refused : forall c b s limit m R,
  (0 < limit)%nat -> (N.of_nat limit < 2 ^ 63)%N -> fits c limit m -> b ++ rem s = write_next c m ++ R ->
  exists dst n s', read_next c b s limit = RRet dst n None s' /\ firstn n dst = m.
Proof. exact codec_delivers_fitting. Qed.
Print Assumptions C08_codec_never_under_refused.

(* ---- non-vacuity and the shapes the defects had ---- *)
Definition cfg128 := Cfg 128 130.
Example cfg128_wf : wf_cfg cfg128. Proof. unfold wf_cfg, cfg128; cbn; lia. Qed.
(* a 1 MiB message in a 1062-byte gzip frame under a 4096-byte limit: the frame passes the prefix
   test, the message is refused after decompression (before the fix it was delivered) *)
Example bomb : wf_wire (RGrpc true) (Wire 1062 true 1062 (Some 1048576) true) /\
  recv (RGrpc true) (Cfg 4096 64) (Wire 1062 true 1062 (Some 1048576) true) = Err ETooLarge.
Proof. split; [unfold wf_wire; cbn; repeat split; lia|reflexivity]. Qed.
Example at_the_limit :
  recv (RGrpc true) cfg128 (Wire 29 true 29 (Some 128) true) = Ok 128 /\
  recv (RGrpc true) cfg128 (Wire 29 true 29 (Some 129) true) = Err ETooLarge /\
  recv RWebSocket cfg128 (Wire 0 false 128 None true) = Ok 128 /\
  recv RWebSocket cfg128 (Wire 0 false 129 None true) = Err ETooLarge /\
  recv (RHttpUnary [100; 28]) cfg128 (Wire 0 false 128 None true) = Ok 128 /\
  recv (RHttpUnary [100; 28; 1]) cfg128 (Wire 0 false 129 None true) = Err ETooLarge /\
  recv RHttpProto cfg128 (Wire (2 ^ 64 - 1) false 3 None true) = Err ETooLarge /\
  recv RHttpProto cfg128 (Wire (2 ^ 63) false 3 None true) = Err ETooLarge /\
  recv (RGrpc false) cfg128 (Wire (2 ^ 32 - 1) false 3 None true) = Err ETooLarge /\
  recv RHttpJSON cfg128 (Wire 128 false 128 None true) = Ok 128 /\
  recv RHttpJSON cfg128 (Wire 129 false 200 None true) = Err ETooLarge.
Proof. repeat split; reflexivity. Qed.
(* the send gate looks at the send limit only: a reply of 130 bytes passes with a receive limit of 128 *)
Example send_uses_send_limit :
  send SGrpc cfg128 130 = Ok 130 /\ send SGrpc cfg128 131 = Err ETooLarge /\
  send SHttpStream cfg128 131 = Err ETooLarge /\ send SWebSocket cfg128 131 = Err ETooLarge /\
  send SGrpc (Cfg 1 (2 ^ 62)) (2 ^ 32 + 3) = Err ETooLarge.
Proof. repeat split; reflexivity. Qed.
Example call_instance :
  recv_run (RGrpc true) cfg128 [Wire 29 true 29 (Some 64) true; Wire 29 true 29 (Some 129) true; Wire 29 true 29 (Some 64) true]
  = ([64], EndSize) /\
  send_run SGrpcWeb cfg128 [64; 130; 64; 131; 64] = ([true; true; true; false], [64; 130; 64]) /\
  body_chunks 10 128 300 = [128; 128; 44].
Proof. repeat split; reflexivity. Qed.
