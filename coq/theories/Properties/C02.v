(* C02 -- Routing completeness, literal-over-wildcard precedence, order independence.
   Same model and specification as C01. Domain of completeness, as the property states it: the
   path is lexed (documented path characters, at most 64 tokens), every capture converts
   (okconv constantly true: e.g. string fields), and the covering is the specification's MatchEdges
   (so "**" ends the template: the lexer enforces it, Properties/C16).
   Order independence: if a list of pairwise distinct bindings is accepted in one registration order
   it is accepted in every order (C02_acceptance_order_independent), and two orders route every request
   identically (C02_order_independent) -- through an exact characterisation of a built trie's content
   by the list of registered bindings. *)
From Larking Require Import Base.GoSem Model.Lexer Model.Trie Model.Match Spec.Grammar Spec.Route
  Spec.Template
  Proofs.LexerProofs Proofs.MatchProofs Proofs.TrieProofs Proofs.RoutingProofs Proofs.OrderProofs Proofs.AcceptProofs
  Proofs.TemplateInstProofs Proofs.LeastProofs.
From Coq Require Import Permutation.
Local Open Scope N_scope.

(* completeness: a registered binding whose verb covers the request and whose template covers the
   path is served -- never 404/405 *)
Theorem C02_complete :
  forall isLetter isNumber resolves okconv, Sane isLetter isNumber -> (forall fp t, okconv fp t = true) ->
  forall L root verb p mid b es vfs toks caps,
  Inv isLetter isNumber resolves L root -> In (mid, b) L -> covers_verb (b_verb b) verb ->
  compiled isLetter isNumber resolves mid b es vfs ->
  lex_path isLetter isNumber (normalise p) = Ok toks -> MatchEdges es toks caps ->
  exists r, route okconv isLetter isNumber root verb p = Ok r.
Proof. exact dispatch_complete. Qed.
Print Assumptions C02_complete.

(* completeness read at the level of text, with the property's own premises: the request path is an
   instance (Spec/Template.v: pieces between "/" made of the documented path characters, lined up with
   the template's segments) of a registered binding's template, it is within larking's limit of 64
   path tokens, and captures convert -- then the request is served *)
Theorem C02_complete_text :
  forall isLetter isNumber resolves okconv, Sane isLetter isNumber -> (forall fp t, okconv fp t = true) ->
  forall L root verb p mid b es vfs t cs,
  Inv isLetter isNumber resolves L root -> In (mid, b) L -> covers_verb (b_verb b) verb ->
  compiled isLetter isNumber resolves mid b es vfs ->
  parse_tmpl isLetter isNumber (b_tmpl b) = Some t ->
  inst isLetter isNumber true t p = Some cs ->
  (path_tokens (normalise p) <= 64)%nat ->
  exists r, route okconv isLetter isNumber root verb p = Ok r.
Proof. exact oracle_match_is_served_bounded. Qed.
Print Assumptions C02_complete_text.

(* ... and by a method that owns a rule covering the request (C01 applied to the answer) *)
Theorem C02_complete_to_owner :
  forall isLetter isNumber resolves okconv, Sane isLetter isNumber -> (forall fp t, okconv fp t = true) ->
  forall L root verb p mid b es vfs toks caps,
  Inv isLetter isNumber resolves L root -> In (mid, b) L -> covers_verb (b_verb b) verb ->
  compiled isLetter isNumber resolves mid b es vfs ->
  lex_path isLetter isNumber (normalise p) = Ok toks -> MatchEdges es toks caps ->
  exists m caps' mid' b' es',
    route okconv isLetter isNumber root verb p = Ok (m, caps') /\
    In (mid', b') L /\ m_id m = mid' /\ covers_verb (b_verb b') verb /\
    compiled isLetter isNumber resolves mid' b' es' (m_vars m) /\ MatchEdges es' toks caps'.
Proof.
  intros isLetter isNumber resolves okconv sane conv L root verb p mid b es vfs toks caps HI Hin Hcov Hc El HM.
  destruct (dispatch_complete isLetter isNumber resolves okconv sane conv L root verb p mid b es vfs toks caps HI Hin Hcov Hc El HM) as [[m caps'] Hr].
  destruct (dispatch_sound isLetter isNumber resolves okconv sane L root verb p m caps' HI Hr) as (mid' & b' & es' & toks' & A & B & C & D & E & F & G).
  rewrite El in F. inversion F; subst toks'. exists m, caps', mid', b', es'. auto 10.
Qed.
Print Assumptions C02_complete_to_owner.

(* literal over wildcard: where a literal edge spells the next separator and text and the rest of the
   path is served below it, that is the answer -- whatever variables the node also has *)
Theorem C02_literal_over_wildcard : forall okconv fuel verb nd t0 t1 rest nxt r,
  assoc (tval t0 ++ tval t1) (n_segs nd) = Some nxt ->
  search okconv fuel verb nxt rest = Ok r ->
  search okconv (S fuel) verb nd (t0 :: t1 :: rest) = Ok r.
Proof. exact search_literal_first. Qed.
Print Assumptions C02_literal_over_wildcard.

(* the variables of a node are tried in an order that does not depend on the order of insertion:
   sorted by the text of their pattern (and there is one per pattern text) *)
Theorem C02_variables_sorted : forall isLetter isNumber resolves L root es nd,
  Inv isLetter isNumber resolves L root -> Reach root es nd -> names_sorted (n_vars nd).
Proof.
  intros isLetter isNumber resolves L root es nd HI HR.
  destruct (Reach_walk (PatG isLetter isNumber) _ _ _ HR 0%nat (inv_wf _ _ _ _ _ HI)) as (_ & W & _).
  inversion W; subst. assumption.
Qed.
Print Assumptions C02_variables_sorted.

(* the search is total on every trie registration can build: never a panic, never out of fuel *)
Theorem C02_route_total : forall isLetter isNumber resolves okconv L root verb p,
  Inv isLetter isNumber resolves L root -> MatchProofs.benign (route okconv isLetter isNumber root verb p).
Proof. intros isLetter isNumber resolves okconv L root verb p HI. eapply route_total; eauto. Qed.
Print Assumptions C02_route_total.

(* order independence: register the same bindings (no two different ones at the same node under the
   same verb) in two orders; if both orders are accepted, every request -- any verb, any path -- gets
   the same answer: same binding, same captures, or the same refusal *)
Theorem C02_order_independent :
  forall isLetter isNumber resolves body_ok resp_ok okconv, Sane isLetter isNumber ->
  forall l1 l2 r1 r2,
  Permutation l1 l2 -> Distinct isLetter isNumber resolves l1 ->
  build_from isLetter isNumber resolves body_ok resp_ok empty_node l1 = Ok r1 ->
  build_from isLetter isNumber resolves body_ok resp_ok empty_node l2 = Ok r2 ->
  forall verb p, route okconv isLetter isNumber r1 verb p = route okconv isLetter isNumber r2 verb p.
Proof. intros isLetter isNumber resolves body_ok resp_ok okconv. exact (order_independent isLetter isNumber resolves body_ok resp_ok okconv). Qed.
Print Assumptions C02_order_independent.

(* ... and whether a rule set is accepted does not depend on the order either: conflicts are detected
   symmetrically (every accepted binding met no other method's binding under an overlapping verb, in
   whichever order they came), the other causes of refusal concern one binding alone *)
Theorem C02_acceptance_order_independent :
  forall isLetter isNumber resolves body_ok resp_ok l1 l2 r1,
  Permutation l1 l2 -> NoDup l1 -> Distinct isLetter isNumber resolves l1 ->
  build_from isLetter isNumber resolves body_ok resp_ok empty_node l1 = Ok r1 ->
  exists r2, build_from isLetter isNumber resolves body_ok resp_ok empty_node l2 = Ok r2.
Proof. exact accept_perm. Qed.
Print Assumptions C02_acceptance_order_independent.

(* the content of a built trie is exactly the registered bindings: which nodes exist, and what is
   stored at each, is a function of the set of bindings, not of their order *)
Theorem C02_content_exact : forall isLetter isNumber resolves body_ok resp_ok l r, Distinct isLetter isNumber resolves (rev l ++ []) ->
  build_from isLetter isNumber resolves body_ok resp_ok empty_node l = Ok r ->
  InvX isLetter isNumber resolves (rev l ++ []) r.
Proof.
  intros isLetter isNumber resolves body_ok resp_ok l r HD HB.
  exact (build_InvX isLetter isNumber resolves body_ok resp_ok l [] empty_node r (InvX_empty isLetter isNumber resolves) HD HB).
Qed.
Print Assumptions C02_content_exact.

(* precedence in full: the router is CHARACTERISED. Among the candidates of a request -- (edge path, node, captures,
   binding) with the path leading to the node, covering the request's tokens with those captures, and the node offering
   a binding to the verb -- the answer is the one at the LEAST edge path in the lexicographic order in which a literal
   edge precedes every variable edge and variable edges are ordered by the text of their pattern; when there is no
   candidate the answer is an error. The premise is the property's own: every candidate's captures convert. *)
Theorem C02_least_edge_path :
  forall isLetter isNumber resolves okconv L root verb p,
  Inv isLetter isNumber resolves L root ->
  (forall toks, lex_path isLetter isNumber (normalise p) = Ok toks -> ConvAll okconv verb root toks) ->
  match route okconv isLetter isNumber root verb p with
  | Ok (m, ps) => exists toks es nd, lex_path isLetter isNumber (normalise p) = Ok toks /\ Least verb root toks es nd ps m
  | Err _ => forall toks es nd caps m, lex_path isLetter isNumber (normalise p) = Ok toks -> ~ Cand verb root toks es nd caps m
  | _ => False
  end.
Proof. exact route_is_least. Qed.
Print Assumptions C02_least_edge_path.

(* ... and conversely: the least candidate is what the router answers, with its captures *)
Theorem C02_least_is_served :
  forall isLetter isNumber resolves okconv L root verb p toks es nd caps m,
  Inv isLetter isNumber resolves L root -> lex_path isLetter isNumber (normalise p) = Ok toks ->
  ConvAll okconv verb root toks -> Least verb root toks es nd caps m ->
  route okconv isLetter isNumber root verb p = Ok (m, caps).
Proof. exact route_least_served. Qed.
Print Assumptions C02_least_is_served.

(* "the literal one wins", in the property's words: if some candidate spells a position literally where other
   paths (same edges before) have a variable, the answer does not go through such a variable *)
Theorem C02_literal_beats_variable :
  forall okconv fuel verb root k toks m ps pre key s1 nd1 caps1 m1,
  TrieInv root k -> SortedBelow root -> (length toks < fuel)%nat -> ConvAll okconv verb root toks ->
  search okconv fuel verb root toks = Ok (m, ps) ->
  Cand verb root toks (pre ++ ELit key :: s1) nd1 caps1 m1 ->
  exists es nd, Least verb root toks es nd ps m /\ forall p s2, es <> pre ++ EVar p :: s2.
Proof. exact literal_beats_variable. Qed.
Print Assumptions C02_literal_beats_variable.

(* the answer is a function of the SET of candidates: two tries -- built in whatever order -- that offer the same
   candidates to a request give the same outcome, error class included (a second route to order independence) *)
Theorem C02_answer_determined_by_candidates :
  forall okconv fuel1 fuel2 verb root1 root2 k1 k2 toks,
  TrieInv root1 k1 -> SortedBelow root1 -> (length toks < fuel1)%nat -> ConvAll okconv verb root1 toks ->
  TrieInv root2 k2 -> SortedBelow root2 -> (length toks < fuel2)%nat -> ConvAll okconv verb root2 toks ->
  (forall es caps m, (exists nd, Cand verb root1 toks es nd caps m) <-> (exists nd, Cand verb root2 toks es nd caps m)) ->
  search okconv fuel1 verb root1 toks = search okconv fuel2 verb root2 toks.
Proof. exact least_is_order_independent. Qed.
Print Assumptions C02_answer_determined_by_candidates.

(* what holds WITHOUT the premise on conversions: the answer is a convertible candidate, and any candidate before it
   in the order is explained by a candidate before the answer whose captures do not convert *)
Theorem C02_least_edge_path_partial :
  forall isLetter isNumber resolves okconv L root verb p m ps,
  Inv isLetter isNumber resolves L root -> route okconv isLetter isNumber root verb p = Ok (m, ps) ->
  exists toks es nd, lex_path isLetter isNumber (normalise p) = Ok toks /\
    Cand verb root toks es nd ps m /\ conv_ok okconv m ps = true /\
    forall es' nd' caps' m', Cand verb root toks es' nd' caps' m' ->
      es = es' \/ path_lt es es' \/
      (path_lt es' es /\ exists esb ndb capsb mb,
          Cand verb root toks esb ndb capsb mb /\ conv_ok okconv mb capsb = false /\ path_lt esb es).
Proof. exact route_least_partial. Qed.
Print Assumptions C02_least_edge_path_partial.

(* ... and that the premise is needed: with rules GET /aa/{x}/cc (x converts from digits only), GET /aa/{y=**} and
   GET /{w}/{v}/cc, the request GET /aa/zz/cc is answered by /{w}/{v}/cc although /aa/{y=**} covers it, converts, and
   spells "aa" literally -- the candidate through /aa/{x}/cc does not convert, and a failed conversion below a literal
   ends the search of that literal's subtree. The property excludes such requests ("every matching rule's captures
   convertible"); the statement without the premise is refuted on the model (LeastProofs.Instances), see design/C02.md *)
Theorem C02_least_edge_path_without_premise_refuted :
  let I := Instances.rootABC in
  (exists L, Inv Instances.asciiL Instances.asciiN Instances.all_ok L I) /\
  lex_path Instances.asciiL Instances.asciiN (normalise Instances.reqx) = Ok Instances.toksx /\
  route Instances.okx Instances.asciiL Instances.asciiN I Instances.GET Instances.reqx = Ok (Instances.infoC, [[122;122]; [97;97]]) /\
  (exists nd, Cand Instances.GET I Instances.toksx Instances.pathC nd [[122;122]; [97;97]] Instances.infoC) /\
  (exists nd, Cand Instances.GET I Instances.toksx Instances.pathB nd [[122;122;47;99;99]] Instances.infoB) /\
  conv_ok Instances.okx Instances.infoB [[122;122;47;99;99]] = true /\
  path_lt Instances.pathB Instances.pathC /\
  ~ (exists es nd, Least Instances.GET I Instances.toksx es nd [[122;122]; [97;97]] Instances.infoC).
Proof. exact Instances.least_edge_path_refuted. Qed.
Print Assumptions C02_least_edge_path_without_premise_refuted.

(* ---- instance: precedence on a concrete trie ---- *)
Definition asciiL (r : N) : bool := ((65 <=? r) && (r <=? 90)) || ((97 <=? r) && (r <=? 122)).
Definition asciiN (r : N) : bool := (48 <=? r) && (r <=? 57).
Definition all_ok (_ : str) (_ : list str) := true.
Definition conv_ok (_ : list str) (_ : str) := true.
Definition sv (l : list N) : str := l.
Definition GET := sv [71;69;84].
Definition mk verb tmpl := {| h_main := {| b_verb := verb; b_tmpl := tmpl; b_body := BNone; b_resp := []; b_nested := false |}; h_adds := [] |}.
Definition mLit : str := sv [47;83;47;76].   (* "/S/L": GET /aa/b/v1 *)
Definition mVar : str := sv [47;83;47;86].   (* "/S/V": GET /aa/{s1}/v1 *)
Definition mAll : str := sv [47;83;47;65].   (* "/S/A": GET /aa/{s2=**} *)
Definition dL := {| d_id := mLit; d_config := []; d_annot := Some (mk GET (sv [47;97;97;47;98;47;118;49])) |}.
Definition dV := {| d_id := mVar; d_config := []; d_annot := Some (mk GET (sv [47;97;97;47;123;115;49;125;47;118;49])) |}.
Definition dA := {| d_id := mAll; d_config := []; d_annot := Some (mk GET (sv [47;97;97;47;123;115;50;61;42;42;125])) |}.
Definition who (ds : list mdecl) (p : str) :=
  match route conv_ok asciiL asciiN (run_services asciiL asciiN all_ok all_ok all_ok empty_node [ds]) GET p with
  | Ok (m, _) => Some (m_id m) | _ => None end.
Example precedence_in_every_order :
  let p_lit := sv [47;97;97;47;98;47;118;49] in        (* /aa/b/v1 : all three cover it, the literal wins *)
  let p_var := sv [47;97;97;47;120;47;118;49] in       (* /aa/x/v1 : {s1} and ** cover it; "*" sorts before "**" *)
  let p_all := sv [47;97;97;47;120;47;121] in          (* /aa/x/y  : only ** *)
  forall ds, In ds [[dL; dV; dA]; [dA; dV; dL]; [dV; dA; dL]; [dA; dL; dV]] ->
  who ds p_lit = Some mLit /\ who ds p_var = Some mVar /\ who ds p_all = Some mAll.
Proof. intros p_lit p_var p_all ds H. cbn in H. repeat (destruct H as [ <- | H ]; [vm_compute; auto|]). contradiction. Qed.
