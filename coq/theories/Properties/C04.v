(* C04 -- Unary response fidelity and truthful response headers.
   Model: Model/Negotiate.v (larking/negotiate.go in full), Model/Response.v (NewMux offers,
   getCodec, SendMsg, writeMsg, writeAll, the Accept / Accept-Encoding part of serveHTTP, encError).
   Reading: Spec/AcceptSpec.v. Strings are byte lists; q-values exact rationals. Messages,
   marshalling and compression are parameters: every theorem below quantifies over them and
   assumes only that unmarshal inverts marshal and decompress inverts compress. *)
From Coq Require Import QArith.
From Larking Require Import Base.GoSem Model.Negotiate Model.Response Spec.AcceptSpec Spec.ResponseSpec
  Proofs.NegotiateProofs Proofs.ResponseProofs.
Local Close Scope Q_scope.
Local Open Scope nat_scope.

(* junk never panics and always terminates: for every list of header values parseAccept returns
   a list of ranges (the model writes every Go slice expression with its bounds check and runs
   the loop on fuel |value|+1), and every q it returns is non-negative *)
Theorem parse_accept_total : forall values : list bytes,
  no_crash (parse_accept values) /\ exists specs, parse_accept values = Ok specs /\ nonneg specs.
Proof. exact parse_accept_total_hdr. Qed.
Print Assumptions parse_accept_total.

(* for every Accept header, every offer list and every default: if some offer is admitted by the
   parsed header (a range with q > 0 matching it exactly, as type/* or as */* ) the result is an
   admitted offer, otherwise it is the default *)
Theorem C04_negotiation_admitted : forall (accept : list bytes) (offers : list bytes) (def : bytes),
  exists specs, parse_accept accept = Ok specs /\
    let r := negotiate_content_type specs offers def in
    ((exists o, In o offers /\ admits specs o) -> In r offers /\ admits specs r) /\
    (~ (exists o, In o offers /\ admits specs o) -> r = def).
Proof. exact negotiation_admitted_hdr. Qed.
Print Assumptions C04_negotiation_admitted.

(* the order the code implements: ranges are compared by q, then by specificity (exact before
   type/* before */* ); the result is admitted by a range that no range admitting any offer beats *)
Theorem C04_negotiation_best : forall (accept : list bytes) (offers : list bytes) (def : bytes),
  exists specs, parse_accept accept = Ok specs /\
    ((exists o, In o offers /\ admits specs o) ->
     exists sp, In sp specs /\ admits_by sp (negotiate_content_type specs offers def) /\
       forall o sp', In o offers -> In sp' specs -> admits_by sp' o ->
         ~ ((sq sp < sq sp')%Q \/ ((sq sp' == sq sp)%Q /\ wild (sval sp') < wild (sval sp)))).
Proof. exact negotiation_best_hdr. Qed.
Print Assumptions C04_negotiation_best.

(* ... and ties go to the pair visited first (offers in list order, ranges in header order):
   every admitting pair before the chosen one is strictly worse, none after it is better. Together
   with the two theorems above this determines the result uniquely. *)
Theorem C04_negotiation_first : forall (accept : list bytes) (offers : list bytes) (def : bytes),
  exists specs, parse_accept accept = Ok specs /\
    ((exists o, In o offers /\ admits specs o) ->
     exists P1 P2 sp, pairs specs offers = P1 ++ (negotiate_content_type specs offers def, sp) :: P2 /\
       admits_by sp (negotiate_content_type specs offers def) /\
       (forall o' sp', In (o', sp') P1 -> admits_by sp' o' -> better sp sp') /\
       (forall o' sp', In (o', sp') P2 -> admits_by sp' o' -> ~ better sp' sp)).
Proof. exact negotiation_first_hdr. Qed.
Print Assumptions C04_negotiation_first.

(* the decision procedure the harness runs on the implementation's choices is the reading *)
Theorem C04_choice_ok_decides : forall specs offers def r,
  choice_ok specs offers def r = true <->
  ((exists o, In o offers /\ admits specs o) /\ In r offers /\ admits specs r /\ best_choice specs offers r) \/
  (~ (exists o, In o offers /\ admits specs o) /\ r = def).
Proof. exact choice_ok_iff. Qed.
Print Assumptions C04_choice_ok_decides.

(* Accept-Encoding: the chosen encoding is an offer, "identity" or "" *)
Theorem C04_encoding_choice : forall specs offers,
  let r := negotiate_encoding specs offers in r = [] \/ r = identity \/ In r offers.
Proof. exact negotiate_encoding_in. Qed.
Print Assumptions C04_encoding_choice.

(* a 200 response carries: Content-Type = what SendMsg chose, bytes that, after undoing the
   encoding named by Content-Encoding (if any; it names a registered compressor), are exactly the
   bytes SendMsg produced -- Content-Encoding is truthful *)
Theorem C04_encoding_truthful :
  forall (msg field : Type) (get_msg : field -> msg -> option msg)
    (full_name body_ct body_data : msg -> bytes) (marshal : codec -> msg -> outcome bytes)
    (marshal_status : codec -> N -> outcome bytes) (compress decompress : bytes -> bytes -> bytes),
  (forall e b : bytes, decompress e (compress e b) = b) ->
  forall (cfg : config) (reqct : option bytes) (accept accept_enc : list bytes)
    (has_body : bool) (reqcur : msg) (path : list field) (reply : msg) (r : response),
  serve_unary msg field get_msg full_name body_ct body_data marshal marshal_status compress cfg reqct
    accept accept_enc has_body reqcur path reply = Ok r ->
  r_status r = 200%N ->
  exists (aspecs : list spec) (s : sent),
    parse_accept accept = Ok aspecs /\ nonneg aspecs /\
    send_msg msg field get_msg full_name body_ct body_data marshal cfg path
      (negotiate_content_type aspecs (content_type_offers cfg) (request_content_type reqct)) reply = Ok s /\
    r_ct r = Some (s_ct s) /\
    decode_wire decompress (r_ce r) (r_wire r) = s_body s /\
    (r_ce r = None \/ (exists e : bytes, r_ce r = Some e /\ memb e (compressors cfg) = true)).
Proof. exact serve_200_body. Qed.
Print Assumptions C04_encoding_truthful.

(* google.api.HttpBody replies (also when selected by response_body): raw data bytes under their
   own content type, whatever Accept says *)
Theorem C04_httpbody_passthrough :
  forall (msg field : Type) (get_msg : field -> msg -> option msg)
    (full_name body_ct body_data : msg -> bytes) (marshal : codec -> msg -> outcome bytes)
    (marshal_status : codec -> N -> outcome bytes) (compress decompress : bytes -> bytes -> bytes),
  (forall e b : bytes, decompress e (compress e b) = b) ->
  forall (cfg : config) (reqct : option bytes) (accept accept_enc : list bytes)
    (has_body : bool) (reqcur : msg) (path : list field) (reply : msg) (r : response) (cur : msg),
  serve_unary msg field get_msg full_name body_ct body_data marshal marshal_status compress cfg reqct
    accept accept_enc has_body reqcur path reply = Ok r ->
  r_status r = 200%N ->
  select msg field get_msg path reply = Some cur ->
  full_name cur = http_body_name ->
  r_ct r = Some (body_ct cur) /\ decode_wire decompress (r_ce r) (r_wire r) = body_data cur.
Proof. exact httpbody_passthrough. Qed.
Print Assumptions C04_httpbody_passthrough.

(* every other reply: the Content-Type is the negotiated type, a codec is registered under it,
   and unmarshalling the (decoded) body with that codec gives exactly the field selected by
   response_body (the whole reply when the path is empty) *)
Theorem C04_body_decodes :
  forall (msg field : Type) (get_msg : field -> msg -> option msg)
    (full_name body_ct body_data : msg -> bytes) (marshal : codec -> msg -> outcome bytes)
    (marshal_status : codec -> N -> outcome bytes) (compress : bytes -> bytes -> bytes)
    (unmarshal : codec -> bytes -> option msg) (decompress : bytes -> bytes -> bytes),
  (forall (c : codec) (m : msg) (b : bytes), marshal c m = Ok b -> unmarshal c b = Some m) ->
  (forall e b : bytes, decompress e (compress e b) = b) ->
  forall (cfg : config) (reqct : option bytes) (accept accept_enc : list bytes)
    (has_body : bool) (reqcur : msg) (path : list field) (reply : msg) (r : response) (cur : msg),
  serve_unary msg field get_msg full_name body_ct body_data marshal marshal_status compress cfg reqct
    accept accept_enc has_body reqcur path reply = Ok r ->
  r_status r = 200%N ->
  select msg field get_msg path reply = Some cur ->
  full_name cur <> http_body_name ->
  lookup (full_name cur) (codecs cfg) = None ->       (* no codec registered under the message's own name *)
  exists (aspecs : list spec) (t : bytes) (c : codec),
    parse_accept accept = Ok aspecs /\
    t = negotiate_content_type aspecs (content_type_offers cfg) (request_content_type reqct) /\
    r_ct r = Some t /\ lookup t (codecs cfg) = Some c /\
    unmarshal c (decode_wire decompress (r_ce r) (r_wire r)) = Some cur.
Proof. exact body_decodes. Qed.
Print Assumptions C04_body_decodes.

(* the Go walk of the response_body path is the selection (and panics exactly when a field of the
   path is not a singular message field, which addRule now refuses) *)
Theorem C04_response_body_selected :
  forall (msg field : Type) (get_msg : field -> msg -> option msg) (path : list field) (m cur : msg),
  walk msg field get_msg path m = Ok cur <-> select msg field get_msg path m = Some cur.
Proof. exact walk_select. Qed.
Print Assumptions C04_response_body_selected.

Theorem C04_response_body_rule : forall kinds,
  resp_path_ok kinds = true <-> kinds <> [] /\ Forall (fun k => k = KMessage) kinds.
Proof. exact resp_path_ok_iff. Qed.
Print Assumptions C04_response_body_rule.

(* the send limit: what is sent with status 200 is never longer than max_send ... *)
Theorem C04_send_limit :
  forall (msg field : Type) (get_msg : field -> msg -> option msg)
    (full_name body_ct body_data : msg -> bytes) (marshal : codec -> msg -> outcome bytes)
    (marshal_status : codec -> N -> outcome bytes) (compress decompress : bytes -> bytes -> bytes),
  (forall e b : bytes, decompress e (compress e b) = b) ->
  forall (cfg : config) (reqct : option bytes) (accept accept_enc : list bytes)
    (has_body : bool) (reqcur : msg) (path : list field) (reply : msg) (r : response),
  serve_unary msg field get_msg full_name body_ct body_data marshal marshal_status compress cfg reqct
    accept accept_enc has_body reqcur path reply = Ok r ->
  r_status r = 200%N ->
  (N.of_nat (length (decode_wire decompress (r_ce r) (r_wire r))) <= max_send cfg)%N.
Proof. exact sent_within_limit. Qed.
Print Assumptions C04_send_limit.

(* ... the refusal is exact (SendMsg fails iff the bytes exceed the limit) ... *)
Theorem C04_send_limit_exact :
  forall (msg field : Type) (get_msg : field -> msg -> option msg)
    (full_name body_ct body_data : msg -> bytes) (marshal : codec -> msg -> outcome bytes)
    (cfg : config) (path : list field) (accept : bytes) (reply cur : msg) (c : codec) (b ct : bytes),
  select msg field get_msg path reply = Some cur ->
  get_codec msg full_name cfg accept cur = Ok c ->
  payload msg full_name body_ct body_data marshal c accept cur = Ok (b, ct) ->
  send_msg msg field get_msg full_name body_ct body_data marshal cfg path accept reply =
  (if (max_send cfg <? N.of_nat (length b))%N then Err ETooLarge else Ok {| s_ct := ct; s_body := b |}).
Proof. exact send_msg_limit. Qed.
Print Assumptions C04_send_limit_exact.

(* ... and a refused reply is answered with status 500 and an error code, never with a 200 *)
Theorem C04_send_limit_refused :
  forall (msg field : Type) (get_msg : field -> msg -> option msg)
    (full_name body_ct body_data : msg -> bytes) (marshal : codec -> msg -> outcome bytes)
    (marshal_status : codec -> N -> outcome bytes) (compress : bytes -> bytes -> bytes)
    (cfg : config) (reqct : option bytes) (accept accept_enc : list bytes)
    (has_body : bool) (reqcur : msg) (path : list field) (reply : msg) (r : response)
    (aspecs : list spec) (cur : msg) (c : codec) (b ct : bytes),
  serve_unary msg field get_msg full_name body_ct body_data marshal marshal_status compress cfg reqct
    accept accept_enc has_body reqcur path reply = Ok r ->
  parse_accept accept = Ok aspecs ->
  let acc := negotiate_content_type aspecs (content_type_offers cfg) (request_content_type reqct) in
  select msg field get_msg path reply = Some cur ->
  get_codec msg full_name cfg acc cur = Ok c ->
  payload msg full_name body_ct body_data marshal c acc cur = Ok (b, ct) ->
  (max_send cfg < N.of_nat (length b))%N -> r_status r = 500%N /\ r_code r <> 0%N.
Proof. exact over_limit_refused. Qed.
Print Assumptions C04_send_limit_refused.

(* T5 repaired: when the internal HttpBody codec is registered under its message name only and
   the other codecs do not panic, no Accept / Accept-Encoding / Content-Type makes the unary
   response path panic (nor the error path: encError always finds a codec) *)
Theorem C04_no_internal_codec :
  forall (msg field : Type) (get_msg : field -> msg -> option msg)
    (full_name body_ct body_data : msg -> bytes) (marshal : codec -> msg -> outcome bytes)
    (marshal_status : codec -> N -> outcome bytes) (compress : bytes -> bytes -> bytes)
    (cfg : config) (reqct : option bytes) (accept accept_enc : list bytes)
    (has_body : bool) (reqcur : msg) (path : list field) (reply cur : msg),
  sane msg marshal marshal_status cfg ->
  select msg field get_msg path reply = Some cur ->
  no_crash (serve_unary msg field get_msg full_name body_ct body_data marshal marshal_status compress cfg reqct
              accept accept_enc has_body reqcur path reply).
Proof. exact serve_unary_no_crash. Qed.
Print Assumptions C04_no_internal_codec.

(* NOTED, not a violation: NewMux builds the encoding offers from the codec keys, so with the
   default configuration no Accept-Encoding whatsoever selects a compressor; responses are never
   compressed and C04_encoding_truthful holds for the poor reason that Content-Encoding is never
   sent on a reply *)
Theorem C04_compression_unreachable : forall especs : list spec,
  memb (negotiate_encoding especs (encoding_type_offers default_config)) (compressors default_config) = false.
Proof. exact default_never_compresses. Qed.
Print Assumptions C04_compression_unreachable.

(* ------------------------------------------------------------------ *)
(* Examples: the hypotheses are satisfiable, the statements not vacuous *)

Definition ex_offers := content_type_offers default_config.
Example default_offers : ex_offers = [json_type; octet_type; protobuf_type].
Proof. vm_compute. reflexivity. Qed.

(* "text/*;q=0.5, application/protobuf;q=0.5": nothing offered matches text/*, protobuf is chosen *)
Definition ex_accept1 := str_of [116;101;120;116;47;42;59;113;61;48;46;53;44;32;97;112;112;108;105;99;97;116;105;111;110;47;112;114;111;116;111;98;117;102;59;113;61;48;46;53].
Example negotiate1 : negotiate_ct_header [ex_accept1] ex_offers json_type = Ok protobuf_type.
Proof. vm_compute. reflexivity. Qed.

(* "application/json; charset=utf-8": a parameter other than q discards the range (and the rest
   of that header line): nothing is admitted, the default is returned *)
Definition ex_accept2 := str_of [97;112;112;108;105;99;97;116;105;111;110;47;106;115;111;110;59;32;99;104;97;114;115;101;116;61;117;116;102;45;56].
Example negotiate2 : parse_accept [ex_accept2] = Ok [] /\
  negotiate_ct_header [ex_accept2] ex_offers (str_of [116;101;120;116;47;112;108;97;105;110]) = Ok (str_of [116;101;120;116;47;112;108;97;105;110]).
Proof. vm_compute. split; reflexivity. Qed.

(* junk: " , ;q=abc" followed by bytes >= 0x80 *)
Example parse_junk : parse_accept [str_of [32;44;32;59;113;61;97;98;99;195;191]; []; ex_accept1] =
  Ok [mkspec (str_of [116;101;120;116;47;42]) (5 # 10); mkspec protobuf_type (5 # 10)].
Proof. vm_compute. reflexivity. Qed.

(* T7 (judgement, evaluated separately): "application/json;q=0, */*". The reading of C04 says
   json is admitted (by the */* range) and the code returns it; under the stricter RFC 7231 reading the most
   specific range matching json has q=0 and json would be excluded. *)
Definition ex_accept_t7 := str_of [97;112;112;108;105;99;97;116;105;111;110;47;106;115;111;110;59;113;61;48;44;32;42;47;42].
Example t7_strict_reading_differs : exists specs,
  parse_accept [ex_accept_t7] = Ok specs /\
  negotiate_content_type specs ex_offers protobuf_type = json_type /\
  admitsb specs json_type = true /\ most_specific_q0 specs json_type = true /\
  most_specific_q0 specs octet_type = false.
Proof. eexists. split; [vm_compute; reflexivity|]. vm_compute. repeat split; reflexivity. Qed.

(* the code's order is by range, not by offer: "application/json;q=0.1, */*;q=0.9" yields json
   (first offer matched by the best range) where RFC 7231 would give json the weight 0.1 *)
Definition ex_accept_rfc := str_of [97;112;112;108;105;99;97;116;105;111;110;47;106;115;111;110;59;113;61;48;46;49;44;32;42;47;42;59;113;61;48;46;57].
Example order_is_by_range : negotiate_ct_header [ex_accept_rfc] ex_offers protobuf_type = Ok json_type.
Proof. vm_compute. reflexivity. Qed.

(* a concrete instance of the parameters: a message is a byte list, "marshal" prefixes a codec
   tag, "compress" prefixes 0; messages starting with 255 are HttpBody values *)
Definition ex_tag (c : codec) : N := match c with CJSON => 1 | CProto => 2 | CBody => 3 | CUser n => (4 + n)%N end.
Definition ex_marshal (c : codec) (m : bytes) : outcome bytes :=
  match c with CBody => Panic PExplicit | _ => Ok (ex_tag c :: m) end.
Definition ex_unmarshal (c : codec) (b : bytes) : option bytes :=
  match b with t :: m => if (t =? ex_tag c)%N then Some m else None | [] => None end.
Definition ex_status (c : codec) (n : N) : outcome bytes := ex_marshal c [n].
Definition ex_compress (e b : bytes) : bytes := 0%N :: b.
Definition ex_decompress (e b : bytes) : bytes := tl b.
Definition ex_name (m : bytes) : bytes := match m with 255%N :: _ => http_body_name | _ => str_of [120] end.
Definition ex_get (fd : nat) (m : bytes) : option bytes := match fd with O => Some (tl m) | _ => None end.
Definition ex_serve := serve_unary bytes nat ex_get ex_name (fun _ => str_of [105;109;97;103;101;47;112;110;103]) (fun m => tl m)
  ex_marshal ex_status ex_compress.

Example ex_inverse : (forall c m b, ex_marshal c m = Ok b -> ex_unmarshal c b = Some m) /\
                     (forall e b, ex_decompress e (ex_compress e b) = b).
Proof.
  split; [|reflexivity]. intros c m b H. destruct c; cbn in H; try discriminate; inversion H; subst; cbn;
    rewrite ?N.eqb_refl; reflexivity.
Qed.
Example ex_sane : sane bytes ex_marshal ex_status default_config.
Proof.
  repeat split.
  - intros k H. unfold default_config, default_codecs in H. cbn [codecs lookup] in H.
    destruct (bytes_eqb json_type k); [discriminate|].
    destruct (bytes_eqb protobuf_type k); [discriminate|].
    destruct (bytes_eqb octet_type k); [discriminate|].
    destruct (bytes_eqb http_body_name k) eqn:E; [|discriminate].
    apply bytes_eqb_eq in E. auto.
  - eexists. reflexivity.
  - intros c m Hc. destruct c; cbn; auto.
  - intros c n Hc. destruct c; cbn; auto.
Qed.
(* a protobuf reply of the field selected by a one-step response_body, 200, no Content-Encoding *)
Example ex_reply : ex_serve default_config None [protobuf_type] [str_of [103;122;105;112]] false [] [O] [9;7;8]%N =
  Ok (mkresp 200 (Some protobuf_type) None [2;7;8]%N 0).
Proof. vm_compute. reflexivity. Qed.
(* an HttpBody reply passes through under its own type although Accept asks for JSON *)
Example ex_httpbody : ex_serve default_config None [json_type] [] false [] [] [255;1;2]%N =
  Ok (mkresp 200 (Some (str_of [105;109;97;103;101;47;112;110;103])) None [1;2]%N 0).
Proof. vm_compute. reflexivity. Qed.
(* over the limit: 500 with code 2, nothing of the reply on the wire *)
Example ex_limit : ex_serve (mkconfig default_codecs [gzip_name] 3) None [] [] false [] [] [5;6;7]%N =
  Ok (mkresp 500 (Some json_type) None [1;2]%N 2).
Proof. vm_compute. reflexivity. Qed.
(* unknown request content type and no Accept: no codec, 500 with code 13 *)
Example ex_nocodec : ex_serve default_config (Some (str_of [116;101;120;116;47;112;108;97;105;110])) [] [] false [] [] [5]%N =
  Ok (mkresp 500 (Some json_type) (Some identity) [1;13]%N 13).
Proof. vm_compute. reflexivity. Qed.
(* Accept: google.api.HttpBody is not an offer any more: the default (JSON) is used *)
Example ex_t5 : ex_serve default_config None [http_body_name] [] false [] [] [5]%N =
  Ok (mkresp 200 (Some json_type) None [1;5]%N 0).
Proof. vm_compute. reflexivity. Qed.
(* a configuration in which a compressor IS reachable (its key is also a codec key): the header
   is set and the wire bytes are the compressed ones *)
Example ex_compressed :
  ex_serve (mkconfig default_codecs [json_type] 100) None [] [str_of [42]] false [] [] [5]%N =
  Ok (mkresp 200 (Some json_type) (Some json_type) [0;1;5]%N 0).
Proof. vm_compute. reflexivity. Qed.
