(* C07 -- Path-bound fields are authoritative.
   Model: Model/Schema.v (flattened messages, protoreflect Set / Mutable / Append),
   Model/Params.v (parseParam, params.set, parseQueryParams), Model/Transcode.v (serveHTTP parameter
   order after the fix: query parameters first, path parameters last; RecvMsg: body, then params). *)
From Larking Require Import Base.GoSem Model.Schema Model.Params Model.Transcode Proofs.ParamsProofs.
Local Open Scope N_scope.

(* For every schema, every rule whose variables do not write into each other's fields, every
   variable bound to a singular field path fds, every capture, EVERY query (any keys in any order
   and multiplicity, either spelling, also keys naming fds, its parents or a oneof sibling), EVERY
   body (any codec result, whole message or body field, compressed or not), and whatever the float /
   well-known-type / codec / compressor libraries return: if the request is served at all, the
   handler's message has at and under fds exactly the image of the converted capture. *)
Theorem C07_path_wins :
  forall (ofloat : bool -> bytes -> option N) (owkt : wkt -> bool -> bytes -> option subtree)
         (unmarshal : nat -> nat -> bytes -> option subtree) (inflate : bytes -> option bytes)
         sch r rq M i fds c,
  vars_independent r ->
  nth_error (r_vars r) i = Some fds -> fds <> [] -> singular_last fds ->
  nth_error (q_caps rq) i = Some c ->
  decode_request ofloat owkt unmarshal inflate sch r rq = Ok M ->
  exists v, parse_param ofloat owkt sch fds c = Ok v /\
    forall rel, lookup (steps_path fds ++ rel) M = lookup rel (field_image (snd (last_step fds)) v).
Proof. exact path_wins. Qed.
Print Assumptions C07_path_wins.

(* the same, for params.set alone: the last write to a field that later parameters do not touch
   is what the message holds -- for any earlier parameters *)
Theorem C07_last_write_wins : forall pre fds v post M M' rel,
  fds <> [] -> singular_last fds ->
  (forall p, In p post -> untouched (fst p) (steps_path fds) = true) ->
  params_set (pre ++ (fds, v) :: post) M = Ok M' ->
  lookup (steps_path fds ++ rel) M' = lookup rel (field_image (snd (last_step fds)) v).
Proof. exact params_set_wins. Qed.
Print Assumptions C07_last_write_wins.

(* ---- the hypotheses are satisfiable, the statement is not vacuous ---- *)
Definition bs (l : bytes) : bytes := l.
Definition ex_inner : list field :=
  [ mkField 1 (bs [116;97;103]) (bs [116;97;103]) KString Singular None false;           (* tag *)
    mkField 2 (bs [97]) (bs [97]) KString Singular (Some 0%nat) true;                     (* oneof: a *)
    mkField 3 (bs [98]) (bs [98]) KInt32 Singular (Some 0%nat) true ].                    (* oneof: b *)
Definition ex_root : list field :=
  [ mkField 1 (bs [110;97;109;101]) (bs [110;97;109;101]) KString Singular None false;  (* name *)
    mkField 2 (bs [115;117;98]) (bs [115;117;98]) (KMessage 1) Singular None true;       (* sub *)
    mkField 3 (bs [105;100]) (bs [105;100]) KInt32 Singular None false;                   (* id *)
    mkField 4 (bs [115;117;98;115]) (bs [115;117;98;115]) (KMessage 1) Repeated None false ].
Definition ex_sch := mkSchema [mkMsg WNone ex_root; mkMsg WNone ex_inner] [].
Definition fd (n : N) l := nth (N.to_nat n) l (mkField 0 [] [] KBool Singular None false).
Definition v_name : list step := [(ex_root, fd 0 ex_root)].
Definition v_sub_b : list step := [(ex_root, fd 1 ex_root); (ex_inner, fd 2 ex_inner)].
Definition ex_rule := mkRule 0 [v_name; v_sub_b] BStar.
Definition no_float (_ : bool) (_ : bytes) : option N := None.
Definition no_wkt (_ : wkt) (_ : bool) (_ : bytes) : option subtree := None.
(* the body says name="body", sub.a="x" (the other member of the oneof), id=5 *)
Definition ex_body : subtree :=
  [([1], ELeaf (SStr (bs [98;111;100;121]))); ([2], EPresent); ([2;2], ELeaf (SStr (bs [120]))); ([3], ELeaf (SInt 5))].
Definition ex_unmarshal (_ _ : nat) (_ : bytes) : option subtree := Some ex_body.
Definition ex_req := mkReq [bs [99;97;112]; bs [52;50]]                                    (* "cap", "42" *)
  [(bs [115;117;98;46;98], [bs [55]]); (bs [110;97;109;101], [bs [113]; bs [114]]); (bs [115;117;98;46;97], [bs [121]])]
  (Some []) (Some 0%nat) false.                 (* ?sub.b=7&name=q&name=r&sub.a=y *)

Example ex_rule_independent : vars_independent ex_rule.
Proof. apply vars_indep_b_ok. vm_compute. reflexivity. Qed.

Example ex_served :
  exists M, decode_request no_float no_wkt ex_unmarshal (fun b => Some b) ex_sch ex_rule ex_req = Ok M /\
    lookup [1] M = Some (ELeaf (SStr (bs [99;97;112]))) /\           (* name = "cap", not "body", "q" or "r" *)
    lookup [2;3] M = Some (ELeaf (SInt 42)) /\                        (* sub.b = 42, not 7 *)
    lookup [2;2] M = None /\                                          (* the oneof sibling from body and query is gone *)
    lookup [3] M = Some (ELeaf (SInt 5)).                             (* the rest of the body is kept *)
Proof. eexists. vm_compute. repeat split; reflexivity. Qed.

(* the order of the slice is what decides: with the path parameter first (the order before the fix)
   the query value is what the handler gets *)
Example ex_order_matters :
  let p := (v_name, PScalar (SStr (bs [99]))) in let q := (v_name, PScalar (SStr (bs [113]))) in
  (exists M, params_set [q; p] [] = Ok M /\ lookup [1] M = Some (ELeaf (SStr (bs [99])))) /\
  (exists M, params_set [p; q] [] = Ok M /\ lookup [1] M = Some (ELeaf (SStr (bs [113])))).
Proof. split; eexists; vm_compute; split; reflexivity. Qed.

(* a key that walks through a repeated field is InvalidArgument (it used to be a panic) *)
Example ex_walk_through_list :
  set_walk [(ex_root, fd 3 ex_root); (ex_inner, fd 0 ex_inner)] [] (PScalar (SStr [])) [] = Err EInvalid.
Proof. reflexivity. Qed.

(* ---------- the path-bound field of a ROUTED request (Proofs/BoundFieldProofs.v) ---------- *)
From Larking Require Import Base.B64 Model.Lexer Model.Trie Model.Match Spec.Grammar Spec.Route Spec.Json3
  Proofs.LexerProofs Proofs.MatchProofs Proofs.TrieProofs Proofs.RoutingProofs Proofs.ParamsConvProofs Proofs.BoundFieldProofs.

(* C07, joined to the router.  The routed binding read as a rule of the request decoder (request
   type rm, the variables resolved, ANY body selector) and the request with the routed captures, ANY
   query and ANY body: if it is served, the handler's message has at every named variable's field
   the image of the converted capture, under the same two conditions (singular last field; the
   earlier variables of the template do not write into it). *)
Theorem C07_routed_path_wins :
  forall (ofloat : bool -> bytes -> option N) (owkt : wkt -> bool -> bytes -> option subtree)
         (sch : schema) (req : str -> option nat) (isLetter isNumber : N -> bool),
  Sane isLetter isNumber ->
  forall (unmarshal : nat -> nat -> bytes -> option subtree) (inflate : bytes -> option bytes)
         okconv L root verb p m caps,
  TrieProofs.Inv isLetter isNumber (resolves_of sch req) L root ->
  Match.route okconv isLetter isNumber root verb p = Ok (m, caps) ->
  forall rm, req (m_id m) = Some rm ->
  exists vs, vars_steps sch rm (m_vars m) = Some vs /\ length vs = length (rev caps) /\
  forall bd query body codec gz M,
    decode_request ofloat owkt unmarshal inflate sch (mkRule rm vs bd) (mkReq (rev caps) query body codec gz) = Ok M ->
    forall i ns c, nth_error (m_vars m) i = Some ns -> ns <> [] -> nth_error (rev caps) i = Some c ->
    exists fds v,
      field_path sch (req_fields sch rm) ns = Some fds /\ nth_error vs i = Some fds /\ fds <> [] /\
      parse_param ofloat owkt sch fds c = Ok v /\
      ((exact_kind (f_kind (snd (last_step fds))) = true \/ f_kind (snd (last_step fds)) = KBytes) ->
         json3_text sch (f_kind (snd (last_step fds))) v c) /\
      (singular_last fds -> earlier_leave sch rm (m_vars m) i fds ->
         forall rel, Schema.lookup (steps_path fds ++ rel) M = Schema.lookup rel (field_image (snd (last_step fds)) v)).
Proof. exact bound_fields_with_query_and_body. Qed.
Print Assumptions C07_routed_path_wins.
