(* C09 -- Robustness: no request can crash or wedge the server.  PARTIAL (see the end of this comment).

   The family "never Panic, never OutOfFuel", for every modelled function a request reaches, each
   for ALL inputs.  In the models every Go run-time failure is a value (Base/GoSem.v: slice and
   index expressions out of range, nil dereference, Mutable(fd).Message() on a non-message field,
   explicit panic(...) are `Panic`; a loop that may not terminate runs on fuel and ends in
   `OutOfFuel`), so each line below is an obligation about the arithmetic and control flow of the
   anchored code, not a triviality.  Statements only; every one is closed by the lemma that proves
   it.  Most lemmas were proved for the property that owns the model (C01/C02/C16 routing, C03/C07
   decoding, C04 responses, C05 status, C06/C08/C17 streams and limits, C15 timeout, C18 events,
   C19 selectors); Proofs/RobustProofs.v adds the ones nobody needed before (request decoding,
   receive loops, entry dispatch).

   Entry path -> modelled steps (each total below):
     gRPC-web   Serve.web_pre -> gRPC
     gRPC       Serve.grpc_pre (Timeout.decode_timeout) -> GrpcFrame.grpc_recv1 / Limits gates / Events
     WebSocket  Serve.dispatch -> Lexer.lex_path -> Match.search -> Params -> GrpcFrame.ws_recv_all
     HTTP       Serve.dispatch -> Lexer.lex_path -> Match.search (var_index) -> Params.parse_query ->
                Transcode.decode_request (params_set) -> StreamHTTP / Codec.read_next -> Response.serve_unary
                (Negotiate.parse_accept, Status.http_status_code)
   Registration (not request time, listed because a panic there is a crash too): Lexer.lex_template,
   Trie.add_binding / append_handler, Selector.select.
   Metadata (Model/Metadata.v, C14) and the mount model (Model/Mount.v, C20) have no Panic /
   OutOfFuel constructor in their result types: total by construction.

   PARTIAL: the theorems are about the models; panics inside net/http, protobuf-go, protojson,
   gobwas/ws, compress/gzip, encoding/base64 and in glue that no model covers are looked for by the
   correspondence run (hostile requests under recover() and a watchdog) and by native fuzzing only. *)
From Coq Require Import QArith.
From Larking Require Import Base.GoSem Base.Reader Model.Lexer Model.Trie Model.Match Model.Status
  Model.Negotiate Model.Response Model.Timeout Model.Codec Model.StreamHTTP Model.GrpcFrame Model.Limits
  Model.Events Model.Selector Model.Serve Spec.SelectorSpec Spec.Frames Spec.StreamSpec Spec.ResponseSpec Spec.Route
  Proofs.LexerProofs Proofs.MatchProofs Proofs.TrieProofs Proofs.RoutingProofs Proofs.StatusProofs
  Proofs.NegotiateProofs Proofs.ResponseProofs Proofs.CodecProofs Proofs.StreamProofs Proofs.LimitsProofs
  Proofs.EventsProofs Proofs.SelectorProofs Proofs.RobustProofs.
From Larking Require Import Model.Schema Model.Params Model.Transcode.
Local Close Scope Q_scope.
Local Open Scope nat_scope.

(* ---------------- lexer ---------------- *)
(* any text, any classification of runes into letters and numbers *)
Theorem C09_lex_path_total : forall isLetter isNumber p, LexerProofs.benign (lex_path isLetter isNumber p).
Proof. exact lex_path_benign. Qed.
Print Assumptions C09_lex_path_total.

Theorem C09_lex_template_total : forall isLetter isNumber t, LexerProofs.benign (lex_template isLetter isNumber t).
Proof. exact lex_template_benign. Qed.
Print Assumptions C09_lex_template_total.

(* ---------------- routing ---------------- *)
(* variable.index on the patterns registration stores: never the panic(":(") *)
Theorem C09_var_index_total : forall pat, forallb pat_tok_ok pat = true ->
  forall rest, exists r, var_index pat rest = Ok r.
Proof. exact var_index_total. Qed.
Print Assumptions C09_var_index_total.

(* path.search on any trie satisfying the structural invariant, any token list, fuel = length + 1 *)
Theorem C09_search_total : forall okconv fuel verb nd k toks,
  TrieInv nd k -> length toks < fuel -> MatchProofs.benign (search okconv fuel verb nd toks).
Proof. exact search_total. Qed.
Print Assumptions C09_search_total.

(* Mux.match on every path, every verb, every trie that a history of registerService calls has
   published (any services, any rule texts, accepted or refused, any order), from the empty mux *)
Theorem C09_route_total : forall isLetter isNumber resolves body_ok resp_ok okconv (svcs : list (list mdecl)) verb p,
  MatchProofs.benign (route okconv isLetter isNumber
    (run_services isLetter isNumber resolves body_ok resp_ok empty_node svcs) verb p).
Proof. exact route_published_total. Qed.
Print Assumptions C09_route_total.

(* ---------------- registration ---------------- *)
Theorem C09_add_binding_total : forall isLetter isNumber resolves body_ok resp_ok mid root b,
  MatchProofs.benign (Trie.add_binding resolves body_ok resp_ok isLetter isNumber mid root b).
Proof. exact add_binding_benign. Qed.
Print Assumptions C09_add_binding_total.

(* appendHandler (registration of one method: implicit rule, selected service-config rules, annotation)
   is total since the repair of R10 (its explicit panic("bug: ...") is now an error) *)
Theorem C09_append_handler_total : forall isLetter isNumber resolves body_ok resp_ok root d,
  MatchProofs.benign (Trie.append_handler resolves body_ok resp_ok isLetter isNumber root d).
Proof. exact append_handler_total. Qed.
Print Assumptions C09_append_handler_total.

(* setRules / getRules: the only panic is the documented invalid-selector panic, at configuration time *)
Theorem C09_selector_partial : forall (R : Type) (sel : R -> bytes) (rs : list R) (name : bytes),
  ((exists l, Selector.select sel rs name = Ok l) \/ Selector.select sel rs name = Panic PExplicit) /\
  (Selector.select sel rs name = Panic PExplicit <->
   exists r a b, In r rs /\ SelectorSpec.split (sel r) = a ++ SelectorSpec.star_c :: b /\ SelectorProofs.rest_nil b = false /\
                 Forall (fun c => is_nil c = false /\ bytes_eqb c SelectorSpec.star_c = false) a).
Proof. exact total_thm. Qed.
Print Assumptions C09_selector_partial.

(* ---------------- request decoding ---------------- *)
(* parseParam: every field kind, every text, whatever the float / well-known-type oracles answer *)
Theorem C09_parse_param_total : forall ofloat owkt sch fds raw, no_crash (parse_param ofloat owkt sch fds raw).
Proof. exact parse_param_no_crash. Qed.
Print Assumptions C09_parse_param_total.

(* parseQueryParams: every raw query -- unknown keys, dotted keys through scalar / repeated / map
   fields, repeated keys, any values -- and every parameter it returns can be applied (next theorem) *)
Theorem C09_parse_query_total : forall ofloat owkt sch root q,
  no_crash (parse_query ofloat owkt sch root q) /\
  forall ps, parse_query ofloat owkt sch root q = Ok ps -> forall p, In p ps -> chained (fst p) = true.
Proof. exact parse_query_spec. Qed.
Print Assumptions C09_parse_query_total.

(* params.set on parameters whose field paths come from fieldPath: after the fix of T3 a repeated or
   map field on the way is an error; no path makes Mutable(fd).Message() panic *)
Theorem C09_params_set_total : forall ps M, (forall p, In p ps -> chained (fst p) = true) -> no_crash (params_set ps M).
Proof. exact params_set_no_crash. Qed.
Print Assumptions C09_params_set_total.

(* serveHTTP up to the handler's first message: captures, query, Content-Encoding, body into the whole
   message or the body field, parameters -- for every request, against every rule addRule accepts *)
Theorem C09_decode_request_total : forall ofloat owkt unmarshal inflate sch r rq, rule_ok r ->
  no_crash (decode_request ofloat owkt unmarshal inflate sch r rq).
Proof. exact decode_request_no_crash. Qed.
Print Assumptions C09_decode_request_total.

(* ... and the hypothesis is what the fix of T4 enforces at registration: with a body selector through
   a scalar field the model panics on the first request with a body *)
Theorem C09_decode_request_refuted_without_rule_ok : exists ofloat owkt unmarshal inflate sch r rq,
  decode_request ofloat owkt unmarshal inflate sch r rq = Panic PKind.
Proof. do 7 eexists. exact decode_request_bad_selector_panics. Qed.
Print Assumptions C09_decode_request_refuted_without_rule_ok.

(* ---------------- status and error responses ---------------- *)
(* the code tables: every code a uint32 can hold (17, 2^32-1, ...) *)
Theorem C09_http_status_total : forall c, (0 <= c)%Z -> http_status_code c = Ok (ref_http c).
Proof. exact http_status_total. Qed.
Print Assumptions C09_http_status_total.
Theorem C09_ws_status_total : forall c, (0 <= c)%Z -> ws_status_code c = Ok (ref_ws c).
Proof. exact ws_status_total. Qed.
Print Assumptions C09_ws_status_total.

(* parseAccept on any header values: returns, with non-negative q-values *)
Theorem C09_parse_accept_total : forall values : list bytes,
  no_crash (parse_accept values) /\ exists specs, parse_accept values = Ok specs /\ nonneg specs.
Proof. exact parse_accept_total_hdr. Qed.
Print Assumptions C09_parse_accept_total.

(* the unary send path and encError: negotiation, getCodec, response_body walk, marshal, writeAll, the
   error body -- for every Accept / Accept-Encoding / Content-Type; the codec table is sane (the
   internal HttpBody codec only under its own name, JSON present, codecs return) and response_body
   names message fields (enforced at registration) *)
Theorem C09_send_total : forall (msg field : Type) (get_msg : field -> msg -> option msg)
    (full_name body_ct body_data : msg -> bytes) (marshal : Response.codec -> msg -> outcome bytes)
    (marshal_status : Response.codec -> N -> outcome bytes) (compress : bytes -> bytes -> bytes) (cfg : Response.config)
    (reqct : option bytes) (accept accept_enc : list bytes) (has_body : bool) (reqcur : msg)
    (path : list field) (reply cur : msg),
  sane msg marshal marshal_status cfg -> ResponseSpec.select msg field get_msg path reply = Some cur ->
  no_crash (serve_unary msg field get_msg full_name body_ct body_data marshal marshal_status compress cfg
              reqct accept accept_enc has_body reqcur path reply).
Proof. exact serve_unary_no_crash. Qed.
Print Assumptions C09_send_total.

(* decodeTimeout: any header value is refused or yields a duration in [0, 2^63-1] *)
Theorem C09_decode_timeout_total : forall s,
  decode_timeout s = None \/ exists ns, decode_timeout s = Some ns /\ (0 <= ns <= max_i64)%Z.
Proof. exact decode_timeout_range. Qed.
Print Assumptions C09_decode_timeout_total.

(* ---------------- streams and limits ---------------- *)
(* the three stream codecs: any carry-over, any data, any read schedule, either EOF style, any positive
   limit; the returned length is within the returned buffer (the caller's b[:n], b[n:] cannot panic) *)
Theorem C09_read_next_total : forall c b s limit, 0 < limit -> (N.of_nat limit < 2 ^ 63)%N ->
  match read_next c b s limit with RRet dst n _ _ => n <= length dst | RPanic | RFuel => False end.
Proof. exact read_next_safe. Qed.
Print Assumptions C09_read_next_total.

(* a handler looping over RecvMsg on an HTTP client stream always reaches an end that is not a panic *)
Theorem C09_http_recv_total : forall c limit valid body sch eofwd, 0 < limit -> (N.of_nat limit < 2 ^ 63)%N ->
  ended (snd (StreamHTTP.http_recv_all (Datatypes.S (length body)) (StreamHTTP.HCfg c limit true true) valid (StreamHTTP.hst0 (Src body sch eofwd)))).
Proof. exact http_recv_all_ends. Qed.
Print Assumptions C09_http_recv_total.

(* the same on gRPC: truncated headers, length prefixes up to 2^32-1, compressed flag with or without
   a decompressor, corrupt data, any transport error at the end *)
Theorem C09_grpc_recv_total : forall limit gunzip valid body t sch eofwd,
  ended (snd (GrpcFrame.grpc_recv_all (Datatypes.S (length body)) limit gunzip valid (XSrc (Src body sch eofwd) t))).
Proof. exact grpc_recv_all_ends. Qed.
Print Assumptions C09_grpc_recv_total.

(* and on gRPC-web, binary or base64 text of any bytes *)
Theorem C09_web_recv_total : forall (text : bool) (body : bytes) sch eofwd limit gunzip valid,
  let L := fst (if text then web_text_decode body else (body, TClean)) in
  ended (snd (GrpcFrame.grpc_recv_all (Datatypes.S (length L)) limit gunzip valid (web_src text body sch eofwd))).
Proof. exact web_recv_all_ends. Qed.
Print Assumptions C09_web_recv_total.

(* the size gates of every receive and send path return or refuse *)
Theorem C09_recv_gate_total : forall p c w, match Limits.recv p c w with Ok _ | Err _ => True | _ => False end.
Proof. exact recv_total. Qed.
Print Assumptions C09_recv_gate_total.
Theorem C09_send_gate_total : forall p c size, match Limits.send p c size with Ok _ | Err _ => True | _ => False end.
Proof. exact send_total. Qed.
Print Assumptions C09_send_gate_total.

(* ---------------- interceptors and stats ---------------- *)
(* the whole serve path with interceptors and a stats handler on or off, every scenario (protocol,
   method shape, payloads incl. 0..4 byte ones, handler script); the one Panic left in the model is
   SendMsg(nil) after an interceptor that returns (nil, nil) for a unary method -- excluded by imode_ok *)
Theorem C09_events_partial : forall sc,
  imode_ok (is_unary (s_hs sc)) (eff_mode sc) -> exists r, Events.serve false sc = Ok r.
Proof. exact EventsProofs.serve_total. Qed.
Print Assumptions C09_events_partial.

(* ---------------- the entry point ---------------- *)
(* every request lands on exactly one of the four paths *)
Theorem C09_one_path : forall r, exists e, lands r e /\ forall e', lands r e' -> e' = e.
Proof. exact one_path. Qed.
Print Assumptions C09_one_path.

Theorem C09_dispatch_exact : forall r e, dispatch r = e <-> lands r e.
Proof. exact dispatch_lands. Qed.
Print Assumptions C09_dispatch_exact.

(* whatever gRPC-web / gRPC refuse before a handler runs is refused with 400, 404, 415 or 500 *)
Theorem C09_refusals : forall c r s, serve_pre c r = Refuse s -> In s [400; 404; 415; 500]%N.
Proof. exact serve_pre_refusals. Qed.
Print Assumptions C09_refusals.

(* a handler runs on a gRPC stream only for a request that passed every check *)
Theorem C09_reach : forall c r w, serve_pre c r = ReachGrpc w ->
  q_method r = post /\ q_known r = true /\
  (q_encoding r = [] \/ memb (q_encoding r) (compressor_keys c) = true) /\
  (q_timeout r = [] \/ exists ns, decode_timeout (q_timeout r) = Some ns) /\
  (w = true <-> dispatch r = EWeb).
Proof. exact serve_pre_reach. Qed.
Print Assumptions C09_reach.

(* composition: for every request and every published trie the entry point answers with an HTTP
   status, or hands a checked request to a gRPC handler, or routes -- and routing is benign *)
Theorem C09_serve_entry_total : forall isLetter isNumber resolves (body_ok resp_ok : Lexer.str -> list Lexer.str -> bool) okconv c r L root verb p,
  TrieProofs.Inv isLetter isNumber resolves L root ->
  match serve_pre c r with
  | Refuse s => status_ok s = true
  | ReachGrpc _ => q_known r = true
  | Transcode ws => MatchProofs.benign (route okconv isLetter isNumber root (if ws then ws_verb else verb) p)
  end.
Proof. exact serve_entry_total. Qed.
Print Assumptions C09_serve_entry_total.

(* ---------------- the statements are about something ---------------- *)
Definition b (l : list N) : bytes := l.
Definition ct_web_text_body := grpc_web_text ++ b [43; 98; 111; 100; 121]%N.          (* "application/grpc-web-text+body" *)
Definition ct_grpc_body := grpc_base ++ b [43; 98; 111; 100; 121]%N.                   (* "application/grpc+body" *)
Definition rq ct major := Serve.mkReq major post ct [] [] [] true.
Example entry_instances :
  (* the internal "body" codec is not a gRPC codec (the fix of this property): 415 on every gRPC flavour *)
  serve_pre default_cfg (rq ct_grpc_body 2) = Refuse 415 /\
  serve_pre default_cfg (rq ct_web_text_body 1) = Refuse 415 /\
  (* gRPC over HTTP/1 is not gRPC: it is transcoded (and then routed by path) *)
  serve_pre default_cfg (rq grpc_base 1) = Transcode false /\
  serve_pre default_cfg (rq grpc_base 2) = ReachGrpc false /\
  serve_pre default_cfg (rq (grpc_web ++ b [43; 106; 115; 111; 110]%N) 1) = ReachGrpc true /\
  (* a malformed timeout, an unknown compressor, an unknown method *)
  serve_pre default_cfg (Serve.mkReq 2 post grpc_base [] [] (b [45; 49; 83]%N) true) = Refuse 400 /\
  serve_pre default_cfg (Serve.mkReq 2 post grpc_base [] (b [98; 114]%N) [] true) = Refuse 415 /\
  serve_pre default_cfg (Serve.mkReq 2 post grpc_base [] [] [] false) = Refuse 404 /\
  (* Upgrade: websocket on a plain request selects the WEBSOCKET verb *)
  serve_pre default_cfg (Serve.mkReq 1 (b [71; 69; 84]%N) [] [websocket] [] [] false) = Transcode true.
Proof. repeat split; reflexivity. Qed.
Example good_rule_is_ok : rule_ok good_rule.
Proof. exact good_rule_ok. Qed.
