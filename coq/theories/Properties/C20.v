(* C20 -- Server mount prefixes are transparent.
   Model: Model/Mount.v  (larking/server.go NewServer, MuxHandleOption, HTTPHandlerOption, TLSCredsOption;
   net/http ServeMux for plain clean absolute path patterns and http.StripPrefix as modelled library).
   Spec evaluated by the harness: Spec/MountSpec.v.  Lemmas: Proofs/MountProofs.v.

   Domain. Patterns are plain clean absolute paths (start with '/', clean, no space, tab, '{', '%'; the
   mount pattern "" is accepted and means "/"). Request paths are clean (cleanPath(p) = p, a trailing
   slash is allowed): net/http answers every other path with a 301 before any handler runs
   (C20_unclean_no_handler). URL.RawPath is empty and the method is not CONNECT.
   A request path under a mount prefix p is p ++ "/" ++ x: a path always begins with '/'.
   net/http picks the longest matching pattern, so with nested mounts (/twirp and /twirp/v2, or "/" and
   /api) and with other handlers registered inside a mount, a path belongs to the longest pattern that
   matches it; and "/p" is redirected to "/p/" when only "/p/" is registered. These two documented
   rules are the hypotheses of C20_transparent; C20_transparent_unnested discharges them for every
   mount that has nothing registered inside its subtree. *)
From Coq Require Import List NArith Bool Arith.
From Larking Require Import Model.Mount Spec.MountSpec Proofs.MountProofs Proofs.MountTlsProofs.
Import ListNotations.

(* A request to prefix+path under a configured mount prefix gets exactly the response the bare mux gives
   for path -- for an arbitrary mux (any function of method, path, headers, body: every protocol at once),
   whatever other handlers are configured. *)
Theorem C20_transparent :
  forall (Meth Hdr Body Resp : Type) (mux : Meth -> list N -> Hdr -> Body -> Resp)
         (extra : nat -> Meth -> list N -> Hdr -> Body -> Resp) (not_found : Resp)
         (redirect redirect_clean : list N -> Resp)
         opts srv m x meth h b,
  new_server false opts = NSOk srv -> In m (s_mounts srv) ->
  let p := mount_prefix m in
  let path := p ++ slash :: x in
  is_clean path = true ->
  (* the mount owns the path: no longer pattern of the configuration matches it ... *)
  (forall q, In q (patterns srv) -> claims q path = true -> length q <= length (p ++ [slash])) ->
  (* ... and the path is not the bare name of another registered subtree *)
  (ends_slash path = false -> ~ In (path ++ [slash]) (patterns srv)) ->
  respond Meth Hdr Body Resp mux extra not_found redirect redirect_clean srv meth path h b
  = mux meth (slash :: x) h b.
Proof. exact respond_transparent. Qed.
Print Assumptions C20_transparent.

(* a mount with nothing else registered inside its subtree is transparent for EVERY clean path under it *)
Theorem C20_transparent_unnested :
  forall (Meth Hdr Body Resp : Type) (mux : Meth -> list N -> Hdr -> Body -> Resp)
         (extra : nat -> Meth -> list N -> Hdr -> Body -> Resp) (not_found : Resp)
         (redirect redirect_clean : list N -> Resp)
         opts srv m x meth h b,
  new_server false opts = NSOk srv -> In m (s_mounts srv) ->
  let p := mount_prefix m in
  (forall q, In q (patterns srv) -> has_prefix (p ++ [slash]) q = true -> q = p ++ [slash]) ->
  is_clean (p ++ slash :: x) = true ->
  respond Meth Hdr Body Resp mux extra not_found redirect redirect_clean srv meth (p ++ slash :: x) h b
  = mux meth (slash :: x) h b.
Proof. exact respond_transparent_unnested. Qed.
Print Assumptions C20_transparent_unnested.

(* the same at the level of dispatch: the mux is handed exactly the path without the prefix *)
Theorem C20_transparent_dispatch : forall opts srv m x,
  new_server false opts = NSOk srv -> In m (s_mounts srv) ->
  let p := mount_prefix m in
  let path := p ++ slash :: x in
  is_clean path = true ->
  (forall q, In q (patterns srv) -> claims q path = true -> length q <= length (p ++ [slash])) ->
  (ends_slash path = false -> ~ In (path ++ [slash]) (patterns srv)) ->
  serve srv path = ToMux (slash :: x).
Proof. exact transparent. Qed.
Print Assumptions C20_transparent_dispatch.

(* a path under no mount prefix never reaches the mux *)
Theorem C20_outside_not_served : forall opts srv path,
  new_server false opts = NSOk srv ->
  (forall m, In m (s_mounts srv) -> has_prefix (mount_prefix m ++ [slash]) path = false) ->
  forall x, serve srv path <> ToMux x.
Proof. exact outside_not_served. Qed.
Print Assumptions C20_outside_not_served.

(* stronger: whatever the mux is handed is a request path minus a configured prefix, begins with '/',
   and the mount that stripped it is the longest pattern matching the request *)
Theorem C20_mux_sees_only_stripped : forall opts srv path x,
  new_server false opts = NSOk srv -> serve srv path = ToMux x ->
  exists m, In m (s_mounts srv) /\ path = mount_prefix m ++ x /\ has_prefix [slash] x = true /\
            has_prefix (mount_prefix m ++ [slash]) path = true /\
            (forall q, In q (patterns srv) -> claims q path = true -> length q <= length (mount_prefix m ++ [slash])).
Proof. exact mux_only_under_mount. Qed.
Print Assumptions C20_mux_sees_only_stripped.

(* handlers added with HTTPHandlerOption keep receiving their patterns, with the path untouched *)
Theorem C20_other_handlers_keep_patterns :
  forall (Meth Hdr Body Resp : Type) (mux : Meth -> list N -> Hdr -> Body -> Resp)
         (extra : nat -> Meth -> list N -> Hdr -> Body -> Resp) (not_found : Resp)
         (redirect redirect_clean : list N -> Resp)
         opts srv i pat path meth h b,
  new_server false opts = NSOk srv -> nth_error opts i = Some (OHandler pat false) ->
  is_clean path = true -> claims pat path = true ->
  (forall q, In q (patterns srv) -> claims q path = true -> length q <= length pat) ->
  (pat = path \/ ends_slash path = true \/ ~ In (path ++ [slash]) (patterns srv)) ->
  respond Meth Hdr Body Resp mux extra not_found redirect redirect_clean srv meth path h b
  = extra i meth path h b.
Proof. exact respond_extra. Qed.
Print Assumptions C20_other_handlers_keep_patterns.

(* an exact pattern (no trailing slash) receives exactly its path, unconditionally *)
Theorem C20_exact_handler_keeps_path : forall opts srv i pat,
  new_server false opts = NSOk srv -> nth_error opts i = Some (OHandler pat false) ->
  serve srv pat = ToExtra i pat.
Proof. exact extra_exact. Qed.
Print Assumptions C20_exact_handler_keeps_path.

(* ... and they receive nothing else: only paths their own pattern matches, unchanged *)
Theorem C20_other_handlers_see_only_own : forall opts srv path i x,
  new_server false opts = NSOk srv -> serve srv path = ToExtra i x ->
  x = path /\ exists pat, nth_error opts i = Some (OHandler pat false) /\ claims pat path = true.
Proof. exact extra_sees_only_own. Qed.
Print Assumptions C20_other_handlers_see_only_own.

(* prefix+"" : the bare prefix is redirected to prefix+"/" (net/http), unless a handler is registered for it *)
Theorem C20_bare_prefix_redirects : forall opts srv m,
  new_server false opts = NSOk srv -> In m (s_mounts srv) -> mount_prefix m <> [] ->
  ~ In (mount_prefix m) (patterns srv) ->
  serve srv (mount_prefix m) = Redirect (mount_prefix m ++ [slash]).
Proof. exact bare_prefix_redirects'. Qed.
Print Assumptions C20_bare_prefix_redirects.

(* the StripPrefix wrappers NewServer installs never miss: net/http's 404 appears only where no pattern matches *)
Theorem C20_not_found_only_unclaimed : forall opts srv path,
  new_server false opts = NSOk srv -> serve srv path = NotFound ->
  forall q, In q (patterns srv) -> claims q path = false.
Proof. exact not_found_unclaimed. Qed.
Print Assumptions C20_not_found_only_unclaimed.

(* outside the domain: an unclean path is redirected, no handler runs *)
Theorem C20_unclean_no_handler : forall srv path, is_clean path = false -> serve srv path = RedirectClean.
Proof. exact unclean_no_handler. Qed.
Print Assumptions C20_unclean_no_handler.

(* validation of options, as the code does it *)
Theorem C20_nil_mux_refused : forall opts, new_server true opts = NSErr ENilMux.
Proof. reflexivity. Qed.
Print Assumptions C20_nil_mux_refused.

(* NewServer accepts exactly: no MuxHandleOption after one that set patterns, no nil handler, all
   registered patterns (other handlers' and prefix+"/" of every mount) valid and pairwise distinct *)
Theorem C20_options_validated : forall opts,
  (exists srv, new_server false opts = NSOk srv) <-> wf_options opts.
Proof. exact accepted_iff_wf. Qed.
Print Assumptions C20_options_validated.

(* an accepted configuration is what was asked for: mounts (default "/"), handlers in call order *)
Theorem C20_accepted_configuration : forall nm opts srv,
  new_server nm opts = NSOk srv ->
  nm = false /\ s_mounts srv = opt_mounts opts /\
  s_tbl srv = map extra_entry (opt_extras opts 0) ++ map mount_entry (opt_mounts opts) /\
  table_ok (s_tbl srv).
Proof. exact new_server_ok. Qed.
Print Assumptions C20_accepted_configuration.

(* the only error NewServer returns for a non-nil mux is the duplicate MuxHandleOption, and only when there is one *)
Theorem C20_refused_only_duplicate : forall opts e,
  new_server false opts = NSErr e -> e = EDupPatterns /\ mux_dup false opts = true.
Proof. exact refused_only_dup. Qed.
Print Assumptions C20_refused_only_duplicate.

Theorem C20_duplicate_never_accepted : forall opts,
  mux_dup false opts = true -> forall srv, new_server false opts <> NSOk srv.
Proof. exact dup_never_accepted. Qed.
Print Assumptions C20_duplicate_never_accepted.

(* the predicate the harness evaluates on the real server's behaviour holds of the model for every
   accepted configuration and every path *)
Theorem C20_spec_sound : forall opts srv path,
  new_server false opts = NSOk srv ->
  spec_ok (opt_mounts opts) (opt_extras opts 0) path (serve srv path) = true.
Proof. exact spec_sound. Qed.
Print Assumptions C20_spec_sound.

(* ---- non-vacuity ------------------------------------------------------------------------------------ *)
Definition s (l : list nat) : list N := map N.of_nat l.
Definition api := s [47;97;112;105].                       (* "/api" *)
Definition api_slash := s [47;97;112;105;47].              (* "/api/" *)
Definition twirp := s [47;116;119;105;114;112].            (* "/twirp" *)
Definition twirp_v2 := s [47;116;119;105;114;112;47;118;50]. (* "/twirp/v2" *)
Definition metrics := s [47;109;101;116;114;105;99;115].   (* "/metrics" *)
Definition v1_x := s [47;118;49;47;120].                   (* "/v1/x" *)
Definition root := s [47].

(* the configuration of TestMuxHandleOption plus an extra handler, nested mounts *)
Definition cfg := [OHandler metrics false; OMux (Some [root; api_slash; twirp; twirp_v2])].

Example accepted : exists srv, new_server false cfg = NSOk srv /\ length (s_tbl srv) = 5.
Proof. eexists. split; vm_compute; reflexivity. Qed.

Example dispatch_examples :
  run_case false cfg (api ++ v1_x) = ObsResp (ToMux v1_x) /\                    (* /api/v1/x -> /v1/x *)
  run_case false cfg v1_x = ObsResp (ToMux v1_x) /\                             (* under "/" *)
  run_case false cfg (twirp_v2 ++ v1_x) = ObsResp (ToMux v1_x) /\               (* longest mount wins *)
  run_case false cfg (twirp ++ v1_x) = ObsResp (ToMux v1_x) /\
  run_case false cfg (api ++ s [120] ++ v1_x) = ObsResp (ToMux (api ++ s [120] ++ v1_x)) /\  (* /apix/... is under "/" only *)
  run_case false cfg api = ObsResp (Redirect api_slash) /\                      (* bare prefix *)
  run_case false cfg api_slash = ObsResp (ToMux root) /\
  run_case false cfg metrics = ObsResp (ToExtra 0 metrics) /\
  run_case false cfg (s [47;47;120]) = ObsResp RedirectClean /\
  run_case false [OMux (Some [api])] (api ++ s [120] ++ v1_x) = ObsResp NotFound /\   (* string prefix, not segment prefix *)
  run_case false [OMux (Some [api])] v1_x = ObsResp NotFound /\
  run_case false [OMux (Some [api; api_slash])] v1_x = ObsPanic /\             (* same prefix twice: Handle panics *)
  run_case false [OMux (Some [api]); OMux None] v1_x = ObsErr /\
  run_case false [OMux None; OMux (Some [api])] (api ++ v1_x) = ObsResp (ToMux v1_x) /\
  run_case true [] v1_x = ObsErr.
Proof. vm_compute. repeat split; reflexivity. Qed.

(* the hypotheses of C20_transparent are met by a nested configuration: /twirp/v2 under /twirp under "/" *)
Example transparent_hypotheses_met : forall srv, new_server false cfg = NSOk srv ->
  In twirp_v2 (s_mounts srv) /\
  is_clean (mount_prefix twirp_v2 ++ v1_x) = true /\
  (forall q, In q (patterns srv) -> claims q (mount_prefix twirp_v2 ++ v1_x) = true ->
             length q <= length (mount_prefix twirp_v2 ++ [slash])) /\
  (forall q, In q (patterns srv) -> has_prefix (mount_prefix twirp_v2 ++ [slash]) q = true -> q = mount_prefix twirp_v2 ++ [slash]).
Proof.
  intros srv H. vm_compute in H. inversion H; subst; clear H.
  split; [vm_compute; tauto|]. split; [vm_compute; reflexivity|]. split.
  - intros q Iq. vm_compute in Iq. repeat (destruct Iq as [Iq|Iq]; [subst q; vm_compute; intros; try discriminate; auto with arith|]). destruct Iq.
  - intros q Iq. vm_compute in Iq. repeat (destruct Iq as [Iq|Iq]; [subst q; vm_compute; intros; try discriminate; auto|]). destruct Iq.
Qed.

(* ... while "/" is NOT transparent for a path that a nested mount owns: the statement needs its hypothesis *)
Example nested_mount_owns_its_subtree :
  run_case false cfg (api ++ v1_x) <> ObsResp (ToMux (api ++ v1_x)).
Proof. vm_compute. discriminate. Qed.

Example wf_cfg : wf_options cfg.
Proof. apply C20_options_validated. destruct accepted as [srv [H _]]. exists srv. exact H. Qed.

(* ---- TLSCredsOption ---- *)
(* A TLS configuration says how the listener is wrapped, not what the handler serves: wherever the option stands, every
   path is answered as by the server built without it -- the mux with the same stripped path, the same 404s and
   redirects, the same extra handler; only that the options behind it are counted one later (rl_obs renumbers
   ToExtra: an extra handler's identity in the model is the position of its option). *)
Theorem C20_tls_option_transparent : forall nm pre post path,
  run_case nm (pre ++ OTLS :: post) path = rl_obs (length pre) (run_case nm (pre ++ post) path).
Proof. exact run_case_tls. Qed.
Print Assumptions C20_tls_option_transparent.

(* in particular what reaches the mux, and with which path, does not depend on it *)
Theorem C20_tls_keeps_mux_requests : forall nm pre post path x,
  run_case nm (pre ++ post) path = ObsResp (ToMux x) <-> run_case nm (pre ++ OTLS :: post) path = ObsResp (ToMux x).
Proof.
  intros nm pre post path x. rewrite run_case_tls.
  destruct (run_case nm (pre ++ post) path) as [| | |r]; cbn [rl_obs]; try (split; discriminate).
  destruct r; cbn [rl_resp]; split; intros H; try discriminate; exact H.
Qed.
Print Assumptions C20_tls_keeps_mux_requests.

Example tls_instance :
  let api := [47;97;112;105;47]%N in let met := [47;109]%N in
  run_case false [OTLS; OMux (Some [api]); OHandler met false] (api ++ [120]%N) = ObsResp (ToMux [47;120]%N) /\
  run_case false [OTLS; OMux (Some [api]); OHandler met false] met = ObsResp (ToExtra 2 met) /\
  run_case false [OMux (Some [api]); OHandler met false] met = ObsResp (ToExtra 1 met) /\
  run_case false [OTLS; OMux (Some [api]); OHandler met false] [47;120]%N = ObsResp NotFound.
Proof. vm_compute. repeat split. Qed.
