(* C11 -- Dispatch follows the live registration set.
   Model: Model/Registry.v (state, clone, registerService, addConnHandler with the hash short-cut
   and drop-and-recreate, removeHandler, DropConn, pickMethodHandler of larking/mux.go and
   handler.go, over an abstract routing trie: a finite map from binding keys to method names with
   addRule's duplicate check and delRule).
   `trace h` pairs every operation of a history with the value it returned; `live` looks only at
   that trace: a connection is live for m iff its last relevant event (a successful RegisterConn,
   or a DropConn) is a registration whose descriptors expose m; local registrations accumulate.
   `hash_ok h`: the descriptor hash identifies the descriptors among those used in h (SHA-256). *)
From Larking Require Import Base.GoSem Model.Registry Proofs.RegistryProofs.
Local Open Scope nat_scope.

(* the handlers a request for m can be given to (the random pick is any of them) are exactly the
   live backends of m, for every history *)
Theorem C11_dispatch_live : forall h m o, hash_ok h ->
  (In o (candidates (run h) m) <-> In o (live (trace h) m)).
Proof. exact dispatch_live. Qed.
Print Assumptions C11_dispatch_live.

(* a gRPC request is answered Unimplemented iff the method has no live backend; otherwise by a live one *)
Theorem C11_unimplemented_iff_empty : forall h m, hash_ok h ->
  (grpc_replies (run h) m = [Unimplemented] <-> live (trace h) m = []) /\
  (forall r, In r (grpc_replies (run h) m) ->
     (r = Unimplemented /\ live (trace h) m = []) \/ (exists o, r = Served o /\ In o (live (trace h) m))).
Proof. exact unimplemented_iff_empty. Qed.
Print Assumptions C11_unimplemented_iff_empty.

(* no stale routes: a binding present in the trie belongs to a method with a live backend ... *)
Theorem C11_routes_live : forall h n v m, hash_ok h -> route (run h) n v = Some m -> live (trace h) m <> [].
Proof. exact route_live. Qed.
Print Assumptions C11_routes_live.

(* ... so an HTTP request is answered NotFound (no binding) or by a live backend of the bound method,
   never Unimplemented through a left-over binding and never by a dropped connection *)
Theorem C11_routes_follow : forall h n v r, hash_ok h -> In r (http_replies (run h) n v) ->
  (r = NotFound /\ route (run h) n v = None) \/
  (exists m o, route (run h) n v = Some m /\ r = Served o /\ In o (live (trace h) m)).
Proof. exact routes_follow. Qed.
Print Assumptions C11_routes_follow.

(* safe operations.  Dropping a connection that is not registered: false, nothing changes *)
Theorem C11_safe_drop_unknown : forall h c, hash_ok h -> conn_entries (live_table (trace h)) c = [] ->
  step (run h) (DropConn c) = (run h, RFalse).
Proof. exact drop_unknown. Qed.
Print Assumptions C11_safe_drop_unknown.

(* dropping a registered connection: true, and it is removed from every method's candidates *)
Theorem C11_drop_takes_effect : forall h c, hash_ok h -> conn_entries (live_table (trace h)) c <> [] ->
  snd (step (run h) (DropConn c)) = RTrue /\
  forall m o, In o (candidates (fst (step (run h) (DropConn c))) m) <-> In o (candidates (run h) m) /\ o <> OConn c.
Proof. exact drop_known. Qed.
Print Assumptions C11_drop_takes_effect.

(* re-registering an unchanged connection (same descriptors, whatever happened to other
   connections and local services in between): Ok, the routing state is the same *)
Theorem C11_safe_reregister : forall h1 h2 c d,
  snd (step (run h1) (RegConn c d)) = ROk -> (forall o, In o h2 -> touches c o = false) ->
  let mx := run (h1 ++ RegConn c d :: h2) in
  snd (step mx (RegConn c d)) = ROk /\ clone (published (fst (step mx (RegConn c d)))) = clone (published mx).
Proof. exact reregister_unchanged. Qed.
Print Assumptions C11_safe_reregister.

(* a second backend for services whose bindings are all routed already: Ok (no error, no panic),
   routes unchanged, the connection joins the candidates of exactly the methods it exposes *)
Theorem C11_safe_second_backend : forall h c d, hash_ok (h ++ [RegConn c d]) ->
  conn_entries (live_table (trace h)) c = [] ->
  all_bound (spath (clone (published (run h)))) (dmethods d) ->
  snd (step (run h) (RegConn c d)) = ROk /\
  (forall n v, route (fst (step (run h) (RegConn c d))) n v = route (run h) n v) /\
  forall m o, In o (candidates (fst (step (run h) (RegConn c d))) m) <->
              In o (candidates (run h) m) \/ (o = OConn c /\ exposes (dmethods d) m = true).
Proof. exact second_backend. Qed.
Print Assumptions C11_safe_second_backend.

(* every operation leaves the registry in a state that satisfies the refinement invariant; in
   particular a failed or panicking registration publishes nothing *)
Theorem C11_failed_registration_changes_nothing : forall mx o,
  snd (step mx o) = RErr \/ snd (step mx o) = RPanic -> published (fst (step mx o)) = published mx.
Proof.
  intros mx o. destruct o as [l ds|c d|c]; cbn [step].
  - destruct (process _ _ _ _ _) as [r| | |]; cbn [fst snd]; intros [H|H]; try discriminate; reflexivity.
  - destruct (add_conn_handler _ _ _ _) as [r| | |]; cbn [fst snd]; intros [H|H]; try discriminate; reflexivity.
  - destruct (snd (remove_handler _ _)); cbn [fst snd]; intros [H|H]; discriminate.
Qed.
Print Assumptions C11_failed_registration_changes_nothing.

(* when a registration is accepted (rules.go addRule's duplicate check, in either registration order):
   exactly when it is [unobstructed] by the bindings of the published map -- every key valid, and no key
   meets (same node; same verb, or "*" on either side) a key of a different method, in the map or in the
   registration itself.  Bindings are taken from the map, not from the descriptors of the live table: a
   method's rules stand until its last handler goes (RegistryProofs.unobstructed_live_table_insufficient). *)
Theorem C11_accepted_iff_unobstructed : forall h l ds,
  snd (step (run h) (RegLocal l ds)) = ROk <->
  unobstructed_in (trie_keys (spath (clone (published (run h))))) ds = true.
Proof. exact reglocal_ok_iff. Qed.
Print Assumptions C11_accepted_iff_unobstructed.

(* in every published map keys are keys, and bindings that meet belong to one method *)
Theorem C11_published_bindings_consistent : forall h,
  let t := spath (clone (published (run h))) in
  NoDup (map fst t) /\
  forall e1 e2, In e1 t -> In e2 t -> key_meets (entry_key e1) (entry_key e2) = true -> snd e1 = snd e2.
Proof. exact run_wf. Qed.
Print Assumptions C11_published_bindings_consistent.

(* ---- the hypotheses are satisfiable, the statements are not vacuous ---- *)
Definition kA := BKey 11 1 true.
Definition mA1 := MDesc 1 1 [Rule kA []].
Definition mA2 := MDesc 2 2 [].
Definition mB1 := MDesc 3 3 [Rule (BKey 12 2 true) [BKey 13 1 true; BKey 14 1 true]].
Definition mC1 := MDesc 4 4 [Rule (BKey 14 1 true) []].
Definition dA := Desc 1 [mA1; mA2].
Definition dAB := Desc 2 [mA1; mA2; mB1].
Definition dC := Desc 4 [mC1].
Definition hist := [RegConn 0 dA; RegConn 1 dA; RegLocal 0 [mA1; mA2]; DropConn 0; RegConn 1 dAB; RegConn 2 dC; DropConn 1; RegConn 2 dC].

Example hist_hash_ok : hash_ok hist.
Proof.
  intros d d' H H'. cbn in H, H'.
  repeat (destruct H as [<-|H]; [|]); try contradiction;
  repeat (destruct H' as [<-|H']; [|]); try contradiction; cbn; intro E; try reflexivity; discriminate.
Qed.
Example hist_results : map snd (trace hist) = [ROk; ROk; ROk; RTrue; ROk; RErr; RTrue; ROk].
Proof. vm_compute. reflexivity. Qed.
Example hist_candidates :
  candidates (run (firstn 3 hist)) 1 = [OConn 0; OConn 1; OLocal 0] /\
  candidates (run (firstn 4 hist)) 1 = [OConn 1; OLocal 0] /\
  candidates (run (firstn 5 hist)) 3 = [OConn 1] /\
  candidates (run hist) 3 = [] /\ candidates (run hist) 4 = [OConn 2] /\
  live (trace hist) 1 = [OLocal 0] /\ live (trace hist) 4 = [OConn 2] /\
  route (run (firstn 5 hist)) 14 1 = Some 3 /\ route (run hist) 14 1 = Some 4 /\ route (run hist) 13 1 = None.
Proof. vm_compute. repeat split; reflexivity. Qed.
Example second_backend_hypotheses :
  conn_entries (live_table (trace [RegConn 0 dA])) 1 = [] /\
  all_bound (spath (clone (published (run [RegConn 0 dA])))) (dmethods dA).
Proof.
  split; [reflexivity|]. intros d k Hd Hk. cbn in Hd.
  destruct Hd as [<-|[<-|[]]]; cbn in Hk; repeat (destruct Hk as [<-|Hk]; [split; reflexivity|]); contradiction.
Qed.

(* ================= the concrete routing trie under removal =================
   The theorems above treat the routing trie as an abstract map of binding keys. The ones below are
   about the trie itself (Model/Trie.v, the structure C01 / C02 / C16 are proved on) and the model of
   path.delRule / path.alive (Model/TrieDel.v: recurse into every literal and variable child, drop a
   child that lost something and is no longer alive, remove the method's per-verb and '*' bindings). *)
From Larking Require Import Model.Lexer Model.Trie Model.Match Model.TrieDel Spec.Grammar Spec.Route
  Proofs.MatchProofs Proofs.TrieProofs Proofs.RoutingProofs Proofs.OrderProofs Proofs.DelProofs.

(* removing a method is the same as never having registered it: the trie built from a list of
   bindings, with one method removed, answers every request -- any verb, any path: same binding, same
   captures, or the same refusal -- exactly as the trie built from the other methods' bindings alone
   (which is itself accepted). No stale route, no lost route, and a less specific rule of another
   method takes over where the removed method's rule used to win. *)
Theorem C11_removal_is_never_registering :
  forall isLetter isNumber resolves body_ok resp_ok okconv name l nd,
  Sane isLetter isNumber -> NoDup l -> Distinct isLetter isNumber resolves l ->
  build_from isLetter isNumber resolves body_ok resp_ok empty_node l = Ok nd ->
  exists nd0, build_from isLetter isNumber resolves body_ok resp_ok empty_node (filter (keepL name) l) = Ok nd0 /\
    forall verb p, Match.route okconv isLetter isNumber (remove_method name nd) verb p =
                   Match.route okconv isLetter isNumber nd0 verb p.
Proof. exact removal_is_never_registering. Qed.
Print Assumptions C11_removal_is_never_registering.

(* on ANY trie (no invariant needed): after removal no request is routed to the removed method *)
Theorem C11_removed_never_served : forall isLetter isNumber okconv name nd verb p m caps,
  Match.route okconv isLetter isNumber (remove_method name nd) verb p = Ok (m, caps) -> m_id m <> name.
Proof. exact route_after_del_not_removed. Qed.
Print Assumptions C11_removed_never_served.

(* what is stored after removal is exactly what was stored for other methods, at the same places *)
Theorem C11_removal_content : forall name nd es key m, Uq nd ->
  ((exists i', info_at (fst (del_rule name nd)) es = Some i' /\ stored i' key m) <->
   (exists i, info_at nd es = Some i /\ stored i key m /\ m_id m <> name)).
Proof. exact del_rule_content. Qed.
Print Assumptions C11_removal_content.

(* delRule's boolean: true iff the method had a binding somewhere in the trie *)
Theorem C11_removal_reports : forall name nd, snd (del_rule name nd) = true <-> ~ NoName name nd.
Proof. exact del_rule_ok_iff. Qed.
Print Assumptions C11_removal_reports.

(* over every life cycle -- registrations (failing ones included) and removals in any order, from the
   empty mux -- routing never panics nor runs out of fuel, and no dead node is left behind: every node
   of the trie other than the root is alive and has a binding at or below it *)
Theorem C11_lifecycle_total : forall isLetter isNumber resolves body_ok resp_ok okconv ops verb p,
  MatchProofs.benign (Match.route okconv isLetter isNumber
                        (run_ops isLetter isNumber resolves body_ok resp_ok empty_node ops) verb p).
Proof. exact lifecycle_route_total. Qed.
Print Assumptions C11_lifecycle_total.

Theorem C11_lifecycle_no_dead_nodes : forall isLetter isNumber resolves body_ok resp_ok ops es n,
  Reach (run_ops isLetter isNumber resolves body_ok resp_ok empty_node ops) es n -> es <> [] ->
  alive n = true /\ HasB n.
Proof. exact lifecycle_no_dead. Qed.
Print Assumptions C11_lifecycle_no_dead_nodes.

(* ---- the abstract routing map of the theorems above is what the concrete trie holds (Proofs/RefineProofs.v) ----
   The registry model above keeps the routes as a finite map from binding keys (node, verb) to method names. The
   concrete trie of larking/rules.go (Model/Trie.v: nodes, literal / variable children, per-verb bindings and the
   '*' binding; Model/TrieDel.v: delRule) refines it: reading the trie through `Abs` (a key names a node by its edge
   path up to the spelling of patterns; the map's value is the method stored there under that verb) commutes with
   every operation. Spec/AbsTrie.v states the map operations generically over the key type; Registry.t_find, t_lookup,
   t_add, t_del, ... are its instance at nat (AbsTrie.RegistryInstance, by reflexivity). *)
From Larking Require Import Model.Trie Model.TrieDel Spec.AbsTrie Proofs.DelProofs Proofs.RefineProofs.

(* one registration of a service (all or nothing) on related states: same verdict, related results *)
Theorem C11_trie_refines_registration :
  forall isLetter isNumber resolves body_ok resp_ok root t ds,
  Good isLetter isNumber resolves root -> Abs root t ->
  Good isLetter isNumber resolves (fst (Trie.register_service resolves body_ok resp_ok isLetter isNumber root ds)) /\
  Abs (fst (Trie.register_service resolves body_ok resp_ok isLetter isNumber root ds))
      (c_register_service t (List.map (abs_decl isLetter isNumber resolves body_ok resp_ok) ds)) /\
  snd (Trie.register_service resolves body_ok resp_ok isLetter isNumber root ds) =
  is_ok (c_register t (List.map (abs_decl isLetter isNumber resolves body_ok resp_ok) ds)).
Proof. exact refine_service. Qed.
Print Assumptions C11_trie_refines_registration.

(* removal of a method's routes on related states *)
Theorem C11_trie_refines_removal : forall isLetter isNumber resolves name root t,
  Good isLetter isNumber resolves root -> Abs root t -> Abs (TrieDel.remove_method name root) (c_del t name).
Proof. exact refine_del. Qed.
Print Assumptions C11_trie_refines_removal.

(* every history of registrations (failing ones included) and removals: the states stay related and every operation
   returns the same verdict on both sides *)
Theorem C11_trie_refines_history : forall isLetter isNumber resolves body_ok resp_ok ops root t,
  Good isLetter isNumber resolves root -> Abs root t ->
  Good isLetter isNumber resolves (DelProofs.run_ops isLetter isNumber resolves body_ok resp_ok root ops) /\
  Abs (DelProofs.run_ops isLetter isNumber resolves body_ok resp_ok root ops) (arun isLetter isNumber resolves body_ok resp_ok t ops) /\
  ctrace isLetter isNumber resolves body_ok resp_ok root ops = atrace isLetter isNumber resolves body_ok resp_ok t ops.
Proof. exact refine_history_exact. Qed.
Print Assumptions C11_trie_refines_history.

(* from the empty mux: which method a key is bound to in the abstract map is exactly what the trie stores there ... *)
Theorem C11_published_map_is_trie_content : forall isLetter isNumber resolves body_ok resp_ok ops es v mid,
  (c_find (arun isLetter isNumber resolves body_ok resp_ok nil ops) (TrieProofs.keys es) v = Some mid <->
   exists i m, TrieProofs.info_at (DelProofs.run_ops isLetter isNumber resolves body_ok resp_ok Trie.empty_node ops) es = Some i /\
               TrieProofs.stored i v m /\ Trie.m_id m = mid).
Proof. exact refine_published_exact. Qed.
Print Assumptions C11_published_map_is_trie_content.

(* ... and a request the trie routes is served by the method the abstract map binds (own verb, else '*') at the node
   the request's path is matched to *)
Theorem C11_routed_method_is_map_binding : forall isLetter isNumber resolves okconv root t verb p m caps,
  Good isLetter isNumber resolves root -> AbsR root t ->
  Match.route okconv isLetter isNumber root verb p = Ok (m, caps) ->
  exists es toks, Lexer.lex_path isLetter isNumber (Match.normalise p) = Ok toks /\ Route.MatchEdges es toks caps /\
                  c_lookup t (TrieProofs.keys es) verb = Some (Trie.m_id m).
Proof. exact refine_route. Qed.
Print Assumptions C11_routed_method_is_map_binding.

(* the record of what the refinement proof found wrong in the first registry model (kept checked): the old duplicate
   check (AbsTrie.a_add_loose) accepted a '*' binding at a node where another method holds a verb binding, which
   rules.go refuses, and answered "already registered" for a verb binding below the method's own '*', which rules.go
   stores. Neither situation occurred in the catalogue of the correspondence run; both do now (harness/c11.go). *)
Theorem C11_first_registry_model_refuted :
  a_add_loose nat nat nat Nat.eqb Nat.eqb Nat.eqb 0 [(1, 1, 1)] (AKey 1 0 true) 2 = Ok ([(1, 0, 2); (1, 1, 1)], true) /\
  Registry.t_add [(1, 1, 1)] (BKey 1 0 true) 2 = Err EInvalid /\
  a_add_loose nat nat nat Nat.eqb Nat.eqb Nat.eqb 0 [(1, 0, 1)] (AKey 1 1 true) 1 = Ok ([(1, 0, 1)], false) /\
  Registry.t_add [(1, 0, 1)] (BKey 1 1 true) 1 = Ok ([(1, 1, 1); (1, 0, 1)], true).
Proof. vm_compute. repeat split. Qed.
Print Assumptions C11_first_registry_model_refuted.
