(* C12 -- Registration is atomic with respect to concurrent serving (PARTIAL: proved on a heap
   model under all interleavings of modelled steps; the Go memory model, atomic.Value and
   sync.Mutex are trusted primitives; data-race freedom of the binary is only searched for).
   Model: Model/Snapshot.v -- trie nodes and the two maps of a state at locations of an explicit
   heap; clone copies the snapshot's region to fresh locations; addRule / delRule / the map
   updates of appendHandler and removeHandler are writes that record their location; events:
   EBegin (lock, load, clone), EMut, EStore (last effect of a writer), EAbort (error return
   before the store), ELoad (a request loads once), ERead (it reads one node).
   exec world0 es is the world after ANY schedule es of these events. *)
From Larking Require Import Base.GoSem Model.Registry Model.Snapshot Proofs.SnapshotProofs Gen.SyncSkeleton.
Local Open Scope nat_scope.

(* no event, in any schedule, writes (or allocates) a location that belongs to a snapshot that has
   been stored; and an event changes no location beyond the ones it reports as written *)
Theorem C12_published_immutable : forall es e l s, let w := exec world0 es in
  In l (writes_of w e) -> In s (stored w) -> ~ In l (footprint s).
Proof. exact published_immutable. Qed.
Print Assumptions C12_published_immutable.
Theorem C12_writes_are_all_writes : forall es e x, let w := exec world0 es in
  ~ In x (writes_of w e) -> cell_at (hp (wstep w e)) x = cell_at (hp w) x.
Proof. exact writes_complete. Qed.
Print Assumptions C12_writes_are_all_writes.
(* hence every cell of a stored snapshot keeps its content for ever *)
Theorem C12_snapshot_content_fixed : forall es es' s x, let w := exec world0 es in
  In s (stored w) -> In x (footprint s) -> cell_at (hp (exec w es')) x = cell_at (hp w) x.
Proof. intros es es' s x w. apply snapshot_content_fixed. apply exec_WI. apply WI0. Qed.
Print Assumptions C12_snapshot_content_fixed.

(* all or nothing: only a store changes what is published; whatever a writer does before its
   store -- including giving up on an error -- leaves the published snapshot, the list of stored
   snapshots and every route of the published snapshot as they were *)
Theorem C12_all_or_nothing : forall es es', let w := exec world0 es in ~ In EStore es' ->
  pub (exec w es') = pub w /\ stored (exec w es') = stored w /\
  forall labels verb, route_snap (hp (exec w es')) (pub w) labels verb = route_snap (hp w) (pub w) labels verb.
Proof. intros es es' w. apply invisible_until_store. apply exec_WI. apply WI0. Qed.
Print Assumptions C12_all_or_nothing.
Theorem C12_only_store_publishes : forall w e, pub (wstep w e) <> pub w -> e = EStore.
Proof. exact only_store_publishes. Qed.
Print Assumptions C12_only_store_publishes.

(* linearizable: under every interleaving es2 of writer and reader steps after its load, the
   request that loads after es1 ends with the route of the snapshot published at its load --
   the newest stored one at that moment -- as if evaluated atomically then *)
Theorem C12_linearizable : forall es1 labels verb es2,
  let w1 := exec world0 es1 in
  let w2 := exec (wstep w1 (ELoad labels verb)) es2 in
  answer (hp w2) (nth (length (readers w1)) (readers w2) (RDone None)) = route_snap (hp w1) (pub w1) labels verb /\
  pub w1 = match stored w1 with [] => None | s :: _ => Some s end.
Proof. exact linearizable. Qed.
Print Assumptions C12_linearizable.

(* the discipline the events assume, re-derived from the Go source on every run *)
Theorem C12_skeleton : skeleton_ok = true.
Proof. exact skeleton_ok_true. Qed.
Print Assumptions C12_skeleton.

(* ---- non-vacuity: a schedule with a reader between the writer's steps ---- *)
Definition sched1 : list ev :=
  [EBegin; EMut (MAdd [1; 2] 1 7); EMut (MHandlers [(7, [Handler 0 (OConn 0) 7])]); EStore].
Definition sched2 : list ev :=            (* a second writer adds a route while request 0 is in flight, then a failing writer *)
  [ERead 0; EBegin; EMut (MAdd [1; 3] 1 8); ERead 0; EMut (MDel 7); EStore; ERead 0; ERead 0;
   EBegin; EMut (MDel 8); EAbort; ELoad [1; 3] 1; ERead 1; ERead 1; ERead 1].
Example sched_results :
  let w1 := exec world0 sched1 in
  let w2 := exec (wstep w1 (ELoad [1; 2] 1)) sched2 in
  route_snap (hp w1) (pub w1) [1; 2] 1 = Some 7 /\
  readers w2 = [RDone (Some 7); RDone (Some 8)] /\           (* request 0 still sees the old snapshot *)
  route_snap (hp w2) (pub w2) [1; 2] 1 = None /\ route_snap (hp w2) (pub w2) [1; 3] 1 = Some 8 /\
  length (stored w2) = 2.
Proof. vm_compute. repeat split; reflexivity. Qed.
Example writes_nonempty :
  writes_of (exec world0 (sched1 ++ [EBegin])) (EMut (MAdd [1; 3] 1 8)) <> [] /\
  writes_of (exec world0 (sched1 ++ [EBegin])) (EMut (MDel 7)) <> [].
Proof. vm_compute. split; discriminate. Qed.

(* ---- what the heap model's snapshots MEAN: the abstract routing map of C11 (Proofs/SnapRefineProofs.v) ----
   A snapshot denotes a finite map from (labels from the root, verb) to method names; the map operations are those
   of Spec/AbsTrie.v (Registry.t_find / t_lookup / t_del are its instance at nat, the concrete trie of rules.go refines
   it: Properties/C11.v). Under ANY schedule the published snapshot denotes the fold, over the empty map, of the
   mutations of the writers that stored, in store order -- aborted writers and the writer in progress contribute
   nothing -- and every route of the published state is that map's lookup (own verb, else '*'). *)
From Larking Require Import Spec.AbsTrie Proofs.SnapRefineProofs.

Theorem C12_published_state_is_map : forall es,
  let w := exec world0 es in
  let t := fold_left amut (committed None es) [] in
  match pub w with
  | Some s => SAbs (hp w) s t /\ SExact (hp w) s t /\ tree (hp w) s
  | None => t = []
  end.
Proof. exact exec_refines. Qed.
Print Assumptions C12_published_state_is_map.

Theorem C12_routes_are_map_lookups : forall es labels verb,
  let w := exec world0 es in
  route_snap (hp w) (pub w) labels verb = s_lookup (fold_left amut (committed None es) []) labels verb.
Proof. exact exec_routes. Qed.
Print Assumptions C12_routes_are_map_lookups.

(* linearizability in terms of the map: a request that loads after es1 is answered by the lookup in the map published
   after es1, whatever is interleaved afterwards *)
Theorem C12_request_sees_published_map : forall es1 labels verb es2,
  let w1 := exec world0 es1 in
  let w2 := exec (wstep w1 (ELoad labels verb)) es2 in
  answer (hp w2) (nth (length (readers w1)) (readers w2) (RDone None)) =
  s_lookup (fold_left amut (committed None es1) []) labels verb.
Proof. exact request_sees_map. Qed.
Print Assumptions C12_request_sees_published_map.

(* state.clone: the copy denotes the same map, and the original still does *)
Theorem C12_clone_preserves_map : forall h s t h' s',
  closed h s -> (forall l, In l (sregion s) -> l < next h) -> clone_snap h (Some s) = (h', s') ->
  SAbs h s t -> SAbs h' s' t /\ SAbs h' s t.
Proof. exact clone_preserves_abs. Qed.
Print Assumptions C12_clone_preserves_map.

(* a limit of the heap model, kept checked: its MAdd conses the binding onto the node (aset), so an add over a bound
   key shadows instead of replacing, and deleting the newer method resurrects the older binding -- the fold with
   replace-or-insert is NOT what the heap denotes. rules.go never adds over a bound key (addRule stores only after its
   duplicate check found the key free; a Go map assignment would replace); for such guarded writers the two readings
   coincide (SnapRefineProofs.exec_refines_guarded). *)
Theorem C12_heap_add_over_bound_key_shadows_refuted : exists es,
  let w := exec world0 es in
  exists s, pub w = Some s /\ ~ SAbs (hp w) s (fold_left amut_put (committed None es) []) /\
  route_snap (hp w) (pub w) [1] 1 = Some 7 /\ s_lookup (fold_left amut_put (committed None es) []) [1] 1 = None.
Proof. exact exec_refines_put_refuted. Qed.
Print Assumptions C12_heap_add_over_bound_key_shadows_refuted.
