(* C16 -- Registration accepts valid rules and rejects invalid ones without crashing.
   Model: Model/Lexer.v (lexTemplate), Model/Trie.v (addRule: token walk, field resolution, conflict
   check, body / response_body resolution, additional bindings; appendHandler; registerService).
   Grammar: Spec/Grammar.v (the documented template grammar over tokens, with http.proto's side
   conditions). The protobuf schema is an oracle (which field paths resolve / are usable selectors);
   unicode.IsLetter / IsNumber are parameters (Sane: the grammar's delimiters are neither). *)
From Larking Require Import Base.GoSem Model.Lexer Model.Trie Model.Match Spec.Grammar Spec.Route
  Spec.Template Spec.TemplateAbs
  Proofs.LexerProofs Proofs.MatchProofs Proofs.TrieProofs Proofs.RoutingProofs Proofs.TemplateProofs.
Local Open Scope N_scope.

(* the lexer accepts exactly the grammar: every accepted template is a derivation whose tokens spell
   the template text, at most 64 of them; every derivation of at most 64 tokens is accepted *)
Theorem C16_lexer_exact : forall (isLetter isNumber : N -> bool), Sane isLetter isNumber ->
  forall (t : str) (toks : list token),
  lex_template isLetter isNumber t = Ok toks <->
  Tmpl isLetter isNumber toks /\ spell toks = t /\ (length toks <= 64)%nat.
Proof.
  intros isLetter isNumber sane t toks. split.
  - exact (lex_template_sound isLetter isNumber t toks).
  - intros (HT & Hs & Hl). rewrite <- Hs. exact (lex_template_complete isLetter isNumber sane toks HT Hl).
Qed.
Print Assumptions C16_lexer_exact.

(* the independent, string-splitting template reader of Spec/Template.v -- the oracle that judges the
   real implementation in the correspondence run -- accepts exactly the templates the lexer model
   accepts, and the two read the same structure (AbsT: segments, variables with field path and pattern,
   verb); so "larking accepts what the documentation's grammar describes" is checked against the Go
   code by a reader that shares nothing with the model but is proved to agree with it *)
Theorem C16_oracle_agrees : forall isLetter isNumber, Sane isLetter isNumber -> forall s,
  (forall t, parse_tmpl isLetter isNumber s = Some t ->
     exists toks, lex_template isLetter isNumber s = Ok toks /\ AbsT toks t) /\
  (forall toks, lex_template isLetter isNumber s = Ok toks ->
     exists t, parse_tmpl isLetter isNumber s = Some t /\ AbsT toks t).
Proof. exact template_oracle_agrees_with_lexer. Qed.
Print Assumptions C16_oracle_agrees.

(* ... and, without any assumption on the classifiers, what the reader accepts is a derivation of the
   documented grammar whose tokens spell the text, within the 64-token limit *)
Theorem C16_oracle_sound : forall isLetter isNumber s t,
  parse_tmpl isLetter isNumber s = Some t ->
  exists toks, Tmpl isLetter isNumber toks /\ spell toks = s /\ (length toks <= 64)%nat /\ AbsT toks t.
Proof. exact template_parser_to_grammar. Qed.
Print Assumptions C16_oracle_sound.

(* the lexer never panics and never runs out of fuel, on any text and any classifier *)
Theorem C16_lexer_total : forall isLetter isNumber t, LexerProofs.benign (lex_template isLetter isNumber t).
Proof. exact lex_template_benign. Qed.
Print Assumptions C16_lexer_total.

(* no rule text whatsoever makes the registration of a binding panic or diverge *)
Theorem C16_never_panics : forall isLetter isNumber resolves body_ok resp_ok mid root b,
  MatchProofs.benign (add_binding resolves body_ok resp_ok isLetter isNumber mid root b).
Proof. exact add_binding_benign. Qed.
Print Assumptions C16_never_panics.

(* registering a method never panics and never runs out of fuel, whatever its annotation, the
   service-config rules selected for it and the trie it meets -- also when another method's rule
   already occupies its implicit /Service/Method path (that used to be panic("bug: ..."), finding R10) *)
Theorem C16_method_registration_total : forall isLetter isNumber resolves body_ok resp_ok root d,
  MatchProofs.benign (append_handler resolves body_ok resp_ok isLetter isNumber root d).
Proof. exact append_handler_total. Qed.
Print Assumptions C16_method_registration_total.

(* ---- rejected ---- *)
Theorem C16_reject_malformed : forall isLetter isNumber resolves body_ok resp_ok mid root b,
  ~ tmpl_wf isLetter isNumber (b_tmpl b) ->
  exists e, add_binding resolves body_ok resp_ok isLetter isNumber mid root b = Err e.
Proof. exact reject_malformed. Qed.
Print Assumptions C16_reject_malformed.

Theorem C16_reject_unknown_field : forall isLetter isNumber resolves body_ok resp_ok mid root b toks e,
  lex_template isLetter isNumber (b_tmpl b) = Ok toks -> compile resolves (S (length toks)) mid toks = Err e ->
  add_binding resolves body_ok resp_ok isLetter isNumber mid root b = Err e.
Proof. exact reject_unresolved. Qed.
Print Assumptions C16_reject_unknown_field.

(* (no exception for a pattern the method has already bound: finding R11) *)
Theorem C16_reject_bad_selector : forall isLetter isNumber resolves body_ok resp_ok root mid b es vfs,
  compiled isLetter isNumber resolves mid b es vfs ->
  (match b_body b with BField p => resolves mid p && body_ok mid p | _ => true end) &&
  (match b_resp b with [] => true | p => resp_ok mid p end) = false ->
  exists e, add_binding resolves body_ok resp_ok isLetter isNumber mid root b = Err e.
Proof. exact reject_bad_selector. Qed.
Print Assumptions C16_reject_bad_selector.

Theorem C16_reject_nested_additional : forall isLetter isNumber resolves body_ok resp_ok mid root r a,
  In a (h_adds r) -> b_nested a = true ->
  exists e, add_rule resolves body_ok resp_ok isLetter isNumber mid root r = Err e.
Proof. exact reject_nested. Qed.
Print Assumptions C16_reject_nested_additional.

(* a binding that conflicts with another method's: same place in the trie, overlapping verb *)
Theorem C16_reject_conflict : forall isLetter isNumber resolves body_ok resp_ok L root mid b es vfs i key m,
  Inv isLetter isNumber resolves L root -> compiled isLetter isNumber resolves mid b es vfs ->
  info_at root es = Some i -> stored i key m -> m_id m <> mid -> overlap key (b_verb b) ->
  exists e, add_binding resolves body_ok resp_ok isLetter isNumber mid root b = Err e.
Proof. exact reject_conflict. Qed.
Print Assumptions C16_reject_conflict.

(* a failed registerService publishes nothing: previously registered routes stay exactly as they were *)
Theorem C16_failure_preserves : forall isLetter isNumber resolves body_ok resp_ok root ds root',
  register_service resolves body_ok resp_ok isLetter isNumber root ds = (root', false) -> root' = root.
Proof. exact register_service_failed. Qed.
Print Assumptions C16_failure_preserves.

(* ---- accepted ---- *)
Theorem C16_accept : forall isLetter isNumber resolves body_ok resp_ok root mid b es vfs,
  compiled isLetter isNumber resolves mid b es vfs -> no_foreign mid (b_verb b) (leaf_of root es) ->
  (match b_body b with BField p => resolves mid p && body_ok mid p | _ => true end = true) ->
  (match b_resp b with [] => true | p => resp_ok mid p end = true) ->
  exists root', add_binding resolves body_ok resp_ok isLetter isNumber mid root b = Ok root'.
Proof. exact accept_binding. Qed.
Print Assumptions C16_accept.

(* ... and afterwards every path its template covers is served, by a method owning a rule that covers
   the request (its own, unless a rule of higher precedence also covers the path) *)
Theorem C16_accepted_routes :
  forall isLetter isNumber resolves body_ok resp_ok okconv, Sane isLetter isNumber ->
  (forall fp t, okconv fp t = true) ->
  forall L root mid b root' es vfs verb p toks caps,
  Inv isLetter isNumber resolves L root ->
  add_binding resolves body_ok resp_ok isLetter isNumber mid root b = Ok root' ->
  compiled isLetter isNumber resolves mid b es vfs -> covers_verb (b_verb b) verb ->
  lex_path isLetter isNumber (normalise p) = Ok toks -> MatchEdges es toks caps ->
  exists m caps', route okconv isLetter isNumber root' verb p = Ok (m, caps') /\
    exists mid' b' es', In (mid', b') ((mid, b) :: L) /\ m_id m = mid' /\ covers_verb (b_verb b') verb /\
      compiled isLetter isNumber resolves mid' b' es' (m_vars m) /\ MatchEdges es' toks caps'.
Proof.
  intros isLetter isNumber resolves body_ok resp_ok okconv sane conv L root mid b root' es vfs verb p toks caps HI Ha Hc Hcov El HM.
  pose proof (Inv_step isLetter isNumber resolves body_ok resp_ok L root mid b root' HI Ha) as HI'.
  destruct (dispatch_complete isLetter isNumber resolves okconv sane conv _ root' verb p mid b es vfs toks caps HI' (or_introl eq_refl) Hcov Hc El HM) as [[m caps'] Hr].
  exists m, caps'. split; [exact Hr|].
  destruct (dispatch_sound isLetter isNumber resolves okconv sane _ root' verb p m caps' HI' Hr) as (mid' & b' & es' & toks' & A & B & C & D & E & F & G).
  rewrite El in F. inversion F; subst toks'. exists mid', b', es'. auto.
Qed.
Print Assumptions C16_accepted_routes.

(* ---- the statements are about something: a concrete classifier, templates, a registration ---- *)
Definition asciiL (r : N) : bool := ((65 <=? r) && (r <=? 90)) || ((97 <=? r) && (r <=? 122)).
Definition asciiN (r : N) : bool := (48 <=? r) && (r <=? 57).
Example ascii_sane : Sane asciiL asciiN.
Proof. intros r H. cbn in H. repeat (destruct H as [ <- | H ]; [split; reflexivity|]). contradiction. Qed.

Definition s (l : list N) : str := l.
(* "/a/{s1=b/*}/**:get" *)
Definition t_ok : str := s [47;97;47;123;115;49;61;98;47;42;125;47;42;42;58;103;101;116].
Example lex_ok : exists toks, lex_template asciiL asciiN t_ok = Ok toks /\ length toks = 15%nat /\ Tmpl asciiL asciiN toks.
Proof.
  destruct (lex_template asciiL asciiN t_ok) as [toks| | |] eqn:E; try (vm_compute in E; discriminate).
  exists toks. split; [reflexivity|]. split.
  - vm_compute in E. inversion E. reflexivity.
  - exact (proj1 (lex_template_sound asciiL asciiN t_ok toks E)).
Qed.
(* "/a/**/b", "/{s1={s2}}", "/1a", "/a/" are refused; a single-letter literal is fine *)
Example lex_bad :
  lex_template asciiL asciiN (s [47;97;47;42;42;47;98]) = Err EInvalid /\
  lex_template asciiL asciiN (s [47;123;115;49;61;123;115;50;125;125]) = Err EInvalid /\
  lex_template asciiL asciiN (s [47;49;97]) = Err EInvalid /\
  lex_template asciiL asciiN (s [47;97;47]) = Err EInvalid /\
  is_ok (lex_template asciiL asciiN (s [47;97;47;98])) = true.
Proof. repeat split; vm_compute; reflexivity. Qed.

Definition all_ok (_ : str) (_ : list str) := true.
Definition rule1 : brule := {| b_verb := s [71;69;84]; b_tmpl := s [47;97;47;123;115;49;125]; b_body := BNone; b_resp := []; b_nested := false |}.
Definition m1 : str := s [47;83;47;77;49].   (* "/S/M1" *)
Definition m2 : str := s [47;83;47;77;50].
(* the same template for another method under the same verb is refused; under another verb accepted *)
Example conflict_refused :
  exists r1, add_binding all_ok all_ok all_ok asciiL asciiN m1 empty_node rule1 = Ok r1 /\
    add_binding all_ok all_ok all_ok asciiL asciiN m2 r1 rule1 = Err EInvalid /\
    is_ok (add_binding all_ok all_ok all_ok asciiL asciiN m2 r1
             {| b_verb := s [80;85;84]; b_tmpl := b_tmpl rule1; b_body := BStar; b_resp := []; b_nested := false |}) = true.
Proof. eexists. split; [vm_compute; reflexivity|]. split; vm_compute; reflexivity. Qed.
