(* C05 -- Status and error fidelity on every protocol: the byte-level laws.
   Model: Model/Status.v, Base/Pct.v, Base/B64.v (code.go tables and bounds checks, Twirp names,
   encodeGrpcMessage, gRPC-web frames, base64 text mode, WebSocket close reason). *)
From Larking Require Import Base.GoSem Base.Pct Base.B64 Model.Status Proofs.StatusProofs.

(* every status code a uint32 can hold maps to the reference HTTP status / close code; the table
   lookups never go out of range (no Panic) *)
Theorem C05_http_status_total : forall c, (0 <= c)%Z -> http_status_code c = Ok (ref_http c).
Proof. exact http_status_total. Qed.
Print Assumptions C05_http_status_total.
Theorem C05_ws_status_total : forall c, (0 <= c)%Z -> ws_status_code c = Ok (ref_ws c).
Proof. exact ws_status_total. Qed.
Print Assumptions C05_ws_status_total.

(* grpc-message: what a grpc-go client decodes is exactly the handler's message, for every byte
   string ('%', control bytes, multi-byte UTF-8, any length), and the header value is printable ASCII *)
Theorem C05_grpc_message_roundtrip : forall m, Forall (fun b => (b < 256)%N) m -> pct_decode (pct_encode m) = m.
Proof. exact pct_roundtrip. Qed.
Print Assumptions C05_grpc_message_roundtrip.
Theorem C05_grpc_message_header_safe : forall m, Forall (fun b => (b < 256)%N) m ->
  Forall (fun b => (32 <= b <= 126)%N) (pct_encode m).
Proof. exact pct_header_safe. Qed.
Print Assumptions C05_grpc_message_header_safe.

(* gRPC-web: a body written as reply frames followed by one trailer frame parses back to exactly
   those frames (no lost byte, nothing merged) *)
Theorem C05_frames_roundtrip : forall fs fuel,
  Forall (fun f => (N.of_nat (length (snd f)) < 4294967296)%N) fs ->
  (length (concat (map (fun f => frame (fst f) (snd f)) fs)) < fuel)%nat ->
  parse_frames fuel (concat (map (fun f => frame (fst f) (snd f)) fs)) = Some fs.
Proof. exact parse_frames_roundtrip. Qed.
Print Assumptions C05_frames_roundtrip.

(* gRPC-web-text and the details header: base64 (std or url, padded or raw) decodes to exactly the
   bytes that were encoded, whatever the length mod 3 -- once the encoder has been closed *)
Theorem C05_base64_complete : forall url pad m, Forall (fun b => (b < 256)%N) m ->
  b64_decode url pad (b64_encode url pad m) = Some m.
Proof. exact b64_roundtrip. Qed.
Print Assumptions C05_base64_complete.

(* WebSocket: the close reason is the message as far as a control frame can carry it *)
Theorem C05_ws_close_reason : forall msg,
  (length (ws_reason msg) <= 123)%nat /\ exists r, msg = ws_reason msg ++ r.
Proof. exact ws_reason_fits. Qed.
Print Assumptions C05_ws_close_reason.

Example escapes_everywhere :
  pct_encode [37; 97; 37; 98; 37]%N = [37;50;53;97;37;50;53;98;37;50;53]%N /\        (* "%a%b%" *)
  pct_decode (pct_encode [97; 37; 98; 99]%N) = [97; 37; 98; 99]%N /\                 (* tail after the last escape *)
  http_status_code 17 = Ok 500%Z /\ http_status_code 4294967295 = Ok 500%Z /\ ws_status_code 17 = Ok 1011%Z /\
  b64_decode false true (b64_encode false true [1;2;3;4;5]%N) = Some [1;2;3;4;5]%N.
Proof. repeat split; reflexivity. Qed.
