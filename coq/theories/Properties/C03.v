(* C03 -- Transcoded request reconstruction: path + query + body rebuild the message.
   Model: Model/Schema.v, Model/Params.v (parseParam, params.set, parseQueryParams),
   Model/Transcode.v (serveHTTP, RecvMsg / decodeRequestArgs); grammar: Spec/Json3.v. *)
From Larking Require Import Base.GoSem Base.B64 Model.Schema Model.Params Model.Transcode Spec.Json3
  Proofs.ParamsProofs Proofs.ParamsConvProofs Proofs.RoundtripProofs.
Local Open Scope N_scope.

(* Round trip.  A client splits a message into captures (pls: field path, text, value, template
   order), query keys with one value each (qls: key, field path, text, value -- the keys in ANY
   order, either spelling, as long as each resolves and each text converts to its value) and a body
   part (any tree, sent through any codec / compressor that are inverse pairs).  If the leaves are
   walkable singular field paths that do not write into each other, the request is served and the
   handler's message M' has: at and under every leaf exactly the image of its value; every parent
   message of a leaf present; everywhere else exactly the body part M0. *)
Theorem C03_roundtrip :
  forall (ofloat : bool -> bytes -> option N) (owkt : wkt -> bool -> bytes -> option subtree)
         (marshal : nat -> nat -> subtree -> bytes) (unmarshal : nat -> nat -> bytes -> option subtree),
  (forall c ty t, unmarshal c ty (marshal c ty t) = Some t) ->
  forall (deflate : bytes -> bytes) (inflate : bytes -> option bytes),
  (forall b, inflate (deflate b) = Some b) ->
  forall sch r pls qls body codec gz M0,
  r_vars r = map (fun l => fst (fst l)) pls ->
  Forall (pleaf_ok ofloat owkt sch) pls ->
  Forall (qleaf_ok ofloat owkt sch (msg_fields sch (r_input r))) qls ->
  (forall p, In p (split_leaves pls qls) -> walkable (fst p) = true /\ singular_last (fst p)) ->
  (forall i j pi pj, i <> j -> nth_error (split_leaves pls qls) i = Some pi -> nth_error (split_leaves pls qls) j = Some pj ->
     untouched (fst pj) (steps_path (fst pi)) = true) ->
  (r_body r = BNone -> body = None) ->
  body_image r body = Ok M0 ->
  exists M', decode_request ofloat owkt unmarshal inflate sch r
               (split_request marshal deflate sch r pls qls body codec gz) = Ok M' /\
    (forall i fds v rel, nth_error (split_leaves pls qls) i = Some (fds, v) ->
       lookup (steps_path fds ++ rel) M' = lookup rel (field_image (snd (last_step fds)) v)) /\
    (forall i fds v p q, nth_error (split_leaves pls qls) i = Some (fds, v) -> steps_path fds = p ++ q -> p <> [] -> q <> [] ->
       lookup p M' = Some EPresent) /\
    (forall q, (forall p, In p (split_leaves pls qls) -> untouched (fst p) q = true) -> lookup q M' = lookup q M0).
Proof. exact roundtrip. Qed.
Print Assumptions C03_roundtrip.

(* params.set alone, for any starting message: the same three facts *)
Theorem C03_params_rebuild : forall leaves,
  (forall p, In p leaves -> fst p <> [] /\ singular_last (fst p)) ->
  (forall i j pi pj, i <> j -> nth_error leaves i = Some pi -> nth_error leaves j = Some pj ->
     untouched (fst pj) (steps_path (fst pi)) = true) ->
  forall M0 M', params_set leaves M0 = Ok M' ->
  (forall i fds v rel, nth_error leaves i = Some (fds, v) ->
     lookup (steps_path fds ++ rel) M' = lookup rel (field_image (snd (last_step fds)) v)) /\
  (forall i fds v p r, nth_error leaves i = Some (fds, v) -> steps_path fds = p ++ r -> p <> [] -> r <> [] ->
     lookup p M' = Some EPresent) /\
  (forall q, (forall p, In p leaves -> untouched (fst p) q = true) -> lookup q M' = lookup q M0).
Proof. exact rebuild. Qed.
Print Assumptions C03_params_rebuild.

(* Conversion is exact for bool, the ten integer kinds, string and enum (by number, by name,
   NullValue): a text is accepted with value v iff the grammar of Spec/Json3.v gives it value v. *)
Theorem C03_conv_exact :
  forall (ofloat : bool -> bytes -> option N) (owkt : wkt -> bool -> bytes -> option subtree) sch k txt v,
  exact_kind k = true ->
  (parse_kind ofloat owkt sch k txt = Ok v <-> json3_text sch k v txt).
Proof. exact conv_exact. Qed.
Print Assumptions C03_conv_exact.

(* bytes: each of the four base64 spellings of every byte string is accepted with that value *)
Theorem C03_bytes_spellings :
  forall (ofloat : bool -> bytes -> option N) (owkt : wkt -> bool -> bytes -> option subtree) sch url pad m,
  Forall (fun b => b < 256) m ->
  parse_kind ofloat owkt sch KBytes (b64_encode url pad m) = Ok (PScalar (SByt m)).
Proof. exact bytes_spellings. Qed.
Print Assumptions C03_bytes_spellings.

(* text that is not a form of the grammar is never accepted as some other value *)
Theorem C03_reject_not_coerce :
  forall (ofloat : bool -> bytes -> option N) (owkt : wkt -> bool -> bytes -> option subtree) sch k txt v,
  (exact_kind k = true \/ k = KBytes) ->
  parse_kind ofloat owkt sch k txt = Ok v -> json3_text sch k v txt.
Proof. exact reject_not_coerce. Qed.
Print Assumptions C03_reject_not_coerce.

(* float / double and the message-typed well-known types: the decoder chosen, the quoting
   decision, a decoder error is an error; every other message type is refused *)
Theorem C03_oracle_kinds :
  forall (ofloat : bool -> bytes -> option N) (owkt : wkt -> bool -> bytes -> option subtree) sch txt,
  parse_kind ofloat owkt sch KFloat txt = match ofloat true txt with Some b => Ok (PScalar (SFlt b)) | None => Err EOther end /\
  parse_kind ofloat owkt sch KDouble txt = match ofloat false txt with Some b => Ok (PScalar (SFlt b)) | None => Err EOther end /\
  forall m, parse_kind ofloat owkt sch (KMessage m) txt =
    match msg_wkt sch m with
    | WNone => Err EOther
    | w => match owkt w (wkt_quoted w && needs_quote txt) txt with Some t => Ok (PMsg t) | None => Err EOther end
    end.
Proof. exact oracle_kinds. Qed.
Print Assumptions C03_oracle_kinds.

Theorem C03_quoting : forall w txt,
  (wkt_quoted w = true <-> (w = WTimestamp \/ w = WDuration \/ w = WBytesValue \/ w = WStringValue \/ w = WFieldMask)) /\
  (needs_quote txt = false <-> (2 <= length txt)%nat /\ hd 0 txt = 34 /\ last txt 0 = 34).
Proof. intros w txt. split; [first [exact (quoted_types w) | exact (quoted_types (fun _ _ => None) w)]|first [exact (needs_quote_spec txt) | exact (needs_quote_spec (fun _ _ => None) txt)]]. Qed.
Print Assumptions C03_quoting.

(* ---- instances ---- *)
Definition no_float (_ : bool) (_ : bytes) : option N := None.
Definition no_wkt (_ : wkt) (_ : bool) (_ : bytes) : option subtree := None.
Definition ex_sch := mkSchema [] [mkEnum false [([82;69;68], 1%Z); ([78;69;71], (-1)%Z)]].

Example ex_texts :
  parse_kind no_float no_wkt ex_sch KInt32 [32;45;49;50;10] = Ok (PScalar (SInt (-12))) /\          (* " -12\n" *)
  parse_kind no_float no_wkt ex_sch KInt32 [49;101;50] = Err EOther /\                              (* 1e2 *)
  parse_kind no_float no_wkt ex_sch KInt32 [50;49;52;55;52;56;51;54;52;56] = Err EOther /\          (* 2147483648 *)
  parse_kind no_float no_wkt ex_sch KSfixed32 [50;49;52;55;52;56;51;54;52;55] = Ok (PScalar (SInt 2147483647)) /\
  parse_kind no_float no_wkt ex_sch KUint64 [45;49] = Err EOther /\                                  (* -1 *)
  parse_kind no_float no_wkt ex_sch KUint32 [45;48] = Err EOther /\                                  (* -0 *)
  parse_kind no_float no_wkt ex_sch KInt64 [45;48] = Ok (PScalar (SInt 0)) /\
  parse_kind no_float no_wkt ex_sch KBool [84;82;85;69] = Err EOther /\                              (* TRUE *)
  parse_kind no_float no_wkt ex_sch KBool [116;114;117;101] = Ok (PScalar (SBool true)) /\
  parse_kind no_float no_wkt ex_sch (KEnum 0) [78;69;71] = Ok (PScalar (SEnum (-1))) /\              (* NEG *)
  parse_kind no_float no_wkt ex_sch (KEnum 0) [55] = Ok (PScalar (SEnum 7)) /\
  parse_kind no_float no_wkt ex_sch (KEnum 0) [114;101;100] = Err EOther /\                          (* red *)
  parse_kind no_float no_wkt ex_sch KBytes [45;43] = Err EOther /\                                   (* "-+" mixed alphabets *)
  parse_kind no_float no_wkt ex_sch KBytes [95;119;61;61] = Ok (PScalar (SByt [255])) /\             (* "_w==" *)
  parse_kind no_float no_wkt ex_sch KBytes [47;119] = Ok (PScalar (SByt [255])).                     (* "/w" *)
Proof. vm_compute. repeat split; reflexivity. Qed.

(* the grammar is inhabited: " -12\n" is an int32 text of -12 *)
Example ex_grammar : json3_text ex_sch KInt32 (PScalar (SInt (-12))) [32;45;49;50;10].
Proof.
  exists (-12)%Z. split; [reflexivity|]. split; [|cbn; lia].
  exists [32], [45;49;50], [10]. split; [reflexivity|].
  split; [constructor; [left; reflexivity|constructor]|].
  split; [constructor; [right; right; left; reflexivity|constructor]|].
  apply (ib_neg false 12 [49;50] eq_refl). split; [discriminate|]. split.
  - constructor; [split; cbv; discriminate|]. constructor; [split; cbv; discriminate|constructor].
  - split; [right; cbn; discriminate|reflexivity].
Qed.

(* the hypotheses of the round trip hold for a rule with a nested variable, a query leaf and a body *)
Definition f_name := mkField 1 [110] [110] KString Singular None false.
Definition f_sub := mkField 2 [115] [115] (KMessage 1) Singular None true.
Definition f_id := mkField 3 [105] [73] KInt32 Singular None false.              (* proto name "i", JSON name "I" *)
Definition f_tag := mkField 1 [116] [116] KString Singular None false.
Definition rt_sch := mkSchema [mkMsg WNone [f_name; f_sub; f_id]; mkMsg WNone [f_tag]] [].
Definition rt_root := [f_name; f_sub; f_id].
Definition rt_pls : list pleaf := [([(rt_root, f_sub); ([f_tag], f_tag)], [99;97;112], PScalar (SStr [99;97;112]))].
Definition rt_qls : list qleaf := [([73], [(rt_root, f_id)], [52;50], PScalar (SInt 42))].       (* ?I=42 *)
Definition rt_rule := mkRule 0 [[(rt_root, f_sub); ([f_tag], f_tag)]] BStar.
Example ex_roundtrip_hyps :
  r_vars rt_rule = map (fun l => fst (fst l)) rt_pls /\
  Forall (pleaf_ok no_float no_wkt rt_sch) rt_pls /\
  Forall (qleaf_ok no_float no_wkt rt_sch (msg_fields rt_sch (r_input rt_rule))) rt_qls /\
  (forall p, In p (split_leaves rt_pls rt_qls) -> walkable (fst p) = true /\ singular_last (fst p)) /\
  vars_indep_b (map fst (split_leaves rt_pls rt_qls)) = true /\
  body_image rt_rule (Some [([1], ELeaf (SStr [98]))]) = Ok [([1], ELeaf (SStr [98]))].
Proof.
  repeat split.
  - repeat constructor; cbn; try discriminate.
  - repeat constructor.
  - destruct H as [<-|[<-|[]]]; reflexivity.
  - destruct H as [<-|[<-|[]]]; reflexivity.
Qed.
