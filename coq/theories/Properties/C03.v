(* C03 -- Transcoded request reconstruction: path + query + body rebuild the message.
   Model: Model/Schema.v, Model/Params.v (parseParam, params.set, parseQueryParams),
   Model/Transcode.v (serveHTTP, RecvMsg / decodeRequestArgs); grammar: Spec/Json3.v. *)
From Larking Require Import Base.GoSem Base.B64 Model.Schema Model.Params Model.Transcode Spec.Json3
  Proofs.ParamsProofs Proofs.ParamsConvProofs Proofs.RoundtripProofs.
Local Open Scope N_scope.

(* Round trip.  A client splits a message into captures (pls: field path, text, value, template
   order), query keys with one value each (qls: key, field path, text, value -- the keys in ANY
   order, either spelling, as long as each resolves and each text converts to its value) and a body
   part (any tree, sent through any codec / compressor that are inverse pairs).  If the leaves are
   walkable singular field paths that do not write into each other, the request is served and the
   handler's message M' has: at and under every leaf exactly the image of its value; every parent
   message of a leaf present; everywhere else exactly the body part M0. *)
Theorem C03_roundtrip :
  forall (ofloat : bool -> bytes -> option N) (owkt : wkt -> bool -> bytes -> option subtree)
         (marshal : nat -> nat -> subtree -> bytes) (unmarshal : nat -> nat -> bytes -> option subtree),
  (forall c ty t, unmarshal c ty (marshal c ty t) = Some t) ->
  forall (deflate : bytes -> bytes) (inflate : bytes -> option bytes),
  (forall b, inflate (deflate b) = Some b) ->
  forall sch r pls qls body codec gz M0,
  r_vars r = map (fun l => fst (fst l)) pls ->
  Forall (pleaf_ok ofloat owkt sch) pls ->
  Forall (qleaf_ok ofloat owkt sch (msg_fields sch (r_input r))) qls ->
  (forall p, In p (split_leaves pls qls) -> walkable (fst p) = true /\ singular_last (fst p)) ->
  (forall i j pi pj, i <> j -> nth_error (split_leaves pls qls) i = Some pi -> nth_error (split_leaves pls qls) j = Some pj ->
     untouched (fst pj) (steps_path (fst pi)) = true) ->
  (r_body r = BNone -> body = None) ->
  body_image r body = Ok M0 ->
  exists M', decode_request ofloat owkt unmarshal inflate sch r
               (split_request marshal deflate sch r pls qls body codec gz) = Ok M' /\
    (forall i fds v rel, nth_error (split_leaves pls qls) i = Some (fds, v) ->
       lookup (steps_path fds ++ rel) M' = lookup rel (field_image (snd (last_step fds)) v)) /\
    (forall i fds v p q, nth_error (split_leaves pls qls) i = Some (fds, v) -> steps_path fds = p ++ q -> p <> [] -> q <> [] ->
       lookup p M' = Some EPresent) /\
    (forall q, (forall p, In p (split_leaves pls qls) -> untouched (fst p) q = true) -> lookup q M' = lookup q M0).
Proof. exact roundtrip. Qed.
Print Assumptions C03_roundtrip.

(* params.set alone, for any starting message: the same three facts *)
Theorem C03_params_rebuild : forall leaves,
  (forall p, In p leaves -> fst p <> [] /\ singular_last (fst p)) ->
  (forall i j pi pj, i <> j -> nth_error leaves i = Some pi -> nth_error leaves j = Some pj ->
     untouched (fst pj) (steps_path (fst pi)) = true) ->
  forall M0 M', params_set leaves M0 = Ok M' ->
  (forall i fds v rel, nth_error leaves i = Some (fds, v) ->
     lookup (steps_path fds ++ rel) M' = lookup rel (field_image (snd (last_step fds)) v)) /\
  (forall i fds v p r, nth_error leaves i = Some (fds, v) -> steps_path fds = p ++ r -> p <> [] -> r <> [] ->
     lookup p M' = Some EPresent) /\
  (forall q, (forall p, In p leaves -> untouched (fst p) q = true) -> lookup q M' = lookup q M0).
Proof. exact rebuild. Qed.
Print Assumptions C03_params_rebuild.

(* Conversion is exact for bool, the ten integer kinds, string and enum (by number, by name,
   NullValue): a text is accepted with value v iff the grammar of Spec/Json3.v gives it value v. *)
Theorem C03_conv_exact :
  forall (ofloat : bool -> bytes -> option N) (owkt : wkt -> bool -> bytes -> option subtree) sch k txt v,
  exact_kind k = true ->
  (parse_kind ofloat owkt sch k txt = Ok v <-> json3_text sch k v txt).
Proof. exact conv_exact. Qed.
Print Assumptions C03_conv_exact.

(* bytes: each of the four base64 spellings of every byte string is accepted with that value *)
Theorem C03_bytes_spellings :
  forall (ofloat : bool -> bytes -> option N) (owkt : wkt -> bool -> bytes -> option subtree) sch url pad m,
  Forall (fun b => b < 256) m ->
  parse_kind ofloat owkt sch KBytes (b64_encode url pad m) = Ok (PScalar (SByt m)).
Proof. exact bytes_spellings. Qed.
Print Assumptions C03_bytes_spellings.

(* text that is not a form of the grammar is never accepted as some other value *)
Theorem C03_reject_not_coerce :
  forall (ofloat : bool -> bytes -> option N) (owkt : wkt -> bool -> bytes -> option subtree) sch k txt v,
  (exact_kind k = true \/ k = KBytes) ->
  parse_kind ofloat owkt sch k txt = Ok v -> json3_text sch k v txt.
Proof. exact reject_not_coerce. Qed.
Print Assumptions C03_reject_not_coerce.

(* float / double and the message-typed well-known types: the decoder chosen, the quoting
   decision, a decoder error is an error; every other message type is refused *)
Theorem C03_oracle_kinds :
  forall (ofloat : bool -> bytes -> option N) (owkt : wkt -> bool -> bytes -> option subtree) sch txt,
  parse_kind ofloat owkt sch KFloat txt = match ofloat true txt with Some b => Ok (PScalar (SFlt b)) | None => Err EOther end /\
  parse_kind ofloat owkt sch KDouble txt = match ofloat false txt with Some b => Ok (PScalar (SFlt b)) | None => Err EOther end /\
  forall m, parse_kind ofloat owkt sch (KMessage m) txt =
    match msg_wkt sch m with
    | WNone => Err EOther
    | w => match owkt w (wkt_quoted w && needs_quote txt) txt with Some t => Ok (PMsg t) | None => Err EOther end
    end.
Proof. exact oracle_kinds. Qed.
Print Assumptions C03_oracle_kinds.

Theorem C03_quoting : forall w txt,
  (wkt_quoted w = true <-> (w = WTimestamp \/ w = WDuration \/ w = WBytesValue \/ w = WStringValue \/ w = WFieldMask)) /\
  (needs_quote txt = false <-> (2 <= length txt)%nat /\ hd 0 txt = 34 /\ last txt 0 = 34).
Proof. intros w txt. split; [first [exact (quoted_types w) | exact (quoted_types (fun _ _ => None) w)]|first [exact (needs_quote_spec txt) | exact (needs_quote_spec (fun _ _ => None) txt)]]. Qed.
Print Assumptions C03_quoting.

(* ---- instances ---- *)
Definition no_float (_ : bool) (_ : bytes) : option N := None.
Definition no_wkt (_ : wkt) (_ : bool) (_ : bytes) : option subtree := None.
Definition ex_sch := mkSchema [] [mkEnum false [([82;69;68], 1%Z); ([78;69;71], (-1)%Z)]].

Example ex_texts :
  parse_kind no_float no_wkt ex_sch KInt32 [32;45;49;50;10] = Ok (PScalar (SInt (-12))) /\          (* " -12\n" *)
  parse_kind no_float no_wkt ex_sch KInt32 [49;101;50] = Err EOther /\                              (* 1e2 *)
  parse_kind no_float no_wkt ex_sch KInt32 [50;49;52;55;52;56;51;54;52;56] = Err EOther /\          (* 2147483648 *)
  parse_kind no_float no_wkt ex_sch KSfixed32 [50;49;52;55;52;56;51;54;52;55] = Ok (PScalar (SInt 2147483647)) /\
  parse_kind no_float no_wkt ex_sch KUint64 [45;49] = Err EOther /\                                  (* -1 *)
  parse_kind no_float no_wkt ex_sch KUint32 [45;48] = Err EOther /\                                  (* -0 *)
  parse_kind no_float no_wkt ex_sch KInt64 [45;48] = Ok (PScalar (SInt 0)) /\
  parse_kind no_float no_wkt ex_sch KBool [84;82;85;69] = Err EOther /\                              (* TRUE *)
  parse_kind no_float no_wkt ex_sch KBool [116;114;117;101] = Ok (PScalar (SBool true)) /\
  parse_kind no_float no_wkt ex_sch (KEnum 0) [78;69;71] = Ok (PScalar (SEnum (-1))) /\              (* NEG *)
  parse_kind no_float no_wkt ex_sch (KEnum 0) [55] = Ok (PScalar (SEnum 7)) /\
  parse_kind no_float no_wkt ex_sch (KEnum 0) [114;101;100] = Err EOther /\                          (* red *)
  parse_kind no_float no_wkt ex_sch KBytes [45;43] = Err EOther /\                                   (* "-+" mixed alphabets *)
  parse_kind no_float no_wkt ex_sch KBytes [95;119;61;61] = Ok (PScalar (SByt [255])) /\             (* "_w==" *)
  parse_kind no_float no_wkt ex_sch KBytes [47;119] = Ok (PScalar (SByt [255])).                     (* "/w" *)
Proof. vm_compute. repeat split; reflexivity. Qed.

(* the grammar is inhabited: " -12\n" is an int32 text of -12 *)
Example ex_grammar : json3_text ex_sch KInt32 (PScalar (SInt (-12))) [32;45;49;50;10].
Proof.
  exists (-12)%Z. split; [reflexivity|]. split; [|cbn; lia].
  exists [32], [45;49;50], [10]. split; [reflexivity|].
  split; [constructor; [left; reflexivity|constructor]|].
  split; [constructor; [right; right; left; reflexivity|constructor]|].
  apply (ib_neg false 12 [49;50] eq_refl). split; [discriminate|]. split.
  - constructor; [split; cbv; discriminate|]. constructor; [split; cbv; discriminate|constructor].
  - split; [right; cbn; discriminate|reflexivity].
Qed.

(* the hypotheses of the round trip hold for a rule with a nested variable, a query leaf and a body *)
Definition f_name := mkField 1 [110] [110] KString Singular None false.
Definition f_sub := mkField 2 [115] [115] (KMessage 1) Singular None true.
Definition f_id := mkField 3 [105] [73] KInt32 Singular None false.              (* proto name "i", JSON name "I" *)
Definition f_tag := mkField 1 [116] [116] KString Singular None false.
Definition rt_sch := mkSchema [mkMsg WNone [f_name; f_sub; f_id]; mkMsg WNone [f_tag]] [].
Definition rt_root := [f_name; f_sub; f_id].
Definition rt_pls : list pleaf := [([(rt_root, f_sub); ([f_tag], f_tag)], [99;97;112], PScalar (SStr [99;97;112]))].
Definition rt_qls : list qleaf := [([73], [(rt_root, f_id)], [52;50], PScalar (SInt 42))].       (* ?I=42 *)
Definition rt_rule := mkRule 0 [[(rt_root, f_sub); ([f_tag], f_tag)]] BStar.
Example ex_roundtrip_hyps :
  r_vars rt_rule = map (fun l => fst (fst l)) rt_pls /\
  Forall (pleaf_ok no_float no_wkt rt_sch) rt_pls /\
  Forall (qleaf_ok no_float no_wkt rt_sch (msg_fields rt_sch (r_input rt_rule))) rt_qls /\
  (forall p, In p (split_leaves rt_pls rt_qls) -> walkable (fst p) = true /\ singular_last (fst p)) /\
  vars_indep_b (map fst (split_leaves rt_pls rt_qls)) = true /\
  body_image rt_rule (Some [([1], ELeaf (SStr [98]))]) = Ok [([1], ELeaf (SStr [98]))].
Proof.
  repeat split.
  - repeat constructor; cbn; try discriminate.
  - repeat constructor.
  - destruct H as [<-|[<-|[]]]; reflexivity.
  - destruct H as [<-|[<-|[]]]; reflexivity.
Qed.

(* ---------- repeated query keys, admissible parameter orders, oneof siblings (Proofs/RoundtripRepProofs.v) ---------- *)
From Coq Require Import Permutation.
From Larking Require Import Proofs.RoundtripRepProofs.

(* Round trip with repeated keys.  The client splits a message into captures pls (as in
   C03_roundtrip), query keys qls -- each key with the texts of its values in order of appearance,
   one text for a singular leaf, one per item for a repeated scalar leaf -- and a body part.  If the
   leaves are walkable field paths, pairwise non-touching and coherent (leaves_ok), the request is
   served; the handler's message M' has at a singular leaf exactly the image of its value, at a
   repeated leaf the items of the body part followed by the values of the key in order, every
   parent present, nothing under the oneof siblings of a leaf or of a message on the way, and the
   body part everywhere else; it is the message params.set builds from any admissible list of the
   parameters, and the message of the request with its keys in any other order. *)
Theorem C03_roundtrip_repeated :
  forall (ofloat : bool -> bytes -> option N) (owkt : wkt -> bool -> bytes -> option subtree)
         (marshal : nat -> nat -> subtree -> bytes) (unmarshal : nat -> nat -> bytes -> option subtree),
  (forall c ty t, unmarshal c ty (marshal c ty t) = Some t) ->
  forall (deflate : bytes -> bytes) (inflate : bytes -> option bytes),
  (forall b, inflate (deflate b) = Some b) ->
  forall sch r pls qls body codec gz M0,
  r_vars r = map (fun l => fst (fst l)) pls ->
  Forall (pleaf_ok ofloat owkt sch) pls ->
  Forall (rqleaf_ok ofloat owkt sch (msg_fields sch (r_input r))) qls ->
  (* leaves_ok (split_groups pls qls) *)
  ((forall g, In g (split_groups pls qls) -> walkable (fst g) = true) /\
   (forall i j gi gj, i <> j -> nth_error (split_groups pls qls) i = Some gi -> nth_error (split_groups pls qls) j = Some gj ->
      untouched (fst gj) (steps_path (fst gi)) = true /\ coherent (fst gi) (fst gj))) ->
  (r_body r = BNone -> body = None) ->
  body_image r body = Ok M0 ->
  exists M',
    decode_request ofloat owkt unmarshal inflate sch r (split_request_rep marshal deflate sch r pls qls body codec gz) = Ok M' /\
    (* rebuilt (split_groups pls qls) M0 M' *)
    ((forall i fds vs d rel, nth_error (split_groups pls qls) i = Some (fds, vs) -> singular_last fds -> vs <> [] ->
        lookup (steps_path fds ++ rel) M' = lookup rel (field_image (snd (last_step fds)) (last vs d))) /\
     (forall i fds vs, nth_error (split_groups pls qls) i = Some (fds, vs) -> f_card (snd (last_step fds)) = Repeated ->
        list_at (steps_path fds) M' = list_at (steps_path fds) M0 ++ map item_of vs /\
        (vs <> [] -> lookup (steps_path fds) M' = Some (EList (list_at (steps_path fds) M0 ++ map item_of vs))) /\
        (forall a r, lookup (steps_path fds ++ a :: r) M' = lookup (steps_path fds ++ a :: r) M0)) /\
     (forall i fds vs p r, nth_error (split_groups pls qls) i = Some (fds, vs) -> vs <> [] ->
        steps_path fds = p ++ r -> p <> [] -> r <> [] -> lookup p M' = Some EPresent) /\
     (forall q, (forall g, In g (split_groups pls qls) -> untouched (fst g) q = true) -> lookup q M' = lookup q M0) /\
     (forall i fds vs s rel, nth_error (split_groups pls qls) i = Some (fds, vs) -> singular_last fds -> vs <> [] ->
        In s (sibs (fst (last_step fds)) (snd (last_step fds))) ->
        lookup (removelast (steps_path fds) ++ s :: rel) M' = None) /\
     (forall i A1 st A2 vs s rel, nth_error (split_groups pls qls) i = Some (A1 ++ st :: A2, vs) -> vs <> [] -> A2 <> [] ->
        In s (sibs (fst st) (snd st)) ->
        (lookup (steps_path A1 ++ [step_num st]) M0 = Some EPresent -> lookup (steps_path A1 ++ s :: rel) M0 = None) ->
        lookup (steps_path A1 ++ s :: rel) M' = None)) /\
    (forall l, admissible (split_groups pls qls) l -> exists M'', params_set l M0 = Ok M'' /\ meq M'' M') /\
    (forall qls', Permutation qls qls' -> exists M'',
       decode_request ofloat owkt unmarshal inflate sch r (split_request_rep marshal deflate sch r pls qls' body codec gz) = Ok M'' /\
       meq M'' M').
Proof. exact roundtrip_rep. Qed.
Print Assumptions C03_roundtrip_repeated.

(* params.set alone, from any starting message, for any admissible list of the parameters *)
Theorem C03_params_rebuild_repeated : forall gs,
  (forall g, In g gs -> walkable (fst g) = true) /\
  (forall i j gi gj, i <> j -> nth_error gs i = Some gi -> nth_error gs j = Some gj ->
     untouched (fst gj) (steps_path (fst gi)) = true /\ coherent (fst gi) (fst gj)) ->
  forall l M0 M', admissible gs l -> params_set l M0 = Ok M' -> rebuilt gs M0 M'.
Proof. exact params_rebuild_rep. Qed.
Print Assumptions C03_params_rebuild_repeated.

(* in particular: a repeated leaf the starting message has no entry for holds exactly the values
   of its key, in order *)
Theorem C03_repeated_leaf_exact : forall gs,
  (forall g, In g gs -> walkable (fst g) = true) /\
  (forall i j gi gj, i <> j -> nth_error gs i = Some gi -> nth_error gs j = Some gj ->
     untouched (fst gj) (steps_path (fst gi)) = true /\ coherent (fst gi) (fst gj)) ->
  forall l M0 M' i fds vs, admissible gs l -> params_set l M0 = Ok M' ->
  nth_error gs i = Some (fds, vs) -> f_card (snd (last_step fds)) = Repeated -> vs <> [] ->
  lookup (steps_path fds) M0 = None ->
  lookup (steps_path fds) M' = Some (EList (map item_of vs)).
Proof.
  intros gs Hok l M0 M' i fds vs Ha H Hi C Hv L0.
  destruct (params_rebuild_rep gs Hok l M0 M' Ha H) as [_ [C2 _]].
  destruct (C2 i fds vs Hi C) as [_ [E _]]. rewrite (E Hv). unfold list_at. rewrite L0. reflexivity.
Qed.
Print Assumptions C03_repeated_leaf_exact.

(* Admissible orders.  l is admissible for the leaves gs when its elements can be labelled with
   leaf numbers such that, for every k, the elements labelled k are, in order, the values of leaf
   k at the field path of leaf k: any interleaving of the keys that keeps the occurrences of each
   key in order.  All admissible lists are accepted and build the same message (the same entry at
   every path). *)
Theorem C03_repeated_order_free : forall gs,
  (forall g, In g gs -> walkable (fst g) = true) /\
  (forall i j gi gj, i <> j -> nth_error gs i = Some gi -> nth_error gs j = Some gj ->
     untouched (fst gj) (steps_path (fst gi)) = true /\ coherent (fst gi) (fst gj)) ->
  forall l1 l2 M0,
  (exists tl : list (nat * param), map snd tl = l1 /\
     forall k, filter (fun x => Nat.eqb (fst x) k) tl =
               map (pair k) (match nth_error gs k with Some g => map (fun v => (fst g, v)) (snd g) | None => [] end)) ->
  (exists tl : list (nat * param), map snd tl = l2 /\
     forall k, filter (fun x => Nat.eqb (fst x) k) tl =
               map (pair k) (match nth_error gs k with Some g => map (fun v => (fst g, v)) (snd g) | None => [] end)) ->
  exists M1 M2, params_set l1 M0 = Ok M1 /\ params_set l2 M0 = Ok M2 /\ forall q, lookup q M1 = lookup q M2.
Proof. exact repeated_order_free. Qed.
Print Assumptions C03_repeated_order_free.

(* leaf after leaf with the leaves in any order (what parseQueryParams produces for some iteration
   order of url.Values) is admissible; so is every re-ordering of a labelled admissible list that
   keeps, for every label, the elements with that label in order *)
Theorem C03_admissible_orders : forall gs,
  (forall gs', Permutation gs gs' -> admissible gs (concat (map expand gs'))) /\
  (forall tl tl' : list (nat * param),
     (forall k, occ k tl = map (pair k) (leaf_at gs k)) ->
     (forall k, filter (fun x => Nat.eqb (fst x) k) tl = filter (fun x => Nat.eqb (fst x) k) tl') ->
     admissible gs (map snd tl')).
Proof.
  intros gs. split; [intros gs'; apply admissible_perm|].
  intros tl tl' H S. exists tl'. split; [reflexivity|].
  intros k. rewrite <- H. symmetry. exact (S k).
Qed.
Print Assumptions C03_admissible_orders.

(* Oneof siblings after the round trip: whatever the body part carried under another member of the
   oneof of a singular leaf, nothing is left there; the same for the oneof of a message on the way
   to a leaf (when the body part is a well-formed message: it does not have the member set and
   entries under another member as well). *)
Theorem C03_oneof_sibling_cleared :
  forall (ofloat : bool -> bytes -> option N) (owkt : wkt -> bool -> bytes -> option subtree)
         (marshal : nat -> nat -> subtree -> bytes) (unmarshal : nat -> nat -> bytes -> option subtree),
  (forall c ty t, unmarshal c ty (marshal c ty t) = Some t) ->
  forall (deflate : bytes -> bytes) (inflate : bytes -> option bytes),
  (forall b, inflate (deflate b) = Some b) ->
  forall sch r pls qls body codec gz M0,
  r_vars r = map (fun l => fst (fst l)) pls ->
  Forall (pleaf_ok ofloat owkt sch) pls ->
  Forall (rqleaf_ok ofloat owkt sch (msg_fields sch (r_input r))) qls ->
  leaves_ok (split_groups pls qls) ->
  (r_body r = BNone -> body = None) ->
  body_image r body = Ok M0 ->
  exists M',
    decode_request ofloat owkt unmarshal inflate sch r (split_request_rep marshal deflate sch r pls qls body codec gz) = Ok M' /\
    (forall i fds vs s rel, nth_error (split_groups pls qls) i = Some (fds, vs) -> singular_last fds -> vs <> [] ->
       In s (sibs (fst (last_step fds)) (snd (last_step fds))) ->
       lookup (removelast (steps_path fds) ++ s :: rel) M' = None) /\
    (forall i A1 st A2 vs s rel, nth_error (split_groups pls qls) i = Some (A1 ++ st :: A2, vs) -> vs <> [] -> A2 <> [] ->
       In s (sibs (fst st) (snd st)) ->
       (lookup (steps_path A1 ++ [step_num st]) M0 = Some EPresent -> lookup (steps_path A1 ++ s :: rel) M0 = None) ->
       lookup (steps_path A1 ++ s :: rel) M' = None).
Proof.
  intros ofloat owkt marshal unmarshal Hc deflate inflate Hg sch r pls qls body codec gz M0 Hv Hp Hq Hok Hn Hb.
  destruct (roundtrip_rep ofloat owkt marshal unmarshal Hc deflate inflate Hg sch r pls qls body codec gz M0 Hv Hp Hq Hok Hn Hb)
    as [M' [D [[_ [_ [_ [_ [C5 C6]]]]] _]]].
  exists M'. split; [exact D|]. split; [exact C5|exact C6].
Qed.
Print Assumptions C03_oneof_sibling_cleared.

(* What the hypothesis "non-touching" excludes: two leaves that set, or walk through, two members of
   one oneof (the result depends on the order of the keys: ex_oneof_race), and two leaves with the
   same path -- two spellings of one field, singular or repeated. *)
Theorem C03_oneof_two_members_excluded : forall A1 stA A2 B1 stB B2,
  steps_path A1 = steps_path B1 ->
  In (step_num stB) (sibs (fst stA) (snd stA)) ->
  untouched (A1 ++ stA :: A2) (steps_path (B1 ++ stB :: B2)) = false.
Proof. exact oneof_members_touch. Qed.
Print Assumptions C03_oneof_two_members_excluded.

Theorem C03_two_spellings_excluded : forall A B, A <> [] -> steps_path A = steps_path B -> untouched A (steps_path B) = false.
Proof. exact same_path_touch. Qed.
Print Assumptions C03_two_spellings_excluded.

(* coherence is no restriction for keys resolved by fieldPath in a schema with unique field numbers *)
Theorem C03_field_path_coherent : forall sch,
  (forall m, NoDup (map f_num (msg_fields sch m))) ->
  forall na root nb A B, NoDup (map f_num root) ->
  field_path sch root na = Some A -> field_path sch root nb = Some B -> coherent A B.
Proof. exact field_path_coherent. Qed.
Print Assumptions C03_field_path_coherent.
