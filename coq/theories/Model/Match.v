(* larking/rules.go: variable.index, path.search, path.match; larking/mux.go ServeHTTP path
   normalisation. Go slices of the token array are rendered as list suffixes: toks[i:] is "what
   is left", i == n is "nothing left", toks[1:l] is "what the variable consumed".
   Typed conversion of a capture (parseParam) is an oracle: okconv field-path text. *)
From Larking Require Import Base.GoSem Model.Lexer Model.Trie.
Local Open Scope N_scope.

(* the tokens before the first one satisfying p, and the rest (toks[i:].indexAny / index) *)
Fixpoint break_at (p : token -> bool) (l : list token) : list token * list token :=
  match l with
  | [] => ([], [])
  | t :: r => if p t then ([], l) else let '(a, b) := break_at p r in (t :: a, b)
  end.

(* variable.index: Some (consumed, rest) = the capture and what follows it; None = -1 *)
Fixpoint var_index (pat rest : list token) : outcome (option (list token * list token)) :=
  match pat with
  | [] => Ok (Some ([], rest))
  | p :: pat' =>
    match rest with
    | [] => Ok None                                              (* i == n *)
    | t :: rest' =>
      let cons_to (pre : list token) (r : outcome (option (list token * list token))) :=
        match r with
        | Ok (Some (c, z)) => Ok (Some (pre ++ c, z))
        | other => other
        end in
      match ttyp p with
      | TSlash => if is TSlash t then cons_to [t] (var_index pat' rest') else Ok None
      | TStar =>
        let '(a, b) := break_at (fun x => is TSlash x || is TVerb x) rest in cons_to a (var_index pat' b)
      | TStarStar =>
        let '(a, b) := break_at (is TVerb) rest in cons_to a (var_index pat' b)
      | TLiteral =>
        if is TPath t && str_eqb (tval p) (tval t) then cons_to [t] (var_index pat' rest') else Ok None
      | _ => Panic PExplicit                                      (* panic(":(") *)
      end
    end
  end.

Section Match.
Variable okconv : list str -> str -> bool.

Definition result := (minfo * list str)%type.       (* binding, captures deepest first *)

(* at a node with nothing left to match: p.methods[verb], then p.methodAll *)
Definition pick (verb : str) (nd : node) : outcome result :=
  match assoc verb (n_meths nd) with
  | Some m => Ok (m, [])
  | None => match n_mall nd with Some m => Ok (m, []) | None => Err EMethod end
  end.

(* the loop over p.variables; [rec] is the search one level down *)
Fixpoint try_vars (rec : node -> list token -> outcome result) (tl_toks : list token)
         (vs : list (list token * node)) : outcome result :=
  match vs with
  | [] => Err ENotFound
  | (pat, nxt) :: vs' =>
    match var_index pat tl_toks with
    | Ok None => try_vars rec tl_toks vs'
    | Ok (Some (cap, rest)) =>
      match rec nxt rest with
      | Ok (m, ps) =>
        (* fds := m.vars[len(m.vars)-len(ps)-1] *)
        if Nat.ltb (length ps) (length (m_vars m)) then
          match nth_error (m_vars m) (length (m_vars m) - length ps - 1) with
          | Some fds =>
            if is_nil fds then Ok (m, ps ++ [spell cap])
            else if okconv fds (spell cap) then Ok (m, ps ++ [spell cap]) else Err EOther
          | None => Panic PIndex
          end
        else Panic PIndex
      | Err _ => try_vars rec tl_toks vs'
      | other => other
      end
    | Err e => Err e
    | Panic p => Panic p
    | OutOfFuel => OutOfFuel
    end
  end.

Definition search_body (rec : node -> list token -> outcome result) (verb : str)
           (nd : node) (toks : list token) : outcome result :=
  match toks with
  | [] | [_] => pick verb nd
  | t0 :: t1 :: rest =>
    let vars_branch :=
      if is TSlash t0 then try_vars rec (t1 :: rest) (n_vars nd) else Err ENotFound in
    match assoc (tval t0 ++ tval t1) (n_segs nd) with
    | Some nxt =>
      match rec nxt rest with
      | Ok r => Ok r
      | Err _ => vars_branch
      | other => other
      end
    | None => vars_branch
    end
  end.

Fixpoint search (fuel : nat) (verb : str) : node -> list token -> outcome result :=
  match fuel with
  | O => fun _ _ => OutOfFuel
  | S f => search_body (search f verb) verb
  end.

Section WithClass.
Variables isLetter isNumber : N -> bool.

(* ServeHTTP: a missing leading "/" is added, one trailing "/" is removed *)
Definition normalise (p : str) : str :=
  let p1 := match p with 47 :: _ => p | _ => 47 :: p end in
  match rev p1 with 47 :: r => rev r | _ => p1 end.

(* path.match on the normalised path; a path the lexer refuses is NotFound *)
Definition route (root : node) (verb : str) (p : str) : outcome result :=
  match lex_path isLetter isNumber (normalise p) with
  | Ok toks => search (S (length toks)) verb root toks
  | Err _ => Err ENotFound
  | Panic c => Panic c
  | OutOfFuel => OutOfFuel
  end.

(* the path parameters handed to the request decoder: (field path, text), in Go's slice order;
   bare wildcards carry no field *)
Definition path_params (r : result) : list (list str * str) :=
  let '(m, ps) := r in
  filter (fun fc => negb (is_nil (fst fc))) (combine (rev (m_vars m)) ps).

End WithClass.
End Match.
