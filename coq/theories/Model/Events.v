(* C18 -- the interceptor calls and stats events of one RPC, as larking emits them.
   larking/http.go   serveHTTP (stats around the handler), streamHTTP.RecvMsg / decodeRequestArgs /
                     readMsg, SendMsg / writeMsg, SendHeader
   larking/grpc.go   serveGRPC (stats around the handler, header after the handler), streamGRPC.isDone,
                     RecvMsg, SendMsg, SendHeader / sendHeader
   larking/web.go    serveGRPCWeb (delegates to serveGRPC)
   larking/handler.go, mux.go   the unary and stream handler wrappers with the nil-safe interceptor call
   larking/stats.go  inPayload / outPayload
   The code modelled is the tree after the fix: commits of C18 (F6, E4); `legacy = true` re-enables the
   pre-fix slicing of the gRPC stats path so that F6 stays a value of the model. No proofs here. *)
From Larking Require Import Base.GoSem Spec.EventsSpec.
Local Open Scope nat_scope.

Inductive protocol := PHttp | PGrpc | PWeb.

(* what a scripted handler does with its stream *)
Inductive action :=
| ARecv                    (* stream.RecvMsg(new message) *)
| ASend (p : bytes)        (* stream.SendMsg(message whose encoding is p) *)
| AHeader                  (* stream.SendHeader(nil) / grpc.SendHeader(ctx, nil) *)
| ACancel.                 (* the request context is cancelled (client went away) *)

(* what the installed interceptor does: call the handler and return its result; return an error
   (or nil, for c = 0) without calling it; call it and return code c instead; call it and, when it
   succeeds, return (m, nil) -- a message of its own -- instead of the handler's reply (the handler's
   error is returned unchanged); return (m, nil) without calling the handler. The last two are about
   the reply value and so about unary methods: a grpc.StreamServerInterceptor has no reply value, the
   harness' stream interceptor passes through in these modes. *)
Inductive imode := IPass | IReject (c : nat) | IOverride (c : nat) | IReplace (m : bytes) | IAnswer (m : bytes).

(* a method registered in grpc.ServiceDesc.Methods (unary handler: decode, interceptor, reply) or in
   .Streams (the handler owns the stream); `code` is the status the handler returns at the end *)
Inductive hscript :=
| HUnary (pre : list action) (reply : bytes) (code : nat)
| HStream (acts : list action) (code : nat).

Record scenario := mkScenario {
  s_proto : protocol;
  s_cs : bool; s_ss : bool;            (* the method descriptor's streaming flags *)
  s_name : mname;
  s_routed : bool;                     (* the path / method name resolves to a registered handler *)
  s_rule_body : bool;                  (* HTTP: the matched rule has a body clause (method.hasBody) *)
  s_reqs : list (bytes * bool);        (* request messages: payload, Unmarshal accepts it (oracle) *)
  s_hs : hscript;
  s_imode : imode;
  s_icpt : bool;                       (* Unary/StreamServerInterceptorOption installed *)
  s_stats : bool;                      (* StatsOption installed *)
}.

(* result of one stream operation as the handler sees it: nil, io.EOF, or an error with a status code
   (1 Canceled, 2 Unknown = any plain Go error, 13 Internal) *)
Inductive opres := ROk | REof | RErr (c : nat).

Record cfg := mkCfg {
  c_http : bool;
  c_cs : bool;
  c_ss : bool;
  c_stats : bool;
  c_legacy : bool;
  c_body : bool;       (* s.method.hasBody && s.hasBody *)
}.

Record st := mkSt {
  inq : list (bytes * bool);   (* request messages not yet read *)
  reof : bool;                 (* streamHTTP.rEOF *)
  done : bool;                 (* ctx.Done() is closed *)
  hsent : bool;                (* sentHeader *)
  scount : nat;                (* streamHTTP.sendCount *)
  outm : list bytes;           (* messages written to the client *)
  dlv : list bytes;            (* messages delivered to the handler *)
  hlog : list opres;           (* what the handler's operations returned *)
}.

Definition set_inq v s := mkSt v (reof s) (done s) (hsent s) (scount s) (outm s) (dlv s) (hlog s).
Definition set_reof v s := mkSt (inq s) v (done s) (hsent s) (scount s) (outm s) (dlv s) (hlog s).
Definition set_done v s := mkSt (inq s) (reof s) v (hsent s) (scount s) (outm s) (dlv s) (hlog s).
Definition set_hsent v s := mkSt (inq s) (reof s) (done s) v (scount s) (outm s) (dlv s) (hlog s).
Definition set_scount v s := mkSt (inq s) (reof s) (done s) (hsent s) v (outm s) (dlv s) (hlog s).
Definition add_out p s := mkSt (inq s) (reof s) (done s) (hsent s) (scount s) (outm s ++ [p]) (dlv s) (hlog s).
Definition add_dlv p s := mkSt (inq s) (reof s) (done s) (hsent s) (scount s) (outm s) (dlv s ++ [p]) (hlog s).
Definition add_log r s := mkSt (inq s) (reof s) (done s) (hsent s) (scount s) (outm s) (dlv s) (hlog s ++ [r]).

Definition opout := outcome (list ev * st * opres).

(* `if sh := opts.statsHandler; sh != nil { sh.HandleRPC(...) }` *)
Definition emit (c : cfg) (l : list ev) : list ev := if c_stats c then l else [].

(* stats.go *)
Definition in_payload (b : bytes) : ev := EInPayload (length b) (length b + 5).
Definition out_payload (b : bytes) : ev := EOutPayload (length b) (length b + 5).

(* the 5-byte gRPC frame header: compression flag, big-endian length *)
Definition be32 (n : N) : bytes :=
  [((n / 16777216) mod 256)%N; ((n / 65536) mod 256)%N; ((n / 256) mod 256)%N; (n mod 256)%N].
Definition frame (p : bytes) : bytes := 0%N :: be32 (N.of_nat (length p)) ++ p.

(* ---- streamGRPC ---- *)

(* RecvMsg's stats block. b is the payload (header and payload are read separately); before the fix
   it was sliced by headerLen once more. *)
Definition grpc_in_stats (c : cfg) (p : bytes) : outcome (list ev) :=
  if c_stats c then
    (if c_legacy c then match slice_from 5 p with Ok b => Ok [in_payload b] | Err e => Err e | Panic x => Panic x | OutOfFuel => OutOfFuel end
     else Ok [in_payload p])
  else Ok [].

(* SendMsg's stats block: b is the whole frame here, b[headerLen:] the payload *)
Definition grpc_out_stats (c : cfg) (p : bytes) : outcome (list ev) :=
  if c_stats c then
    match slice_from 5 (frame p) with Ok b => Ok [out_payload b] | Err e => Err e | Panic x => Panic x | OutOfFuel => OutOfFuel end
  else Ok [].

Definition grpc_recv (c : cfg) (s : st) : opout :=
  if done s then Ok ([], s, RErr 1)                              (* isDone *)
  else match inq s with
  | [] => Ok ([], s, REof)                                       (* io.ReadFull of the header: io.EOF *)
  | (p, valid) :: rest =>
      let s1 := set_inq rest s in
      if valid then
        match grpc_in_stats c p with
        | Ok e => Ok (e, add_dlv p s1, ROk)
        | Err x => Err x | Panic x => Panic x | OutOfFuel => OutOfFuel
        end
      else Ok ([], s1, RErr 2)                                   (* codec.Unmarshal fails: no stats *)
  end.

Definition grpc_header (c : cfg) (s : st) : opout :=
  if done s then Ok ([], s, RErr 1)
  else if hsent s then Ok ([], s, RErr 2)                        (* "already sent headers" *)
  else Ok (emit c [EOutHeader], set_hsent true s, ROk).

Definition grpc_send (c : cfg) (p : bytes) (s : st) : opout :=
  if done s then Ok ([], s, RErr 1)
  else
    let e1 := if hsent s then [] else emit c [EOutHeader] in     (* SendHeader(nil) *)
    let s1 := set_hsent true s in
    match grpc_out_stats c p with
    | Ok e2 => Ok (e1 ++ e2, add_out p s1, ROk)
    | Err x => Err x | Panic x => Panic x | OutOfFuel => OutOfFuel
    end.

(* SendMsg(nil): isDone, then `reply := m.(proto.Message)` on a nil interface *)
Definition grpc_send_nil (s : st) : opout :=
  if done s then Ok ([], s, RErr 1) else Panic PNil.

(* ---- streamHTTP ---- *)

(* decodeRequestArgs after readMsg: Unmarshal, then the InPayload event *)
Definition http_deliver (c : cfg) (p : bytes) (valid : bool) (s : st) : opout :=
  if valid then Ok (emit c [in_payload p], add_dlv p s, ROk)
  else Ok ([], s, RErr 13).                                      (* codes.Internal: error while unmarshaling *)

Definition http_recv (c : cfg) (s : st) : opout :=
  if c_body c then
    (* decodeRequestArgs -> readMsg *)
    if reof s then Ok ([], s, REof)
    else if c_cs c then
      (* StreamCodec.ReadNext on the varint-delimited body; at the end of the body ReadNext returns
         (b, 0, io.EOF): readMsg latches rEOF and RecvMsg returns io.EOF (fix da6e74d, property C06) *)
      match inq s with
      | [] => Ok ([], set_reof true s, REof)
      | (p, v) :: rest => http_deliver c p v (set_inq rest s)
      end
    else
      (* readAll: the whole body is the message, rEOF = true *)
      match inq s with
      | [] => http_deliver c [] true (set_reof true s)
      | (p, v) :: _ => http_deliver c p v (set_inq [] (set_reof true s))
      end
  else
    (* no body: the message is built from path and query parameters alone *)
    if reof s then Ok ([], s, REof)
    else Ok (emit c [in_payload []], add_dlv [] (set_reof true s), ROk).

Definition http_header (c : cfg) (s : st) : opout :=
  if hsent s then Ok ([], s, RErr 2)
  else Ok (emit c [EOutHeader], set_hsent true s, ROk).

(* SendMsg -> writeMsg: on the first message the Content-Type is set and, unless already done, the
   header sent; then the message is written and reported *)
Definition http_send (c : cfg) (p : bytes) (s : st) : opout :=
  let first := Nat.eqb (scount s) 0 && negb (hsent s) in
  let e1 := if first then emit c [EOutHeader] else [] in
  let s1 := if first then set_hsent true s else s in
  Ok (e1 ++ emit c [out_payload p], add_out p (set_scount (S (scount s1)) s1), ROk).

Definition http_send_nil (s : st) : opout := Panic PNil.

(* ---- the handler's side ---- *)

Definition do_recv (c : cfg) (s : st) : opout := if c_http c then http_recv c s else grpc_recv c s.
Definition do_send (c : cfg) (p : bytes) (s : st) : opout := if c_http c then http_send c p s else grpc_send c p s.
Definition do_header (c : cfg) (s : st) : opout := if c_http c then http_header c s else grpc_header c s.
Definition do_send_nil (c : cfg) (s : st) : opout := if c_http c then http_send_nil s else grpc_send_nil s.

Definition step (c : cfg) (a : action) (s : st) : opout :=
  match a with
  | ARecv => do_recv c s
  | ASend p => do_send c p s
  | AHeader => do_header c s
  | ACancel => Ok ([], set_done true s, ROk)
  end.

(* the handler logs what the operation returned *)
Definition lstep (c : cfg) (a : action) (s : st) : opout :=
  match step c a s with
  | Ok (e, s1, r) => Ok (e, add_log r s1, r)
  | Err x => Err x | Panic x => Panic x | OutOfFuel => OutOfFuel
  end.

Definition hret := outcome (list ev * st * nat).   (* events, state, status code of the returned error *)

(* a scripted stream handler: an operation that fails ends the handler with that error, except
   io.EOF from RecvMsg (end of input); at the end the scripted status is returned *)
Fixpoint run_acts (c : cfg) (acts : list action) (final : nat) (s : st) : hret :=
  match acts with
  | [] => Ok ([], s, final)
  | a :: rest =>
      match lstep c a s with
      | Ok (e1, s1, RErr code) => Ok (e1, s1, code)
      | Ok (e1, s1, _) =>
          match run_acts c rest final s1 with
          | Ok (e2, s2, code) => Ok (e1 ++ e2, s2, code)
          | Err x => Err x | Panic x => Panic x | OutOfFuel => OutOfFuel
          end
      | Err x => Err x | Panic x => Panic x | OutOfFuel => OutOfFuel
      end
  end.

(* a unary handler has the context only: grpc.SendHeader and cancellation act, nothing else *)
Definition unary_act (a : action) : bool := match a with AHeader | ACancel => true | _ => false end.

(* status code of an operation result returned as the handler's error (io.EOF is a plain error) *)
Definition code_of (r : opres) : nat := match r with ROk => 0 | REof => 2 | RErr c => c end.

(* what the interceptor layer returned: None = it was never reached *)
Definition iret := option nat.

Definition hfull := outcome (list ev * st * nat * iret).

(* handler.go: opts.stream(ss, stream, info, d.Handler) *)
Definition stream_handler (c : cfg) (md : imode) (acts : list action) (final : nat) (s : st) : hfull :=
  match md with
  | IPass => match run_acts c acts final s with
             | Ok (e, s1, code) => Ok (e, s1, code, Some code)
             | Err x => Err x | Panic x => Panic x | OutOfFuel => OutOfFuel end
  | IReject k => Ok ([], s, k, Some k)
  | IOverride k => match run_acts c acts final s with
             | Ok (e, s1, _) => Ok (e, s1, k, Some k)
             | Err x => Err x | Panic x => Panic x | OutOfFuel => OutOfFuel end
  | IReplace _ | IAnswer _ =>                  (* no reply value on a stream: as IPass *)
             match run_acts c acts final s with
             | Ok (e, s1, code) => Ok (e, s1, code, Some code)
             | Err x => Err x | Panic x => Panic x | OutOfFuel => OutOfFuel end
  end.

(* handler.go: reply, err := d.Handler(ss, ctx, stream.RecvMsg, opts.unaryInterceptor)
     generated code: dec(in) -- on error return it; return interceptor(ctx, in, info, handler)
   if err != nil { return err }; return stream.SendMsg(reply)
   mux.go (proxied methods): reply, err := opts.unary(ctx, args, info, fn); ...; return stream.SendMsg(reply)
   -- the value the interceptor layer returned is the one handed to SendMsg. *)
Definition unary_handler (c : cfg) (md : imode) (pre : list action) (reply : bytes) (final : nat) (s : st) : hfull :=
  match lstep c ARecv s with
  | Ok (e1, s1, ROk) =>
      let user := run_acts c (filter unary_act pre) final s1 in
      (* (reply, code) as returned by the interceptor layer; None = a nil reply *)
      let ir : outcome (list ev * st * nat * option bytes) :=
        match md with
        | IPass => match user with Ok (e, s2, code) => Ok (e, s2, code, if Nat.eqb code 0 then Some reply else None)
                   | Err x => Err x | Panic x => Panic x | OutOfFuel => OutOfFuel end
        | IReject k => Ok ([], s1, k, None)
        | IOverride k => match user with Ok (e, s2, _) => Ok (e, s2, k, None)
                   | Err x => Err x | Panic x => Panic x | OutOfFuel => OutOfFuel end
        | IReplace m => match user with Ok (e, s2, code) => Ok (e, s2, code, if Nat.eqb code 0 then Some m else None)
                   | Err x => Err x | Panic x => Panic x | OutOfFuel => OutOfFuel end
        | IAnswer m => Ok ([], s1, 0, Some m)
        end in
      match ir with
      | Ok (e2, s2, code, rep) =>
          if Nat.eqb code 0 then
            match (match rep with Some p => do_send c p s2 | None => do_send_nil c s2 end) with
            | Ok (e3, s3, r) => Ok (e1 ++ e2 ++ e3, s3, code_of r, Some code)
            | Err x => Err x | Panic x => Panic x | OutOfFuel => OutOfFuel
            end
          else Ok (e1 ++ e2, s2, code, Some code)
      | Err x => Err x | Panic x => Panic x | OutOfFuel => OutOfFuel
      end
  | Ok (e1, s1, r) => Ok (e1, s1, code_of r, None)       (* dec failed: the interceptor is not reached *)
  | Err x => Err x | Panic x => Panic x | OutOfFuel => OutOfFuel
  end.

Definition is_unary (h : hscript) : bool := match h with HUnary _ _ _ => true | HStream _ _ => false end.

Definition handler (c : cfg) (md : imode) (h : hscript) (s : st) : hfull :=
  match h with
  | HUnary pre reply code => unary_handler c md pre reply code s
  | HStream acts code => stream_handler c md acts code s
  end.

(* ---- serveHTTP / serveGRPC ---- *)

Record result := mkResult {
  r_calls : list icall;          (* interceptor calls *)
  r_events : list ev;            (* TagRPC + HandleRPC calls *)
  r_replies : list bytes;        (* client-visible: the response messages *)
  r_status : option nat;         (* client-visible: status code; None = refused below the RPC level *)
  r_hlog : list opres;           (* the handler's view *)
  r_dlv : list bytes;
  r_iret : iret;
  r_herr : nat;                  (* status code of the error hd.handler returned *)
}.

Definition is_http (p : protocol) : bool := match p with PHttp => true | _ => false end.

(* streamHTTP.hasBody = ContentLength > 0 || ContentLength == -1, for the body built from the request
   messages: varint-delimited on client streams, the first message otherwise *)
Definition req_has_body (sc : scenario) : bool :=
  if s_cs sc then negb (is_nil (s_reqs sc))
  else match s_reqs sc with (p, _) :: _ => negb (is_nil p) | [] => false end.

Definition cfg_of (legacy : bool) (sc : scenario) : cfg :=
  mkCfg (is_http (s_proto sc)) (s_cs sc) (s_ss sc) (s_stats sc) legacy (s_rule_body sc && req_has_body sc).

Definition st0 (sc : scenario) : st := mkSt (s_reqs sc) false false false 0 [] [] [].

(* the interceptor is consulted only when installed (nil-safe calls opts.unary / opts.stream) *)
Definition eff_mode (sc : scenario) : imode := if s_icpt sc then s_imode sc else IPass.

Definition the_call (sc : scenario) : icall :=
  if is_unary (s_hs sc) then IUnary (s_name sc) else IStream (s_name sc) (s_cs sc) (s_ss sc).

Definition serve (legacy : bool) (sc : scenario) : outcome result :=
  if negb (s_routed sc) then
    (* match / pickMethodHandler fail before anything is emitted: HTTP answers NotFound (5), the gRPC
       entries answer with a plain HTTP error *)
    Ok (mkResult [] [] [] (if is_http (s_proto sc) then Some 5 else None) [] [] None 0)
  else
    let c := cfg_of legacy sc in
    let pre := emit c [ETag (s_name sc); EInHeader (s_name sc); EBegin (s_cs sc) (s_ss sc)] in
    match handler c (eff_mode sc) (s_hs sc) (st0 sc) with
    | Ok (e, s, herr, ir) =>
        let calls := match ir with Some _ => if s_icpt sc then [the_call sc] else [] | None => [] end in
        let post :=
          if c_http c then emit c [EOutTrailer; EEnd herr]
          else (if hsent s then [] else emit c [EOutHeader]) ++ emit c [EOutTrailer; EEnd herr] in
        Ok (mkResult calls (pre ++ e ++ post) (outm s) (Some herr) (hlog s) (dlv s) ir herr)
    | Err x => Err x | Panic x => Panic x | OutOfFuel => OutOfFuel
    end.

(* what the client can tell apart *)
Definition client_view (r : result) : list bytes * option nat := (r_replies r, r_status r).

(* ---- vocabulary of the property statements ---- *)

Definition set_stats (b : bool) (sc : scenario) : scenario :=
  mkScenario (s_proto sc) (s_cs sc) (s_ss sc) (s_name sc) (s_routed sc) (s_rule_body sc) (s_reqs sc) (s_hs sc) (s_imode sc) (s_icpt sc) b.
Definition set_icpt (b : bool) (sc : scenario) : scenario :=
  mkScenario (s_proto sc) (s_cs sc) (s_ss sc) (s_name sc) (s_routed sc) (s_rule_body sc) (s_reqs sc) (s_hs sc) (s_imode sc) b (s_stats sc).
Definition set_imode (md : imode) (sc : scenario) : scenario :=
  mkScenario (s_proto sc) (s_cs sc) (s_ss sc) (s_name sc) (s_routed sc) (s_rule_body sc) (s_reqs sc) (s_hs sc) md (s_icpt sc) (s_stats sc).
Definition set_hs (h : hscript) (sc : scenario) : scenario :=
  mkScenario (s_proto sc) (s_cs sc) (s_ss sc) (s_name sc) (s_routed sc) (s_rule_body sc) (s_reqs sc) h (s_imode sc) (s_icpt sc) (s_stats sc).
(* the same RPC against a Mux without interceptors and without a stats handler *)
Definition plain (sc : scenario) : scenario := set_icpt false (set_stats false sc).

(* the first RecvMsg yields a message: on HTTP a request without a body always does (the message is
   built from path and query), a body must unmarshal; on gRPC there must be a first frame and it
   must unmarshal *)
Definition first_ok (sc : scenario) : bool :=
  if is_http (s_proto sc) then
    (if s_rule_body sc && req_has_body sc then match s_reqs sc with (_, v) :: _ => v | [] => true end else true)
  else match s_reqs sc with (_, v) :: _ => v | [] => false end.

Definition no_cancel (acts : list action) : bool :=
  forallb (fun a => match a with ACancel => false | _ => true end) acts.

(* an interceptor that returns (nil, nil) for a unary method makes larking call SendMsg(nil); one
   that returns a message of its own never does *)
Definition imode_ok (unary : bool) (md : imode) : Prop :=
  unary = true ->
  match md with IPass => True | IReject k | IOverride k => k <> 0 | IReplace _ | IAnswer _ => True end.

(* the message a successful unary call delivers: the interceptor's own if it returns one, the
   handler's otherwise *)
Definition reply_of (md : imode) (reply : bytes) : bytes :=
  match md with IReplace m | IAnswer m => m | _ => reply end.
