(* larking/rules.go: path.alive and path.delRule -- removal of every HTTP rule of a method from the
   routing trie (mux.go state.removeHandler calls s.path.delRule(name) when a method lost its last
   handler), as a function returning the new trie and Go's "ok".
   Go mutates in place and iterates maps; the result does not depend on the iteration order, the
   association lists are processed in their stored order. A child that the recursive call changed
   (ok) and that is no longer alive is dropped; every other child stays, in place, as the recursive
   call left it; the order of the remaining variables is preserved (vars := p.variables[:0] ... append).
   [node] is a nested inductive type (children sit in lists of pairs), so the recursion is structural:
   the loops over the two child lists are local fixpoints parameterised by the recursive call. *)
From Larking Require Import Base.GoSem Model.Lexer Model.Trie.
Local Open Scope N_scope.

(* func (p *path) alive() bool *)
Definition alive (nd : node) : bool :=
  negb (is_nil (n_meths nd)) ||
  (match n_mall nd with Some _ => true | None => false end) ||
  negb (is_nil (n_vars nd)) ||
  negb (is_nil (n_segs nd)).

(* the two loops over children: [rec] is s.delRule(name) / v.next.delRule(name) *)
Definition del_children {K : Type} (rec : node -> node * bool) : list (K * node) -> list (K * node) * bool :=
  fix go (l : list (K * node)) : list (K * node) * bool :=
    match l with
    | [] => ([], false)
    | (k, c) :: r =>
      let '(c', okc) := rec c in
      let '(r', okr) := go r in
      if okc then (if alive c' then (k, c') :: r' else r', true)   (* ok = true; if !s.alive() { delete / continue } *)
      else ((k, c') :: r', okr)
    end.

(* for k, m := range p.methods { if m.name == name { delete(p.methods, k); ok = true } } *)
Definition keep_meth (name : str) (kv : str * minfo) : bool := negb (str_eqb (m_id (snd kv)) name).
Definition del_meths (name : str) (ms : list (str * minfo)) : list (str * minfo) * bool :=
  (filter (keep_meth name) ms, existsb (fun kv => negb (keep_meth name kv)) ms).

(* if p.methodAll != nil && p.methodAll.name == name { p.methodAll = nil; ok = true } *)
Definition del_mall (name : str) (a : option minfo) : option minfo * bool :=
  match a with
  | Some m => if str_eqb (m_id m) name then (None, true) else (Some m, false)
  | None => (None, false)
  end.

(* func (p *path) delRule(name string) bool *)
Fixpoint del_rule (name : str) (nd : node) : node * bool :=
  match nd with
  | Node segs vars meths mall =>
    let '(segs', ok1) := del_children (del_rule name) segs in
    let '(vars', ok2) := del_children (del_rule name) vars in
    let '(meths', ok3) := del_meths name meths in
    let '(mall', ok4) := del_mall name mall in
    (Node segs' vars' meths' mall', ok1 || ok2 || ok3 || ok4)
  end.

(* state.removeHandler's use: the trie afterwards *)
Definition remove_method (name : str) (root : node) : node := fst (del_rule name root).
