(* The handler-return barrier of a stream (larking/grpc.go: streamGRPC.wg, enter, close; serveGRPC's deferred
   function): every stream operation registers with a sync.WaitGroup, the serving function waits for the operations in
   flight before it returns. A goroutine the handler left behind (the proxy's pump) may call a stream method at any
   moment, also while the serving function is returning.
   sync.WaitGroup's contract: a call of Add with a positive delta that occurs when the counter is zero must happen
   before Wait. [misuse] records a violation of it: an Add at counter zero while a Wait has begun and not returned.
   Two disciplines: guarded = true is the code after the repair (enter: under the mutex, refuse when closed, else Add;
   close: under the mutex closed := true, then Wait); guarded = false is the pinned code (Add at once; Wait).
   Gen/BarrierSkeleton.v (regenerated from the source on every run) says which discipline the source follows.
   No proofs in this file. *)
From Coq Require Import List Bool Arith.
Import ListNotations.

Record bstate := BState { closed : bool; waiting : bool; count : nat; misuse : bool; refused : nat }.
Definition bstate0 := BState false false 0 false 0.

Inductive bev :=
| EvEnter          (* a stream operation begins: enter() / wg.Add(1) *)
| EvLeave          (* it ends: wg.Done() *)
| EvClose          (* close(): closed := true under the mutex (the pinned code has no such step) *)
| EvWaitBegin      (* the serving function calls wg.Wait() *)
| EvWaitEnd.       (* Wait returns: only at counter zero *)

Definition bstep (guarded : bool) (s : bstate) (e : bev) : bstate :=
  match e with
  | EvEnter =>
      if guarded && closed s then BState (closed s) (waiting s) (count s) (misuse s) (S (refused s))
      else BState (closed s) (waiting s) (S (count s)) (misuse s || (waiting s && Nat.eqb (count s) 0)) (refused s)
  | EvLeave => BState (closed s) (waiting s) (pred (count s)) (misuse s) (refused s)
  | EvClose => BState (if guarded then true else closed s) (waiting s) (count s) (misuse s) (refused s)
  | EvWaitBegin => BState (closed s) true (count s) (misuse s) (refused s)
  | EvWaitEnd => if Nat.eqb (count s) 0 then BState (closed s) false (count s) (misuse s) (refused s) else s
  end.
Definition brun (guarded : bool) (es : list bev) : bstate := fold_left (bstep guarded) es bstate0.

(* program order of the serving function under the guarded discipline: Wait is called after closed was set *)
Fixpoint closes_before_wait (seen_close : bool) (es : list bev) : bool :=
  match es with
  | [] => true
  | EvClose :: r => closes_before_wait true r
  | EvWaitBegin :: r => seen_close && closes_before_wait seen_close r
  | _ :: r => closes_before_wait seen_close r
  end.

(* ---- what the translator reports about the source ---- *)
Record bsite := BSite { bs_fn : list nat; bs_ok : bool }.          (* function, follows the discipline at this site *)
Record btype := BType { bt_name : list nat; bt_adds : list bsite; bt_waits : list bsite }.
(* a type follows the guarded discipline when every Add is guarded and every Wait is closing *)
Definition btype_ok (t : btype) : bool := forallb bs_ok (bt_adds t) && forallb bs_ok (bt_waits t).
