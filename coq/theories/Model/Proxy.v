(* larking/mux.go createConnHandler (unary and stream forwarders, as repaired by the fix: commits
   "half-closes the backend stream", "do not need a first message", "reports a backend that
   finishes before the client half-closes", "forward the backend's header and trailer metadata")
   as a small-step system.

   A gRPC call is a pair of FIFO channels: request messages followed by a half-close marker,
   response messages followed by the final status (code, message, details, header and trailer
   metadata).  Sending never blocks (flow control is grpc-go's, not modelled); receiving blocks
   while the queue is empty and the end marker is absent.

   Processes.  Direct system: client, backend, one call.  Proxied system: client, backend, the
   handler's main loop and its pump goroutine, two calls (front: client<->handler, back:
   handler<->backend).  Client and backend run the same code in both systems.

   A call script fixes the client (a list of operations: send m, wait for one reply, half-close;
   afterwards it reads to the end) and the backend (receive one, receive to end-of-stream, send m;
   afterwards the handler returns the final status).  No proofs in this file. *)
From Larking Require Import Base.GoSem.

Notation msg := (list N) (only parsing).
Definition md := list (list N * list (list N)).

(* final status as the caller sees it *)
Record fin := Fin { f_code : N; f_msg : list N; f_det : list N; f_hdr : md; f_trl : md }.
Definition ok (f : fin) : bool := (f_code f =? 0)%N.

Inductive shape := Un | Cs | Ss | Bi.
Definition client_streams (sh : shape) : bool := match sh with Cs | Bi => true | _ => false end.
Definition server_streams (sh : shape) : bool := match sh with Ss | Bi => true | _ => false end.
Definition is_unary (sh : shape) : bool := match sh with Un => true | _ => false end.

Inductive cop := CSend (m : msg) | CRecv | CClose.
Inductive bop := BRecv | BDrain | BSend (m : msg).

Record script := Script {
  s_shape : shape;
  s_req   : msg;        (* the single request of a non-client-streaming call *)
  s_cops  : list cop;
  s_bops  : list bop;
  s_fin   : fin;        (* what the backend handler returns, with its header/trailer metadata *)
  s_reqmd : md }.

(* ---- one call ---- *)
Record call := Call { up : list msg; closed : bool; down : list msg; cfinal : option fin }.
Definition set_up (c : call) u := Call u (closed c) (down c) (cfinal c).
Definition set_closed (c : call) b := Call (up c) b (down c) (cfinal c).
Definition set_down (c : call) d := Call (up c) (closed c) d (cfinal c).
Definition set_final (c : call) f := Call (up c) (closed c) (down c) (Some f).
Definition empty_call := Call [] false [] None.

(* ---- client (grpc-go ClientStream used as the harness uses it) ---- *)
Record cst := Cst { cpc : list cop; crecv : list msg; cfin : option fin }.

(* one RecvMsg.  Server-streaming: next message, or the status once the queue is drained.
   Otherwise grpc-go returns only when the stream has ended: the reply if the status is OK,
   the status error (and no reply) if not. *)
Definition client_recv (ss : bool) (c : call) (k : cst) (rest : list cop) : option (call * cst) :=
  if ss then
    match down c with
    | m :: d => Some (set_down c d, Cst rest (crecv k ++ [m]) None)
    | [] => match cfinal c with
            | Some f => Some (c, Cst [] (crecv k) (Some f))
            | None => None
            end
    end
  else
    match cfinal c with
    | Some f => Some (c, Cst [] (crecv k ++ (if ok f then down c else [])) (Some f))
    | None => None
    end.

Definition client_step (cs ss : bool) (c : call) (k : cst) : option (call * cst) :=
  match cfin k with
  | Some _ => None
  | None =>
    match cpc k with
    | CSend m :: r =>
        (* a non-client-streaming call carries its one request from the start; SendMsg after
           CloseSend is not made *)
        if cs && negb (closed c) then Some (set_up c (up c ++ [m]), Cst r (crecv k) None)
        else Some (c, Cst r (crecv k) None)
    | CClose :: r =>
        if cs then Some (set_closed c true, Cst r (crecv k) None) else Some (c, Cst r (crecv k) None)
    | CRecv :: r => client_recv ss c k r
    | [] => client_recv ss c k []
    end
  end.

(* ---- backend handler ---- *)
Record bst := Bst { bpc : list bop; brecv : list msg; beof : bool; bdone : bool }.

Definition backend_step (final : fin) (c : call) (b : bst) : option (call * bst) :=
  if bdone b then None else
  match bpc b with
  | [] => Some (set_final c final, Bst [] (brecv b) (beof b) true)
  | BSend m :: r => Some (set_down c (down c ++ [m]), Bst r (brecv b) (beof b) false)
  | BRecv :: r =>
      if beof b then Some (c, Bst r (brecv b) true false) else
      match up c with
      | m :: u => Some (set_up c u, Bst r (brecv b ++ [m]) false false)
      | [] => if closed c then Some (c, Bst r (brecv b) true false) else None
      end
  | BDrain :: r =>
      if beof b then Some (c, Bst r (brecv b) true false) else
      match up c with
      | m :: u => Some (set_up c u, Bst (BDrain :: r) (brecv b ++ [m]) false false)
      | [] => if closed c then Some (c, Bst r (brecv b) true false) else None
      end
  end.

(* ---- direct system ---- *)
Inductive dpid := DClient | DBackend.
Record dstate := DState { dcall : call; dcl : cst; dbk : bst }.

Definition init_call (sc : script) : call :=
  if client_streams (s_shape sc) then empty_call else Call [s_req sc] true [] None.
Definition init_d (sc : script) : dstate :=
  DState (init_call sc) (Cst (s_cops sc) [] None) (Bst (s_bops sc) [] false false).

Definition step_d (sc : script) (p : dpid) (d : dstate) : option dstate :=
  match p with
  | DClient =>
      match client_step (client_streams (s_shape sc)) (server_streams (s_shape sc)) (dcall d) (dcl d) with
      | Some (c, k) => Some (DState c k (dbk d)) | None => None end
  | DBackend =>
      match backend_step (s_fin sc) (dcall d) (dbk d) with
      | Some (c, b) => Some (DState c (dcl d) b) | None => None end
  end.

(* ---- the handler: main loop and pump ---- *)
Inductive mpc :=
| MOpen                                   (* stream forwarder: cc.NewStream with the incoming metadata *)
| MFirstRecv                              (* non-client-streaming: stream.RecvMsg(args) *)
| MFirstSend (m : msg)                    (* clientStream.SendMsg(args) / cc.Invoke: sends and half-closes *)
| MRecv                                   (* clientStream.RecvMsg(reply) *)
| MSend (hand : list msg) (f : option fin)  (* stream.SendMsg(reply); f: the backend's status is known *)
| MDone.
Inductive ppc := POff | PRecv | PSend (m : msg) | PDone.

Inductive ppid := PClient | PBackend | PMain | PPump.
Record pstate := PState {
  front : call; back : call; pcl : cst; pbk : bst;
  pm : mpc; pp : ppc;
  opened : bool;   (* the backend call exists *)
  bmd : md }.      (* request metadata of the backend call *)

(* the io.EOF of a first RecvMsg is returned as it is: status Unknown, "EOF" *)
Definition eof_fin := Fin 2 [69; 79; 70]%N [] [] [].

Definition init_p (sc : script) : pstate :=
  PState (init_call sc) empty_call (Cst (s_cops sc) [] None) (Bst (s_bops sc) [] false false)
         (if is_unary (s_shape sc) then MFirstRecv else MOpen) POff false [].

Definition main_step (sc : script) (s : pstate) : option pstate :=
  let cs := client_streams (s_shape sc) in
  let ss := server_streams (s_shape sc) in
  let fr := front s in let bk := back s in
  match pm s with
  | MOpen =>
      (* metadata.NewOutgoingContext(ctx, md); cc.NewStream; the pump is started for client streams *)
      if cs then Some (PState fr bk (pcl s) (pbk s) MRecv PRecv true (s_reqmd sc))
      else Some (PState fr bk (pcl s) (pbk s) MFirstRecv (pp s) true (s_reqmd sc))
  | MFirstRecv =>
      match up fr with
      | m :: u => Some (PState (set_up fr u) bk (pcl s) (pbk s) (MFirstSend m) (pp s) (opened s) (bmd s))
      | [] => if closed fr
              then Some (PState (set_final fr eof_fin) bk (pcl s) (pbk s) MDone (pp s) (opened s) (bmd s))
              else None
      end
  | MFirstSend m =>
      (* unary: cc.Invoke opens the call here *)
      Some (PState fr (set_closed (set_up bk (up bk ++ [m])) true) (pcl s) (pbk s) MRecv (pp s) true
                   (if opened s then bmd s else s_reqmd sc))
  | MRecv =>
      if ss then
        match down bk with
        | m :: d => Some (PState fr (set_down bk d) (pcl s) (pbk s) (MSend [m] None) (pp s) (opened s) (bmd s))
        | [] => match cfinal bk with
                | Some f => Some (PState fr bk (pcl s) (pbk s) (MSend [] (Some f)) (pp s) (opened s) (bmd s))
                | None => None
                end
        end
      else
        match cfinal bk with
        | Some f =>
            if ok f
            then Some (PState fr (set_down bk []) (pcl s) (pbk s) (MSend (down bk) (Some f)) (pp s) (opened s) (bmd s))
            else Some (PState fr bk (pcl s) (pbk s) (MSend [] (Some f)) (pp s) (opened s) (bmd s))
        | None => None
        end
  | MSend (m :: h) f =>
      let fr' := set_down fr (down fr ++ [m]) in
      match h, f with
      | [], None => Some (PState fr' bk (pcl s) (pbk s) MRecv (pp s) (opened s) (bmd s))
      | _, _ => Some (PState fr' bk (pcl s) (pbk s) (MSend h f) (pp s) (opened s) (bmd s))
      end
  | MSend [] (Some f) =>
      (* the handler returns: header, trailer and status of the backend go to the client *)
      Some (PState (set_final fr f) bk (pcl s) (pbk s) MDone (pp s) (opened s) (bmd s))
  | MSend [] None => Some (PState fr bk (pcl s) (pbk s) MRecv (pp s) (opened s) (bmd s))
  | MDone => None
  end.

Definition pump_step (s : pstate) : option pstate :=
  let fr := front s in let bk := back s in
  match pp s with
  | POff | PDone => None
  | PRecv =>
      match up fr with
      | m :: u => Some (PState (set_up fr u) bk (pcl s) (pbk s) (pm s) (PSend m) (opened s) (bmd s))
      | [] => if closed fr
              then (* io.EOF: clientStream.CloseSend() *)
                   Some (PState fr (set_closed bk true) (pcl s) (pbk s) (pm s) PDone (opened s) (bmd s))
              else None
      end
  | PSend m => Some (PState fr (set_up bk (up bk ++ [m])) (pcl s) (pbk s) (pm s) PRecv (opened s) (bmd s))
  end.

Definition step_p (sc : script) (p : ppid) (s : pstate) : option pstate :=
  match p with
  | PClient =>
      match client_step (client_streams (s_shape sc)) (server_streams (s_shape sc)) (front s) (pcl s) with
      | Some (c, k) => Some (PState c (back s) k (pbk s) (pm s) (pp s) (opened s) (bmd s)) | None => None end
  | PBackend =>
      if opened s then
        match backend_step (s_fin sc) (back s) (pbk s) with
        | Some (c, b) => Some (PState (front s) c (pcl s) b (pm s) (pp s) (opened s) (bmd s)) | None => None end
      else None
  | PMain => main_step sc s
  | PPump => pump_step s
  end.

(* ---- schedules: a list of process ids; a process that cannot move is skipped ---- *)
Fixpoint run_d (sc : script) (sched : list dpid) (d : dstate) : dstate :=
  match sched with
  | [] => d
  | p :: r => match step_d sc p d with Some d' => run_d sc r d' | None => run_d sc r d end
  end.
Fixpoint run_p (sc : script) (sched : list ppid) (s : pstate) : pstate :=
  match sched with
  | [] => s
  | p :: r => match step_p sc p s with Some s' => run_p sc r s' | None => run_p sc r s end
  end.

Definition stuck_d (sc : script) (d : dstate) : Prop := forall p, step_d sc p d = None.
Definition stuck_p (sc : script) (s : pstate) : Prop := forall p, step_p sc p s = None.
Definition is_stuck_d (sc : script) (d : dstate) : bool :=
  match step_d sc DClient d, step_d sc DBackend d with None, None => true | _, _ => false end.
Definition is_stuck_p (sc : script) (s : pstate) : bool :=
  match step_p sc PClient s, step_p sc PBackend s, step_p sc PMain s, step_p sc PPump s with
  | None, None, None, None => true | _, _, _, _ => false end.

(* ---- what is observed ---- *)
Record transcript := Transcript {
  t_brecv : list msg; t_beof : bool; t_bmd : md;      (* at the backend *)
  t_crecv : list msg; t_cfin : option fin }.          (* at the client; None = the call hangs *)
Definition transcript_d (sc : script) (d : dstate) : transcript :=
  Transcript (brecv (dbk d)) (beof (dbk d)) (s_reqmd sc) (crecv (dcl d)) (cfin (dcl d)).
Definition transcript_p (s : pstate) : transcript :=
  Transcript (brecv (pbk s)) (beof (pbk s)) (bmd s) (crecv (pcl s)) (cfin (pcl s)).

(* round-robin driver with fuel, used by the correspondence run and in Examples *)
Fixpoint drive_d (sc : script) (fuel : nat) (d : dstate) : dstate :=
  match fuel with O => d | S n => drive_d sc n (run_d sc [DClient; DBackend] d) end.
Fixpoint drive_p (sc : script) (order : list ppid) (fuel : nat) (s : pstate) : pstate :=
  match fuel with O => s | S n => drive_p sc order n (run_p sc order s) end.
