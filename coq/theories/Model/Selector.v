(* larking/mux.go: ruleSelector.setRules / getRules (after the fix: commits of branch b-C19), the
   part of appendHandler that adds the selected service-config rules before the annotation, and
   health/health.go AddHealthz as data.

   type ruleSelector struct { path map[string]*ruleSelector; rules, exact []*HttpRule }
   A Go map is an association list without duplicate keys; iteration order is never used by
   setRules/getRules (only lookups and stores). Rules are an arbitrary type R carrying a selector. *)
From Larking Require Import Base.GoSem Spec.SelectorSpec.

(* strings.Cut(s, "."): before, after, found *)
Fixpoint cut (s : str) : str * str * bool :=
  match s with
  | [] => ([], [], false)
  | c :: s' => if N.eqb c dot then ([], s', true)
               else let '(a, b, f) := cut s' in (c :: a, b, f)
  end.

Fixpoint find_kid {A} (k : str) (l : list (str * A)) : option A :=
  match l with
  | [] => None
  | (k', v) :: l' => if bytes_eqb k k' then Some v else find_kid k l'
  end.
Fixpoint upd_kid {A} (k : str) (v : A) (l : list (str * A)) : list (str * A) :=
  match l with
  | [] => [(k, v)]
  | (k', v') :: l' => if bytes_eqb k k' then (k, v) :: l' else (k', v') :: upd_kid k v l'
  end.

Section Selector.
Variable R : Type.
Variable sel : R -> str.          (* rule.GetSelector() *)

Inductive trie := Node (wild : list R) (exact : list R) (kids : list (str * trie)).
Definition wild (t : trie) := let '(Node w _ _) := t in w.
Definition exact (t : trie) := let '(Node _ e _) := t in e.
Definition kids (t : trie) := let '(Node _ _ k) := t in k.
Definition empty : trie := Node [] [] [].

(* the closure `set` of setRules, for one rule; the recursion is on the remainder returned by
   strings.Cut, so it carries fuel *)
Fixpoint set_one (fuel : nat) (r : R) (selector : str) (t : trie) : outcome trie :=
  match fuel with
  | O => OutOfFuel
  | S f =>
    let '(tag, name, _) := cut selector in
    if bytes_eqb tag star_c then
      (* case "*": *)
      if is_nil name then Ok (Node (wild t ++ [r]) (exact t) (kids t))
      else Panic PExplicit                      (* panic(fmt.Errorf("invalid selector %q", ...)) *)
    else if is_nil tag then
      (* case "": *)
      Ok (Node (wild t) (exact t ++ [r]) (kids t))
    else
      (* default: rs := r.path[tag]; if rs == nil { rs = &ruleSelector{} }; r.path[tag] = rs; set(rs, name) *)
      let rs := match find_kid tag (kids t) with Some s => s | None => empty end in
      do s' <- set_one f r name rs ;
      Ok (Node (wild t) (exact t) (upd_kid tag s' (kids t)))
  end.

Definition set_rules (rules : list R) : outcome trie :=
  fold_left (fun acc r => do t <- acc ; set_one (S (length (sel r))) r (sel r) t) rules (Ok empty).

Fixpoint get (fuel : nat) (t : trie) (name : str) : outcome (list R) :=
  match fuel with
  | O => OutOfFuel
  | S f =>
    if is_nil name then Ok (exact t)
    else
      let '(tag, rest, _) := cut name in
      match find_kid tag (kids t) with
      | Some s => do l <- get f s rest ; Ok (wild t ++ l)
      | None => Ok (wild t)
      end
  end.
Definition get_rules (t : trie) (name : str) : outcome (list R) := get (S (length name)) t name.

(* ServiceConfigOption followed by the lookup appendHandler does for one method *)
Definition select (rules : list R) (name : str) : outcome (list R) :=
  do t <- set_rules rules ; get_rules t name.

(* appendHandler: implicit rule, then the selected service-config rules, then the annotation, each
   through the same addRule; the first error aborts *)
Section Append.
Variable St : Type.
Variable add_rule : R -> St -> outcome St.
Definition add_all (rs : list R) (s : St) : outcome St :=
  fold_left (fun acc r => do st <- acc ; add_rule r st) rs (Ok s).
Definition append_handler (implicit : R) (t : trie) (name : str) (annotation : option R) (s : St) : outcome St :=
  do cfg <- get_rules t name ;
  add_all ([implicit] ++ cfg ++ match annotation with Some a => [a] | None => [] end) s.
End Append.
End Selector.

Arguments Node {R}. Arguments wild {R}. Arguments exact {R}. Arguments kids {R}. Arguments empty {R}.
Arguments set_one {R}. Arguments set_rules {R}. Arguments get {R}. Arguments get_rules {R}.
Arguments select {R}. Arguments add_all {R St}. Arguments append_handler {R St}.

(* health.AddHealthz: the selectors of the two rules it merges into the service config *)
Definition str_of_nats (l : list nat) : str := map N.of_nat l.
(* "grpc.health.v1.Health.Check" *)
Definition healthz_check : str := str_of_nats
  [103;114;112;99;46;104;101;97;108;116;104;46;118;49;46;72;101;97;108;116;104;46;67;104;101;99;107].
(* "grpc.health.v1.Health.Watch" *)
Definition healthz_watch : str := str_of_nats
  [103;114;112;99;46;104;101;97;108;116;104;46;118;49;46;72;101;97;108;116;104;46;87;97;116;99;104].
Definition healthz_selectors : list str := [healthz_check; healthz_watch].
