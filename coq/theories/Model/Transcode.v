(* larking/http.go: serveHTTP (parameter order), streamHTTP.RecvMsg / decodeRequestArgs for a unary
   method: the body is decoded into the whole message or into the body field, then the parameters
   are applied to the first message in slice order.

   The router is not modelled here: a request comes with the captured text of every variable of
   the matched rule (template order).  path.search parses the captures innermost-first and the
   resulting params slice is in reverse template order.  Codec and compressor are oracles.
   google.api.HttpBody bodies are outside this model. *)
From Larking Require Import Base.GoSem Model.Schema Model.Params.

Inductive body_sel := BNone | BStar | BField (fds : list step).
Record rule := mkRule {
  r_input : nat;                         (* the request message type *)
  r_vars : list (list step);             (* field path of each variable, template order; [] = no capture *)
  r_body : body_sel
}.
Record request := mkReq {
  q_caps : list bytes;                   (* captured text per variable, template order *)
  q_query : list (bytes * list bytes);   (* url.Values in iteration order *)
  q_body : option bytes;                 (* None: ContentLength = 0 *)
  q_codec : option nat;                  (* codec registered for the Content-Type, if any *)
  q_gzip : bool                          (* Content-Encoding names a registered compressor *)
}.

Section Oracles.
Variable ofloat : bool -> bytes -> option N.
Variable owkt : wkt -> bool -> bytes -> option subtree.
Variable unmarshal : nat -> nat -> bytes -> option subtree.    (* codec, message type, bytes *)
Variable inflate : bytes -> option bytes.

(* path.search: the innermost variable is converted first; variables without field path add an
   empty param *)
Fixpoint path_params (sch : schema) (vcs : list (list step * bytes)) : outcome (list param) :=
  match vcs with
  | [] => Ok []
  | (fds, c) :: r =>
    do ps <- path_params sch r;
    match fds with
    | [] => Ok (ps ++ [([], PScalar (SBool false))])
    | _ =>
      (* a capture that does not convert: every rule here starts with a literal segment, and
         path.search drops an error that comes back through a literal edge: NotFound *)
      match parse_param ofloat owkt sch fds c with
      | Ok p => Ok (ps ++ [(fds, p)])
      | Err _ => Err ENotFound
      | Panic x => Panic x
      | OutOfFuel => OutOfFuel
      end
    end
  end.

(* for _, fd := range s.method.body { cur = cur.Mutable(fd).Message() } *)
Fixpoint body_walk (fds : list step) (pp : path) (M : msg) : outcome msg :=
  match fds with
  | [] => Ok M
  | st :: rest =>
    match f_card (snd st), field_msg (snd st) with
    | Singular, Some _ => body_walk rest (pp ++ [step_num st]) (mutable_msg st pp M)
    | _, _ => Panic PKind
    end
  end.

Definition body_type (sch : schema) (r : rule) : nat :=
  match r_body r with
  | BField fds => match field_msg (snd (last fds ([], mkField 0 [] [] KBool Singular None false))) with
                  | Some m => m | None => r_input r end
  | _ => r_input r
  end.

(* decodeRequestArgs *)
Definition decode_body (sch : schema) (r : rule) (rq : request) (fds : list step) (b : bytes) : outcome msg :=
  do M0 <- body_walk fds [] [];
  match q_codec rq with
  | None => Err EInternal
  | Some c =>
    match (if q_gzip rq then inflate b else Some b) with
    | None => Err EOther
    | Some raw =>
      match unmarshal c (body_type sch r) raw with
      | None => Err EInternal
      | Some t => Ok (M0 ++ graft (steps_path fds) t)
      end
    end
  end.

(* RecvMsg on the first message *)
Definition recv_first (sch : schema) (r : rule) (rq : request) (ps : list param) : outcome msg :=
  do M0 <- match r_body r, q_body rq with
           | BStar, Some b => decode_body sch r rq [] b
           | BField fds, Some b => decode_body sch r rq fds b
           | _, _ => Ok []
           end;
  params_set ps M0.

(* serveHTTP: match (captures converted), query parameters, then the handler receives.
   After the fix the path parameters are applied last. *)
Definition decode_request (sch : schema) (r : rule) (rq : request) : outcome msg :=
  do ps <- path_params sch (combine (r_vars r) (q_caps rq));
  do qs <- parse_query ofloat owkt sch (msg_fields sch (r_input r)) (q_query rq);
  (* cz.Decompress(r.Body) happens whatever the rule says about a body *)
  match (if q_gzip rq then match q_body rq with Some b => inflate b | None => Some [] end else Some []) with
  | None => Err EOther
  | Some _ => recv_first sch r rq (qs ++ ps)
  end.
End Oracles.
