(* Heap model of larking's copy-on-write routing state (C12).
   Trie nodes and the two maps of a state live at locations of an explicit heap; every write
   (and every allocation) records its location.
     mux.go   state.clone / rules.go path.clone  -> clone_snap : copies every node of the snapshot's
              region to fresh locations and redirects the child pointers (the trie is a tree, so
              this is the recursive deep copy up to the names of the fresh locations)
     rules.go addRule (after its read-only duplicate check) -> MAdd: walk from the root along the
              template's edges, creating missing nodes, bind the verb at the last node
     rules.go delRule -> MDel: every node of the writer's own copy is rewritten without the method's
              bindings (pruning of emptied nodes is not modelled: it writes the same nodes)
     mux.go   appendHandler / removeHandler updates of s.handlers, s.conns -> MHandlers / MConns
     mux.go   storeState -> EStore.   loadState + path.search -> ELoad / ERead (one node per step)
   The lock / load / clone / store discipline built into the events (one writer between EBegin and
   EStore / EAbort, the store is the writer's last effect, a reader loads once) is what
   Gen/SyncSkeleton.v re-derives from the Go source on every run.
   No proofs in this file. *)
From Larking Require Import Base.GoSem Model.Registry.
Local Open Scope nat_scope.

Definition loc := nat.
Record node := Node { nkids : list (nat * loc); nbinds : list (nat * method) }.   (* edge -> child; verb -> method, 0 = '*' *)
Inductive cell :=
| CNode (n : node)
| CHmap (m : list (method * list handler))
| CCmap (m : list (nat * connList)).
Record heap := Heap { cells : list (loc * cell); next : loc }.
Definition cell_at (h : heap) (l : loc) : option cell := aget l (cells h).
Definition wr (h : heap) (l : loc) (c : cell) : heap := Heap (aset l c (cells h)) (next h).
Definition al (h : heap) (c : cell) : heap * loc := (Heap (aset (next h) c (cells h)) (S (next h)), next h).

(* a snapshot: root, the locations of all its trie nodes, its handlers map and its conns map *)
Record snap := Snap { sroot : loc; sregion : list loc; shm : loc; scm : loc }.
Definition footprint (s : snap) : list loc := shm s :: scm s :: sregion s.

Definition node_at (h : heap) (l : loc) : node :=
  match cell_at h l with Some (CNode n) => n | _ => Node [] [] end.

(* ---- clone ---- *)
Fixpoint index_of (p : loc) (reg : list loc) : option nat :=
  match reg with
  | [] => None
  | q :: reg' => if q =? p then Some 0 else match index_of p reg' with Some i => Some (S i) | None => None end
  end.
Definition remap (reg : list loc) (base : loc) (p : loc) : loc :=
  match index_of p reg with Some i => base + i | None => p end.
Definition clone_node (reg : list loc) (base : loc) (n : node) : node :=
  Node (map (fun e => (fst e, remap reg base (snd e))) (nkids n)) (nbinds n).
Definition map_at (h : heap) (l : loc) : cell :=
  match cell_at h l with Some c => c | None => CHmap [] end.

Definition clone_snap (h : heap) (p : option snap) : heap * snap :=
  let base := next h in
  match p with
  | None =>                                  (* nil state: newPath(), two empty maps *)
      (Heap ((base, CNode (Node [] [])) :: (base + 1, CHmap []) :: (base + 2, CCmap []) :: cells h) (base + 3),
       Snap base [base] (base + 1) (base + 2))
  | Some s =>
      let reg := sregion s in
      let n := length reg in
      let nodes := combine (seq base n) (map (fun l => CNode (clone_node reg base (node_at h l))) reg) in
      (Heap (nodes ++ (base + n, map_at h (shm s)) :: (base + n + 1, map_at h (scm s)) :: cells h) (base + n + 2),
       Snap (remap reg base (sroot s)) (seq base n) (base + n) (base + n + 1))
  end.

(* ---- the writer's primitives; each returns the heap, the working snapshot and the locations written ---- *)
Fixpoint nav_create (h : heap) (s : snap) (l : loc) (labels : list nat) : heap * snap * loc * list loc :=
  match labels with
  | [] => (h, s, l, [])
  | lab :: rest =>
      let n := node_at h l in
      match aget lab (nkids n) with
      | Some p => nav_create h s p rest
      | None =>
          let (h1, p) := al h (CNode (Node [] [])) in
          let h2 := wr h1 l (CNode (Node (aset lab p (nkids n)) (nbinds n))) in
          let '(h3, s3, l3, ws) := nav_create h2 (Snap (sroot s) (p :: sregion s) (shm s) (scm s)) p rest in
          (h3, s3, l3, p :: l :: ws)
      end
  end.

Inductive mut :=
| MAdd (labels : list nat) (verb : nat) (m : method)
| MDel (m : method)
| MHandlers (v : list (method * list handler))
| MConns (v : list (nat * connList)).

Definition del_binds (m : method) (n : node) : node :=
  Node (nkids n) (filter (fun e => negb (snd e =? m)) (nbinds n)).

Definition apply_mut (h : heap) (s : snap) (mu : mut) : heap * snap * list loc :=
  match mu with
  | MAdd labels verb m =>
      let '(h1, s1, l, ws) := nav_create h s (sroot s) labels in
      let n := node_at h1 l in
      (wr h1 l (CNode (Node (nkids n) (aset verb m (nbinds n)))), s1, ws ++ [l])
  | MDel m =>
      (fold_left (fun hh l => wr hh l (CNode (del_binds m (node_at hh l)))) (sregion s) h, s, sregion s)
  | MHandlers v => (wr h (shm s) (CHmap v), s, [shm s])
  | MConns v => (wr h (scm s) (CCmap v), s, [scm s])
  end.

(* ---- readers: path.search over a loaded snapshot, one node per step ---- *)
Definition lookup_verb (n : node) (verb : nat) : option method :=
  match aget verb (nbinds n) with Some m => Some m | None => aget 0 (nbinds n) end.
Fixpoint finish (h : heap) (l : loc) (rest : list nat) (verb : nat) : option method :=
  match rest with
  | [] => lookup_verb (node_at h l) verb
  | lab :: rest' => match aget lab (nkids (node_at h l)) with Some p => finish h p rest' verb | None => None end
  end.
Definition route_snap (h : heap) (p : option snap) (labels : list nat) (verb : nat) : option method :=
  match p with None => None | Some s => finish h (sroot s) labels verb end.

Inductive rstate :=
| RWalk (s : snap) (l : loc) (rest : list nat) (verb : nat)
| RDone (res : option method).
Definition rstep (h : heap) (r : rstate) : rstate :=
  match r with
  | RDone res => RDone res
  | RWalk s l [] verb => RDone (lookup_verb (node_at h l) verb)
  | RWalk s l (lab :: rest) verb =>
      match aget lab (nkids (node_at h l)) with Some p => RWalk s p rest verb | None => RDone None end
  end.

(* ---- the world and its events ---- *)
Record wstate := WState { wsnap : snap; wbase : loc }.
Record world := World {
  hp : heap;
  pub : option snap;                 (* Mux.state *)
  stored : list snap;                (* every snapshot ever stored, newest first *)
  cur : option wstate;               (* the writer holding Mux.mu, with its working copy *)
  readers : list rstate }.

Inductive ev :=
| EBegin                             (* mu.Lock(); s := loadState().clone() *)
| EMut (mu : mut)                    (* one mutation of the working copy *)
| EStore                             (* storeState(s); return (unlock) *)
| EAbort                             (* error path: return without storing (unlock) *)
| ELoad (labels : list nat) (verb : nat)   (* a new request: s := loadState() *)
| ERead (r : nat).                   (* request r reads one node *)

Fixpoint upd {A} (i : nat) (f : A -> A) (l : list A) : list A :=
  match l, i with
  | [], _ => []
  | x :: l', 0 => f x :: l'
  | x :: l', S i' => x :: upd i' f l'
  end.

(* the locations an event writes (allocations included) *)
Definition writes_of (w : world) (e : ev) : list loc :=
  match e, cur w with
  | EBegin, None => let '(_, s) := clone_snap (hp w) (pub w) in footprint s
  | EMut mu, Some ws => snd (apply_mut (hp w) (wsnap ws) mu)
  | _, _ => []
  end.

Definition wstep (w : world) (e : ev) : world :=
  match e with
  | EBegin =>
      match cur w with
      | Some _ => w                                                  (* the mutex is held *)
      | None => let '(h, s) := clone_snap (hp w) (pub w) in
                World h (pub w) (stored w) (Some (WState s (next (hp w)))) (readers w)
      end
  | EMut mu =>
      match cur w with
      | None => w
      | Some ws => let '(h, s, _) := apply_mut (hp w) (wsnap ws) mu in
                   World h (pub w) (stored w) (Some (WState s (wbase ws))) (readers w)
      end
  | EStore =>
      match cur w with
      | None => w
      | Some ws => World (hp w) (Some (wsnap ws)) (wsnap ws :: stored w) None (readers w)
      end
  | EAbort => World (hp w) (pub w) (stored w) None (readers w)
  | ELoad labels verb =>
      let r := match pub w with None => RDone None | Some s => RWalk s (sroot s) labels verb end in
      World (hp w) (pub w) (stored w) (cur w) (readers w ++ [r])
  | ERead i => World (hp w) (pub w) (stored w) (cur w) (upd i (rstep (hp w)) (readers w))
  end.

Definition world0 := World (Heap [] 0) None [] None [].
Fixpoint exec (w : world) (es : list ev) : world :=
  match es with [] => w | e :: es' => exec (wstep w e) es' end.

(* ---- the lock / load / store discipline, as data extracted from the Go source ----
   Gen/SyncSkeleton.v (regenerated by lib/syncskel from larking/*.go on every run) lists, per
   function, the synchronisation-relevant statements in source order. *)
Inductive sev :=
| KLock | KDeferUnlock | KUnlock
| KLoadClone                   (* s := m.loadState().clone() *)
| KLoad (inloop : bool)        (* m.loadState() without clone *)
| KStore (inloop : bool)       (* m.storeState(s) *)
| KUse                         (* a statement that mentions the cloned state variable *)
| KRet (conditional : bool)    (* return; conditional = inside an if / loop / switch *)
| KUnknown.                    (* a shape the translator does not classify *)
Record skfn := SkFn { skname : list nat; skevents : list sev }.    (* name as character codes *)

Definition is_lock e := match e with KLock => true | _ => false end.
Fixpoint drop_prelude (es : list sev) : option (list sev) :=     (* before Lock: only returns *)
  match es with
  | [] => None
  | KLock :: es' => Some es'
  | KRet _ :: es' => drop_prelude es'
  | _ => None
  end.
Fixpoint before_store (es : list sev) : option (list sev) :=     (* only uses and conditional returns, then one store *)
  match es with
  | KUse :: es' => before_store es'
  | KRet true :: es' => before_store es'
  | KStore false :: es' => Some es'
  | _ => None
  end.
Definition after_store (es : list sev) : bool :=                 (* the store is the last effect: only returns follow *)
  forallb (fun e => match e with KRet _ => true | _ => false end) es && negb (match es with [] => true | _ => false end).
Definition writer_ok (f : skfn) : bool :=
  match drop_prelude (skevents f) with
  | Some (KDeferUnlock :: KLoadClone :: rest) =>
      match before_store rest with Some tl => after_store tl | None => false end
  | _ => false
  end.
Definition sync_only (es : list sev) : list sev :=
  filter (fun e => match e with KUse | KRet _ => false | _ => true end) es.
Definition reader_fn_ok (f : skfn) : bool :=
  match sync_only (skevents f) with [KLoad false] => true | _ => false end.
Fixpoint names_eqb (a b : list (list nat)) : bool :=
  match a, b with
  | [], [] => true
  | x :: a', y :: b' => (if list_eq_dec Nat.eq_dec x y then true else false) && names_eqb a' b'
  | _, _ => false
  end.
