(* larking/codec.go: CodecProto.ReadNext, CodecJSON.ReadNext, codecHTTPBody.ReadNext and the
   three WriteNext, over scheduled readers. Buffer capacity is not modelled (see Reader.v);
   slice and index expressions that Go bounds-checks are explicit and can yield RPanic. *)
From Larking Require Import Base.GoSem Base.Reader Base.Varint Spec.Frames.

Inductive fill_res := FlOk (b : bytes) (s : src) | FlErr (e : err) (b : bytes) (s : src) | FlPanic | FlFuel.

(* for i >= len(b) { n, err := r.Read(b[len(b):cap(b)]); b = b[:len(b)+n];
                     if err != nil && i >= len(b) { if err == EOF && trunc { err = ErrUnexpectedEOF }; return } } *)
Fixpoint fill (fuel : nat) (trunc : bytes -> bool) (b : bytes) (s : src) (i : nat) : fill_res :=
  if Nat.ltb i (length b) then FlOk b s else
  match fuel with
  | O => FlFuel
  | S f =>
    let '(ch, eof, s') := read_any s in
    let b' := b ++ ch in
    if eof && negb (Nat.ltb i (length b')) then FlErr (if trunc b' then EUnexpectedEOF else EEOF) b' s'
    else fill f trunc b' s' i
  end.
Definition fill_fuel (s : src) := S (length (rem s)).

(* io.ReadFull(r, buf) with len(buf) = need: (bytes read, complete?, src) *)
Fixpoint read_full (fuel need : nat) (acc : bytes) (s : src) : option (bytes * bool * src) :=
  match need with
  | O => Some (acc, true, s)
  | _ =>
    match fuel with
    | O => None
    | S f =>
      let '(ch, eof, s') := read1 need s in
      match ch with
      | [] => Some (acc, false, s')
      | _ => read_full f (need - length ch) (acc ++ ch) s'
      end
    end
  end.

Inductive rres := RRet (dst : bytes) (n : nat) (e : option err) (s : src) | RPanic | RFuel.

(* ---- CodecProto.ReadNext ---- *)
Definition nonempty (b : bytes) := negb (is_nil b).
Fixpoint scan_varint (k i : nat) (b : bytes) (s : src) : fill_res :=
  match k with
  | O => FlOk b s
  | S k' =>
    match fill (fill_fuel s) nonempty b s i with
    | FlOk b' s' =>
      match nth_error b' i with
      | None => FlPanic                                   (* b[i] out of range *)
      | Some x => if (x <? 128)%N then FlOk b' s' else scan_varint k' (S i) b' s'
      end
    | r => r
    end
  end.

Definition proto_next (b : bytes) (s : src) (limit : nat) : rres :=
  match scan_varint 10 0 b s with
  | FlErr e b1 s1 => RRet b1 0 (Some e) s1
  | FlPanic => RPanic
  | FlFuel => RFuel
  | FlOk b1 s1 =>
    match consume_varint b1 with
    | VTrunc => RRet b1 0 (Some EUnexpectedEOF) s1
    | VOverflow => RRet b1 0 (Some EVarint) s1
    | VOk size nv =>
      (* size > math.MaxInt || (limit > 0 && size > uint64(limit)) *)
      if (2 ^ 63 <=? size)%N || (Nat.ltb 0 limit && (N.of_nat limit <? size)%N)
      then RRet b1 0 (Some ETooLarge) s1
      else
        match slice_from nv b1 with                      (* b = b[n:] *)
        | Ok b2 =>
          let n := N.to_nat size in
          if Nat.ltb (length b2) n then
            match read_full (S (length (rem s1))) (n - length b2) [] s1 with
            | Some (more, true, s2) => RRet (b2 ++ more) n None s2
            | Some (_, false, s2) => RRet b2 0 (Some EUnexpectedEOF) s2
            | None => RFuel
            end
          else RRet b2 n None s1
        | _ => RPanic
        end
    end
  end.

(* ---- CodecJSON.ReadNext: k = limit - i iterations remain ---- *)
Fixpoint json_loop (k i : nat) (st : jst) (b : bytes) (s : src) : rres :=
  match k with
  | O => RRet b 0 (Some ETooLarge) s
  | S k' =>
    match fill (fill_fuel s) (fun _ => Nat.ltb 0 (depth st)) b s i with
    | FlErr e b' s' => RRet b' 0 (Some e) s'
    | FlPanic => RPanic
    | FlFuel => RFuel
    | FlOk b' s' =>
      match nth_error b' i with
      | None => RPanic
      | Some c =>
        match json_step st c with
        | JCont st' => json_loop k' (S i) st' b' s'
        | JDone => RRet b' (S i) None s'
        | JUnbalanced => RRet b' 0 (Some EUnbalanced) s'
        end
      end
    end
  end.
Definition json_next (b : bytes) (s : src) (limit : nat) : rres := json_loop limit 0 jst0 b s.

(* ---- codecHTTPBody.ReadNext (limit <= 0 means no chunking) ---- *)
Fixpoint body_loop (fuel : nat) (b : bytes) (s : src) (limit : nat) : rres :=
  if Nat.ltb 0 limit && Nat.leb limit (length b) then RRet b limit None s else
  match fuel with
  | O => RFuel
  | S f =>
    let '(ch, eof, s') := read_any s in
    let b' := b ++ ch in
    if eof then
      if Nat.ltb 0 limit && Nat.ltb limit (length b') then RRet b' limit None s'
      else RRet b' (length b') (Some EEOF) s'
    else body_loop f b' s' limit
  end.
Definition body_next (b : bytes) (s : src) (limit : nat) : rres := body_loop (fill_fuel s) b s limit.

Definition read_next (c : codec) (b : bytes) (s : src) (limit : nat) : rres :=
  match c with CProto => proto_next b s limit | CJSON => json_next b s limit | CBody => body_next b s limit end.

Definition write_next (c : codec) (m : bytes) : bytes :=
  match c with CProto => write_proto m | CJSON => write_json m | CBody => m end.

(* ---- the caller's protocol: carry := dst[n:] ---- *)
Inductive rend := EndClean | EndErr (e : err) | EndLost | EndPanic | EndFuel.
Fixpoint recv_all (fuel : nat) (c : codec) (limit : nat) (carry : bytes) (s : src) : list bytes * rend :=
  match fuel with
  | O => ([], EndFuel)
  | S f =>
    match read_next c carry s limit with
    | RPanic => ([], EndPanic)
    | RFuel => ([], EndFuel)
    | RRet dst n None s' =>
      let '(ms, e) := recv_all f c limit (skipn n dst) s' in (firstn n dst :: ms, e)
    | RRet dst n (Some EEOF) s' =>
      match n with
      | O => ([], match c, dst with CJSON, _ | _, [] => EndClean | _, _ => EndLost end)
      | _ => ([firstn n dst], if is_nil (skipn n dst) then EndClean else EndLost)
      end
    | RRet _ _ (Some e) _ => ([], EndErr e)
    end
  end.
