(* The timeout a proxied call is forwarded with. larking/mux.go createConnHandler hands the front call's context to
   cc.Invoke / cc.NewStream; grpc-go's client writes the time left until that context's deadline into the grpc-timeout
   header of the backend call with internal/grpcutil.EncodeDuration (transcribed here from grpc-go v1.68.0, a library
   function: modelled, not verified), and the backend decodes it with the grammar of Model/Timeout.v. *)
From Coq Require Import ZArith List Bool Lia.
Import ListNotations.
Local Open Scope Z_scope.

Definition max_timeout_value : Z := 100000000 - 1.

(* div: integer division rounding up (d > 0, r > 0) *)
Definition div_up (d r : Z) : Z := if 0 <? d mod r then d / r + 1 else d / r.

(* the units EncodeDuration tries, finest first, in nanoseconds: n u m S M; H is the fallback *)
Definition fwd_units : list Z := [1; 1000; 1000000; 1000000000; 60000000000].
Definition hour_ns : Z := 3600000000000.

(* (value, unit in ns) of EncodeDuration t; t <= 0 encodes as "0n" *)
Fixpoint encode_in (us : list Z) (t : Z) : Z * Z :=
  match us with
  | [] => (div_up t hour_ns, hour_ns)
  | u :: r => if div_up t u <=? max_timeout_value then (div_up t u, u) else encode_in r t
  end.
Definition encode_duration (t : Z) : Z * Z := if t <=? 0 then (0, 1) else encode_in fwd_units t.

(* the nanoseconds the backend reads back *)
Definition forwarded_ns (t : Z) : Z := let (v, u) := encode_duration t in v * u.

(* the units a caller's grpc-timeout may be written in (Model/Timeout.v unit_ns) *)
Definition legal_unit (u : Z) : bool :=
  (u =? 1) || (u =? 1000) || (u =? 1000000) || (u =? 1000000000) || (u =? 60000000000) || (u =? 3600000000000).
