(* larking/grpc.go: timeoutUnit, decodeTimeout -- and the gRPC wire grammar they implement. *)
From Larking Require Import Base.GoSem.
Local Open Scope Z_scope.

(* ---- specification: grpc-timeout = 1..8 ASCII digits followed by one of H M S m u n ---- *)
Definition is_digit (c : byte) : bool := (48 <=? c)%N && (c <=? 57)%N.
Definition unit_ns (c : byte) : option Z :=
  if (c =? 72)%N then Some 3600000000000       (* H *)
  else if (c =? 77)%N then Some 60000000000    (* M *)
  else if (c =? 83)%N then Some 1000000000     (* S *)
  else if (c =? 109)%N then Some 1000000       (* m *)
  else if (c =? 117)%N then Some 1000          (* u *)
  else if (c =? 110)%N then Some 1             (* n *)
  else None.
Fixpoint digits_val (acc : Z) (ds : bytes) : Z :=
  match ds with [] => acc | d :: r => digits_val (acc * 10 + (Z.of_N d - 48)) r end.
Definition max_i64 : Z := 2 ^ 63 - 1.

(* legal s ns: s is a legal timeout denoting ns nanoseconds (clamped to the largest Duration) *)
Definition legal (s : bytes) (ns : Z) : Prop :=
  exists ds u d, s = ds ++ [u] /\ (1 <= length ds <= 8)%nat /\ forallb is_digit ds = true /\
                 unit_ns u = Some d /\ ns = Z.min (digits_val 0 ds * d) max_i64.

(* ---- model of the code ---- *)
(* strconv.ParseUint(s, 10, 63) on at most 8 characters: digits only, no sign, not empty *)
Definition parse_uint (s : bytes) : option Z :=
  match s with
  | [] => None
  | _ => if forallb is_digit s then Some (digits_val 0 s) else None
  end.

Definition max_hours : Z := max_i64 / 3600000000000.

Definition decode_timeout (s : bytes) : option Z :=
  let size := length s in
  if Nat.ltb size 2 then None
  else if Nat.ltb 9 size then None
  else match unit_ns (last s 0%N) with
       | None => None
       | Some d =>
         match parse_uint (removelast s) with
         | None => None
         | Some t =>
           if (d =? 3600000000000) && (max_hours <? t) then Some max_i64
           else Some (wrap64 (d * t))           (* Duration multiplication is int64 *)
         end
       end.

(* executable judgement of what the implementation did with a timeout string:
   refused = handler not invoked; otherwise the deadline observed lies between lo and hi ns (beyond
   2^62 ns Go's time arithmetic saturates: there the time left must still be at least 2^61 ns) *)
Definition timeout_obs_ok (s : bytes) (refused : bool) (lo hi : Z) : bool :=
  match decode_timeout s with
  | None => refused
  | Some ns => negb refused && (lo <=? ns) && ((ns <=? hi) || ((2 ^ 62 <=? ns) && (2 ^ 61 <=? lo)))
  end.
