(* C20 -- model of larking/server.go NewServer (option processing, pattern registration with
   http.StripPrefix per mount) and of the two net/http pieces the property turns on:
     * http.ServeMux for plain absolute path patterns (exact pattern / subtree pattern ending in '/',
       most specific = longest pattern wins, the 301 from "/p" to "/p/" when only "/p/" is registered,
       the 301 for unclean paths before any handler runs, panic of Handle on an invalid / duplicate
       pattern or a nil handler);
     * http.StripPrefix (404 when the prefix does not match, pass-through when the prefix is "").
   The larking Mux itself is NOT modelled: a response of the server is "the mux was handed this path"
   (ToMux x), so that every statement holds for an arbitrary mux, i.e. for every protocol at once.
   No proofs in this file. Strings are lists of bytes (N). *)
From Coq Require Import List NArith Bool Arith.
Import ListNotations.

Notation str := (list N) (only parsing).

Definition slash : N := 47%N.
Definition is_slash (c : N) : bool := N.eqb c 47.

Fixpoint str_eqb (a b : str) : bool :=
  match a, b with
  | [], [] => true
  | x :: a', y :: b' => N.eqb x y && str_eqb a' b'
  | _, _ => false
  end.

(* strings.HasPrefix(s, p) *)
Fixpoint has_prefix (p s : str) : bool :=
  match p, s with
  | [], _ => true
  | x :: p', y :: s' => N.eqb x y && has_prefix p' s'
  | _ :: _, [] => false
  end.

(* strings.HasSuffix(s, "/") *)
Fixpoint ends_slash (s : str) : bool :=
  match s with
  | [] => false
  | [c] => is_slash c
  | _ :: t => ends_slash t
  end.

(* strings.TrimSuffix(s, "/"): at most one slash is removed *)
Fixpoint trim_slash (s : str) : str :=
  match s with
  | [] => []
  | [c] => if is_slash c then [] else [c]
  | c :: t => c :: trim_slash t
  end.

(* ---- clean paths: cleanPath(p) == p in net/http -------------------------------------------- *)
(* segments of the text after the leading slash *)
Fixpoint split_slash (cur : str) (s : str) : list str :=
  match s with
  | [] => [rev cur]
  | c :: t => if is_slash c then rev cur :: split_slash [] t else split_slash (c :: cur) t
  end.

Definition is_dot (seg : str) : bool :=
  match seg with
  | [46%N] => true
  | [46%N; 46%N] => true
  | _ => false
  end.

(* every segment but the last is non-empty; no segment is "." or ".." *)
Fixpoint segs_clean (segs : list str) : bool :=
  match segs with
  | [] => true
  | [s] => negb (is_dot s)
  | s :: rest => negb (is_dot s) && negb (match s with [] => true | _ => false end) && segs_clean rest
  end.

Definition is_clean (p : str) : bool :=
  match p with
  | c :: rest => is_slash c && segs_clean (split_slash [] rest)
  | [] => false
  end.

(* ---- patterns --------------------------------------------------------------------------------- *)
(* The pattern language of Go 1.22 ("[METHOD ][HOST]/PATH" with {wildcards}, %-escapes in literals, an
   empty literal segment acting as a wildcard) is outside this model: a pattern is modelled only if it
   is a plain clean absolute path -- starts with '/', is clean, has no space, tab, '{' or '%'. *)
Definition plain_byte (c : N) : bool :=
  negb (N.eqb c 32 || N.eqb c 9 || N.eqb c 123 || N.eqb c 37).
Definition plain (p : str) : bool := is_clean p && forallb plain_byte p.

Inductive target :=
| TMux (strip : str)      (* http.StripPrefix(strip, mux); strip = [] is the mux itself *)
| TExtra (idx : nat).     (* the handler given by the idx-th option *)

Record entry := mk_entry { e_pat : str; e_tgt : target }.

Inductive reg_result :=
| ROk (t : list entry)
| RPanic              (* ServeMux.Handle panicked: empty pattern, nil handler, pattern registered twice *)
| RUnmodelled.        (* a pattern outside the modelled language *)

Definition has_pat (t : list entry) (p : str) : bool :=
  existsb (fun e => str_eqb (e_pat e) p) t.

(* ServeMux.Handle(pat, handler) *)
Definition register (t : list entry) (pat : str) (nil_handler : bool) (tg : target) : reg_result :=
  match pat with
  | [] => RPanic
  | _ =>
    if nil_handler then RPanic
    else if negb (plain pat) then RUnmodelled
    else if has_pat t pat then RPanic
    else ROk (t ++ [mk_entry pat tg])
  end.

(* ---- NewServer -------------------------------------------------------------------------------- *)
Inductive server_option :=
| OTLS                                        (* TLSCredsOption *)
| OMux (pats : option (list str))            (* MuxHandleOption(patterns...); None = nil slice *)
| OHandler (pat : str) (nil_handler : bool). (* HTTPHandlerOption(pattern, handler) *)

Inductive ns_error := ENilMux | EDupPatterns.

Record server := mk_server { s_tbl : list entry; s_mounts : list str }.

Inductive ns_result :=
| NSOk (s : server)
| NSErr (e : ns_error)
| NSPanic
| NSUnmodelled.

(* the option loop: options run in call order against (serveMux table, muxPatterns);
   i is the position of the option (the identity of its handler) *)
Inductive opts_result :=
| OOk (t : list entry) (pats : option (list str))
| OErr (e : ns_error)
| OPanic
| OUnmodelled.

Fixpoint apply_opts (opts : list server_option) (i : nat) (t : list entry) (pats : option (list str)) : opts_result :=
  match opts with
  | [] => OOk t pats
  | OTLS :: rest => apply_opts rest (S i) t pats
  | OMux ps :: rest =>
    match pats with
    | Some _ => OErr EDupPatterns                (* opts.muxPatterns != nil *)
    | None => apply_opts rest (S i) t ps
    end
  | OHandler pat nilh :: rest =>
    match register t pat nilh (TExtra i) with
    | ROk t' => apply_opts rest (S i) t' pats
    | RPanic => OPanic
    | RUnmodelled => OUnmodelled
    end
  end.

(* prefix := strings.TrimSuffix(pattern, "/");
   if len(prefix) > 0 { h.Handle(prefix+"/", http.StripPrefix(prefix, mux)) } else { h.Handle("/", mux) } *)
Definition mount_prefix (pattern : str) : str := trim_slash pattern.
Definition mount_entry (pattern : str) : entry :=
  mk_entry (mount_prefix pattern ++ [slash]) (TMux (mount_prefix pattern)).

Fixpoint reg_mounts (ps : list str) (t : list entry) : reg_result :=
  match ps with
  | [] => ROk t
  | p :: rest =>
    match register t (e_pat (mount_entry p)) false (e_tgt (mount_entry p)) with
    | ROk t' => reg_mounts rest t'
    | r => r
    end
  end.

(* if len(svrOpts.muxPatterns) == 0 { svrOpts.muxPatterns = []string{"/"} } *)
Definition effective_mounts (pats : option (list str)) : list str :=
  match pats with
  | None | Some [] => [[slash]]
  | Some l => l
  end.

Definition new_server (mux_nil : bool) (opts : list server_option) : ns_result :=
  if mux_nil then NSErr ENilMux
  else match apply_opts opts 0 [] None with
       | OErr e => NSErr e
       | OPanic => NSPanic
       | OUnmodelled => NSUnmodelled
       | OOk t pats =>
         match reg_mounts (effective_mounts pats) t with
         | ROk t' => NSOk (mk_server t' (effective_mounts pats))
         | RPanic => NSPanic
         | RUnmodelled => NSUnmodelled
         end
       end.

(* ---- serving a request (method is not CONNECT, URL.RawPath is empty) ---------------------------- *)
Inductive response :=
| ToMux (path : str)                 (* Mux.ServeHTTP runs with r.URL.Path = path, everything else untouched *)
| ToExtra (idx : nat) (path : str)   (* the idx-th option's handler runs with r.URL.Path = path *)
| NotFound                           (* net/http's 404 page; no handler of the configuration runs *)
| Redirect (loc : str)               (* 301 to loc (= path + "/"); no handler runs *)
| RedirectClean.                     (* 301 to the cleaned path; no handler runs (target not modelled) *)

(* a pattern matches a path: subtree patterns by prefix, other patterns exactly *)
Definition claims (pat path : str) : bool :=
  if ends_slash pat then has_prefix pat path else str_eqb pat path.

(* most specific matching pattern = the longest one (matching plain patterns are all prefixes of the path) *)
Fixpoint best (t : list entry) (path : str) (acc : option entry) : option entry :=
  match t with
  | [] => acc
  | e :: t' =>
    if claims (e_pat e) path then
      match acc with
      | Some a => if length (e_pat a) <? length (e_pat e) then best t' path (Some e) else best t' path acc
      | None => best t' path (Some e)
      end
    else best t' path acc
  end.

(* strings.TrimPrefix with the success flag *)
Fixpoint drop_prefix (p s : str) : option str :=
  match p, s with
  | [], _ => Some s
  | x :: p', y :: s' => if N.eqb x y then drop_prefix p' s' else None
  | _ :: _, [] => None
  end.

(* http.StripPrefix(strip, mux) with RawPath = "" *)
Definition strip_serve (strip path : str) : response :=
  match strip with
  | [] => ToMux path
  | _ => match drop_prefix strip path with
         | Some rest => if length rest <? length path then ToMux rest else NotFound
         | None => NotFound          (* TrimPrefix left the path unchanged *)
         end
  end.

Definition run_entry (e : entry) (path : str) : response :=
  match e_tgt e with
  | TExtra i => ToExtra i path
  | TMux strip => strip_serve strip path
  end.

(* ServeMux.findHandler + ServeHTTP *)
Definition serve (s : server) (path : str) : response :=
  if negb (is_clean path) then RedirectClean
  else
    let slash_redirect := negb (ends_slash path) && has_pat (s_tbl s) (path ++ [slash]) in
    match best (s_tbl s) path None with
    | Some e =>
      if str_eqb (e_pat e) path then run_entry e path             (* exact match: no redirect is tried *)
      else if slash_redirect then Redirect (path ++ [slash])
      else run_entry e path
    | None => if slash_redirect then Redirect (path ++ [slash]) else NotFound
    end.

(* the whole thing, as one function of the configuration and the request path *)
Inductive observation :=
| ObsErr | ObsPanic | ObsUnmodelled
| ObsResp (r : response).

Definition run_case (mux_nil : bool) (opts : list server_option) (path : str) : observation :=
  match new_server mux_nil opts with
  | NSErr _ => ObsErr
  | NSPanic => ObsPanic
  | NSUnmodelled => ObsUnmodelled
  | NSOk s => ObsResp (serve s path)
  end.

(* ---- the response a client gets, for an ARBITRARY mux and arbitrary other handlers ------------------
   StripPrefix hands the mux a shallow copy of the request in which only URL.Path differs, so the mux is
   any function of (method, path, headers, body): transcoding, Twirp, gRPC and gRPC-web are all instances. *)
Section Respond.
  Variables Meth Hdr Body Resp : Type.
  Variable mux : Meth -> str -> Hdr -> Body -> Resp.
  Variable extra : nat -> Meth -> str -> Hdr -> Body -> Resp.
  Variable not_found : Resp.
  Variable redirect : str -> Resp.
  Variable redirect_clean : str -> Resp.

  Definition respond (s : server) (m : Meth) (path : str) (h : Hdr) (b : Body) : Resp :=
    match serve s path with
    | ToMux x => mux m x h b
    | ToExtra i x => extra i m x h b
    | NotFound => not_found
    | Redirect l => redirect l
    | RedirectClean => redirect_clean path
    end.
End Respond.
