(* The unary response path of larking/http.go and the pieces of mux.go / rules.go it relies on
   (after the fix: commits of C04):
     NewMux           contentTypeOffers = sorted codec keys without the internal HttpBody key;
                      encodingTypeOffers = sorted codec keys (sic: the codec keys, not the compressors)
     addRule          response_body resolved on the response type; every field of the path must be
                      a singular message field
     serveHTTP        request content type (default application/json), Accept / Accept-Encoding
                      negotiation, compressor lookup, Content-Encoding, error path (encError)
     streamHTTP       getCodec, SendMsg (response_body walk, HttpBody passthrough, MarshalAppend),
                      writeMsg (Content-Type on the first write), writeAll (send limit)
   Messages, marshalling and compression are parameters (Section variables): protobuf-go and
   gzip are libraries. No proofs here. *)
From Coq Require Import QArith.
From Larking Require Import Base.GoSem Model.Negotiate.
Local Close Scope Q_scope.
Local Open Scope nat_scope.
Local Open Scope bool_scope.

Inductive codec := CJSON | CProto | CBody | CUser (id : N).

Definition http_body_name : bytes :=
  str_of [103;111;111;103;108;101;46;97;112;105;46;72;116;116;112;66;111;100;121].   (* google.api.HttpBody *)
Definition json_type : bytes :=
  str_of [97;112;112;108;105;99;97;116;105;111;110;47;106;115;111;110].              (* application/json *)
Definition protobuf_type : bytes :=
  str_of [97;112;112;108;105;99;97;116;105;111;110;47;112;114;111;116;111;98;117;102].
Definition octet_type : bytes :=
  str_of [97;112;112;108;105;99;97;116;105;111;110;47;111;99;116;101;116;45;115;116;114;101;97;109].
Definition gzip_name : bytes := str_of [103;122;105;112].

Fixpoint lookup {A} (k : bytes) (m : list (bytes * A)) : option A :=
  match m with [] => None | (k', v) :: r => if bytes_eqb k' k then Some v else lookup k r end.
Definition memb (k : bytes) (l : list bytes) : bool := existsb (bytes_eqb k) l.

(* sort.Strings: bytewise lexicographic order *)
Fixpoint bytes_leb (a b : bytes) : bool :=
  match a, b with
  | [], _ => true
  | _ :: _, [] => false
  | x :: a', y :: b' => if (x <? y)%N then true else if (y <? x)%N then false else bytes_leb a' b'
  end.
Fixpoint insert_sorted (k : bytes) (l : list bytes) : list bytes :=
  match l with [] => [k] | x :: r => if bytes_leb k x then k :: l else x :: insert_sorted k r end.
Definition sort_strings (l : list bytes) : list bytes := fold_right insert_sorted [] l.

Record config := mkconfig {
  codecs : list (bytes * codec);      (* muxOptions.codecs after the defaults were added *)
  compressors : list bytes;           (* keys of muxOptions.compressors with a non-nil compressor *)
  max_send : N }.

Definition default_codecs : list (bytes * codec) :=
  [(json_type, CJSON); (protobuf_type, CProto); (octet_type, CProto); (http_body_name, CBody)].
Definition default_config : config := mkconfig default_codecs [gzip_name] 2147483647%N.

Definition content_type_offers (cfg : config) : list bytes :=
  sort_strings (filter (fun k => negb (bytes_eqb k http_body_name)) (map fst (codecs cfg))).
Definition encoding_type_offers (cfg : config) : list bytes := sort_strings (map fst (codecs cfg)).

(* addRule: what a path of field kinds must look like to be accepted as response_body *)
Inductive fkind := KMessage | KScalar | KRepeated | KMissing.
Definition resp_path_ok (kinds : list fkind) : bool :=
  negb (is_nil kinds) && forallb (fun k => match k with KMessage => true | _ => false end) kinds.

Section Response.
  Variables msg field : Type.
  (* cur.Mutable(fd).Message(): None when fd is not a singular message field (protoreflect panics) *)
  Variable get_msg : field -> msg -> option msg.
  Variable full_name : msg -> bytes.
  Variable body_ct body_data : msg -> bytes.             (* fields of a google.api.HttpBody *)
  Variable marshal : codec -> msg -> outcome bytes.      (* Codec.MarshalAppend(nil, m) *)
  Variable marshal_status : codec -> N -> outcome bytes. (* Codec.Marshal(status proto with this code) *)
  Variable compress : bytes -> bytes -> bytes.           (* everything written through Compress(w) then Close *)

  Fixpoint walk (path : list field) (cur : msg) : outcome msg :=
    match path with
    | [] => Ok cur
    | fd :: r => match get_msg fd cur with Some m => walk r m | None => Panic PKind end
    end.

  Definition get_codec (cfg : config) (media : bytes) (cur : msg) : outcome codec :=
    match lookup (full_name cur) (codecs cfg) with
    | Some c => Ok c
    | None =>
      match lookup media (codecs cfg) with
      | Some c => if bytes_eqb media http_body_name then Err EInternal else Ok c
      | None => Err EInternal
      end
    end.

  Record sent := mksent { s_ct : bytes; s_body : bytes }.

  (* SendMsg + writeMsg + writeAll for the first (only) message of a unary call.
     Err EInternal: nothing was sent and sentHeader is false; Err ETooLarge: writeAll refused, the
     headers were prepared (sentHeader true) but nothing was written *)
  Definition send_msg (cfg : config) (path : list field) (accept : bytes) (reply : msg) : outcome sent :=
    do cur <- walk path reply;
    do c <- get_codec cfg accept cur;
    do bc <- (if bytes_eqb (full_name cur) http_body_name then Ok (body_data cur, body_ct cur)
              else match marshal c cur with
                   | Ok b => Ok (b, accept)
                   | Err _ => Err EInternal
                   | Panic p => Panic p
                   | OutOfFuel => OutOfFuel
                   end);
    let '(b, ct) := bc in
    if (max_send cfg <? N.of_nat (length b))%N then Err ETooLarge else Ok (mksent ct b).

  Record response := mkresp {
    r_status : N;
    r_ct : option bytes;          (* Content-Type header *)
    r_ce : option bytes;          (* Content-Encoding header *)
    r_wire : bytes;               (* bytes on the wire *)
    r_code : N }.                 (* google.rpc.Code in an error body, 0 for a reply *)

  Definition request_content_type (reqct : option bytes) : bytes :=
    match reqct with Some c => if is_nil c then json_type else c | None => json_type end.

  Definition err_code (e : err) : N := match e with ETooLarge => 2%N | _ => 13%N end.

  Definition serve_unary (cfg : config) (reqct : option bytes) (accept accept_enc : list bytes)
      (has_body : bool) (reqcur : msg) (path : list field) (reply : msg) : outcome response :=
    let content_type := request_content_type reqct in
    do aspecs <- parse_accept accept;
    do especs <- parse_accept accept_enc;
    let acc := negotiate_content_type aspecs (content_type_offers cfg) content_type in
    let enc := negotiate_encoding especs (encoding_type_offers cfg) in
    let comp := memb enc (compressors cfg) in
    let handled :=
      do _ <- (if has_body then get_codec cfg content_type reqcur else Ok CJSON);   (* decodeRequestArgs *)
      send_msg cfg path acc reply in
    match handled with
    | Ok s =>
      Ok (mkresp 200%N (Some (s_ct s)) (if comp then Some enc else None)
                 (if comp then compress enc (s_body s) else s_body s) 0%N)
    | Err e =>
      (* encError: the error body is negotiated again with application/json as default *)
      let ect := negotiate_content_type aspecs (content_type_offers cfg) json_type in
      match lookup ect (codecs cfg) with
      | None => Panic PNil
      | Some c =>
        do b <- marshal_status c (err_code e);
        let sent_header := match e with ETooLarge => true | _ => false end in
        Ok (mkresp 500%N (Some ect)
                   (if sent_header then (if comp then Some enc else None) else Some identity)
                   (b ++ (if comp then compress enc [] else [])) (err_code e))
      end
    | Panic p => Panic p
    | OutOfFuel => OutOfFuel
    end.
End Response.
