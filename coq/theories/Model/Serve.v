(* larking/mux.go Mux.ServeHTTP (entry-point dispatch), larking/web.go isWebRequest / serveGRPCWeb
   (what happens before serveGRPC is entered), larking/grpc.go serveGRPC (every check before the
   handler runs), larking/http.go isWebsocketRequest.  No proofs here.

   A request is what these functions look at: protocol major version, method, the first
   Content-Type value, all Upgrade values, the first Grpc-Encoding and Grpc-Timeout values, and
   (oracle, the registry is Model/Registry.v's subject) whether the URL path names a registered
   gRPC method.  The configuration is the set of gRPC codec names (muxOptions.codecsByName: after
   the fix the internal "body" codec is not among them) and the keys of muxOptions.compressors.

   strings.EqualFold is rendered on ASCII (simple case folding of 'A'..'Z'); the two non-ASCII
   runes that fold to letters of "websocket" (U+212A, U+017F) are outside the model. *)
From Larking Require Import Base.GoSem Model.Timeout.
Local Open Scope N_scope.

Definition str_of (l : list N) : bytes := l.
Definition has_prefix (p s : bytes) : bool := bytes_eqb (firstn (length p) s) p.

(* "application/grpc" "application/grpc-web" "application/grpc-web-text" "websocket" "POST" "proto" *)
Definition grpc_base : bytes := str_of [97;112;112;108;105;99;97;116;105;111;110;47;103;114;112;99].
Definition grpc_web : bytes := grpc_base ++ str_of [45;119;101;98].
Definition grpc_web_text : bytes := grpc_web ++ str_of [45;116;101;120;116].
Definition websocket : bytes := str_of [119;101;98;115;111;99;107;101;116].
Definition post : bytes := str_of [80;79;83;84].
Definition proto_name : bytes := str_of [112;114;111;116;111].
Definition json_name : bytes := str_of [106;115;111;110].
Definition gzip_name : bytes := str_of [103;122;105;112].
Definition identity_name : bytes := str_of [105;100;101;110;116;105;116;121].

(* strings.Cut(s, "+") *)
Fixpoint cut_plus (s : bytes) : bytes * bytes * bool :=
  match s with
  | [] => ([], [], false)
  | c :: r => if c =? 43 then ([], r, true)
              else let '(a, b, ok) := cut_plus r in (c :: a, b, ok)
  end.

Definition lower_ascii (c : N) : N := if (65 <=? c) && (c <=? 90) then c + 32 else c.
Definition equal_fold_ascii (a b : bytes) : bool := bytes_eqb (map lower_ascii a) (map lower_ascii b).

Definition memb (x : bytes) (l : list bytes) : bool := existsb (bytes_eqb x) l.

Record req := mkReq {
  q_major : N;
  q_method : bytes;
  q_ctype : bytes;               (* r.Header.Get("Content-Type") *)
  q_upgrade : list bytes;        (* r.Header["Upgrade"] *)
  q_encoding : bytes;            (* r.Header.Get("Grpc-Encoding") *)
  q_timeout : bytes;             (* r.Header.Get("grpc-timeout") *)
  q_known : bool                 (* pickMethodHandler(r.URL.Path) finds a handler *)
}.
Record cfg := mkCfg { codec_names : list bytes; compressor_keys : list bytes }.
Definition default_cfg : cfg := mkCfg [json_name; proto_name] [gzip_name; identity_name].

(* ---- Mux.ServeHTTP: which of the four paths ---- *)
Inductive entry := EWeb | EGrpc | EWs | EHttp.

Definition is_websocket_request (r : req) : bool := existsb (bytes_eqb websocket) (q_upgrade r).

Definition dispatch (r : req) : entry :=
  if has_prefix grpc_web (q_ctype r) then EWeb
  else if (q_major r =? 2) && has_prefix grpc_base (q_ctype r) then EGrpc
  else if is_websocket_request r then EWs
  else EHttp.

(* ---- what happens before a handler is looked at ---- *)
Inductive pre :=
| Refuse (status : N)            (* http.Error with this status; no handler runs *)
| ReachGrpc (web : bool)         (* the handler of the named method runs on a streamGRPC *)
| Transcode (ws : bool).         (* serveHTTP: routing by path and verb (WEBSOCKET for an upgrade) *)

(* grpcGetCodec *)
Definition grpc_codec_ok (c : cfg) (ct : bytes) : bool :=
  let '(typ, enc, ok) := cut_plus ct in
  let enc := if ok then enc else proto_name in
  bytes_eqb typ grpc_base && memb enc (codec_names c).

(* serveGRPC up to the handler *)
Definition grpc_pre (c : cfg) (web : bool) (major : N) (ct : bytes) (r : req) : pre :=
  if negb (major =? 2) then Refuse 400
  else if negb (bytes_eqb (q_method r) post) then Refuse 400
  else if negb (grpc_codec_ok c ct) then Refuse 415
  else if negb (is_nil (q_encoding r)) && negb (memb (q_encoding r) (compressor_keys c)) then Refuse 415
  else if negb (is_nil (q_timeout r)) && match decode_timeout (q_timeout r) with None => true | Some _ => false end then Refuse 400
  else if negb (q_known r) then Refuse 404
  else ReachGrpc web.

(* serveGRPCWeb: isWebRequest, the Upgrade test, the rewritten protocol version and Content-Type *)
Definition web_pre (c : cfg) (r : req) : pre :=
  if negb (has_prefix grpc_web (q_ctype r) && bytes_eqb (q_method r) post) then Refuse 400
  else
    let '(typ, enc, ok) := cut_plus (q_ctype r) in
    let enc := if ok then enc else proto_name in
    if negb (bytes_eqb typ grpc_web || bytes_eqb typ grpc_web_text) then Refuse 400
    else if equal_fold_ascii (hd [] (q_upgrade r)) websocket then Refuse 500
    else grpc_pre c true 2 (grpc_base ++ [43] ++ enc) r.

Definition serve_pre (c : cfg) (r : req) : pre :=
  match dispatch r with
  | EWeb => web_pre c r
  | EGrpc => grpc_pre c false (q_major r) (q_ctype r) r
  | EWs => Transcode true
  | EHttp => Transcode false
  end.

(* the HTTP status of a refusal is one http.Error can send *)
Definition status_ok (s : N) : bool := (100 <=? s) && (s <=? 599).
