(* larking/grpc.go: streamGRPC.RecvMsg / SendMsg (5-byte framing, compression flag, size check,
   decompression, Unmarshal) over scheduled readers; larking/web.go: the gRPC-web request body
   (binary, or a base64 decoder in front of it), the response body with its trailer frame;
   larking/websocket.go + the WebSocket branch of serveHTTP: larking's use of gobwas/ws.
   No proofs in this file. *)
From Larking Require Import Base.GoSem Base.Reader Base.B64 Spec.Frames Spec.StreamSpec Model.Codec.

(* a reader whose end is either io.EOF (None) or another error (the base64 decoder of text mode) *)
Record xsrc := XSrc { xs : src; xtail : tail }.

Inductive gcall := GRet (m : bytes) (x : xsrc) | GStop (e : err) (x : xsrc) | GPanic | GFuel.

(* io.ReadFull(s.r, buf) with len(buf) = need: the bytes, nil or the error, the reader after *)
Definition read_full_x (need : nat) (x : xsrc) : option (bytes * option err * xsrc) :=
  match read_full (S (length (rem (xs x)))) need [] (xs x) with
  | None => None
  | Some (got, true, s') => Some (got, None, XSrc s' (xtail x))
  | Some (got, false, s') => Some (got, Some (short_err (xtail x) (negb (is_nil got))), XSrc s' (xtail x))
  end.

(* RecvMsg. [gunzip] = the decompressor negotiated by Grpc-Encoding (None: s.comp == nil). *)
Definition grpc_recv1 (limit : nat) (gunzip : option (bytes -> option bytes)) (valid : bytes -> bool)
  (x : xsrc) : gcall :=
  match read_full_x 5 x with
  | None => GFuel
  | Some (_, Some e, x1) =>
    (* io.EOF here is the clean end; isStreamError(err) turns anything else into a Canceled status *)
    GStop (match e with EEOF => EEOF | _ => EOther end) x1
  | Some (hd, None, x1) =>
    match hd with
    | flag :: a :: b :: c :: d :: _ =>
      let size := gun_be32 a b c d in                               (* binary.BigEndian.Uint32(b[1:]) *)
      if (N.of_nat limit <? size)%N then GStop ETooLarge x1        (* int(size) > maxReceiveMessageSize *)
      else
        match read_full_x (N.to_nat size) x1 with
        | None => GFuel
        | Some (_, Some e, x2) =>
          (* after the fix: a plain io.EOF here is a truncated message *)
          GStop (match e with EEOF => EUnexpectedEOF | _ => e end) x2
        | Some (p, None, x2) =>
          let isCompressed := (flag =? 1)%N in
          let plain :=
            if isCompressed then match gunzip with Some z => z p | None => None end else Some p in
          match plain with
          | None => GStop EOther x2                                  (* no decompressor / corrupt data *)
          | Some m => if valid m then GRet m x2 else GStop EInvalid x2
          end
        end
    | _ => GPanic                                                    (* b[0], b[1:5] of a 5-byte buffer *)
    end
  end.

Fixpoint grpc_recv_all (fuel limit : nat) (gunzip : option (bytes -> option bytes)) (valid : bytes -> bool)
  (x : xsrc) : list bytes * rend :=
  match fuel with
  | O => ([], EndFuel)
  | S f =>
    match grpc_recv1 limit gunzip valid x with
    | GRet m x' => let '(ms, e) := grpc_recv_all f limit gunzip valid x' in (m :: ms, e)
    | GStop EEOF _ => ([], EndClean)
    | GStop e _ => ([], EndErr e)
    | GPanic => ([], EndPanic)
    | GFuel => ([], EndFuel)
    end
  end.

(* serveGRPCWeb: the request body as serveGRPC reads it. Binary: the body itself. Text: a
   base64.NewDecoder(StdEncoding) in front, which delivers the bytes of the whole quanta and then
   io.EOF, io.ErrUnexpectedEOF (cut inside a quantum) or a CorruptInputError. *)
Definition web_src (text : bool) (body : bytes) (sch : list nat) (eofwd : bool) : xsrc :=
  if text then let '(d, t) := web_text_decode body in XSrc (Src d sch eofwd) t
  else XSrc (Src body sch eofwd) TClean.

(* SendMsg: flag, big-endian length, payload; compressed when an encoding was negotiated *)
Definition grpc_send1 (gzip : option (bytes -> bytes)) (m : bytes) : bytes :=
  match gzip with Some z => gframe 1 (z m) | None => gframe 0 m end.
Definition grpc_send (gzip : option (bytes -> bytes)) (out : list bytes) : bytes :=
  concat (map (grpc_send1 gzip) out).

(* webWriter: the data frames, then flushWithTrailer writes one frame with the MSB set carrying
   the trailer block -- when anything was written; else a trailers-only response (empty body).
   Text mode: the base64 encoder is closed after the trailer frame. *)
Definition web_resp (text : bool) (gzip : option (bytes -> bytes)) (out : list bytes) (wrote : bool) (trailer : bytes) : bytes :=
  let raw := if wrote then grpc_send gzip out ++ gframe 128 trailer else [] in
  if text then b64_encode false true raw else raw.

(* ---------- WebSocket ---------- *)
(* streamWS.RecvMsg over the client's frames as wsutil.ReadClientData reports them: a data frame
   is a message; a close frame with status 1000 is io.EOF (fix of F5), any other close is an
   error; a connection that ends without a close frame is io.ErrUnexpectedEOF. *)
Fixpoint ws_recv_all (valid : bytes -> bool) (evs : list wsev) : list bytes * rend :=
  match evs with
  | [] => ([], EndErr EUnexpectedEOF)
  | WData m :: r => if valid m then let '(ms, e) := ws_recv_all valid r in (m :: ms, e) else ([], EndErr EInvalid)
  | WClose c :: _ => ([], if (c =? 1000)%N then EndClean else EndErr EOther)
  | WAbort :: _ => ([], EndErr EUnexpectedEOF)
  end.
(* SendMsg = one text frame per message; after the handler returns serveHTTP writes one close
   frame with the status (1000 for nil) *)
Definition ws_send (out : list bytes) (closeCode : N) : list wsev := map WData out ++ [WClose closeCode].
