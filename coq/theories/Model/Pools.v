(* Model/Pools.v -- ownership protocol of larking's process-wide pools
   (bytesPool codec.go, bufPool compress.go, CompressorGzip.poolCompressor / poolDecompressor).

   A pooled object is a *buffer* (identified by a number).  A request is a *script*: the list of
   pool-relevant events one activation of a serving function performs on its local variables.
   The system is any number of requests running their scripts in any interleaving; a Get
   returns any object currently in that pool or a fresh one (sync.Pool promises nothing more).

   The scripts of the real code are regenerated from the Go source on every run
   (Gen/PoolScripts.v, emitted by harness/c13gen); this file has the event language, the
   boolean well-bracketedness checker the regenerated lemma runs, and the concurrent semantics
   the theorems of Proofs/PoolsProofs.v are about.  No proofs in this file. *)
Require Import List Arith Bool.
Import ListNotations.

Definition rid := nat.      (* request (activation) identity *)
Definition bufid := nat.    (* pooled object identity *)
Definition var := nat.      (* local variable of a script *)
Definition poolid := nat.   (* 0 bytesPool, 1 bufPool, 2 poolCompressor, 3 poolDecompressor *)

Inductive event :=
| Get (p : poolid) (v : var)     (* v := p.Get() *)
| Put (p : poolid) (v : var)     (* p.Put(v) *)
| Reset (v : var)                (* bp[:0], buf.Reset(), z.Reset(src): the content is dropped *)
| Write (v : var)                (* the request appends / stores its own bytes through v *)
| Read (v : var)                 (* bytes are read through v (Write(b), Unmarshal(b), copy(dst, b), a lend to the handler) *)
| Alias (v w : var)              (* w := an expression whose result shares v's object (append, MarshalAppend, b[:n], bp-cell := b, a struct holding it) *)
| CopyOut (v w : var)            (* w := a private copy of the content (make + copy); w is not a pooled object *)
| Retain (v : var)               (* the value of v is stored where it outlives the activation (field, global, returned to unknown code) *)
| Escape (v : var).              (* a use the translator cannot classify *)

Definition script := list event.

Definition upd {A} (f : nat -> A) (k : nat) (a : A) : nat -> A :=
  fun x => if Nat.eqb x k then a else f x.

(* ---------- the checker: symbolic run of one script ---------- *)

Inductive tstat := Dead | Dirty (p : poolid) | Clean (p : poolid).

Record astate := mkA {
  vars : var -> option nat;    (* variable -> token of the Get it (transitively) came from *)
  stat : nat -> tstat;         (* token -> released / held but not yet reset / held and reset *)
  nxt : nat }.

Definition a_init : astate := mkA (fun _ => None) (fun _ => Dead) 0.

Definition wb_step (s : astate) (e : event) : option astate :=
  match e with
  | Get p v => Some (mkA (upd (vars s) v (Some (nxt s))) (upd (stat s) (nxt s) (Dirty p)) (S (nxt s)))
  | Put p v =>
      match vars s v with
      | Some t => match stat s t with
                  | Dead => None                                   (* second Put, or Put of a released object *)
                  | Dirty q | Clean q => if Nat.eqb p q then Some (mkA (vars s) (upd (stat s) t Dead) (nxt s)) else None
                  end
      | None => None
      end
  | Reset v =>
      match vars s v with
      | Some t => match stat s t with
                  | Dead => None
                  | Dirty q | Clean q => Some (mkA (vars s) (upd (stat s) t (Clean q)) (nxt s))
                  end
      | None => None
      end
  | Write v | Read v =>
      match vars s v with
      | Some t => match stat s t with Clean _ => Some s | _ => None end   (* use after Put, or before the Reset *)
      | None => None
      end
  | Alias v w =>
      match vars s v with
      | Some t => match stat s t with Dead => None | _ => Some (mkA (upd (vars s) w (Some t)) (stat s) (nxt s)) end
      | None => None
      end
  | CopyOut v w =>
      match vars s v with
      | Some t => match stat s t with Clean _ => Some (mkA (upd (vars s) w None) (stat s) (nxt s)) | _ => None end
      | None => None
      end
  | Retain v => match vars s v with None => Some s | Some _ => None end   (* only private copies may be kept *)
  | Escape _ => None
  end.

Fixpoint wb_run (s : astate) (sc : script) : bool :=
  match sc with
  | [] => true
  | e :: sc' => match wb_step s e with Some s' => wb_run s' sc' | None => false end
  end.

(* every use and alias lies between its Get (+ Reset) and its Put, at most one Put per Get into
   the pool it came from, nothing pooled is retained, nothing unclassified *)
Definition well_bracketed (sc : script) : bool := wb_run a_init sc.

(* index of the first offending event (for diagnostics of the translator); length = none *)
Fixpoint wb_first_bad (s : astate) (sc : script) (i : nat) : option nat :=
  match sc with
  | [] => None
  | e :: sc' => match wb_step s e with Some s' => wb_first_bad s' sc' (S i) | None => Some i end
  end.

(* ---------- the concurrent system ---------- *)

Record state := mkS {
  rest : rid -> script;                (* what each request still has to do *)
  env : rid -> var -> option bufid;    (* what its variables refer to; a binding survives a Put (that is the danger) *)
  pools : list (poolid * bufid);       (* objects lying in the pools (a double Put shows as a duplicate) *)
  refs : list (rid * bufid);           (* usable references: one per Get not yet Put, one more per Retain / Escape *)
  cont : bufid -> list rid;            (* for every byte of the object's content, the request that wrote it *)
  next : bufid }.                      (* objects >= next have never existed *)

Definition init (scripts : rid -> script) : state :=
  mkS scripts (fun _ _ => None) [] [] (fun _ => []) 0.

Definition pb_eqb (x y : nat * nat) : bool := Nat.eqb (fst x) (fst y) && Nat.eqb (snd x) (snd y).

Fixpoint mem (x : nat * nat) (l : list (nat * nat)) : bool :=
  match l with [] => false | y :: l' => pb_eqb x y || mem x l' end.

Fixpoint remove_one (x : nat * nat) (l : list (nat * nat)) : list (nat * nat) :=
  match l with [] => [] | y :: l' => if pb_eqb x y then l' else y :: remove_one x l' end.

(* what a step did, for the statement of the theorems *)
Record label := mkL {
  who : rid;
  what : event;
  on : option bufid;     (* the object touched *)
  held : bool;           (* did [who] hold a reference to it when it touched it *)
  saw : list rid }.      (* for a reading step: the writers of the bytes it read *)

Definition set_rest (st : state) (r : rid) (sc : script) : state :=
  mkS (upd (rest st) r sc) (env st) (pools st) (refs st) (cont st) (next st).

Definition bind (st : state) (r : rid) (v : var) (b : option bufid) : rid -> var -> option bufid :=
  upd (env st) r (upd (env st r) v b).

(* one step of request r; c is the scheduler's choice for a Get: Some b = that pooled object, None = a new one *)
Definition step (st : state) (r : rid) (c : option bufid) : option (state * label) :=
  match rest st r with
  | [] => None
  | e :: sc =>
    let st0 := set_rest st r sc in
    let lbl b rd := mkL r e (Some b) (mem (r, b) (refs st)) rd in
    let idle := Some (st0, mkL r e None true []) in
    match e with
    | Get p v =>
        match c with
        | Some b => if mem (p, b) (pools st)
                    then Some (mkS (rest st0) (bind st r v (Some b)) (remove_one (p, b) (pools st)) ((r, b) :: refs st) (cont st) (next st),
                               mkL r e (Some b) true [])
                    else None
        | None => let b := next st in
                  Some (mkS (rest st0) (bind st r v (Some b)) (pools st) ((r, b) :: refs st) (upd (cont st) b []) (S b),
                        mkL r e (Some b) true [])
        end
    | Put p v =>
        match env st r v with
        | Some b => Some (mkS (rest st0) (env st) ((p, b) :: pools st) (remove_one (r, b) (refs st)) (cont st) (next st), lbl b [])
        | None => idle
        end
    | Reset v =>
        match env st r v with
        | Some b => Some (mkS (rest st0) (env st) (pools st) (refs st) (upd (cont st) b []) (next st), lbl b [])
        | None => idle
        end
    | Write v =>
        match env st r v with
        | Some b => Some (mkS (rest st0) (env st) (pools st) (refs st) (upd (cont st) b (r :: cont st b)) (next st), lbl b [])
        | None => idle
        end
    | Read v =>
        match env st r v with
        | Some b => Some (st0, lbl b (cont st b))
        | None => idle
        end
    | Alias v w =>
        match env st r v with
        | Some b => Some (mkS (rest st0) (bind st r w (Some b)) (pools st) (refs st) (cont st) (next st), lbl b [])
        | None => Some (mkS (rest st0) (bind st r w None) (pools st) (refs st) (cont st) (next st), mkL r e None true [])
        end
    | CopyOut v w =>
        match env st r v with
        | Some b => Some (mkS (rest st0) (bind st r w None) (pools st) (refs st) (cont st) (next st), lbl b (cont st b))
        | None => Some (mkS (rest st0) (bind st r w None) (pools st) (refs st) (cont st) (next st), mkL r e None true [])
        end
    | Retain v | Escape v =>
        match env st r v with
        | Some b => Some (mkS (rest st0) (env st) (pools st) ((r, b) :: refs st) (cont st) (next st), lbl b [])
        | None => idle
        end
    end
  end.

(* any interleaving: a schedule is a list of (request, choice) *)
Fixpoint run (st : state) (sched : list (rid * option bufid)) : option (state * list label) :=
  match sched with
  | [] => Some (st, [])
  | (r, c) :: sched' =>
      match step st r c with
      | Some (st1, l) => match run st1 sched' with Some (st2, ls) => Some (st2, l :: ls) | None => None end
      | None => None
      end
  end.

(* ---------- what isolation means ---------- *)

(* no object is referenced twice (by two requests, or twice by one), no object in a pool is
   still referenced, no object lies in the pools twice *)
Definition exclusive (st : state) : Prop :=
  NoDup (map snd (refs st)) /\
  (forall p b, In (p, b) (pools st) -> ~ In b (map snd (refs st))) /\
  NoDup (map snd (pools st)).

(* a step touched only an object its request held, and read only bytes the request itself wrote *)
Definition access_ok (l : label) : Prop :=
  held l = true /\ forall x, In x (saw l) -> x = who l.

(* the boolean versions, for the Examples and for the harness *)
Fixpoint nodupb (l : list nat) : bool :=
  match l with [] => true | x :: l' => negb (existsb (Nat.eqb x) l') && nodupb l' end.
Definition exclusive_b (st : state) : bool :=
  nodupb (map snd (refs st)) && nodupb (map snd (pools st)) &&
  forallb (fun pb => negb (existsb (Nat.eqb (snd pb)) (map snd (refs st)))) (pools st).
Definition access_ok_b (l : label) : bool := held l && forallb (Nat.eqb (who l)) (saw l).

(* ---------- an executable pool with byte contents, for the correspondence run ---------- *)
(* The harness drives the real gzip reader pool through a schedule of operations and the same
   schedule through this model; see harness/c13.go (case kind C13G). *)

Inductive gop :=
| GOpen (r : rid)       (* request r obtains a reader over its own payload (Decompress) *)
| GReadAll (r : rid)    (* r reads to EOF (the reader returns itself to the pool on the first EOF) *)
| GReadMore (r : rid).  (* r reads once more after EOF (legal for an io.Reader; the chunker and the stream codecs do it) *)

(* outcome of an operation for the request that performed it *)
Inductive gobs :=
| GNone                 (* nothing to observe *)
| GOwn                  (* r read exactly its own payload *)
| GEof.                 (* r read nothing and got EOF *)

(* the *fixed* code (compress.go after the fix): the wrapper is per request, the pooled part is
   released exactly once and never touched again by its former holder *)
Record gstate := mkG {
  gpool : nat;                       (* number of readers lying in the pool *)
  gopen : list (rid * bool) }.       (* requests holding a wrapper; true = already hit EOF *)

Fixpoint gfind (r : rid) (l : list (rid * bool)) : option bool :=
  match l with [] => None | (x, d) :: l' => if Nat.eqb x r then Some d else gfind r l' end.
Fixpoint gset (r : rid) (d : bool) (l : list (rid * bool)) : list (rid * bool) :=
  match l with [] => [(r, d)] | (x, e) :: l' => if Nat.eqb x r then (x, d) :: l' else (x, e) :: gset r d l' end.

Definition gstep (g : gstate) (o : gop) : gstate * gobs :=
  match o with
  | GOpen r => (mkG (pred (gpool g)) (gset r false (gopen g)), GNone)
  | GReadAll r =>
      match gfind r (gopen g) with
      | Some false => (mkG (S (gpool g)) (gset r true (gopen g)), GOwn)
      | Some true => (g, GEof)
      | None => (g, GNone)
      end
  | GReadMore r =>
      match gfind r (gopen g) with
      | Some true => (g, GEof)
      | Some false => (mkG (S (gpool g)) (gset r true (gopen g)), GOwn)
      | None => (g, GNone)
      end
  end.

Fixpoint grun (g : gstate) (os : list gop) : list gobs :=
  match os with
  | [] => []
  | o :: os' => let (g', ob) := gstep g o in ob :: grun g' os'
  end.

Definition g_init : gstate := mkG 0 [].
