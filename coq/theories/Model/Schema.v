(* Abstract protobuf schema and abstract messages, as larking sees them through protoreflect.

   Schema: messages are numbered (index into s_msgs), enums likewise; a field carries its number,
   proto name, JSON name, kind, cardinality, oneof index and whether it tracks presence.
   Message: the *flattened tree* of set fields -- an association list from field-number paths to
   entries.  A singular message field that is set is an explicit EPresent entry; a scalar leaf is
   ELeaf; a repeated field is EList (items are scalars or whole sub-messages).  A message-typed
   value (a parsed well-known type, a decoded body) is a sub-tree: the same list with paths relative
   to its root.  protobuf-go's reflection operations used by larking (Set, Mutable(fd).Message(),
   Mutable(fd).List().Append) are rendered on this representation, including their run-time
   failures (Mutable(fd).Message() on a list or map panics). *)
From Larking Require Import Base.GoSem.
Local Open Scope N_scope.

Inductive skind :=
| KBool | KInt32 | KSint32 | KSfixed32 | KInt64 | KSint64 | KSfixed64
| KUint32 | KFixed32 | KUint64 | KFixed64 | KFloat | KDouble | KString | KBytes
| KEnum (e : nat) | KMessage (m : nat) | KGroup (m : nat).

Inductive card := Singular | Repeated | MapField.

(* the message full names parseParam knows ("google.protobuf." + ...); anything else is WNone *)
Inductive wkt :=
| WNone | WTimestamp | WDuration | WBoolValue | WInt32Value | WInt64Value | WUInt32Value
| WUInt64Value | WFloatValue | WDoubleValue | WBytesValue | WStringValue | WFieldMask.

Record field := mkField {
  f_num : N; f_name : bytes; f_json : bytes; f_kind : skind; f_card : card;
  f_oneof : option nat;          (* index of the containing oneof *)
  f_pres : bool                  (* tracks presence: message-typed, oneof member, proto3 optional *)
}.
Record mdesc := mkMsg { m_wkt : wkt; m_fields : list field }.
Record edesc := mkEnum { e_null : bool (* google.protobuf.NullValue *); e_vals : list (bytes * Z) }.
Record schema := mkSchema { s_msgs : list mdesc; s_enums : list edesc }.

Definition msg_fields (s : schema) (m : nat) : list field :=
  match nth_error (s_msgs s) m with Some d => m_fields d | None => [] end.
Definition msg_wkt (s : schema) (m : nat) : wkt :=
  match nth_error (s_msgs s) m with Some d => m_wkt d | None => WNone end.

(* fd.Message() != nil *)
Definition field_msg (f : field) : option nat :=
  match f_kind f with KMessage m | KGroup m => Some m | _ => None end.

(* ---- values ---- *)
Inductive scalar :=
| SBool (b : bool) | SInt (z : Z) (* the ten integer kinds *) | SFlt (bits : N) (* IEEE bits *)
| SStr (s : bytes) | SByt (s : bytes) | SEnum (z : Z).

Definition path := list N.

Inductive entry :=
| EPresent | ELeaf (v : scalar) | EList (l : list item)
with item := IScalar (v : scalar) | IMsg (t : list (path * entry)).

Definition subtree := list (path * entry).
Definition msg := subtree.

(* a value handed to Set / Append *)
Inductive pval := PScalar (v : scalar) | PMsg (t : subtree).

Definition is_default (v : scalar) : bool :=
  match v with
  | SBool b => negb b | SInt z => Z.eqb z 0 | SFlt b => b =? 0 | SStr s => is_nil s
  | SByt s => is_nil s | SEnum z => Z.eqb z 0
  end.

(* ---- paths ---- *)
Definition path_eqb : path -> path -> bool := list_eqb N.eqb.
Fixpoint is_prefix (p q : path) : bool :=
  match p, q with
  | [], _ => true
  | a :: p', b :: q' => (a =? b) && is_prefix p' q'
  | _ :: _, [] => false
  end.

Fixpoint lookup (p : path) (M : msg) : option entry :=
  match M with
  | [] => None
  | (q, e) :: r => if path_eqb p q then Some e else lookup p r
  end.

Definition remove_under (p : path) (M : msg) : msg :=
  filter (fun qe => negb (is_prefix p (fst qe))) M.
Definition put (p : path) (e : entry) (M : msg) : msg :=
  (p, e) :: filter (fun qe => negb (path_eqb p (fst qe))) M.
Definition graft (p : path) (t : subtree) : msg := map (fun qe => (p ++ fst qe, snd qe)) t.

(* ---- reflection operations ---- *)
Definition same_oneof (a b : field) : bool :=
  match f_oneof a, f_oneof b with Some i, Some j => Nat.eqb i j | _, _ => false end.
(* the other members of fd's oneof in its message *)
Definition sibs (pf : list field) (fd : field) : list N :=
  map f_num (filter (fun g => same_oneof fd g && negb (f_num g =? f_num fd)) pf).
Definition clear_sibs (pf : list field) (fd : field) (pp : path) (M : msg) : msg :=
  fold_left (fun acc n => remove_under (pp ++ [n]) acc) (sibs pf fd) M.

(* a resolved field-path step: the fields of the containing message, and the field *)
Definition step := (list field * field)%type.
Definition step_num (s : step) : N := f_num (snd s).
Definition steps_path (l : list step) : path := map step_num l.

(* cur.Mutable(fd).Message() for a singular message field at parent path pp *)
Definition mutable_msg (st : step) (pp : path) (M : msg) : msg :=
  let p := pp ++ [step_num st] in
  match lookup p M with
  | Some EPresent => M
  | _ => put p EPresent (clear_sibs (fst st) (snd st) pp M)
  end.

(* cur.Set(fd, v) *)
Definition set_field (st : step) (pp : path) (v : pval) (M : msg) : msg :=
  let fd := snd st in
  let p := pp ++ [f_num fd] in
  let M1 := remove_under p (clear_sibs (fst st) fd pp M) in
  match v with
  | PScalar s => if negb (f_pres fd) && is_default s then M1 else put p (ELeaf s) M1
  | PMsg t => put p EPresent M1 ++ graft p t
  end.

(* cur.Mutable(fd).List().Append(v) *)
Definition item_of (v : pval) : item := match v with PScalar s => IScalar s | PMsg t => IMsg t end.
Definition append_field (st : step) (pp : path) (v : pval) (M : msg) : msg :=
  let p := pp ++ [step_num st] in
  match lookup p M with
  | Some (EList l) => put p (EList (l ++ [item_of v])) M
  | _ => put p (EList [item_of v]) M
  end.
