(* larking/http.go: streamHTTP.readMsg / decodeRequestArgs / RecvMsg (the request side of a
   transcoded stream) and the framing done by writeMsg on the response side, over scheduled
   readers. State of one stream: carry-over buffer rbuf, the body reader, the end-of-body latch
   rEOF, recvCount. ReadNext is Model/Codec.v's read_next. No proofs in this file. *)
From Larking Require Import Base.GoSem Base.Reader Spec.Frames Model.Codec.

Record hst := HSt { rbuf : bytes; hsrc : src; rEOF : bool; recvCount : nat }.

Record hcfg := HCfg {
  hcodec : codec;            (* the StreamCodec picked by getCodec *)
  hlimit : nat;              (* opts.maxReceiveMessageSize *)
  streamingClient : bool;    (* method.desc.IsStreamingClient() *)
  withBody : bool            (* s.method.hasBody && s.hasBody *)
}.

(* what a successful RecvMsg handed to the handler: a frame given to Unmarshal (or the data of an
   HttpBody chunk), or a message built from the path / query parameters only *)
Inductive rmsg := RFrame (b : bytes) | RParams.
Inductive hcall := HRet (m : rmsg) (st : hst) | HStop (e : err) (st : hst) | HPanic | HFuel.

(* opts.readAll(b, r): read to the end; total > max is an error as soon as it is seen *)
Inductive rares := RaOk (b : bytes) (s : src) | RaErr (e : err) (s : src) | RaFuel.
Fixpoint read_all (fuel limit : nat) (b : bytes) (s : src) : rares :=
  match fuel with
  | O => RaFuel
  | S f =>
    let '(ch, eof, s') := read_any s in
    let b' := b ++ ch in
    if Nat.ltb limit (length b') then RaErr ETooLarge s'
    else if eof then RaOk b' s'                     (* return b, io.EOF *)
    else read_all f limit b' s'
  end.

(* readMsg (after the fix of F1: io.EOF with n = 0 is the end of the stream, not a message) *)
Definition read_msg (cf : hcfg) (st : hst) : hcall :=
  if rEOF st then HStop EEOF st else
  let cnt := S (recvCount st) in
  if streamingClient cf then
    (* b = append(b, s.rbuf...); b, n, err := codec.ReadNext(b, s.r, max) *)
    match read_next (hcodec cf) (rbuf st) (hsrc st) (hlimit cf) with
    | RPanic => HPanic
    | RFuel => HFuel
    | RRet dst n e s' =>
      match e with
      | Some EEOF =>
        if Nat.eqb n 0 then HStop EEOF (HSt (rbuf st) s' true cnt)
        else match slice_from n dst, slice 0 n dst with            (* s.rbuf = b[n:]; return b[:n] *)
             | Ok rest, Ok m => HRet (RFrame m) (HSt rest s' true cnt)
             | _, _ => HPanic
             end
      | Some e' =>
        match slice_from n dst, slice 0 n dst with
        | Ok rest, Ok _ => HStop e' (HSt rest s' false cnt)
        | _, _ => HPanic
        end
      | None =>
        match slice_from n dst, slice 0 n dst with
        | Ok rest, Ok m => HRet (RFrame m) (HSt rest s' false cnt)
        | _, _ => HPanic
        end
      end
    end
  else
    match read_all (S (S (length (rem (hsrc st))))) (hlimit cf) [] (hsrc st) with
    | RaOk b s' => HRet (RFrame b) (HSt (rbuf st) s' true cnt)      (* io.EOF -> rEOF, nil *)
    | RaErr e s' => HStop e (HSt (rbuf st) s' false cnt)
    | RaFuel => HFuel
    end.

(* RecvMsg: decodeRequestArgs when there is a body (readMsg, then Unmarshal unless the message
   is a google.api.HttpBody), else one message from the parameters and then io.EOF *)
Definition recv_msg (cf : hcfg) (valid : bytes -> bool) (st : hst) : hcall :=
  if withBody cf then
    match read_msg cf st with
    | HRet (RFrame m) st' =>
      match hcodec cf with
      | CBody => HRet (RFrame m) st'
      | _ => if valid m then HRet (RFrame m) st' else HStop EInvalid st'
      end
    | r => r
    end
  else
    let st' := HSt (rbuf st) (hsrc st) true (S (recvCount st)) in
    if rEOF st then HStop EEOF st' else HRet RParams st'.

(* a handler that calls RecvMsg until it fails *)
Fixpoint http_recv_all (fuel : nat) (cf : hcfg) (valid : bytes -> bool) (st : hst) : list rmsg * rend :=
  match fuel with
  | O => ([], EndFuel)
  | S f =>
    match recv_msg cf valid st with
    | HRet m st' => let '(ms, e) := http_recv_all f cf valid st' in (m :: ms, e)
    | HStop EEOF _ => ([], EndClean)
    | HStop e _ => ([], EndErr e)
    | HPanic => ([], EndPanic)
    | HFuel => ([], EndFuel)
    end
  end.

Definition hst0 (s : src) : hst := HSt [] s false 0.

(* response side: writeMsg frames each marshalled reply with the codec's WriteNext when the
   method streams its responses, else writes it as it is *)
Definition http_send (c : codec) (serverStream : bool) (out : list bytes) : bytes :=
  if serverStream then concat (map (write_next c) out) else concat out.
