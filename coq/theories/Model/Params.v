(* larking/rules.go: fieldPath, quote, parseParam, params.set, parseQueryParams.

   encoding/json's Unmarshal into bool / int32 / int64 / uint32 / uint64 is modelled in full
   (JSON white space around the value, `null` leaves the zero value, the integer literal is the
   JSON number grammar without fraction and exponent, range checked); base64 is Base/B64.v (Go's
   decoder skips CR and LF); float / double text and protojson for the message-typed well-known
   types are oracles (Section variables). *)
From Larking Require Import Base.GoSem Base.B64 Model.Schema.
Local Open Scope N_scope.

(* ---- encoding/json: literals ---- *)
Definition is_json_ws (c : N) : bool := (c =? 32) || (c =? 9) || (c =? 10) || (c =? 13).
Fixpoint drop_ws (s : bytes) : bytes :=
  match s with c :: r => if is_json_ws c then drop_ws r else s | [] => [] end.
Definition trim_ws (s : bytes) : bytes := rev (drop_ws (rev (drop_ws s))).

Definition lit_null : bytes := [110; 117; 108; 108].
Definition lit_true : bytes := [116; 114; 117; 101].
Definition lit_false : bytes := [102; 97; 108; 115; 101].

Definition is_digit (c : N) : bool := (48 <=? c) && (c <=? 57).
Fixpoint digits_val (acc : Z) (s : bytes) : Z :=
  match s with c :: r => digits_val (acc * 10 + Z.of_N (c - 48))%Z r | [] => acc end.
(* 0 | [1-9][0-9]* *)
Definition is_nat_lit (s : bytes) : bool :=
  match s with
  | [] => false
  | c :: r => forallb is_digit s && ((negb (c =? 48)) || is_nil r)
  end.
(* the integer literal json.Unmarshal hands to strconv.ParseInt / ParseUint with success *)
Definition int_lit (s : bytes) : option Z :=
  match s with
  | c :: r => if c =? 45 then (if is_nat_lit r then Some (- digits_val 0 r)%Z else None)
              else if is_nat_lit s then Some (digits_val 0 s) else None
  | [] => None
  end.
Definition has_minus (s : bytes) : bool := match s with c :: _ => c =? 45 | [] => false end.

(* json.Unmarshal(raw, &x) for an integer x with range [lo, hi]; unsigned targets refuse '-' *)
Definition json_int (unsigned : bool) (lo hi : Z) (raw : bytes) : option Z :=
  let t := trim_ws raw in
  if bytes_eqb t lit_null then Some 0%Z
  else match int_lit t with
       | Some z => if unsigned && has_minus t then None
                   else if (lo <=? z)%Z && (z <=? hi)%Z then Some z else None
       | None => None
       end.
Definition json_bool (raw : bytes) : option bool :=
  let t := trim_ws raw in
  if bytes_eqb t lit_true then Some true
  else if bytes_eqb t lit_false then Some false
  else if bytes_eqb t lit_null then Some false
  else None.

Inductive iclass := I32 | I64 | U32 | U64.
Definition iclass_unsigned (c : iclass) : bool := match c with U32 | U64 => true | _ => false end.
Definition iclass_lo (c : iclass) : Z :=
  match c with I32 => (- 2 ^ 31)%Z | I64 => (- 2 ^ 63)%Z | _ => 0%Z end.
Definition iclass_hi (c : iclass) : Z :=
  match c with I32 => (2 ^ 31 - 1)%Z | I64 => (2 ^ 63 - 1)%Z | U32 => (2 ^ 32 - 1)%Z | U64 => (2 ^ 64 - 1)%Z end.
Definition json_iclass (c : iclass) (raw : bytes) : option Z :=
  json_int (iclass_unsigned c) (iclass_lo c) (iclass_hi c) raw.

(* ---- bytes: alphabet and padding choice ---- *)
Definition is_url_char (c : N) : bool := (c =? 45) || (c =? 95).          (* '-' '_' *)
Definition is_crlf (c : N) : bool := (c =? 10) || (c =? 13).
Definition strip_crlf (s : bytes) : bytes := filter (fun c => negb (is_crlf c)) s.
Definition parse_bytes (raw : bytes) : option bytes :=
  let url := existsb is_url_char raw in
  let pad := Nat.eqb (length raw mod 4) 0 in
  b64_decode url pad (strip_crlf raw).

(* ---- quote ---- *)
(* after the fix: text shorter than two bytes is always quoted (it used to be: empty text never) *)
Definition needs_quote (raw : bytes) : bool :=
  match raw with
  | [] => true
  | [_] => true
  | c :: _ => negb (c =? 34) || negb (last raw 0 =? 34)
  end.
Definition wkt_quoted (w : wkt) : bool :=
  match w with WTimestamp | WDuration | WBytesValue | WStringValue | WFieldMask => true | _ => false end.

(* ---- enum ---- *)
Fixpoint enum_by_name (vals : list (bytes * Z)) (s : bytes) : option Z :=
  match vals with
  | [] => None
  | (n, z) :: r => if bytes_eqb n s then Some z else enum_by_name r s
  end.

Section Oracles.
(* json.Unmarshal into float32 (true) / float64: the IEEE bits, or an error *)
Variable ofloat : bool -> bytes -> option N.
(* protojson.Unmarshal into the well-known type w of the text (Go-quoted first iff the flag) *)
Variable owkt : wkt -> bool -> bytes -> option subtree.

Definition lift {A} (o : option A) : outcome A := match o with Some a => Ok a | None => Err EOther end.
Definition int_param (c : iclass) (raw : bytes) : outcome pval :=
  lift (option_map (fun z => PScalar (SInt z)) (json_iclass c raw)).

Definition parse_enum (sch : schema) (e : nat) (raw : bytes) : outcome pval :=
  match json_iclass I32 raw with
  | Some z => Ok (PScalar (SEnum z))
  | None =>
    match nth_error (s_enums sch) e with
    | None => Err EOther
    | Some ed =>
      if e_null ed && bytes_eqb raw lit_null then Ok (PScalar (SEnum 0))
      else lift (option_map (fun z => PScalar (SEnum z)) (enum_by_name (e_vals ed) raw))
    end
  end.

Definition parse_kind (sch : schema) (k : skind) (raw : bytes) : outcome pval :=
  match k with
  | KBool => lift (option_map (fun b => PScalar (SBool b)) (json_bool raw))
  | KInt32 | KSint32 | KSfixed32 => int_param I32 raw
  | KInt64 | KSint64 | KSfixed64 => int_param I64 raw
  | KUint32 | KFixed32 => int_param U32 raw
  | KUint64 | KFixed64 => int_param U64 raw
  | KFloat => lift (option_map (fun b => PScalar (SFlt b)) (ofloat true raw))
  | KDouble => lift (option_map (fun b => PScalar (SFlt b)) (ofloat false raw))
  | KString => Ok (PScalar (SStr raw))
  | KBytes => lift (option_map (fun b => PScalar (SByt b)) (parse_bytes raw))
  | KEnum e => parse_enum sch e raw
  | KMessage m =>
    match msg_wkt sch m with
    | WNone => Err EOther
    | w => lift (option_map PMsg (owkt w (wkt_quoted w && needs_quote raw) raw))
    end
  | KGroup _ => Err EOther
  end.

(* parseParam(fds, raw): the kind of the last field decides *)
Definition parse_param (sch : schema) (fds : list step) (raw : bytes) : outcome pval :=
  match fds with
  | [] => Err EOther
  | _ => parse_kind sch (f_kind (snd (last fds ([], mkField 0 [] [] KBool Singular None false)))) raw
  end.

(* ---- fieldPath ---- *)
Fixpoint find_by (key : field -> bytes) (pf : list field) (n : bytes) : option field :=
  match pf with
  | [] => None
  | f :: r => if bytes_eqb (key f) n then Some f else find_by key r n
  end.
Definition find_field (pf : list field) (n : bytes) : option field :=
  match find_by f_json pf n with Some f => Some f | None => find_by f_name pf n end.

Fixpoint field_path (sch : schema) (pf : list field) (names : list bytes) : option (list step) :=
  match names with
  | [] => Some []
  | n :: rest =>
    match find_field pf n with
    | None => None
    | Some fd =>
      match rest with
      | [] => Some [(pf, fd)]
      | _ => match field_msg fd with
             | None => None
             | Some m => option_map (cons (pf, fd)) (field_path sch (msg_fields sch m) rest)
             end
      end
    end
  end.

(* strings.Split(key, ".") *)
Fixpoint split_dots (cur : bytes) (s : bytes) : list bytes :=
  match s with
  | [] => [rev cur]
  | c :: r => if c =? 46 then rev cur :: split_dots [] r else split_dots (c :: cur) r
  end.

(* ---- params ---- *)
Definition param := (list step * pval)%type.

(* one iteration of the outer loop of params.set.  A step that is not the last must be a singular
   message field: after the fix a repeated or map field there is InvalidArgument (it used to be
   the panic of Mutable(fd).Message() on a list). *)
Fixpoint set_walk (fds : list step) (pp : path) (v : pval) (M : msg) : outcome msg :=
  match fds with
  | [] => Ok M
  | st :: rest =>
    match rest with
    | [] =>
      match f_card (snd st) with
      | Repeated => Ok (append_field st pp v M)
      | MapField => Err EOther
      | Singular => Ok (set_field st pp v M)
      end
    | _ =>
      match f_card (snd st), field_msg (snd st) with
      | Singular, Some _ => set_walk rest (pp ++ [step_num st]) v (mutable_msg st pp M)
      | Singular, None => Panic PKind
      | _, _ => Err EInvalid
      end
    end
  end.
Definition set_param (p : param) (M : msg) : outcome msg := set_walk (fst p) [] (snd p) M.
Fixpoint params_set (ps : list param) (M : msg) : outcome msg :=
  match ps with
  | [] => Ok M
  | p :: r => do M1 <- set_param p M; params_set r M1
  end.

(* parseQueryParams over the keys in the order the map iteration happens to produce *)
Fixpoint parse_values (sch : schema) (fds : list step) (vs : list bytes) : outcome (list param) :=
  match vs with
  | [] => Ok []
  | v :: r => do p <- parse_param sch fds v; do ps <- parse_values sch fds r; Ok ((fds, p) :: ps)
  end.
Fixpoint parse_query (sch : schema) (root : list field) (q : list (bytes * list bytes)) : outcome (list param) :=
  match q with
  | [] => Ok []
  | (key, vs) :: r =>
    match field_path sch root (split_dots [] key) with
    | None => Err EInvalid
    | Some fds => do ps <- parse_values sch fds vs; do qs <- parse_query sch root r; Ok (ps ++ qs)
    end
  end.
End Oracles.
