(* larking/code.go tables and bounds checks, Twirp code names (http.go encError), the gRPC-web
   frame writer (web.go) and the WebSocket close reason. *)
From Larking Require Import Base.GoSem Base.Pct Base.B64.
Local Open Scope Z_scope.

(* ---- reference: google.rpc.Code -> HTTP status, as documented in code.go at the pinned commit ---- *)
Definition ref_http (c : Z) : Z :=
  if c =? 0 then 200 else if c =? 1 then 408 else if c =? 2 then 500 else if c =? 3 then 400
  else if c =? 4 then 504 else if c =? 5 then 404 else if c =? 6 then 409 else if c =? 7 then 403
  else if c =? 8 then 429 else if c =? 9 then 400 else if c =? 10 then 409 else if c =? 11 then 400
  else if c =? 12 then 501 else if c =? 13 then 500 else if c =? 14 then 503 else if c =? 15 then 500
  else if c =? 16 then 401 else 500.
Definition ref_ws (c : Z) : Z :=
  if c =? 0 then 1000 else if c =? 1 then 1001 else if c =? 2 then 1011 else if c =? 3 then 1003
  else if c =? 4 then 1001 else if c =? 5 then 1011 else if c =? 6 then 1001 else if c =? 7 then 1011
  else if c =? 8 then 1011 else if c =? 9 then 1011 else if c =? 10 then 1011 else if c =? 11 then 1011
  else if c =? 12 then 1003 else if c =? 13 then 1011 else if c =? 14 then 1011 else if c =? 15 then 1011
  else if c =? 16 then 1008 else 1011.

(* ---- model: the arrays and the bounds checks of the code ---- *)
Definition codeToHTTPStatus : list Z := [200; 408; 500; 400; 504; 404; 409; 403; 429; 400; 409; 400; 501; 500; 503; 500; 401].
Definition codeToWSStatus : list Z := [1000; 1001; 1011; 1003; 1001; 1011; 1001; 1011; 1011; 1011; 1011; 1011; 1003; 1011; 1011; 1011; 1008].

(* codes.Code is a uint32: c ranges over 0 .. 2^32-1. if int(c) >= len(table) { return 500 }; return table[c] *)
Definition http_status_code (c : Z) : outcome Z :=
  if Z.of_nat (length codeToHTTPStatus) <=? c then Ok 500
  else index (Z.to_nat c) codeToHTTPStatus.
Definition ws_status_code (c : Z) : outcome Z :=
  if Z.of_nat (length codeToHTTPStatus) <=? c then Ok 1011
  else index (Z.to_nat c) codeToWSStatus.

(* Twirp error codes, indexed by gRPC code (twirp spec: "canceled", "dataloss"); "" out of range *)
Definition S (s : list Z) : bytes := map Z.to_N s.
Definition twirp_names : list bytes := map S [
  [111;107];                                                          (* ok *)
  [99;97;110;99;101;108;101;100];                                     (* canceled *)
  [117;110;107;110;111;119;110];                                      (* unknown *)
  [105;110;118;97;108;105;100;95;97;114;103;117;109;101;110;116];     (* invalid_argument *)
  [100;101;97;100;108;105;110;101;95;101;120;99;101;101;100;101;100]; (* deadline_exceeded *)
  [110;111;116;95;102;111;117;110;100];                               (* not_found *)
  [97;108;114;101;97;100;121;95;101;120;105;115;116;115];             (* already_exists *)
  [112;101;114;109;105;115;115;105;111;110;95;100;101;110;105;101;100]; (* permission_denied *)
  [114;101;115;111;117;114;99;101;95;101;120;104;97;117;115;116;101;100]; (* resource_exhausted *)
  [102;97;105;108;101;100;95;112;114;101;99;111;110;100;105;116;105;111;110]; (* failed_precondition *)
  [97;98;111;114;116;101;100];                                        (* aborted *)
  [111;117;116;95;111;102;95;114;97;110;103;101];                     (* out_of_range *)
  [117;110;105;109;112;108;101;109;101;110;116;101;100];              (* unimplemented *)
  [105;110;116;101;114;110;97;108];                                   (* internal *)
  [117;110;97;118;97;105;108;97;98;108;101];                          (* unavailable *)
  [100;97;116;97;108;111;115;115];                                    (* dataloss *)
  [117;110;97;117;116;104;101;110;116;105;99;97;116;101;100]          (* unauthenticated *)
].
Definition twirp_name (c : Z) : bytes := if (c <? 0) || (17 <=? c) then [] else nth (Z.to_nat c) twirp_names [].

(* ---- gRPC / gRPC-web framing: flag byte, big-endian uint32 length, payload ---- *)
Definition be32 (n : N) : bytes :=
  [(n / 16777216) mod 256; (n / 65536) mod 256; (n / 256) mod 256; n mod 256]%N.
Definition un_be32 (a b c d : N) : N := (a * 16777216 + b * 65536 + c * 256 + d)%N.
Definition frame (flag : byte) (payload : bytes) : bytes := flag :: be32 (N.of_nat (length payload)) ++ payload.

Fixpoint parse_frames (fuel : nat) (s : bytes) : option (list (byte * bytes)) :=
  match fuel with
  | O => None
  | Datatypes.S f =>
    match s with
    | [] => Some []
    | flag :: a :: b :: c :: d :: r =>
      let n := N.to_nat (un_be32 a b c d) in
      if Nat.ltb (length r) n then None
      else match parse_frames f (skipn n r) with
           | Some fs => Some ((flag, firstn n r) :: fs)
           | None => None
           end
    | _ => None
    end
  end.

(* WebSocket close reason: a control frame carries at most 125 bytes, two of which are the code *)
Definition ws_reason (msg : bytes) : bytes := firstn 123 msg.

(* ---- judgement of a gRPC-web response body (binary, or base64 text) ---- *)
Definition web_body_frames (text : bool) (body : bytes) : option (list (byte * bytes)) :=
  if text then match b64_decode false true body with
               | Some raw => parse_frames (Datatypes.S (length raw)) raw
               | None => None
               end
  else parse_frames (Datatypes.S (length body)) body.
