(* The size gates of larking, one per receive path and one per send path, as the code evaluates
   them (after the fix: commits of C08):
     mux.go      readAll, writeAll, MaxReceiveMessageSizeOption / MaxSendMessageSizeOption
     http.go     streamHTTP.readMsg (unary: readAll; client streams: StreamCodec.ReadNext with the
                 receive limit), writeMsg (unary: writeAll; server streams: the send check before WriteNext)
     codec.go    the limit tests of CodecProto / CodecJSON / codecHTTPBody .ReadNext
     grpc.go     streamGRPC.RecvMsg (frame prefix test before the read, test after decompression),
                 streamGRPC.SendMsg (send test before the uint32 conversion); web.go reuses both
     websocket.go streamWS.RecvMsg / SendMsg (tests on the reassembled message / the marshalled reply)
   Sizes are integers, not byte strings: a gate never looks at the content. What the content
   decides (does it inflate, to how many bytes; does it unmarshal) is an oracle field of [wire],
   so gzip may expand by any factor. Go's int is 64-bit two's complement; the conversions the
   code performs (uint32 frame prefix, int(uint32), uint64 varint against math.MaxInt) are explicit.
   No proofs in this file. *)
From Larking Require Import Base.GoSem Spec.SizeLimit.
Local Open Scope Z_scope.

Record cfg := Cfg { maxRecv : Z; maxSend : Z }.

(* one message on the wire, as far as a gate can tell *)
Record wire := Wire {
  w_prefix  : Z;          (* declared length: gRPC 4-byte prefix / protobuf varint / for unframed
                             transports the length of the message (JSON: offset just after the
                             brace that closes the first object, > w_avail if none closes) *)
  w_flag    : bool;       (* gRPC compressed-flag *)
  w_avail   : Z;          (* bytes actually present for this message *)
  w_inflate : option Z;   (* gzip oracle on the payload: Some d = inflates to d bytes; None = not gzip *)
  w_valid   : bool;       (* Unmarshal oracle on the (inflated) payload *)
}.

(* ---- mux.go readAll: total += n; if total > int64(max) -> error; reads = sizes returned by Read ---- *)
Fixpoint read_all (limit total : Z) (reads : list Z) : outcome Z :=
  match reads with
  | [] => Ok total                                   (* Read returned io.EOF *)
  | n :: r =>
    let total' := total + n in
    if limit <? total' then Err ETooLarge else read_all limit total' r
  end.

Definition unmarshal (valid : bool) (size : Z) : outcome Z := if valid then Ok size else Err EInvalid.

(* HTTP unary body (any codec, HttpBody): the body reader is the gzip reader when Content-Encoding
   says so, hence [reads] are sizes of decompressed data *)
Definition recv_http_unary (c : cfg) (reads : list Z) (valid : bool) : outcome Z :=
  do n <- read_all (maxRecv c) 0 reads; unmarshal valid n.

(* CodecProto.ReadNext: size > math.MaxInt || (limit > 0 && size > uint64(limit)) *)
Definition recv_http_proto (c : cfg) (w : wire) : outcome Z :=
  let size := w_prefix w in
  if (2 ^ 63 <=? size) || ((0 <? maxRecv c) && (maxRecv c <? size)) then Err ETooLarge
  else if w_avail w <? size then Err EUnexpectedEOF
  else unmarshal (w_valid w) size.

(* CodecJSON.ReadNext: for i := 0; i < limit; i++ { need byte i; object closes at i -> n = i+1 } *)
Definition recv_http_json (c : cfg) (w : wire) : outcome Z :=
  let m := w_prefix w in
  if (m <=? w_avail w) && (m <=? maxRecv c) then unmarshal (w_valid w) m
  else if w_avail w <? maxRecv c then          (* the stream ends before limit bytes were scanned *)
    (if w_avail w =? 0 then Err EEOF else Err EUnexpectedEOF)
  else Err ETooLarge.

(* codecHTTPBody.ReadNext over an upload of [total] bytes: chunks of at most limit bytes *)
Fixpoint body_chunks (fuel : nat) (limit total : Z) : list Z :=
  match fuel with
  | O => []
  | S f => if total <=? 0 then [] else
           if total <=? limit then [total] else limit :: body_chunks f limit (total - limit)
  end.

(* streamGRPC.RecvMsg; [comp]: a compressor was negotiated (Grpc-Encoding) *)
Definition recv_grpc (comp : bool) (c : cfg) (w : wire) : outcome Z :=
  let size := u32 (w_prefix w) in                        (* binary.BigEndian.Uint32(b[1:]) *)
  if maxRecv c <? wrap64 size then Err ETooLarge          (* int(size) > max *)
  else if w_avail w <? size then Err EUnexpectedEOF       (* io.ReadFull; a plain io.EOF after the header is
                                                             turned into ErrUnexpectedEOF (fix bf8655f, C06) *)
  else if w_flag w then
    if negb comp then Err EOther
    else match w_inflate w with
         | None => Err EOther                    (* also io.EOF from gzip.NewReader on an empty payload: an
                                                    error, not the end of the stream (fix 349080d, C06) *)
         | Some d => if maxRecv c <? d then Err ETooLarge  (* n := buf.Len(); n > max *)
                     else unmarshal (w_valid w) d
         end
  else unmarshal (w_valid w) size.

(* streamWS.RecvMsg: the reassembled message *)
Definition recv_ws (c : cfg) (w : wire) : outcome Z :=
  if maxRecv c <? w_avail w then Err ETooLarge else unmarshal (w_valid w) (w_avail w).

Inductive rpath :=
| RHttpUnary (reads : list Z)      (* sizes returned by the body's Read calls *)
| RHttpJSON | RHttpProto
| RGrpc (comp : bool) | RGrpcWeb (comp : bool)
| RWebSocket.

Definition recv (p : rpath) (c : cfg) (w : wire) : outcome Z :=
  match p with
  | RHttpUnary reads => recv_http_unary c reads (w_valid w)
  | RHttpJSON => recv_http_json c w
  | RHttpProto => recv_http_proto c w
  | RGrpc comp | RGrpcWeb comp => recv_grpc comp c w
  | RWebSocket => recv_ws c w
  end.

(* ---- send gates: [size] = len of the marshalled reply ---- *)
Definition send_plain (c : cfg) (size : Z) : outcome Z :=
  if maxSend c <? size then Err ETooLarge else Ok size.
(* n > maxSend || uint64(n) > math.MaxUint32; size := uint32(n) goes into the frame header *)
Definition send_grpc (c : cfg) (size : Z) : outcome Z :=
  if (maxSend c <? size) || (2 ^ 32 - 1 <? size) then Err ETooLarge else Ok (u32 size).

Inductive spath := SHttpUnary | SHttpStream | SGrpc | SGrpcWeb | SWebSocket.
Definition send (p : spath) (c : cfg) (size : Z) : outcome Z :=
  match p with
  | SHttpUnary | SHttpStream | SWebSocket => send_plain c size
  | SGrpc | SGrpcWeb => send_grpc c size
  end.

(* ---- a whole call: the handler takes messages until the first error ---- *)
Inductive cend := EndOk | EndSize | EndOther.
Definition end_of (e : err) : cend := match e with ETooLarge => EndSize | _ => EndOther end.

Fixpoint recv_run (p : rpath) (c : cfg) (ws : list wire) : list Z * cend :=
  match ws with
  | [] => ([], EndOk)
  | w :: r =>
    match recv p c w with
    | Ok n => let '(ds, e) := recv_run p c r in (n :: ds, e)
    | Err EEOF => ([], EndOk)          (* a stream that stops at a frame boundary ends the call cleanly *)
    | Err e => ([], end_of e)
    | _ => ([], EndOther)
    end
  end.

(* replies in order until the first refusal: (accepted?, sizes written) *)
Fixpoint send_run (p : spath) (c : cfg) (sizes : list Z) : list bool * list Z :=
  match sizes with
  | [] => ([], [])
  | s :: r =>
    match send p c s with
    | Ok n => let '(rs, ar) := send_run p c r in (true :: rs, n :: ar)
    | _ => ([false], [])
    end
  end.

(* ---- the wire seen by the specification ---- *)
Definition wire_len (p : rpath) (w : wire) : Z :=
  match p with RGrpc _ | RGrpcWeb _ => u32 (w_prefix w) | RWebSocket | RHttpUnary _ => w_avail w | _ => w_prefix w end.
(* the encoded size after decompression *)
Definition msg_size (p : rpath) (w : wire) : Z :=
  match p with
  | RGrpc _ | RGrpcWeb _ =>
      if w_flag w then match w_inflate w with Some d => d | None => wire_len p w end else wire_len p w
  | _ => wire_len p w
  end.
(* complete and decodable *)
Definition decodable (p : rpath) (w : wire) : bool :=
  w_valid w &&
  match p with
  | RGrpc comp | RGrpcWeb comp =>
      (w_avail w =? u32 (w_prefix w)) &&
      (if w_flag w then comp && match w_inflate w with Some _ => true | None => false end else true)
  | RHttpJSON | RHttpProto => (w_prefix w <=? w_avail w) && (w_prefix w <? 2 ^ 63)
  | _ => true
  end.
Definition sent_of (p : rpath) (w : wire) : sent := Sent (msg_size p w) (wire_len p w) (decodable p w).

(* ---- domains ---- *)
(* limits are positive Go ints *)
Definition wf_cfg (c : cfg) : Prop := 1 <= maxRecv c < 2 ^ 63 /\ 1 <= maxSend c < 2 ^ 63.
Definition sum (l : list Z) : Z := fold_right Z.add 0 l.
(* a wire message: the prefix is what its field can hold, at most the declared bytes are present,
   Read never returns a negative count and the reads of a unary body add up to the body *)
Definition wf_wire (p : rpath) (w : wire) : Prop :=
  0 <= w_avail w /\ 0 <= w_prefix w < 2 ^ 64 /\
  match w_inflate w with Some d => 0 <= d | None => True end /\
  match p with
  | RGrpc _ | RGrpcWeb _ => w_prefix w < 2 ^ 32 /\ w_avail w <= w_prefix w
  | RHttpUnary reads => Forall (fun n => 0 <= n) reads /\ sum reads = w_avail w
  | RHttpJSON => 1 <= w_prefix w
  | _ => True
  end.
