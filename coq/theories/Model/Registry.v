(* Model of the registration state of larking's Mux (after the fixes G1, G3):
     mux.go      state, clone, appendHandler, removeHandler, addConnHandler (hash short-cut,
                 drop-and-recreate), processFile, DropConn, RegisterConn, pickMethodHandler, match
     handler.go  registerService
     rules.go    addRule (only its effect on the binding map: the duplicate check -- bindings that meet,
                 i.e. same verb or a "*" on either side, belong to one method -- and "already registered"),
                 delRule
   The routing trie is abstract here: a finite map from binding keys (node of the template, HTTP verb;
   verb 0 is the kind "*", stored in methodAll) to method names.  Template lexing, variables and
   path search are modelled elsewhere; a template that addRule rejects for a reason of its own
   (lexer error, unknown field) is a key with kvalid = false.
   No proofs in this file. *)
From Larking Require Import Base.GoSem.
Local Open Scope nat_scope.

Definition method := nat.                         (* "/pkg.Service/Method" *)

(* who answers: a local implementation or a backend connection *)
Inductive owner := OLocal (l : nat) | OConn (c : nat).
Definition owner_eqb (a b : owner) : bool :=
  match a, b with
  | OLocal x, OLocal y => x =? y
  | OConn x, OConn y => x =? y
  | _, _ => false
  end.

(* ---- descriptors as a registration sees them ---- *)
Record bkey := BKey { knode : nat; kverb : nat; kvalid : bool }.
Record rule := Rule { rmain : bkey; radd : list bkey }.          (* pattern + additional_bindings *)
Record mdesc := MDesc { mname : method; mnode : nat; mrules : list rule }.
  (* mnode: node of the implicit path "/pkg.Service/Method"; mrules: service-config rules, then the annotation *)
Record desc := Desc { dhash : nat; dmethods : list mdesc }.       (* what a backend's reflection service lists *)

(* ---- the abstract trie ---- *)
Definition trie := list (nat * nat * method).
Definition t_find (t : trie) (n v : nat) : option method :=
  match find (fun e => (fst (fst e) =? n) && (snd (fst e) =? v)) t with
  | Some e => Some (snd e)
  | None => None
  end.
(* cursor.methods[verb], else cursor.methodAll  (addRule's duplicate check and path.search agree) *)
Definition t_lookup (t : trie) (n v : nat) : option method :=
  match t_find t n v with Some m => Some m | None => t_find t n 0 end.

(* addRule for one pattern, the end of it at the node the template leads to (rules.go; Model/Trie.v leaf):
     conflict(cursor.methodAll)                           the "*" binding of another method: duplicate rule
     verb "*":  any cursor.methods[..] of another method: duplicate rule;
                methodAll set (same method):              "Method already registered"
     verb v:    methods[v] of another method:             duplicate rule;  of this method: already registered
     otherwise the binding is stored -- also a verb key at a node where the method holds "*" already.
   Ok (t', true) = stored now, Ok (t, false) = "Method already registered".
   (Until the refinement proof of Proofs/RefineProofs.v this was: refuse iff t_lookup finds another method,
   "already registered" iff it finds this one -- which accepted a "*" key over another method's verb binding
   and did not record a verb key below the method's own "*"; see RefineProofs.refine_add_refuted,
   refine_add_state_refuted about AbsTrie.a_add_loose.) *)
Definition t_other (x : option method) (m : method) : bool :=
  match x with Some m' => negb (m' =? m) | None => false end.
(* every binding of node n belongs to m *)
Definition t_owned (t : trie) (n : nat) (m : method) : bool :=
  forallb (fun e => negb (fst (fst e) =? n) || (snd e =? m)) t.
Definition t_add (t : trie) (k : bkey) (m : method) : outcome (trie * bool) :=
  if negb (kvalid k) then Err EInvalid
  else if t_other (t_find t (knode k) 0) m then Err EInvalid
  else if kverb k =? 0 then
    if negb (t_owned t (knode k) m) then Err EInvalid
    else match t_find t (knode k) 0 with
         | Some _ => Ok (t, false)
         | None => Ok ((knode k, kverb k, m) :: t, true)
         end
  else match t_find t (knode k) (kverb k) with
       | Some m' => if m' =? m then Ok (t, false) else Err EInvalid
       | None => Ok ((knode k, kverb k, m) :: t, true)
       end.
Fixpoint t_add_all (t : trie) (ks : list bkey) (m : method) : outcome trie :=
  match ks with
  | [] => Ok t
  | k :: ks' => do r <- t_add t k m; t_add_all (fst r) ks' m
  end.
(* a rule with additional bindings: they are visited whether or not the main pattern was new (it used to
   be: only when it was new -- finding R9) *)
Definition t_add_rule (t : trie) (r : rule) (m : method) : outcome trie :=
  do x <- t_add t (rmain r) m;
  t_add_all (fst x) (radd r) m.
Fixpoint t_add_rules (t : trie) (rs : list rule) (m : method) : outcome trie :=
  match rs with
  | [] => Ok t
  | r :: rs' => do t' <- t_add_rule t r m; t_add_rules t' rs' m
  end.
(* delRule: every binding of the method goes *)
Definition t_del (t : trie) (m : method) : trie := filter (fun e => negb (snd e =? m)) t.

(* ---- state ---- *)
Record handler := Handler { hid : nat; howner : owner; hmeth : method }.   (* hid: pointer identity *)
Record connList := ConnList { chandlers : list handler; chash : nat }.

(* Go maps: association lists, newest entry first shadows; order never observed *)
Fixpoint aget {A} (k : nat) (l : list (nat * A)) : option A :=
  match l with
  | [] => None
  | (k', v) :: l' => if k' =? k then Some v else aget k l'
  end.
Definition aset {A} (k : nat) (v : A) (l : list (nat * A)) : list (nat * A) := (k, v) :: l.
Definition adel {A} (k : nat) (l : list (nat * A)) : list (nat * A) := filter (fun e => negb (fst e =? k)) l.

Record state := State { spath : trie; sconns : list (nat * connList); shandlers : list (method * list handler) }.
Definition empty_state := State [] [] [].
Definition hget (s : state) (m : method) : list handler :=
  match aget m (shandlers s) with Some l => l | None => [] end.

(* mux.go appendHandler *)
Definition append_handler (s : state) (d : mdesc) (h : handler) : outcome state :=
  match t_add (spath s) (BKey (mnode d) 0 true) (mname d) with
  | Ok x =>
      do t' <- t_add_rules (fst x) (mrules d) (mname d);
      Ok (State t' (sconns s) (aset (mname d) (hget s (mname d) ++ [h]) (shandlers s)))
  | Err e => Err e                                (* (it used to be panic("bug: ..."): finding R10) *)
  | other => Panic PExplicit
  end.

(* processFile / the method loops of registerService: one fresh handler per method *)
Fixpoint process (s : state) (o : owner) (ds : list mdesc) (next : nat) (acc : list handler)
  : outcome (state * list handler) :=
  match ds with
  | [] => Ok (s, acc)
  | d :: ds' =>
      let h := Handler next o (mname d) in
      do s' <- append_handler s d h;
      process s' o ds' (S next) (acc ++ [h])
  end.

(* mux.go removeHandler *)
Definition drop_one (s : state) (hd : handler) : state :=
  let hds := filter (fun mhd => negb (hid mhd =? hid hd)) (hget s (hmeth hd)) in
  match hds with
  | [] => State (t_del (spath s) (hmeth hd)) (sconns s) (adel (hmeth hd) (shandlers s))
  | _ => State (spath s) (sconns s) (aset (hmeth hd) hds (shandlers s))
  end.
Definition remove_handler (s : state) (c : nat) : state * bool :=
  match aget c (sconns s) with
  | None => (s, false)
  | Some cl =>
      let s' := fold_left drop_one (chandlers cl) s in
      (State (spath s') (adel c (sconns s')) (shandlers s'), true)
  end.

(* mux.go addConnHandler, after the reflection exchange *)
Definition add_conn_handler (s : state) (c : nat) (d : desc) (next : nat) : outcome state :=
  let create (s : state) :=
    do r <- process s (OConn c) (dmethods d) next [];
    Ok (State (spath (fst r)) (aset c (ConnList (snd r) (dhash d)) (sconns (fst r))) (shandlers (fst r))) in
  match aget c (sconns s) with
  | Some cl => if chash cl =? dhash d then Ok s                       (* nothing to do *)
               else create (fst (remove_handler s c))                 (* drop and recreate *)
  | None => create s
  end.

(* ---- the Mux: published snapshot (atomic.Value, nil at first) + the allocator ---- *)
Record mux := Mux { published : option state; fresh : nat }.
Definition mux0 := Mux None 0.
Definition clone (p : option state) : state := match p with None => empty_state | Some s => s end.

Inductive op :=
| RegLocal (l : nat) (ds : list mdesc)      (* registerService of one service, implementation l *)
| RegConn (c : nat) (d : desc)              (* RegisterConn while the backend lists d *)
| DropConn (c : nat).
Inductive result := ROk | RErr | RPanic | RTrue | RFalse.

Definition step (m : mux) (o : op) : mux * result :=
  let s := clone (published m) in
  match o with
  | RegLocal l ds =>
      let nxt := fresh m + length ds in
      match process s (OLocal l) ds (fresh m) [] with
      | Ok r => (Mux (Some (fst r)) nxt, ROk)
      | Err _ => (Mux (published m) nxt, RErr)
      | _ => (Mux (published m) nxt, RPanic)
      end
  | RegConn c d =>
      let nxt := fresh m + length (dmethods d) in
      match add_conn_handler s c d (fresh m) with
      | Ok s' => (Mux (Some s') nxt, ROk)
      | Err _ => (Mux (published m) nxt, RErr)
      | _ => (Mux (published m) nxt, RPanic)
      end
  | DropConn c =>
      let r := remove_handler s c in
      if snd r then (Mux (Some (fst r)) (fresh m), RTrue) else (m, RFalse)
  end.

Fixpoint steps (m : mux) (h : list op) : mux :=
  match h with [] => m | o :: h' => steps (fst (step m o)) h' end.
Fixpoint trace_from (m : mux) (h : list op) : list (op * result) :=
  match h with [] => [] | o :: h' => (o, snd (step m o)) :: trace_from (fst (step m o)) h' end.
Definition run (h : list op) : mux := steps mux0 h.
Definition trace (h : list op) : list (op * result) := trace_from mux0 h.

(* ---- readers ---- *)
(* pickMethodHandler: any element of the list *)
Definition candidates (m : mux) (name : method) : list owner :=
  match published m with None => [] | Some s => map howner (hget s name) end.

Inductive reply := Served (o : owner) | Unimplemented | NotFound.
Definition grpc_replies (m : mux) (name : method) : list reply :=
  match candidates m name with [] => [Unimplemented] | os => map Served os end.
Definition route (m : mux) (n v : nat) : option method :=
  match published m with None => None | Some s => t_lookup (spath s) n v end.
Definition http_replies (m : mux) (n v : nat) : list reply :=
  match route m n v with None => [NotFound] | Some name => grpc_replies m name end.

(* ---- the abstract registration table, computed from the trace alone ---- *)
Definition ltable := list (owner * list mdesc).
Definition live_step (T : ltable) (e : op * result) : ltable :=
  match e with
  | (RegLocal l ds, ROk) => T ++ [(OLocal l, ds)]
  | (RegConn c d, ROk) => filter (fun x => negb (owner_eqb (fst x) (OConn c))) T ++ [(OConn c, dmethods d)]
  | (DropConn c, _) => filter (fun x => negb (owner_eqb (fst x) (OConn c))) T
  | _ => T
  end.
Definition live_table (tr : list (op * result)) : ltable := fold_left live_step tr [].
Definition exposes (ds : list mdesc) (m : method) : bool := existsb (fun d => mname d =? m) ds.
Definition live_in (T : ltable) (m : method) : list owner :=
  map fst (filter (fun x => exposes (snd x) m) T).
Definition live (tr : list (op * result)) (m : method) : list owner := live_in (live_table tr) m.

(* keys a method descriptor declares *)
Definition rule_keys (r : rule) : list bkey := rmain r :: radd r.
Definition mkeys (d : mdesc) : list bkey := BKey (mnode d) 0 true :: flat_map rule_keys (mrules d).

(* specification of "this registration has no reason to be refused": every key is valid and no
   key meets (same node, same verb or a "*" on either side) a key of a different method that is
   live or in the same registration *)
Definition key_meets (a b : bkey) : bool :=
  (knode a =? knode b) && ((kverb a =? kverb b) || (kverb a =? 0) || (kverb b =? 0)).
Definition bound_keys (ds : list mdesc) : list (bkey * method) :=
  flat_map (fun d => map (fun k => (k, mname d)) (mkeys d)) ds.
Definition unobstructed (T : ltable) (ds : list mdesc) : bool :=
  let mine := bound_keys ds in
  let theirs := flat_map (fun x => bound_keys (snd x)) T in
  forallb (fun km => kvalid (fst km) &&
             forallb (fun km' => negb (key_meets (fst km) (fst km')) || (snd km =? snd km')) (mine ++ theirs)) mine.
