(* larking/grpc.go: isReservedHeader, isWhitelistedHeader, decodeBinHeader, encodeBinHeader,
   newIncomingContext, setOutgoingHeader -- and net/http's rule for which keys set after the header
   snapshot are delivered as trailers. Maps are association lists; Go's map iteration order never
   matters here because every key is handled independently (see the theorems). *)
From Larking Require Import Base.GoSem Base.B64.

Definition key := list N.
Definition str_of (l : list nat) : key := map N.of_nat l.

Definition lower_byte (c : N) : N := if (65 <=? c)%N && (c <=? 90)%N then (c + 32)%N else c.
Definition lower (k : key) : key := map lower_byte k.

Definition k_content_type := str_of [99;111;110;116;101;110;116;45;116;121;112;101].
Definition k_user_agent := str_of [117;115;101;114;45;97;103;101;110;116].
Definition k_grpc_message_type := str_of [103;114;112;99;45;109;101;115;115;97;103;101;45;116;121;112;101].
Definition k_grpc_encoding := str_of [103;114;112;99;45;101;110;99;111;100;105;110;103].
Definition k_grpc_message := str_of [103;114;112;99;45;109;101;115;115;97;103;101].
Definition k_grpc_status := str_of [103;114;112;99;45;115;116;97;116;117;115].
Definition k_grpc_timeout := str_of [103;114;112;99;45;116;105;109;101;111;117;116].
Definition k_grpc_status_details := str_of [103;114;112;99;45;115;116;97;116;117;115;45;100;101;116;97;105;108;115;45;98;105;110].
Definition k_te := str_of [116;101].
Definition k_authority := str_of [58;97;117;116;104;111;114;105;116;121].
(* owned by net/http's framing: handler metadata must not set them on the response *)
Definition k_trailer := str_of [116;114;97;105;108;101;114].
Definition k_content_length := str_of [99;111;110;116;101;110;116;45;108;101;110;103;116;104].
Definition k_transfer_encoding := str_of [116;114;97;110;115;102;101;114;45;101;110;99;111;100;105;110;103].
Definition k_connection := str_of [99;111;110;110;101;99;116;105;111;110].
Definition k_content_encoding := str_of [99;111;110;116;101;110;116;45;101;110;99;111;100;105;110;103].

Definition mem (k : key) (ks : list key) : bool := existsb (bytes_eqb k) ks.
Definition reserved_keys := [k_content_type; k_user_agent; k_grpc_message_type; k_grpc_encoding; k_grpc_message;
                             k_grpc_status; k_grpc_timeout; k_grpc_status_details; k_te].
Definition framing_keys := [k_trailer; k_content_length; k_transfer_encoding; k_connection; k_content_encoding].
Definition is_reserved (k : key) : bool := mem k reserved_keys.
Definition is_whitelisted (k : key) : bool := mem k [k_authority; k_user_agent].
Definition is_framing (k : key) : bool := mem k framing_keys.

Definition bin_suffix := str_of [45;98;105;110].
Definition has_suffix (suf k : key) : bool :=
  Nat.leb (length suf) (length k) && bytes_eqb (skipn (length k - length suf) k) suf.
Definition is_bin (k : key) : bool := has_suffix bin_suffix k.

(* decodeBinHeader: padded input (or no padding needed) when len%4 == 0, raw otherwise *)
Definition decode_bin (v : bytes) : option bytes :=
  if Nat.eqb (length v mod 4) 0 then b64_decode false true v else b64_decode false false v.
Definition encode_bin (v : bytes) : bytes := b64_encode false false v.

Definition hmap := list (key * list bytes).

(* newIncomingContext: a failed decode leaves the empty string in that position *)
Definition incoming_entry (e : key * list bytes) : option (key * list bytes) :=
  let k := lower (fst e) in
  if is_reserved k && negb (is_whitelisted k) then None
  else if is_bin k then Some (k, map (fun v => match decode_bin v with Some b => b | None => [] end) (snd e))
  else Some (k, snd e).
Fixpoint filter_map {A B} (f : A -> option B) (l : list A) : list B :=
  match l with [] => [] | x :: r => match f x with Some y => y :: filter_map f r | None => filter_map f r end end.
Definition incoming (h : hmap) : hmap := filter_map incoming_entry h.

(* header[CanonicalMIMEHeaderKey(k)] = vs : replace or add; keys are compared lower-cased *)
Fixpoint hset (k : key) (vs : list bytes) (h : hmap) : hmap :=
  match h with
  | [] => [(k, vs)]
  | (k', vs') :: r => if bytes_eqb (lower k') (lower k) then (k', vs) :: r else (k', vs') :: hset k vs r
  end.
Fixpoint hget (k : key) (h : hmap) : option (list bytes) :=
  match h with
  | [] => None
  | (k', vs) :: r => if bytes_eqb (lower k') (lower k) then Some vs else hget k r
  end.

(* setOutgoingHeader(header, md) *)
Definition outgoing_entry (e : key * list bytes) : option (key * list bytes) :=
  let k := fst e in
  if is_reserved (lower k) || is_framing (lower k) then None
  else if is_bin (lower k) then Some (k, map encode_bin (snd e)) else Some (k, snd e).
Definition out_vals (k : key) (vs : list bytes) := if is_bin (lower k) then map encode_bin vs else vs.
Definition set_outgoing (h : hmap) (md : hmap) : hmap :=
  fold_left (fun acc e => match outgoing_entry e with Some (k, vs) => hset k vs acc | None => acc end) md h.

(* trailers: the handler's trailer metadata is written under http.TrailerPrefix *)
Definition trailer_prefix := str_of [84;114;97;105;108;101;114;58].     (* "Trailer:" *)
Definition set_outgoing_trailer (h : hmap) (md : hmap) : hmap :=
  fold_left (fun acc e => match outgoing_entry e with Some (k, vs) => hset (trailer_prefix ++ k) vs acc | None => acc end) md h.

(* net/http: after the header snapshot, a key is delivered as a trailer iff it was announced in
   the Trailer header or carries the TrailerPrefix *)
Definition has_prefix (p k : key) : bool := bytes_eqb (firstn (length p) k) p.
Definition delivered_trailers (declared : list key) (h : hmap) : hmap :=
  filter_map (fun e => let k := fst e in
     if has_prefix trailer_prefix k then Some (skipn (length trailer_prefix) k, snd e)
     else if mem (lower k) (map lower declared) then Some e else None) h.

(* what a client may apply to a -bin value: either spelling *)
Definition decode_any (v : bytes) : option bytes :=
  match b64_decode false true v with Some b => Some b | None => b64_decode false false v end.
