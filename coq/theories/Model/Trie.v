(* larking/rules.go: the routing trie -- path, addVariable, addPath, addRule (token walk, field
   resolution, conflict check, body / response_body resolution, additional bindings) -- and
   larking/mux.go appendHandler (implicit rule, service-config rules, annotation), as functions
   returning the new trie. The Go code mutates a clone that is discarded on error, so "Err" here
   means: the registration fails and the published trie stays what it was.
   The protobuf schema is an oracle (Section variables): which field paths of a method's request
   type resolve, which are usable as a body (singular messages all the way). *)
From Larking Require Import Base.GoSem Model.Lexer.
Local Open Scope N_scope.

Definition str_eqb : str -> str -> bool := list_eqb N.eqb.
Fixpoint str_ltb (a b : str) : bool :=          (* Go's string < on UTF-8 = code-point order *)
  match a, b with
  | [], [] => false
  | [], _ :: _ => true
  | _ :: _, [] => false
  | x :: a', y :: b' => if x <? y then true else if y <? x then false else str_ltb a' b'
  end.

Inductive edge : Type := ELit : str -> edge | EVar : list token -> edge.

Inductive bsel : Type := BNone : bsel | BStar : bsel | BField : list str -> bsel.

(* one registered binding: the method it belongs to, the field paths of its variables in
   template order ([] for a bare star or double star), its body selector and response selector *)
Record minfo := { m_id : str; m_vars : list (list str); m_body : bsel; m_resp : list str }.

Inductive node :=
  Node (segs : list (str * node)) (vars : list (list token * node))
       (meths : list (str * minfo)) (mall : option minfo).
Definition empty_node := Node [] [] [] None.
Definition n_segs (n : node) := let '(Node s _ _ _) := n in s.
Definition n_vars (n : node) := let '(Node _ v _ _) := n in v.
Definition n_meths (n : node) := let '(Node _ _ m _) := n in m.
Definition n_mall (n : node) := let '(Node _ _ _ a) := n in a.

Fixpoint assoc {A} (k : str) (l : list (str * A)) : option A :=
  match l with
  | [] => None
  | (k', v) :: r => if str_eqb k' k then Some v else assoc k r
  end.
Fixpoint set_assoc {A} (k : str) (v : A) (l : list (str * A)) : list (str * A) :=
  match l with
  | [] => [(k, v)]
  | (k', v') :: r => if str_eqb k' k then (k', v) :: r else (k', v') :: set_assoc k v r
  end.

(* variables are found by name = the spelling of their pattern, and kept sorted by name *)
Fixpoint find_var (name : str) (l : list (list token * node)) : option node :=
  match l with
  | [] => None
  | (p, n) :: r => if str_eqb (spell p) name then Some n else find_var name r
  end.
Fixpoint set_var (pat : list token) (n : node) (l : list (list token * node)) : list (list token * node) :=
  match l with
  | [] => [(pat, n)]
  | (p, n') :: r =>
    if str_eqb (spell p) (spell pat) then (p, n) :: r
    else if str_ltb (spell pat) (spell p) then (pat, n) :: (p, n') :: r
    else (p, n') :: set_var pat n r
  end.

(* walk to the node of an edge sequence, creating what is missing, and rewrite that node *)
Fixpoint upd (es : list edge) (f : node -> outcome node) (nd : node) : outcome node :=
  match es with
  | [] => f nd
  | ELit k :: es' =>
    let child := match assoc k (n_segs nd) with Some c => c | None => empty_node end in
    do c' <- upd es' f child;
    Ok (Node (set_assoc k c' (n_segs nd)) (n_vars nd) (n_meths nd) (n_mall nd))
  | EVar pat :: es' =>
    let child := match find_var (spell pat) (n_vars nd) with Some c => c | None => empty_node end in
    do c' <- upd es' f child;
    Ok (Node (n_segs nd) (set_var pat c' (n_vars nd)) (n_meths nd) (n_mall nd))
  end.

(* read-only walk *)
Fixpoint walk_to (es : list edge) (nd : node) : option node :=
  match es with
  | [] => Some nd
  | ELit k :: es' => match assoc k (n_segs nd) with Some c => walk_to es' c | None => None end
  | EVar pat :: es' => match find_var (spell pat) (n_vars nd) with Some c => walk_to es' c | None => None end
  end.

(* ---- the token walk of addRule ---- *)

(* nxt := next(); for nxt.typ == tokenDot { keys = append(keys, next().val); nxt = next() } *)
Fixpoint field_keys (acc : list str) (ts : list token) : list str * list token :=
  match ts with
  | d :: k :: ts' => if is TDot d then field_keys (acc ++ [tval k]) ts' else (acc, ts)
  | _ => (acc, ts)
  end.
(* for nxt := next(); nxt.typ != tokenVariableEnd; nxt = next() { vars = append(vars, nxt) } *)
Fixpoint until_varend (ts : list token) : option (list token * list token) :=
  match ts with
  | [] => None                                  (* runs off the token array: index out of range *)
  | t :: ts' => if is TVarEnd t then Some ([], ts')
                else match until_varend ts' with Some (a, b) => Some (t :: a, b) | None => None end
  end.

Section Trie.
Variable resolves : str -> list str -> bool.     (* method id, field path: fieldPath(...) != nil *)
Variable body_ok : str -> list str -> bool.      (* ... and every field on it is a singular message *)
Variable resp_ok : str -> list str -> bool.      (* response_body selector usable *)

(* returns the edges and the field paths of the variables; reading past the emitted tokens is a
   zero token (typ tokenError), which every switch sends to invalid(): Panic *)
Fixpoint compile (fuel : nat) (mid : str) (ts : list token) : outcome (list edge * list (list str)) :=
  match fuel with
  | O => OutOfFuel
  | S f =>
    match ts with
    | [] => Panic PExplicit
    | tok :: ts1 =>
      match ttyp tok with
      | TSlash =>
        match ts1 with
        | [] => Panic PExplicit
        | val :: ts2 =>
          match ttyp val with
          | TStar | TStarStar =>
            do r <- compile f mid ts2; Ok (EVar [val] :: fst r, [] :: snd r)
          | TLiteral =>
            do r <- compile f mid ts2; Ok (ELit (tval tok ++ tval val) :: fst r, snd r)
          | TVarStart =>
            match ts2 with
            | [] => Panic PExplicit
            | id :: ts3 =>
              let '(keys, ts4) := field_keys [tval id] ts3 in
              match ts4 with
              | [] => Panic PExplicit
              | nxt :: ts5 =>
                match ttyp nxt with
                | TEqual =>
                  match until_varend ts5 with
                  | None => Panic PIndex
                  | Some (pat, ts6) =>
                    if resolves mid keys
                    then do r <- compile f mid ts6; Ok (EVar pat :: fst r, keys :: snd r)
                    else Err EInvalid
                  end
                | TVarEnd =>
                  if resolves mid keys
                  then do r <- compile f mid ts5; Ok (EVar [Tok TStar [42]] :: fst r, keys :: snd r)
                  else Err EInvalid
                | _ => Panic PExplicit
                end
              end
            end
          | _ => Panic PExplicit
          end
        end
      | TVerb =>
        match ts1 with
        | [] => Panic PExplicit               (* in Go: a zero token, "" appended; unreachable after the lexer *)
        | val :: _ => Ok ([ELit (tval tok ++ tval val)], [])
        end
      | TEOF => Ok ([], [])
      | _ => Panic PExplicit
      end
    end
  end.

Record brule := { b_verb : str; b_tmpl : str; b_body : bsel; b_resp : list str; b_nested : bool }.
Record hrule := { h_main : brule; h_adds : list brule }.

Definition star_verb : str := [42].
Definition conflict (mid : str) (y : minfo) : bool := negb (str_eqb (m_id y) mid).

(* the end of addRule at the node the template leads to *)
Definition leaf (mid : str) (b : brule) (vfs : list (list str)) (nd : node) : outcome node :=
  let mk :=
    let body_fine := match b_body b with BField p => resolves mid p && body_ok mid p | _ => true end in
    let resp_fine := match b_resp b with [] => true | p => resp_ok mid p end in
    if body_fine && resp_fine then Ok (Build_minfo mid vfs (b_body b) (b_resp b)) else Err EInvalid in
  (* the body and response_body selectors are validated first (since the repair of R11): a rule that
     repeats a binding the method already has is still a rule that has to be well-formed *)
  do m <- mk;
  if match n_mall nd with Some y => conflict mid y | None => false end then Err EInvalid
  else if str_eqb (b_verb b) star_verb then
    if existsb (fun kv => conflict mid (snd kv)) (n_meths nd) then Err EInvalid
    else match n_mall nd with
         | Some _ => Ok nd                                     (* already registered *)
         | None => Ok (Node (n_segs nd) (n_vars nd) (n_meths nd) (Some m))
         end
  else match assoc (b_verb b) (n_meths nd) with
       | Some y => if conflict mid y then Err EInvalid else Ok nd
       | None => Ok (Node (n_segs nd) (n_vars nd) (n_meths nd ++ [(b_verb b, m)]) (n_mall nd))
       end.

Section WithClass.
Variables isLetter isNumber : N -> bool.

Definition add_binding (mid : str) (root : node) (b : brule) : outcome node :=
  do ts <- lex_template isLetter isNumber (b_tmpl b);
  do r <- compile (S (length ts)) mid ts;
  upd (fst r) (leaf mid b (snd r)) root.

Fixpoint add_additional (mid : str) (root : node) (adds : list brule) : outcome node :=
  match adds with
  | [] => Ok root
  | a :: rest =>
    if b_nested a then Err EInvalid
    else do root' <- add_binding mid root a; add_additional mid root' rest
  end.

Definition add_rule (mid : str) (root : node) (r : hrule) : outcome node :=
  do root' <- add_binding mid root (h_main r); add_additional mid root' (h_adds r).

Fixpoint add_rules (mid : str) (root : node) (rs : list hrule) : outcome node :=
  match rs with
  | [] => Ok root
  | r :: rest => do root' <- add_rule mid root r; add_rules mid root' rest
  end.

(* appendHandler: implicit rule (a failure is panic("bug: ...")), service-config rules, annotation *)
Record mdecl := { d_id : str; d_config : list hrule; d_annot : option hrule }.
Definition implicit_rule (mid : str) : hrule :=
  {| h_main := {| b_verb := star_verb; b_tmpl := mid; b_body := BStar; b_resp := []; b_nested := false |};
     h_adds := [] |}.
Definition append_handler (root : node) (d : mdecl) : outcome node :=
  match add_rule (d_id d) root (implicit_rule (d_id d)) with
  | Err e => Err e    (* (it used to be panic("bug: ...")) *)
  | Ok root1 =>
    do root2 <- add_rules (d_id d) root1 (d_config d);
    match d_annot d with Some r => add_rule (d_id d) root2 r | None => Ok root2 end
  | other => other
  end.
Fixpoint register_methods (root : node) (ds : list mdecl) : outcome node :=
  match ds with
  | [] => Ok root
  | d :: rest => do root' <- append_handler root d; register_methods root' rest
  end.
(* registerService on a published trie: all or nothing *)
Definition register_service (root : node) (ds : list mdecl) : node * bool :=
  match register_methods root ds with Ok root' => (root', true) | _ => (root, false) end.

End WithClass.
End Trie.
