(* The trailer block of a gRPC-web response (the payload of the frame with flag 0x80), as larking/web.go writes it with
   net/http's Header.Write: one line "key: value\r\n" per value, CR and LF in a value replaced by spaces and the
   value trimmed (net/http Header.Write, a library function: modelled); and the parser a gRPC-web client runs over it. *)
From Coq Require Import List NArith Bool.
Import ListNotations.
Local Open Scope N_scope.

Notation bytes := (list N).

Definition is_nl (c : N) : bool := (c =? 10) || (c =? 13).
(* Header.Write: v = headerNewlineToSpace.Replace(v); v = textproto.TrimString(v) *)
Definition is_ws (c : N) : bool := (c =? 32) || (c =? 9).
Fixpoint drop_ws (l : bytes) : bytes :=
  match l with c :: r => if is_ws c then drop_ws r else l | [] => [] end.
Definition trim_ws (l : bytes) : bytes := rev (drop_ws (rev (drop_ws l))).
Definition wire_value (v : bytes) : bytes := trim_ws (map (fun c => if is_nl c then 32 else c) v).

Definition write_line (kv : bytes * bytes) : bytes := fst kv ++ [58; 32] ++ wire_value (snd kv) ++ [13; 10].
Definition write_block (l : list (bytes * bytes)) : bytes := concat (map write_line l).

(* the client: lines end at LF, a CR before it is dropped; a line is cut at its first colon, one space after it skipped;
   the text behind the last LF (none in a well-formed block) is not a field *)
Fixpoint split_lf (cur : bytes) (s : bytes) : list bytes :=
  match s with
  | [] => []
  | c :: r => if c =? 10 then rev cur :: split_lf [] r else split_lf (c :: cur) r
  end.
Definition drop_cr (l : bytes) : bytes :=
  match rev l with 13 :: r => rev r | _ => l end.
Fixpoint cut_colon (k : bytes) (l : bytes) : option (bytes * bytes) :=
  match l with
  | [] => None
  | c :: r => if c =? 58 then Some (rev k, match r with 32 :: r' => r' | _ => r end) else cut_colon (c :: k) r
  end.
Definition parse_block (s : bytes) : list (option (bytes * bytes)) :=
  map (fun l => cut_colon [] (drop_cr l)) (split_lf [] s).
