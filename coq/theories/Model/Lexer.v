(* larking/lexer.go: lexTemplate (template grammar) and lexPath (request paths).
   Runes are N; strings are lists of runes (the harness decodes UTF-8 the way Go's lexer does:
   an invalid byte is the rune U+FFFD, which no class admits). unicode.IsLetter / IsNumber are
   parameters: every theorem holds for every classifier. The lexer state is the unread input, the
   tokens emitted so far (newest first) and the "a ** has been emitted" flag; l.start/l.pos only
   delimit the substring of the next token, which the model passes to emit directly.
   Every lexing error of the Go code is an InvalidArgument status (errTokenLimit, errUnexpected,
   errShort): one class, Err EInvalid. *)
From Larking Require Import Base.GoSem.
Local Open Scope N_scope.

Inductive tk := TError | TSlash | TStar | TStarStar | TVarStart | TVarEnd | TEqual | TIdent
              | TLiteral | TDot | TVerb | TPath | TEOF.
Definition tk_eqb (a b : tk) : bool :=
  match a, b with
  | TError, TError | TSlash, TSlash | TStar, TStar | TStarStar, TStarStar | TVarStart, TVarStart
  | TVarEnd, TVarEnd | TEqual, TEqual | TIdent, TIdent | TLiteral, TLiteral | TDot, TDot
  | TVerb, TVerb | TPath, TPath | TEOF, TEOF => true
  | _, _ => false
  end.

Definition str := list N.
Record token := Tok { ttyp : tk; tval : str }.
Definition is (k : tk) (t : token) : bool := tk_eqb (ttyp t) k.
Definition spell (ts : list token) : str := concat (map tval ts).

Definition token_cap : nat := 64.

Section Lexer.
Variables isLetter isNumber : N -> bool.

Definition is_ident (r : N) : bool := isLetter r || isNumber r || (r =? 95) || (r =? 45).
Definition is_literal (r : N) : bool := is_ident r || (r =? 46).
Definition is_path (r : N) : bool :=
  is_literal r || (r =? 126) || (r =? 33) || (r =? 36) || (r =? 38) || (r =? 39) || (r =? 40) ||
  (r =? 41) || (r =? 42) || (r =? 43) || (r =? 44) || (r =? 59) || (r =? 61) || (r =? 64).

(* acceptRun: the longest prefix of valid runes, and what follows it *)
Fixpoint span (p : N -> bool) (l : str) : str * str :=
  match l with
  | [] => ([], [])
  | x :: r => if p x then let '(a, b) := span p r in (x :: a, b) else ([], l)
  end.

Record lst := Lst { inp : str; toks : list token; last : bool }.

(* "the next rune is c": Some (what follows it) *)
Definition hd_is (c : N) (l : str) : option str :=
  match l with x :: r => if x =? c then Some r else None | [] => None end.

Definition emit (k : tk) (v : str) (rest : str) (s : lst) : outcome lst :=
  if Nat.leb token_cap (length (toks s)) then Err EInvalid
  else Ok (Lst rest (Tok k v :: toks s) (last s)).

(* lexIdent / lexLiteral / lexPathSegment *)
Definition lex_run (k : tk) (p : N -> bool) (s : lst) : outcome lst :=
  let '(v, rest) := span p (inp s) in
  if is_nil v then Err EInvalid else emit k v rest s.

Fixpoint lex_field_path_loop (fuel : nat) (s : lst) : outcome lst :=
  match fuel with
  | O => OutOfFuel
  | S f =>
    match hd_is 46 (inp s) with
    | Some rest => do s1 <- emit TDot [46] rest s; do s2 <- lex_run TIdent is_ident s1; lex_field_path_loop f s2
    | None => Ok s
    end
  end.
Definition lex_field_path (fuel : nat) (s : lst) : outcome lst :=
  do s1 <- lex_run TIdent is_ident s; lex_field_path_loop fuel s1.

(* lexSegment; [lexvar] is lexVariable, absent while the segments of a variable are lexed *)
Definition lex_segment (lexvar : option (lst -> outcome lst)) (s : lst) : outcome lst :=
  match inp s with
  | [] => Err EInvalid
  | r :: rest =>
    if isLetter r then lex_run TLiteral is_literal s
    else if r =? 42 then
      match hd_is 42 rest with
      | Some rest' => do s1 <- emit TStarStar [42; 42] rest' s; Ok (Lst (inp s1) (toks s1) true)
      | None => emit TStar [42] rest s
      end
    else if r =? 123 then
      match lexvar with Some lv => lv s | None => Err EInvalid end
    else Err EInvalid
  end.

Fixpoint lex_segments (fuel : nat) (lexvar : option (lst -> outcome lst)) (s : lst) : outcome lst :=
  match fuel with
  | O => OutOfFuel
  | S f =>
    do s1 <- lex_segment lexvar s;
    match hd_is 47 (inp s1) with
    | Some rest =>
      if last s1 then Err EInvalid
      else do s2 <- emit TSlash [47] rest s1; lex_segments f lexvar s2
    | None => Ok s1
    end
  end.

(* lexVariable; the input starts with '{' (lexSegment has looked at it) *)
Definition lex_variable (fuel : nat) (s : lst) : outcome lst :=
  match hd_is 123 (inp s) with
  | Some rest =>
    do s1 <- emit TVarStart [123] rest s;
    do s2 <- lex_field_path fuel s1;
    match hd_is 61 (inp s2) with
    | Some rest2 =>
      do s3 <- emit TEqual [61] rest2 s2;
      do s4 <- lex_segments fuel None s3;
      match hd_is 125 (inp s4) with
      | Some rest4 => emit TVarEnd [125] rest4 s4
      | None => Err EInvalid
      end
    | None =>
      match hd_is 125 (inp s2) with
      | Some rest2 => emit TVarEnd [125] rest2 s2
      | None => Err EInvalid
      end
    end
  | None => Err EInvalid
  end.

Definition lex_verb (s : lst) : outcome lst :=
  do s1 <- lex_run TLiteral is_literal s;
  match inp s1 with
  | [] => emit TEOF [] [] s1
  | _ => Err EInvalid
  end.

Definition lex_template_st (t : str) : outcome lst :=
  let fuel := S (length t) in
  match hd_is 47 t with
  | Some rest =>
    do s1 <- emit TSlash [47] rest (Lst t [] false);
    do s2 <- lex_segments fuel (Some (lex_variable fuel)) s1;
    match hd_is 58 (inp s2) with
    | Some rest2 => do s3 <- emit TVerb [58] rest2 s2; lex_verb s3
    | None => if is_nil (inp s2) then emit TEOF [] [] s2 else Err EInvalid
    end
  | None => Err EInvalid
  end.
Definition lex_template (t : str) : outcome (list token) :=
  do s <- lex_template_st t; Ok (rev (toks s)).

(* lexPath: every '/' and ':' is a separator token, what lies between them a tokenPath *)
Fixpoint lex_path_loop (fuel : nat) (s : lst) : outcome lst :=
  match fuel with
  | O => OutOfFuel
  | S f =>
    match inp s with
    | [] => emit TEOF [] [] s
    | r :: rest =>
      if r =? 47 then do s1 <- emit TSlash [47] rest s; do s2 <- lex_run TPath is_path s1; lex_path_loop f s2
      else if r =? 58 then do s1 <- emit TVerb [58] rest s; do s2 <- lex_run TPath is_path s1; lex_path_loop f s2
      else Err EInvalid
    end
  end.
Definition lex_path (p : str) : outcome (list token) :=
  do s <- lex_path_loop (S (length p)) (Lst p [] false); Ok (rev (toks s)).

End Lexer.
