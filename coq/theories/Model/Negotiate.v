(* larking/negotiate.go in full: octet classes, expectQuality, skipSpace, expectTokenSlash,
   parseAccept, negotiateContentEncoding, negotiateContentType.
   Strings are byte lists. q-values are exact rationals (QArith's Q): the Go code computes
   q + float64(n)/float64(d) in float64 with n, d Go ints; for at most three fractional digits the
   two agree after rounding q*1000 (the generators of the correspondence run are restricted to
   that, see lib/cfg_C04.py). Every Go slice expression is written with the checked slice_from of
   Base/GoSem so that an out-of-range slice would be a Panic of the model. No proofs here. *)
From Coq Require Import QArith.
From Larking Require Import Base.GoSem.
Local Close Scope Q_scope.
Local Open Scope nat_scope.
Local Open Scope bool_scope.

Definition str_of (l : list nat) : bytes := map N.of_nat l.

(* octetTypes: isSpace = " \t\r\n"; isToken = CHAR, not CTL, not a separator *)
Definition is_space (c : N) : bool := ((c =? 32) || (c =? 9) || (c =? 13) || (c =? 10))%N.
Definition separators : bytes := str_of [32;9;34;40;41;44;47;58;59;60;61;62;63;64;91;93;92;123;125].
Definition is_separator (c : N) : bool := existsb (N.eqb c) separators.
Definition is_token (c : N) : bool :=
  ((c <=? 127) && negb ((c <=? 31) || (c =? 127)))%N && negb (is_separator c).

Definition qltb (x y : Q) : bool := negb (Qle_bool y x).      (* x < y *)

(* the digit loop of expectQuality: n = n*10 + digit, d *= 10 *)
Fixpoint q_digits (s : bytes) (n : N) (d : positive) : N * positive * bytes :=
  match s with
  | c :: r => if ((48 <=? c) && (c <=? 57))%N then q_digits r (n * 10 + (c - 48))%N (d * 10)%positive else (n, d, s)
  | [] => (n, d, [])
  end.

(* expectQuality: None is the Go result -1 *)
Definition expect_quality (s : bytes) : option (Q * bytes) :=
  match s with
  | [] => None
  | c :: r =>
    if ((c =? 48) || (c =? 49))%N then
      let q := (c - 48)%N in
      match r with
      | c' :: r' =>
        if (c' =? 46)%N then
          let '(n, d, rest) := q_digits r' 0%N 1%positive in
          Some (Qmake (Z.of_N (q * Npos d + n)%N) d, rest)
        else Some (inject_Z (Z.of_N q), r)
      | [] => Some (inject_Z (Z.of_N q), r)
      end
    else None
  end.

Fixpoint skip_space (s : bytes) : bytes :=
  match s with c :: r => if is_space c then skip_space r else s | [] => [] end.

(* expectTokenSlash: the longest prefix of token octets and '/' *)
Fixpoint token_len (s : bytes) : nat :=
  match s with c :: r => if is_token c || (c =? 47)%N then S (token_len r) else O | [] => O end.

Definition has_prefix (p s : bytes) : bool := bytes_eqb (firstn (length p) s) p.
Definition has_suffix (suf s : bytes) : bool :=
  Nat.leb (length suf) (length s) && bytes_eqb (skipn (length s - length suf) s) suf.

Record spec := mkspec { sval : bytes; sq : Q }.

Definition semicolon := str_of [59].
Definition comma := str_of [44].
Definition q_eq := str_of [113;61].                 (* "q=" *)

(* the inner loop of parseAccept over one header value; acc is the Go slice specs (in order) *)
Fixpoint parse_value (fuel : nat) (s : bytes) (acc : list spec) : outcome (list spec) :=
  match fuel with
  | O => OutOfFuel
  | S fuel' =>
    let n := token_len s in
    do value <- slice 0 n s;
    do s <- slice_from n s;
    if is_nil value then Ok acc
    else
      let s := skip_space s in
      let after (q : Q) (s : bytes) :=
        let acc := acc ++ [mkspec value q] in
        let s := skip_space s in
        if has_prefix comma s then
          do s <- slice_from 1 s;
          parse_value fuel' (skip_space s) acc
        else Ok acc in
      if has_prefix semicolon s then
        do s <- slice_from 1 s;
        let s := skip_space s in
        if has_prefix q_eq s then
          do s <- slice_from 2 s;
          match expect_quality s with
          | Some (q, s) => after q s          (* q >= 0 always: the q < 0 test is the None case *)
          | None => Ok acc
          end
        else Ok acc
      else after 1%Q s
  end.

Fixpoint parse_values (vs : list bytes) (acc : list spec) : outcome (list spec) :=
  match vs with
  | [] => Ok acc
  | s :: r => do acc <- parse_value (S (length s)) s acc; parse_values r acc
  end.
Definition parse_accept (values : list bytes) : outcome (list spec) := parse_values values [].

(* ---- negotiateContentEncoding ---- *)
Definition star := str_of [42].
Definition identity := str_of [105;100;101;110;116;105;116;121].
Record est := mkest { ebq : Q; ebo : bytes }.
Definition enc_step (offer : bytes) (s : est) (sp : spec) : est :=
  if qltb (ebq s) (sq sp) && (bytes_eqb (sval sp) star || bytes_eqb (sval sp) offer)
  then mkest (sq sp) offer else s.
Definition negotiate_encoding (specs : list spec) (offers : list bytes) : bytes :=
  let s := fold_left (fun s o => fold_left (enc_step o) specs s) offers (mkest (-1)%Q identity) in
  if Qeq_bool (ebq s) 0%Q then [] else ebo s.

(* ---- negotiateContentType ---- *)
Definition star_star := str_of [42;47;42].          (* "*/*" *)
Definition slash_star := str_of [47;42].            (* "/*" *)
Record cst := mkcst { bq : Q; bw : nat; bo : bytes }.

Definition ct_step (offer : bytes) (s : cst) (sp : spec) : cst :=
  let q := sq sp in let v := sval sp in
  if Qeq_bool q 0%Q then s                                   (* case spec.Q == 0.0: ignore *)
  else if qltb q (bq s) then s                             (* case spec.Q < bestQ *)
  else if bytes_eqb v star_star then
    if qltb (bq s) q || Nat.ltb 2 (bw s) then mkcst q 2 offer else s
  else if has_suffix slash_star v then
    if has_prefix (firstn (length v - 1) v) offer && (qltb (bq s) q || Nat.ltb 1 (bw s))
    then mkcst q 1 offer else s
  else
    if bytes_eqb v offer && (qltb (bq s) q || Nat.ltb 0 (bw s)) then mkcst q 0 offer else s.

Definition ct_final (specs : list spec) (offers : list bytes) (def : bytes) : cst :=
  fold_left (fun s o => fold_left (ct_step o) specs s) offers (mkcst (-1)%Q 3 def).
Definition negotiate_content_type (specs : list spec) (offers : list bytes) (def : bytes) : bytes :=
  bo (ct_final specs offers def).

(* the two functions as called: header values in, choice out *)
Definition negotiate_ct_header (accept : list bytes) (offers : list bytes) (def : bytes) : outcome bytes :=
  do specs <- parse_accept accept; Ok (negotiate_content_type specs offers def).
Definition negotiate_enc_header (accept_enc : list bytes) (offers : list bytes) : outcome bytes :=
  do specs <- parse_accept accept_enc; Ok (negotiate_encoding specs offers).
