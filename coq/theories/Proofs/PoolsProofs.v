(* Proofs/PoolsProofs.v -- exclusive ownership of pooled objects for all interleavings of
   well-bracketed scripts (Model/Pools.v). *)
From Larking Require Import Model.Pools.
Require Import List Arith Bool Lia.
Import ListNotations.

(* ---------- small facts ---------- *)

Lemma upd_same {A} (f : nat -> A) k a : upd f k a k = a.
Proof. unfold upd. now rewrite Nat.eqb_refl. Qed.

Lemma upd_other {A} (f : nat -> A) k a x : x <> k -> upd f k a x = f x.
Proof. intro H. unfold upd. apply Nat.eqb_neq in H. now rewrite H. Qed.

Lemma pb_eqb_eq x y : pb_eqb x y = true <-> x = y.
Proof.
  destruct x as [a b], y as [c d]. unfold pb_eqb. cbn [fst snd].
  rewrite andb_true_iff, !Nat.eqb_eq. split.
  - intros [-> ->]. reflexivity.
  - intro H. inversion H. auto.
Qed.

Lemma mem_In x l : mem x l = true <-> In x l.
Proof.
  induction l as [|y l IH]; cbn [mem In].
  - split; [discriminate | tauto].
  - rewrite orb_true_iff, pb_eqb_eq, IH. split; intros [H|H]; auto.
Qed.

Lemma remove_one_In x y l : In y (remove_one x l) -> In y l.
Proof.
  induction l as [|z l IH]; cbn [remove_one]; [tauto|].
  destruct (pb_eqb x z); cbn [In]; intuition.
Qed.

Lemma remove_one_other x y l : y <> x -> In y l -> In y (remove_one x l).
Proof.
  intros Hne. induction l as [|z l IH]; cbn [remove_one In]; [tauto|].
  destruct (pb_eqb x z) eqn:E.
  - apply pb_eqb_eq in E. subst z. intros [H|H]; [congruence | exact H].
  - cbn [In]. intuition.
Qed.

Lemma remove_one_snd_sub x b l : In b (map snd (remove_one x l)) -> In b (map snd l).
Proof.
  rewrite !in_map_iff. intros [y [H1 H2]]. exists y. split; [exact H1 | eapply remove_one_In; eassumption].
Qed.

Lemma remove_one_snd_NoDup x l : NoDup (map snd l) -> NoDup (map snd (remove_one x l)).
Proof.
  induction l as [|z l IH]; cbn [remove_one map]; [auto|].
  intro H. inversion H as [|? ? Hn Hd]; subst.
  destruct (pb_eqb x z); [exact Hd|].
  cbn [map]. constructor; [|auto].
  intro Hin. apply Hn. eapply remove_one_snd_sub; eassumption.
Qed.

Lemma remove_one_snd_notin x l : NoDup (map snd l) -> In x l -> ~ In (snd x) (map snd (remove_one x l)).
Proof.
  induction l as [|z l IH]; cbn [remove_one map In]; [tauto|].
  intros H Hin. inversion H as [|? ? Hn Hd]; subst.
  destruct (pb_eqb x z) eqn:E.
  - apply pb_eqb_eq in E. subst z. exact Hn.
  - destruct Hin as [Hin|Hin]; [subst z; rewrite (proj2 (pb_eqb_eq x x) eq_refl) in E; discriminate|].
    cbn [map In]. intros [H1|H1].
    + apply Hn. rewrite H1. apply in_map. exact Hin.
    + exact (IH Hd Hin H1).
Qed.

Lemma snd_unique (l : list (nat * nat)) a a' b :
  NoDup (map snd l) -> In (a, b) l -> In (a', b) l -> a = a'.
Proof.
  induction l as [|z l IH]; cbn [map In]; [tauto|].
  intros H H1 H2. inversion H as [|? ? Hn Hd]; subst.
  destruct H1 as [H1|H1], H2 as [H2|H2].
  - congruence.
  - subst z. exfalso. apply Hn. cbn [snd]. change b with (snd (a', b)). apply in_map. exact H2.
  - subst z. exfalso. apply Hn. cbn [snd]. change b with (snd (a, b)). apply in_map. exact H1.
  - eauto.
Qed.

Lemma in_snd (l : list (nat * nat)) a b : In (a, b) l -> In b (map snd l).
Proof. intro H. change b with (snd (a, b)). apply in_map. exact H. Qed.

(* ---------- the invariant ---------- *)

Definition live (s : astate) (t : nat) : Prop := stat s t <> Dead.

(* request r, at symbolic state s of the checker, with its tokens realised by the objects m *)
Record rinv (st : state) (r : rid) (s : astate) (m : nat -> bufid) : Prop := mkRinv {
  ri_run : wb_run s (rest st r) = true;
  ri_env : forall v, env st r v = option_map m (vars s v);
  ri_vlt : forall v t, vars s v = Some t -> t < nxt s;
  ri_slt : forall t, nxt s <= t -> stat s t = Dead;
  ri_ref : forall t, live s t -> In (r, m t) (refs st);
  ri_inj : forall t t', live s t -> live s t' -> m t = m t' -> t = t';
  ri_cln : forall t p, stat s t = Clean p -> forall x, In x (cont st (m t)) -> x = r }.

Record Inv (st : state) : Prop := mkInv {
  i_excl : exclusive st;
  i_used : forall b, In b (map snd (refs st)) \/ In b (map snd (pools st)) -> b < next st;
  i_req : forall r, exists s m, rinv st r s m }.

Lemma rinv_frame st st' r s m :
  rinv st r s m ->
  rest st' r = rest st r -> env st' r = env st r ->
  (forall b, In (r, b) (refs st) -> In (r, b) (refs st')) ->
  (forall b, In (r, b) (refs st) -> cont st' b = cont st b) ->
  rinv st' r s m.
Proof.
  intros [H1 H2 H3 H4 H5 H6 H7] Hr He Hf Hc. constructor; auto.
  - now rewrite Hr.
  - intro v. now rewrite He.
  - intros t p Ht x. rewrite Hc; [eauto|]. apply H5. unfold live. rewrite Ht. discriminate.
Qed.

Lemma init_inv scripts : (forall r, well_bracketed (scripts r) = true) -> Inv (init scripts).
Proof.
  intro H. constructor.
  - unfold exclusive, init; cbn. repeat split; try constructor. intros ? ? [].
  - cbn. intros b [[]|[]].
  - intro r. exists a_init, (fun _ => 0). constructor; cbn; try easy; try apply H;
      unfold live; cbn; intros; exfalso; auto.
Qed.

Lemma live_dec s t : {live s t} + {stat s t = Dead}.
Proof. unfold live. destruct (stat s t); [right; reflexivity | left; discriminate | left; discriminate]. Qed.

(* requests other than the one that moved keep their invariant *)
Lemma others_keep st st' r :
  Inv st ->
  (forall r', r' <> r -> rest st' r' = rest st r' /\ env st' r' = env st r') ->
  (forall r' b, r' <> r -> In (r', b) (refs st) -> In (r', b) (refs st')) ->
  (forall r' b, r' <> r -> In (r', b) (refs st) -> cont st' b = cont st b) ->
  forall r', r' <> r -> exists s m, rinv st' r' s m.
Proof.
  intros HI H1 H2 H3 r' Hne. destruct (i_req _ HI r') as [s [m Hr]].
  exists s, m. destruct (H1 r' Hne) as [Ha Hb].
  eapply rinv_frame; eauto.
Qed.

Ltac upd_simpl :=
  repeat (rewrite upd_same in * || rewrite upd_other in * by congruence).

Lemma set_rest_other st r sc r' : r' <> r -> rest (set_rest st r sc) r' = rest st r'.
Proof. intro H. cbn. now apply upd_other. Qed.

Lemma bind_other st r v b r' : r' <> r -> bind st r v b r' = env st r'.
Proof. intro H. unfold bind. now apply upd_other. Qed.

Lemma bind_same st r v b v' : bind st r v b r v' = upd (env st r) v b v'.
Proof. unfold bind. now rewrite upd_same. Qed.

(* a step that changes neither refs nor pools nor next keeps exclusivity and the bound *)
Lemma excl_same st st' :
  refs st' = refs st -> pools st' = pools st -> exclusive st -> exclusive st'.
Proof. unfold exclusive. intros -> ->. auto. Qed.

Theorem step_preserves st r c st' l :
  Inv st -> step st r c = Some (st', l) -> Inv st' /\ access_ok l.
Proof.
  intros HI Hs.
  destruct (i_req _ HI r) as [s [m Hr]].
  destruct (i_excl _ HI) as [Hnd [Hpl Hpnd]].
  pose proof (i_used _ HI) as Hused.
  unfold step in Hs.
  destruct (rest st r) as [|e sc] eqn:Hrest; [discriminate|].
  pose proof (ri_run _ _ _ _ Hr) as Hrun. rewrite Hrest in Hrun. cbn [wb_run] in Hrun.
  destruct (wb_step s e) as [s'|] eqn:Hwb; [|discriminate].
  pose proof (ri_env _ _ _ _ Hr) as Henv.
  pose proof (ri_vlt _ _ _ _ Hr) as Hvlt.
  pose proof (ri_slt _ _ _ _ Hr) as Hslt.
  pose proof (ri_ref _ _ _ _ Hr) as Href.
  pose proof (ri_inj _ _ _ _ Hr) as Hinj.
  pose proof (ri_cln _ _ _ _ Hr) as Hcln.
  assert (Huniq : forall r' b, r' <> r -> In (r, b) (refs st) -> ~ In (r', b) (refs st)).
  { intros r' b Hne H1 H2. apply Hne. eapply (snd_unique (refs st)); eauto. }
  destruct e as [p v|p v|v|v|v|v w|v w|v|v]; cbn [wb_step] in Hwb.
  - (* Get *)
    injection Hwb as <-.
    set (n := nxt s) in *.
    destruct c as [b|].
    + (* a pooled object *)
      destruct (mem (p, b) (pools st)) eqn:Hmem; [|discriminate].
      apply mem_In in Hmem. injection Hs as <- <-.
      assert (Hnb : ~ In b (map snd (refs st))) by (eapply Hpl; eauto).
      split; [|split; [reflexivity | intros x []]].
      constructor.
      * unfold exclusive; cbn [refs pools map snd]. repeat split.
        -- constructor; auto.
        -- intros p' b' Hin [Heq|Hin2].
           ++ subst b'. pose proof (remove_one_snd_notin (p, b) _ Hpnd Hmem) as Hx. cbn [snd] in Hx.
              apply Hx. eapply in_snd; eauto.
           ++ apply remove_one_In in Hin. eapply Hpl; eauto.
        -- now apply remove_one_snd_NoDup.
      * cbn [refs pools next map snd]. intros b' [[Heq|Hin]|Hin].
        -- subst b'. apply Hused. right. eapply in_snd; eauto.
        -- apply Hused. auto.
        -- apply Hused. right. eapply remove_one_snd_sub; eauto.
      * intro r'. destruct (Nat.eq_dec r' r) as [->|Hne].
        -- exists (mkA (upd (vars s) v (Some n)) (upd (stat s) n (Dirty p)) (S n)), (upd m n b).
           constructor; cbn [rest env refs cont vars stat nxt set_rest].
           ++ now rewrite upd_same.
           ++ intro v'. rewrite bind_same. unfold upd at 1 3. destruct (Nat.eqb v' v).
              ** cbn. now rewrite upd_same.
              ** rewrite Henv. destruct (vars s v') as [t|] eqn:Ev; cbn; [|reflexivity].
                 rewrite upd_other; [reflexivity|]. apply Hvlt in Ev. lia.
           ++ intros v' t. unfold upd. destruct (Nat.eqb v' v).
              ** intro H; injection H as <-. lia.
              ** intro H. apply Hvlt in H. lia.
           ++ intros t Ht. rewrite upd_other by lia. apply Hslt. lia.
           ++ intros t. unfold live. cbn [stat]. destruct (Nat.eq_dec t n) as [->|Hn].
              ** rewrite !upd_same. intros _. left. reflexivity.
              ** rewrite !upd_other by auto. intro Hl. right. now apply Href.
           ++ intros t t'. unfold live. cbn [stat].
              destruct (Nat.eq_dec t n) as [->|Hn], (Nat.eq_dec t' n) as [->|Hn']; upd_simpl; auto.
              ** intros _ Hl He. exfalso. apply Hnb. rewrite He. eapply in_snd. now apply Href.
              ** intros Hl _ He. exfalso. apply Hnb. rewrite <- He. eapply in_snd. now apply Href.
           ++ intros t q. destruct (Nat.eq_dec t n) as [->|Hn]; upd_simpl; [discriminate|]. apply Hcln.
        -- eapply others_keep with (r := r); eauto; cbn [rest env refs cont set_rest].
           ++ intros r0 H0. split; [now apply upd_other | now apply bind_other].
           ++ intros; now right.
    + (* a new object *)
      injection Hs as <- <-.
      set (b := next st) in *.
      assert (Hnb : ~ In b (map snd (refs st))) by (intro Hx; assert (b < next st) by (apply Hused; auto); unfold b in *; lia).
      split; [|split; [reflexivity | intros x []]].
      constructor.
      * unfold exclusive; cbn [refs pools map snd]. repeat split; auto.
        -- constructor; auto.
        -- intros p' b' Hin [Heq|Hin2].
           ++ subst b'. assert (b < next st) by (apply Hused; right; eapply in_snd; eauto). unfold b in *; lia.
           ++ eapply Hpl; eauto.
      * cbn [refs pools next map snd]. intros b' [[Heq|Hin]|Hin].
        -- subst b'. unfold b. lia.
        -- assert (b' < next st) by (apply Hused; auto). unfold b. lia.
        -- assert (b' < next st) by (apply Hused; auto). unfold b. lia.
      * intro r'. destruct (Nat.eq_dec r' r) as [->|Hne].
        -- exists (mkA (upd (vars s) v (Some n)) (upd (stat s) n (Dirty p)) (S n)), (upd m n b).
           assert (Hmb : forall t, live s t -> m t <> b).
           { intros t Hl He. apply Hnb. rewrite <- He. eapply in_snd. now apply Href. }
           constructor; cbn [rest env refs cont vars stat nxt set_rest].
           ++ now rewrite upd_same.
           ++ intro v'. rewrite bind_same. unfold upd at 1 3. destruct (Nat.eqb v' v).
              ** cbn. now rewrite upd_same.
              ** rewrite Henv. destruct (vars s v') as [t|] eqn:Ev; cbn; [|reflexivity].
                 rewrite upd_other; [reflexivity|]. apply Hvlt in Ev. lia.
           ++ intros v' t. unfold upd. destruct (Nat.eqb v' v).
              ** intro H; injection H as <-. lia.
              ** intro H. apply Hvlt in H. lia.
           ++ intros t Ht. rewrite upd_other by lia. apply Hslt. lia.
           ++ intros t. unfold live. cbn [stat]. destruct (Nat.eq_dec t n) as [->|Hn].
              ** rewrite !upd_same. intros _. left. reflexivity.
              ** rewrite !upd_other by auto. intro Hl. right. now apply Href.
           ++ intros t t'. unfold live. cbn [stat].
              destruct (Nat.eq_dec t n) as [->|Hn], (Nat.eq_dec t' n) as [->|Hn']; upd_simpl; auto.
              ** intros _ Hl He. exfalso. eapply Hmb; eauto.
              ** intros Hl _ He. exfalso. eapply Hmb; eauto.
           ++ intros t q. destruct (Nat.eq_dec t n) as [->|Hn]; upd_simpl; [discriminate|].
              intros Hc x. rewrite (upd_other m n b t Hn). rewrite upd_other; [eauto|]. apply Hmb. unfold live. rewrite Hc. discriminate.
        -- eapply others_keep with (r := r); eauto; cbn [rest env refs cont set_rest].
           ++ intros r0 H0. split; [now apply upd_other | now apply bind_other].
           ++ intros; now right.
           ++ intros r0 b0 H0 Hin. apply upd_other. assert (b0 < next st) by (apply Hused; left; eapply in_snd; eauto). unfold b. lia.
  - (* Put *)
    destruct (vars s v) as [t|] eqn:Ev; [|discriminate].
    assert (Hb : env st r v = Some (m t)) by (rewrite Henv, Ev; reflexivity).
    rewrite Hb in Hs. injection Hs as <- <-.
    assert (Hlt : live s t) by (unfold live; destruct (stat s t); [discriminate Hwb | discriminate | discriminate]).
    assert (Hs' : s' = mkA (vars s) (upd (stat s) t Dead) (nxt s)).
    { destruct (stat s t) as [|q|q]; [discriminate| |]; destruct (Nat.eqb p q); congruence. }
    subst s'.
    pose proof (Href t Hlt) as Hin.
    split; [|split; [cbn; now apply mem_In | intros x []]].
    constructor.
    + unfold exclusive; cbn [refs pools map snd]. repeat split.
      * now apply remove_one_snd_NoDup.
      * intros p' b' [Heq|Hin2].
        -- injection Heq as <- <-. exact (remove_one_snd_notin (r, m t) _ Hnd Hin).
        -- intro Hx. apply remove_one_snd_sub in Hx. eapply Hpl; eauto.
      * constructor; auto. intro Hx. apply in_map_iff in Hx. destruct Hx as [[p' b'] [Hsnd Hx]].
        cbn [snd] in Hsnd. subst b'. eapply Hpl; eauto. eapply in_snd; eauto.
    + cbn [refs pools next map snd]. intros b' [Hx|[Heq|Hx]].
      * apply Hused. left. eapply remove_one_snd_sub; eauto.
      * subst b'. apply Hused. left. eapply in_snd; eauto.
      * apply Hused. auto.
    + intro r'. destruct (Nat.eq_dec r' r) as [->|Hne].
      * exists (mkA (vars s) (upd (stat s) t Dead) (nxt s)), m.
        constructor; cbn [rest env refs cont vars stat nxt set_rest]; auto.
        -- now rewrite upd_same.
        -- intros t0 Ht0. unfold upd. destruct (Nat.eqb t0 t); auto.
        -- intros t0. unfold live. cbn [stat]. destruct (Nat.eq_dec t0 t) as [->|Hn]; upd_simpl; [congruence|].
           intro Hl. apply remove_one_other; [|now apply Href].
           intro Heq. injection Heq as Heq. apply Hn. now apply Hinj.
        -- intros t0 t1. unfold live. cbn [stat].
           destruct (Nat.eq_dec t0 t) as [->|Hn0]; upd_simpl; [congruence|].
           destruct (Nat.eq_dec t1 t) as [->|Hn1]; upd_simpl; [congruence|]. apply Hinj.
        -- intros t0 q. destruct (Nat.eq_dec t0 t) as [->|Hn0]; upd_simpl; [discriminate|]. apply Hcln.
      * eapply others_keep with (r := r); eauto; cbn [rest env refs cont set_rest].
        -- intros r0 H0. split; [now apply upd_other | reflexivity].
        -- intros r0 b0 H0 Hx. apply remove_one_other; [congruence | exact Hx].
  - (* Reset *)
    destruct (vars s v) as [t|] eqn:Ev; [|discriminate].
    assert (Hb : env st r v = Some (m t)) by (rewrite Henv, Ev; reflexivity).
    rewrite Hb in Hs. injection Hs as <- <-.
    assert (Hlt : live s t) by (unfold live; destruct (stat s t); [discriminate Hwb | discriminate | discriminate]).
    assert (Hs' : exists q, s' = mkA (vars s) (upd (stat s) t (Clean q)) (nxt s)).
    { destruct (stat s t) as [|q|q]; [discriminate| |]; exists q; congruence. }
    destruct Hs' as [q ->].
    pose proof (Href t Hlt) as Hin.
    split; [|split; [cbn; now apply mem_In | intros x []]].
    constructor.
    + eapply excl_same; [| |split; [exact Hnd | split; [exact Hpl | exact Hpnd]]]; reflexivity.
    + exact Hused.
    + intro r'. destruct (Nat.eq_dec r' r) as [->|Hne].
      * exists (mkA (vars s) (upd (stat s) t (Clean q)) (nxt s)), m.
        assert (Hlv : forall t0, live (mkA (vars s) (upd (stat s) t (Clean q)) (nxt s)) t0 -> live s t0).
        { intros t0. unfold live. cbn [stat]. destruct (Nat.eq_dec t0 t) as [->|Hn]; upd_simpl; auto. }
        constructor; cbn [rest env refs cont vars stat nxt set_rest]; auto.
        -- now rewrite upd_same.
        -- intros t0 Ht0. rewrite upd_other; [auto|]. intro; subst t0. apply Hlt. auto.
        -- intros t0 q0. destruct (Nat.eq_dec t0 t) as [->|Hn0]; upd_simpl.
           ++ intros _ x [].
           ++ intros Hc x. rewrite upd_other; [eauto|]. intro He. apply Hn0. apply Hinj; auto.
              unfold live. rewrite Hc. discriminate.
      * eapply others_keep with (r := r); eauto; cbn [rest env refs cont set_rest].
        -- intros r0 H0. split; [now apply upd_other | reflexivity].
        -- intros r0 b0 H0 Hx. apply upd_other. intro; subst b0. eapply Huniq; eauto.
  - (* Write *)
    destruct (vars s v) as [t|] eqn:Ev; [|discriminate].
    assert (Hb : env st r v = Some (m t)) by (rewrite Henv, Ev; reflexivity).
    rewrite Hb in Hs. injection Hs as <- <-.
    destruct (stat s t) as [|q|q] eqn:Est; try discriminate. injection Hwb as <-.
    assert (Hlt : live s t) by (unfold live; rewrite Est; discriminate).
    pose proof (Href t Hlt) as Hin.
    split; [|split; [cbn; now apply mem_In | intros x []]].
    constructor.
    + eapply excl_same; [| |split; [exact Hnd | split; [exact Hpl | exact Hpnd]]]; reflexivity.
    + exact Hused.
    + intro r'. destruct (Nat.eq_dec r' r) as [->|Hne].
      * exists s, m. constructor; cbn [rest env refs cont set_rest]; auto.
        -- now rewrite upd_same.
        -- intros t0 q0 Hc x. destruct (Nat.eq_dec (m t0) (m t)) as [He|He].
           ++ rewrite He, upd_same. intros [Hx|Hx]; [auto|]. exact (Hcln t q Est x Hx).
           ++ rewrite upd_other by auto. eauto.
      * eapply others_keep with (r := r); eauto; cbn [rest env refs cont set_rest].
        -- intros r0 H0. split; [now apply upd_other | reflexivity].
        -- intros r0 b0 H0 Hx. apply upd_other. intro; subst b0. eapply Huniq; eauto.
  - (* Read *)
    destruct (vars s v) as [t|] eqn:Ev; [|discriminate].
    assert (Hb : env st r v = Some (m t)) by (rewrite Henv, Ev; reflexivity).
    rewrite Hb in Hs. injection Hs as <- <-.
    destruct (stat s t) as [|q|q] eqn:Est; try discriminate. injection Hwb as <-.
    assert (Hlt : live s t) by (unfold live; rewrite Est; discriminate).
    pose proof (Href t Hlt) as Hin.
    split; [|split; [cbn; now apply mem_In | cbn; intros x Hx; eapply Hcln; eauto]].
    constructor.
    + eapply excl_same; [| |split; [exact Hnd | split; [exact Hpl | exact Hpnd]]]; reflexivity.
    + exact Hused.
    + intro r'. destruct (Nat.eq_dec r' r) as [->|Hne].
      * exists s, m. constructor; cbn [rest env refs cont set_rest]; auto. now rewrite upd_same.
      * eapply others_keep with (r := r); eauto; cbn [rest env refs cont set_rest].
        intros r0 H0. split; [now apply upd_other | reflexivity].
  - (* Alias *)
    destruct (vars s v) as [t|] eqn:Ev; [|discriminate].
    assert (Hb : env st r v = Some (m t)) by (rewrite Henv, Ev; reflexivity).
    rewrite Hb in Hs. injection Hs as <- <-.
    assert (Hlt : live s t) by (unfold live; destruct (stat s t); [discriminate Hwb | discriminate | discriminate]).
    assert (Hs' : s' = mkA (upd (vars s) w (Some t)) (stat s) (nxt s)).
    { destruct (stat s t); [discriminate| |]; congruence. }
    subst s'.
    pose proof (Href t Hlt) as Hin.
    split; [|split; [cbn; now apply mem_In | intros x []]].
    constructor.
    + eapply excl_same; [| |split; [exact Hnd | split; [exact Hpl | exact Hpnd]]]; reflexivity.
    + exact Hused.
    + intro r'. destruct (Nat.eq_dec r' r) as [->|Hne].
      * exists (mkA (upd (vars s) w (Some t)) (stat s) (nxt s)), m.
        constructor; cbn [rest env refs cont vars stat nxt set_rest]; auto.
        -- now rewrite upd_same.
        -- intro v'. rewrite bind_same. unfold upd. destruct (Nat.eqb v' w); [reflexivity | apply Henv].
        -- intros v' t0. unfold upd. destruct (Nat.eqb v' w); [|apply Hvlt].
           intro H; injection H as <-. eapply Hvlt; eauto.
      * eapply others_keep with (r := r); eauto; cbn [rest env refs cont set_rest].
        intros r0 H0. split; [now apply upd_other | now apply bind_other].
  - (* CopyOut *)
    destruct (vars s v) as [t|] eqn:Ev; [|discriminate].
    assert (Hb : env st r v = Some (m t)) by (rewrite Henv, Ev; reflexivity).
    rewrite Hb in Hs. injection Hs as <- <-.
    destruct (stat s t) as [|q|q] eqn:Est; try discriminate. injection Hwb as <-.
    assert (Hlt : live s t) by (unfold live; rewrite Est; discriminate).
    pose proof (Href t Hlt) as Hin.
    split; [|split; [cbn; now apply mem_In | cbn; intros x Hx; eapply Hcln; eauto]].
    constructor.
    + eapply excl_same; [| |split; [exact Hnd | split; [exact Hpl | exact Hpnd]]]; reflexivity.
    + exact Hused.
    + intro r'. destruct (Nat.eq_dec r' r) as [->|Hne].
      * exists (mkA (upd (vars s) w None) (stat s) (nxt s)), m.
        constructor; cbn [rest env refs cont vars stat nxt set_rest]; auto.
        -- now rewrite upd_same.
        -- intro v'. rewrite bind_same. unfold upd. destruct (Nat.eqb v' w); [reflexivity | apply Henv].
        -- intros v' t0. unfold upd. destruct (Nat.eqb v' w); [discriminate | apply Hvlt].
      * eapply others_keep with (r := r); eauto; cbn [rest env refs cont set_rest].
        intros r0 H0. split; [now apply upd_other | now apply bind_other].
  - (* Retain: only of something that is not a pooled object *)
    destruct (vars s v) as [t|] eqn:Ev; [discriminate|]. injection Hwb as <-.
    assert (Hb : env st r v = None) by (rewrite Henv, Ev; reflexivity).
    rewrite Hb in Hs. injection Hs as <- <-.
    split; [|split; [reflexivity | intros x []]].
    constructor.
    + eapply excl_same; [| |split; [exact Hnd | split; [exact Hpl | exact Hpnd]]]; reflexivity.
    + exact Hused.
    + intro r'. destruct (Nat.eq_dec r' r) as [->|Hne].
      * exists s, m. constructor; cbn [rest env refs cont set_rest]; auto. now rewrite upd_same.
      * eapply others_keep with (r := r); eauto; cbn [rest env refs cont set_rest].
        intros r0 H0. split; [now apply upd_other | reflexivity].
  - (* Escape *) discriminate.
Qed.

Lemma run_preserves sched : forall st st' ls,
  Inv st -> run st sched = Some (st', ls) -> Inv st' /\ Forall access_ok ls.
Proof.
  induction sched as [|[r c] sched IH]; intros st st' ls HI Hr; cbn [run] in Hr.
  - injection Hr as <- <-. split; [exact HI | constructor].
  - destruct (step st r c) as [[st1 l]|] eqn:Hs; [|discriminate].
    destruct (run st1 sched) as [[st2 ls2]|] eqn:Hr2; [|discriminate].
    injection Hr as <- <-.
    destruct (step_preserves _ _ _ _ _ HI Hs) as [HI1 Hl].
    destruct (IH _ _ _ HI1 Hr2) as [HI2 Hls].
    split; [exact HI2 | constructor; assumption].
Qed.

(* the main statement: any number of requests (all r : nat), any scripts, any schedule *)
Theorem exclusive_all_interleavings :
  forall (scripts : rid -> script),
    (forall r, well_bracketed (scripts r) = true) ->
    forall sched st ls, run (init scripts) sched = Some (st, ls) ->
      exclusive st /\ Forall access_ok ls.
Proof.
  intros scripts Hwb sched st ls Hr.
  destruct (run_preserves sched _ _ _ (init_inv scripts Hwb) Hr) as [HI Hls].
  split; [exact (i_excl _ HI) | exact Hls].
Qed.

(* holding is exclusive: in an exclusive state an object a request holds is held by nobody else
   and lies in no pool *)
Lemma exclusive_holder st r r' b :
  exclusive st -> In (r, b) (refs st) -> In (r', b) (refs st) -> r = r'.
Proof. intros [H _]. now apply snd_unique. Qed.

Lemma exclusive_not_pooled st r p b :
  exclusive st -> In (r, b) (refs st) -> ~ In (p, b) (pools st).
Proof. intros [_ [H _]] Hin Hp. eapply H; eauto. eapply in_snd; eauto. Qed.

(* scripts drawn from a list of well-bracketed scripts *)
Theorem exclusive_for_script_set (all : list script) :
  forallb well_bracketed all = true ->
  forall scripts : rid -> script, (forall r, In (scripts r) all \/ scripts r = []) ->
  forall sched st ls, run (init scripts) sched = Some (st, ls) ->
    exclusive st /\ Forall access_ok ls.
Proof.
  intros Hall scripts Hin. apply exclusive_all_interleavings.
  intro r. destruct (Hin r) as [H|H].
  - rewrite forallb_forall in Hall. now apply Hall.
  - rewrite H. reflexivity.
Qed.

(* the checker never accepts a script that keeps using what it released *)
Lemma wb_run_app s a b : wb_run s (a ++ b) = true -> wb_run s a = true.
Proof.
  revert s. induction a as [|e a IH]; intros s; cbn [wb_run app]; [reflexivity|].
  destruct (wb_step s e); [apply IH | discriminate].
Qed.

Lemma well_bracketed_prefix a b : well_bracketed (a ++ b) = true -> well_bracketed a = true.
Proof. apply wb_run_app. Qed.

(* boolean reflections used by the Examples *)
Lemma nodupb_NoDup l : nodupb l = true -> NoDup l.
Proof.
  induction l as [|x l IH]; cbn [nodupb]; [constructor|].
  rewrite andb_true_iff, negb_true_iff. intros [H1 H2]. constructor; [|auto].
  intro Hin. assert (existsb (Nat.eqb x) l = true) by (apply existsb_exists; exists x; split; [auto | apply Nat.eqb_refl]).
  congruence.
Qed.

Lemma exclusive_b_false st : exclusive_b st = false -> ~ exclusive st.
Proof.
  intros Hb [H1 [H2 H3]]. unfold exclusive_b in Hb.
  assert (Hn : forall l, NoDup l -> nodupb l = true).
  { induction 1 as [|x l Hx Hd IH]; cbn [nodupb]; [reflexivity|]. rewrite IH, andb_true_r, negb_true_iff.
    destruct (existsb (Nat.eqb x) l) eqn:E; [|reflexivity]. apply existsb_exists in E. destruct E as [y [Hy Hxy]].
    apply Nat.eqb_eq in Hxy. subst y. contradiction. }
  rewrite (Hn _ H1), (Hn _ H3) in Hb. cbn [andb] in Hb.
  assert (forallb (fun pb => negb (existsb (Nat.eqb (snd pb)) (map snd (refs st)))) (pools st) = true).
  { apply forallb_forall. intros [p b] Hin. cbn [snd]. rewrite negb_true_iff.
    destruct (existsb (Nat.eqb b) (map snd (refs st))) eqn:E; [|reflexivity].
    apply existsb_exists in E. destruct E as [y [Hy Hby]]. apply Nat.eqb_eq in Hby. subst y.
    exfalso. eapply H2; eauto. }
  congruence.
Qed.

Lemma access_ok_b_false l : access_ok_b l = false -> ~ access_ok l.
Proof.
  intros Hb [H1 H2]. unfold access_ok_b in Hb. rewrite H1 in Hb. cbn [andb] in Hb.
  assert (forallb (Nat.eqb (who l)) (saw l) = true).
  { apply forallb_forall. intros x Hx. apply Nat.eqb_eq. symmetry. auto. }
  congruence.
Qed.

(* ---------- the gzip-reader lifecycle model ---------- *)

(* whatever the schedule, a request only ever observes its own payload or EOF -- never another
   request's bytes: the observation of an operation does not depend on what other requests did *)
Lemma gfind_gset_same r d l : gfind r (gset r d l) = Some d.
Proof.
  induction l as [|[x e] l IH]; cbn [gset gfind].
  - now rewrite Nat.eqb_refl.
  - destruct (Nat.eqb x r) eqn:E; cbn [gfind]; rewrite E; auto.
Qed.

Lemma gfind_gset_other r r' d l : r' <> r -> gfind r' (gset r d l) = gfind r' l.
Proof.
  intro Hne. induction l as [|[x e] l IH]; cbn [gset gfind].
  - apply Nat.eqb_neq in Hne. rewrite Nat.eqb_sym in Hne. now rewrite Hne.
  - destruct (Nat.eqb x r) eqn:E; cbn [gfind].
    + apply Nat.eqb_eq in E. subst x. assert (Hf : Nat.eqb r r' = false) by (apply Nat.eqb_neq; congruence).
      now rewrite Hf.
    + destruct (Nat.eqb x r'); auto.
Qed.

Definition gop_rid (o : gop) : rid := match o with GOpen r | GReadAll r | GReadMore r => r end.

(* the view request r has of the pool: only its own wrapper *)
Lemma gstep_local g o r :
  gop_rid o <> r -> gfind r (gopen (fst (gstep g o))) = gfind r (gopen g).
Proof.
  intro Hne. destruct o as [x|x|x]; cbn [gop_rid] in Hne; cbn [gstep].
  - cbn. apply gfind_gset_other; congruence.
  - destruct (gfind x (gopen g)) as [[|]|]; cbn; auto; apply gfind_gset_other; congruence.
  - destruct (gfind x (gopen g)) as [[|]|]; cbn; auto; apply gfind_gset_other; congruence.
Qed.

(* the observation of r's operation is a function of r's own wrapper state alone *)
Lemma gstep_obs_own g g' o :
  gfind (gop_rid o) (gopen g) = gfind (gop_rid o) (gopen g') ->
  snd (gstep g o) = snd (gstep g' o) /\
  gfind (gop_rid o) (gopen (fst (gstep g o))) = gfind (gop_rid o) (gopen (fst (gstep g' o))).
Proof.
  destruct o as [x|x|x]; cbn [gop_rid gstep]; intro H.
  - cbn. rewrite !gfind_gset_same. auto.
  - destruct (gfind x (gopen g)) as [[|]|] eqn:E; rewrite <- H; cbn; rewrite ?gfind_gset_same; split; congruence.
  - destruct (gfind x (gopen g)) as [[|]|] eqn:E; rewrite <- H; cbn; rewrite ?gfind_gset_same; split; congruence.
Qed.
