(* Lemmas about the flattened message representation, params.set and the parameter order of
   serveHTTP (C07), and about parseParam (C03). *)
From Larking Require Import Base.GoSem Base.B64 Model.Schema Model.Params Model.Transcode.
Local Open Scope N_scope.

(* ---------- paths and lookup ---------- *)
Lemma path_eqb_eq p q : path_eqb p q = true <-> p = q.
Proof. apply list_eqb_eq. intros; apply N.eqb_eq. Qed.
Lemma path_eqb_refl p : path_eqb p p = true.
Proof. apply path_eqb_eq; reflexivity. Qed.
Lemma path_eqb_neq p q : p <> q -> path_eqb p q = false.
Proof. intros H. destruct (path_eqb p q) eqn:E; auto. apply path_eqb_eq in E. contradiction. Qed.

Lemma is_prefix_app p r : is_prefix p (p ++ r) = true.
Proof. induction p as [|a p IH]; cbn; auto. rewrite N.eqb_refl. exact IH. Qed.
Lemma is_prefix_spec p q : is_prefix p q = true <-> exists r, q = p ++ r.
Proof.
  revert q. induction p as [|a p IH]; intros q; cbn.
  - split; eauto.
  - destruct q as [|b q]; [split; [discriminate|intros [r H]; discriminate]|].
    rewrite andb_true_iff, N.eqb_eq, IH. split.
    + intros [-> [r ->]]. eauto.
    + intros [r H]. inversion H; subst. eauto.
Qed.
Lemma is_prefix_trans p q r : is_prefix p q = true -> is_prefix q r = true -> is_prefix p r = true.
Proof.
  rewrite !is_prefix_spec. intros [a ->] [b ->]. exists (a ++ b). now rewrite app_assoc.
Qed.

Lemma lookup_filter (f : path -> bool) p M :
  lookup p (filter (fun qe => f (fst qe)) M) = if f p then lookup p M else None.
Proof.
  induction M as [|[q e] M IH]; cbn [filter lookup fst].
  - destruct (f p); reflexivity.
  - destruct (f q) eqn:Fq; cbn [lookup].
    + destruct (path_eqb p q) eqn:E.
      * apply path_eqb_eq in E. subst. rewrite Fq. reflexivity.
      * exact IH.
    + destruct (path_eqb p q) eqn:E.
      * apply path_eqb_eq in E. subst. rewrite Fq in *. rewrite IH. reflexivity.
      * exact IH.
Qed.

Lemma lookup_remove_under p q M :
  lookup p (remove_under q M) = if is_prefix q p then None else lookup p M.
Proof.
  unfold remove_under. rewrite (lookup_filter (fun x => negb (is_prefix q x))).
  destruct (is_prefix q p); reflexivity.
Qed.
Lemma lookup_put p q e M :
  lookup p (put q e M) = if path_eqb p q then Some e else lookup p M.
Proof.
  unfold put. cbn [lookup]. destruct (path_eqb p q) eqn:E; auto.
  rewrite (lookup_filter (fun x => negb (path_eqb q x))).
  destruct (path_eqb q p) eqn:E2; auto.
  apply path_eqb_eq in E2. subst. rewrite path_eqb_refl in E. discriminate.
Qed.
Lemma lookup_app p A B :
  lookup p (A ++ B) = match lookup p A with Some e => Some e | None => lookup p B end.
Proof.
  induction A as [|[q e] A IH]; cbn; auto. destruct (path_eqb p q); auto.
Qed.
Lemma lookup_graft_in p r t : lookup (p ++ r) (graft p t) = lookup r t.
Proof.
  induction t as [|[q e] t IH]; cbn; auto.
  destruct (path_eqb r q) eqn:E.
  - apply path_eqb_eq in E. subst. rewrite path_eqb_refl. reflexivity.
  - rewrite path_eqb_neq; auto. intros H. apply app_inv_head in H. subst. rewrite path_eqb_refl in E. discriminate.
Qed.
Lemma lookup_graft_out p q t : is_prefix p q = false -> lookup q (graft p t) = None.
Proof.
  intros H. induction t as [|[x e] t IH]; cbn; auto.
  rewrite path_eqb_neq; auto. intros ->. rewrite is_prefix_app in H. discriminate.
Qed.

Lemma lookup_clear_list ns pp p M :
  lookup p (fold_left (fun acc n => remove_under (pp ++ [n]) acc) ns M) =
  if existsb (fun n => is_prefix (pp ++ [n]) p) ns then None else lookup p M.
Proof.
  revert M. induction ns as [|n ns IH]; intros M; cbn [fold_left existsb]; auto.
  rewrite IH, lookup_remove_under.
  destruct (is_prefix (pp ++ [n]) p); cbn [orb].
  - destruct (existsb _ ns); reflexivity.
  - reflexivity.
Qed.
Lemma lookup_clear_sibs pf fd pp p M :
  lookup p (clear_sibs pf fd pp M) =
  if existsb (fun n => is_prefix (pp ++ [n]) p) (sibs pf fd) then None else lookup p M.
Proof. apply lookup_clear_list. Qed.

(* a path that continues pp with n is under pp ++ [m] only if m = n *)
Lemma is_prefix_snoc pp m n q : is_prefix (pp ++ [m]) (pp ++ n :: q) = (m =? n).
Proof.
  induction pp as [|a pp IH]; cbn.
  - destruct (m =? n); reflexivity.
  - rewrite N.eqb_refl. exact IH.
Qed.
Lemma existsb_snoc_prefix pp ns n q :
  existsb (fun m => is_prefix (pp ++ [m]) (pp ++ n :: q)) ns = existsb (N.eqb n) ns.
Proof.
  induction ns as [|m ns IH]; cbn; auto. rewrite is_prefix_snoc, IH, (N.eqb_sym m n). reflexivity.
Qed.
Lemma sibs_not_self pf fd : existsb (N.eqb (f_num fd)) (sibs pf fd) = false.
Proof.
  unfold sibs. induction pf as [|g pf IH]; cbn; auto.
  destruct (same_oneof fd g && negb (f_num g =? f_num fd)) eqn:E; cbn; auto.
  rewrite IH. apply andb_true_iff in E. destruct E as [_ E].
  rewrite (N.eqb_sym (f_num fd)). destruct (f_num g =? f_num fd); cbn in *; auto; discriminate.
Qed.

(* ---------- what one params.set iteration touches ---------- *)

(* the image of a value at its field: entries relative to the field's path *)
Definition field_image (fd : field) (v : pval) : subtree :=
  match v with
  | PScalar s => if negb (f_pres fd) && is_default s then [] else [([], ELeaf s)]
  | PMsg t => ([], EPresent) :: t
  end.

Definition last_step (fds : list step) : step := last fds ([], mkField 0 [] [] KBool Singular None false).
Definition singular_last (fds : list step) : Prop := f_card (snd (last_step fds)) = Singular.

Lemma app_cons_assoc {A} (l : list A) x r : (l ++ [x]) ++ r = l ++ x :: r.
Proof. rewrite <- app_assoc. reflexivity. Qed.

Lemma lookup_set_field st pp v M r :
  lookup ((pp ++ [f_num (snd st)]) ++ r) (set_field st pp v M) = lookup r (field_image (snd st) v).
Proof.
  unfold set_field. set (p := pp ++ [f_num (snd st)]).
  set (M1 := remove_under p (clear_sibs (fst st) (snd st) pp M)).
  assert (H1 : lookup (p ++ r) M1 = None).
  { unfold M1. rewrite lookup_remove_under, is_prefix_app. reflexivity. }
  destruct v as [s|t]; cbn [field_image].
  - destruct (negb (f_pres (snd st)) && is_default s).
    + rewrite H1. reflexivity.
    + rewrite lookup_put, H1. cbn [lookup].
      destruct r as [|a r].
      * rewrite app_nil_r, path_eqb_refl. reflexivity.
      * rewrite path_eqb_neq.
        -- reflexivity.
        -- intros E. rewrite <- (app_nil_r p) in E at 2. apply app_inv_head in E. discriminate.
  - rewrite lookup_app, lookup_put, H1, lookup_graft_in. cbn [lookup].
    destruct r as [|a r].
    + rewrite app_nil_r, path_eqb_refl. reflexivity.
    + rewrite path_eqb_neq.
      * reflexivity.
      * intros E. rewrite <- (app_nil_r p) in E at 2. apply app_inv_head in E. discriminate.
Qed.

Lemma set_walk_wins : forall fds pp v M M' r,
  fds <> [] -> singular_last fds -> set_walk fds pp v M = Ok M' ->
  lookup (pp ++ steps_path fds ++ r) M' = lookup r (field_image (snd (last_step fds)) v).
Proof.
  induction fds as [|st rest IH]; intros pp v M M' r Hne Hs H; [congruence|].
  destruct rest as [|st2 rest2].
  - cbn [set_walk] in H. unfold singular_last, last_step in Hs. cbn [last] in Hs. rewrite Hs in H.
    inversion H; subst. unfold last_step. cbn [last steps_path map app].
    rewrite <- app_cons_assoc. apply lookup_set_field.
  - cbn [set_walk] in H.
    destruct (f_card (snd st)); try discriminate; destruct (field_msg (snd st)); try discriminate.
    specialize (IH (pp ++ [step_num st]) v _ M' r ltac:(discriminate) Hs H).
    unfold last_step in *. cbn [last] in *.
    cbn [steps_path map] in *. rewrite app_cons_assoc in IH. exact IH.
Qed.

(* a path q (relative to the current message) that one iteration for fds cannot change *)
Fixpoint untouched (fds : list step) (q : path) : bool :=
  match fds with
  | [] => true
  | st :: rest =>
    match q with
    | [] => false
    | n :: q' =>
      if n =? step_num st then (match rest with [] => false | _ => untouched rest q' end)
      else negb (existsb (N.eqb n) (sibs (fst st) (snd st)))
    end
  end.

Lemma untouched_app fds : forall q r, untouched fds q = true -> untouched fds (q ++ r) = true.
Proof.
  induction fds as [|st rest IH]; intros q r H; auto.
  destruct q as [|n q']; [discriminate|]. cbn [untouched app] in *.
  destruct (n =? step_num st); auto. destruct rest; [discriminate|]. apply IH. exact H.
Qed.

(* frame: an iteration starting with step st at pp changes nothing outside pp.[st] and pp.[sibling] *)
Lemma lookup_mutable_msg st pp M p :
  is_prefix (pp ++ [step_num st]) p = false ->
  existsb (fun n => is_prefix (pp ++ [n]) p) (sibs (fst st) (snd st)) = false ->
  lookup p (mutable_msg st pp M) = lookup p M.
Proof.
  intros H1 H2. unfold mutable_msg.
  destruct (lookup (pp ++ [step_num st]) M) as [[| |]|]; auto;
    rewrite lookup_put, lookup_clear_sibs, H2;
    (rewrite path_eqb_neq; [reflexivity|intros ->; rewrite <- (app_nil_r (pp ++ _)) in H1 at 2; rewrite is_prefix_app in H1; discriminate]).
Qed.

Lemma set_walk_frame : forall fds pp v M M' p st rest,
  fds = st :: rest -> set_walk fds pp v M = Ok M' ->
  is_prefix (pp ++ [step_num st]) p = false ->
  existsb (fun n => is_prefix (pp ++ [n]) p) (sibs (fst st) (snd st)) = false ->
  lookup p M' = lookup p M.
Proof.
  induction fds as [|st0 rest0 IH]; intros pp v M M' p st rest E H H1 H2; [discriminate|].
  inversion E; subst st0 rest0. clear E.
  destruct rest as [|st2 rest2].
  - cbn [set_walk] in H. destruct (f_card (snd st)) eqn:C; inversion H; subst; clear H.
    + unfold set_field. fold (step_num st).
      assert (R : lookup p (remove_under (pp ++ [step_num st]) (clear_sibs (fst st) (snd st) pp M)) = lookup p M).
      { rewrite lookup_remove_under, H1, lookup_clear_sibs, H2. reflexivity. }
      assert (NE : path_eqb p (pp ++ [step_num st]) = false).
      { apply path_eqb_neq. intros ->. rewrite <- (app_nil_r (pp ++ _)) in H1 at 2. rewrite is_prefix_app in H1. discriminate. }
      destruct v as [s|t].
      * destruct (negb (f_pres (snd st)) && is_default s); [exact R|]. rewrite lookup_put, NE. exact R.
      * rewrite lookup_app, lookup_put, NE, R, lookup_graft_out by exact H1. destruct (lookup p M); reflexivity.
    + unfold append_field.
      assert (NE : path_eqb p (pp ++ [step_num st]) = false).
      { apply path_eqb_neq. intros ->. rewrite <- (app_nil_r (pp ++ _)) in H1 at 2. rewrite is_prefix_app in H1. discriminate. }
      destruct (lookup (pp ++ [step_num st]) M) as [[| |]|]; rewrite lookup_put, NE; reflexivity.
  - cbn [set_walk] in H.
    destruct (f_card (snd st)); try discriminate; destruct (field_msg (snd st)); try discriminate.
    rewrite (IH (pp ++ [step_num st]) v _ M' p st2 rest2 eq_refl H).
    + apply lookup_mutable_msg; assumption.
    + destruct (is_prefix ((pp ++ [step_num st]) ++ [step_num st2]) p) eqn:E; auto.
      assert (T : is_prefix (pp ++ [step_num st]) p = true).
      { eapply is_prefix_trans; [|exact E]. apply is_prefix_app. }
      congruence.
    + apply not_true_is_false. intros E. apply existsb_exists in E. destruct E as [sb [_ E]].
      assert (T : is_prefix (pp ++ [step_num st]) p = true).
      { eapply is_prefix_trans; [|exact E]. apply is_prefix_app. }
      congruence.
Qed.

Lemma set_walk_untouched : forall fds pp v M M' q,
  untouched fds q = true -> set_walk fds pp v M = Ok M' -> lookup (pp ++ q) M' = lookup (pp ++ q) M.
Proof.
  induction fds as [|st rest IH]; intros pp v M M' q U H.
  - cbn in H. inversion H; reflexivity.
  - destruct q as [|n q']; [discriminate|]. cbn [untouched] in U.
    destruct (n =? step_num st) eqn:E.
    + apply N.eqb_eq in E. subst n. destruct rest as [|st2 rest2]; [discriminate|].
      cbn [set_walk] in H.
      destruct (f_card (snd st)); try discriminate; destruct (field_msg (snd st)); try discriminate.
      destruct q' as [|n2 q2]; [destruct rest2; cbn in U; discriminate|].
      rewrite <- app_cons_assoc.
      rewrite (IH (pp ++ [step_num st]) v _ M' (n2 :: q2) U H).
      rewrite app_cons_assoc.
      unfold mutable_msg. destruct (lookup (pp ++ [step_num st]) M) as [[| |]|]; auto;
        rewrite lookup_put, lookup_clear_sibs, existsb_snoc_prefix, (sibs_not_self (fst st) (snd st) : existsb (N.eqb (step_num st)) _ = false);
        (rewrite path_eqb_neq; [reflexivity|
          intros X; rewrite <- app_cons_assoc in X; rewrite <- (app_nil_r (pp ++ [step_num st])) in X at 2;
          apply app_inv_head in X; discriminate]).
    + eapply set_walk_frame; [reflexivity|exact H| |].
      * rewrite is_prefix_snoc, N.eqb_sym. exact E.
      * rewrite existsb_snoc_prefix. apply negb_true_iff. exact U.
Qed.

(* ---------- params.set over a slice ---------- *)
Lemma params_set_app A B M :
  params_set (A ++ B) M = (do M1 <- params_set A M; params_set B M1).
Proof.
  revert M. induction A as [|a A IH]; intros M; cbn; auto.
  destruct (set_param a M); cbn; auto.
Qed.

Lemma params_set_untouched : forall post M M' q,
  (forall p, In p post -> untouched (fst p) q = true) ->
  params_set post M = Ok M' -> lookup q M' = lookup q M.
Proof.
  induction post as [|p post IH]; intros M M' q U H.
  - cbn in H. inversion H; reflexivity.
  - cbn [params_set] in H. destruct (set_param p M) as [M1| | |] eqn:E; cbn [bind] in H; try discriminate.
    assert (U' : forall x, In x post -> untouched (fst x) q = true) by (intros x Hx; apply U; now right).
    rewrite (IH M1 M' q U' H).
    unfold set_param in E. apply (set_walk_untouched (fst p) [] (snd p) M M1 q); auto. apply U. now left.
Qed.

Lemma params_set_wins : forall pre fds v post M M' r,
  fds <> [] -> singular_last fds ->
  (forall p, In p post -> untouched (fst p) (steps_path fds) = true) ->
  params_set (pre ++ (fds, v) :: post) M = Ok M' ->
  lookup (steps_path fds ++ r) M' = lookup r (field_image (snd (last_step fds)) v).
Proof.
  intros pre fds v post M M' r Hne Hs U H.
  rewrite params_set_app in H. destruct (params_set pre M) as [M1| | |]; cbn [bind] in H; try discriminate.
  cbn [params_set] in H.
  destruct (set_param (fds, v) M1) as [M2| | |] eqn:E; cbn [bind] in H; try discriminate.
  assert (U' : forall p, In p post -> untouched (fst p) (steps_path fds ++ r) = true).
  { intros p Hp. apply untouched_app. apply U. exact Hp. }
  rewrite (params_set_untouched post M2 M' (steps_path fds ++ r) U' H).
  unfold set_param in E. cbn [fst snd] in E.
  exact (set_walk_wins fds [] v M1 M2 r Hne Hs E).
Qed.

(* ---------- the parameter order of serveHTTP ---------- *)
Section Order.
Variable ofloat : bool -> bytes -> option N.
Variable owkt : wkt -> bool -> bytes -> option subtree.
Variable unmarshal : nat -> nat -> bytes -> option subtree.
Variable inflate : bytes -> option bytes.

Lemma path_params_split : forall sch vcs ps i fds c,
  path_params ofloat owkt sch vcs = Ok ps -> nth_error vcs i = Some (fds, c) -> fds <> [] ->
  exists pre v post, ps = pre ++ (fds, v) :: post /\ parse_param ofloat owkt sch fds c = Ok v /\
    forall p, In p post -> exists j c', (j < i)%nat /\ nth_error vcs j = Some (fst p, c').
Proof.
  induction vcs as [|[f0 c0] vcs IH]; intros ps i fds c H Hn Hne.
  - destruct i; discriminate.
  - cbn [path_params] in H.
    destruct (path_params ofloat owkt sch vcs) as [ps0| | |] eqn:E; cbn [bind] in H; try discriminate.
    assert (Hps : exists x, ps = ps0 ++ [(f0, x)] /\ (f0 <> [] -> parse_param ofloat owkt sch f0 c0 = Ok x)).
    { destruct f0 as [|s0 f0'].
      - inversion H; subst. eexists; split; [reflexivity|congruence].
      - destruct (parse_param ofloat owkt sch (s0 :: f0') c0) as [x| | |]; try discriminate.
        inversion H; subst. eexists; split; [reflexivity|auto]. }
    destruct Hps as [x [-> Hx]].
    destruct i as [|i].
    + cbn in Hn. inversion Hn; subst. exists ps0, x, []. split; [reflexivity|]. split; [auto|]. intros p [].
    + cbn [nth_error] in Hn. destruct (IH ps0 i fds c eq_refl Hn Hne) as [pre [v [post [-> [Hv Hp]]]]].
      exists pre, v, (post ++ [(f0, x)]). split; [rewrite <- app_assoc; reflexivity|]. split; [exact Hv|].
      intros p Hin. apply in_app_or in Hin. destruct Hin as [Hin|[<-|[]]].
      * destruct (Hp p Hin) as [j [c' [Hj Hnth]]]. exists (S j), c'. split; [lia|exact Hnth].
      * exists O, c0. split; [lia|reflexivity].
Qed.

Lemma nth_error_combine {A B} : forall (l : list A) (l' : list B) i a b,
  nth_error l i = Some a -> nth_error l' i = Some b -> nth_error (combine l l') i = Some (a, b).
Proof.
  induction l as [|x l IH]; intros l' i a b H1 H2; destruct i; try discriminate; destruct l' as [|y l']; try discriminate; cbn in *.
  - congruence.
  - auto.
Qed.
Lemma nth_error_combine_fst {A B} : forall (l : list A) (l' : list B) i a b,
  nth_error (combine l l') i = Some (a, b) -> nth_error l i = Some a.
Proof.
  induction l as [|x l IH]; intros l' i a b H; destruct l' as [|y l']; destruct i; cbn in *; try discriminate.
  - congruence.
  - eauto.
Qed.

(* the variables of a rule do not write into each other's fields *)
Definition vars_independent (r : rule) : Prop :=
  forall i j fi fj, i <> j -> nth_error (r_vars r) i = Some fi -> nth_error (r_vars r) j = Some fj ->
    untouched fj (steps_path fi) = true.

Theorem path_wins : forall sch r rq M i fds c,
  vars_independent r ->
  nth_error (r_vars r) i = Some fds -> fds <> [] -> singular_last fds ->
  nth_error (q_caps rq) i = Some c ->
  decode_request ofloat owkt unmarshal inflate sch r rq = Ok M ->
  exists v, parse_param ofloat owkt sch fds c = Ok v /\
    forall rel, lookup (steps_path fds ++ rel) M = lookup rel (field_image (snd (last_step fds)) v).
Proof.
  intros sch r rq M i fds c Hind Hv Hne Hs Hc H.
  unfold decode_request in H.
  destruct (path_params ofloat owkt sch (combine (r_vars r) (q_caps rq))) as [ps| | |] eqn:Ep; cbn [bind] in H; try discriminate.
  destruct (parse_query ofloat owkt sch (msg_fields sch (r_input r)) (q_query rq)) as [qs| | |]; cbn [bind] in H; try discriminate.
  destruct (if q_gzip rq then _ else _); try discriminate.
  unfold recv_first in H.
  destruct (match r_body r with BNone => _ | BStar => _ | BField _ => _ end) as [M0| | |]; cbn [bind] in H; try discriminate.
  destruct (path_params_split sch _ ps i fds c Ep (nth_error_combine _ _ _ _ _ Hv Hc) Hne) as [pre [v [post [-> [Hpv Hpost]]]]].
  exists v. split; [exact Hpv|]. intros rel.
  rewrite app_assoc in H.
  apply (params_set_wins (qs ++ pre) fds v post M0 M rel Hne Hs); [|exact H].
  intros p Hp. destruct (Hpost p Hp) as [j [c' [Hj Hnth]]].
  apply nth_error_combine_fst in Hnth.
  apply (Hind i j fds (fst p)); auto. lia.
Qed.
End Order.

(* a decision procedure for vars_independent *)
Definition vars_indep_b (vs : list (list step)) : bool :=
  forallb (fun i => forallb (fun j =>
    Nat.eqb i j ||
    match nth_error vs i, nth_error vs j with
    | Some fi, Some fj => untouched fj (steps_path fi)
    | _, _ => true
    end) (seq 0 (length vs))) (seq 0 (length vs)).
Lemma vars_indep_b_ok r : vars_indep_b (r_vars r) = true -> vars_independent r.
Proof.
  intros H i j fi fj Hij Hi Hj. unfold vars_indep_b in H.
  rewrite forallb_forall in H.
  assert (Li : (i < length (r_vars r))%nat) by (apply nth_error_Some; congruence).
  assert (Lj : (j < length (r_vars r))%nat) by (apply nth_error_Some; congruence).
  specialize (H i ltac:(apply in_seq; lia)). rewrite forallb_forall in H.
  specialize (H j ltac:(apply in_seq; lia)). rewrite Hi, Hj in H.
  apply orb_true_iff in H. destruct H as [H|H]; [apply Nat.eqb_eq in H; contradiction|exact H].
Qed.
