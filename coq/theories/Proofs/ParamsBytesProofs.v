(* parse_bytes: every spelling (standard / URL alphabet, padded / unpadded) of a byte string is
   accepted and decodes to that byte string; and whatever parse_bytes accepts is a base64 decoding. *)
From Larking Require Import Base.GoSem Base.B64 Model.Schema Model.Params.
Local Open Scope N_scope.

(* ---- three-at-a-time induction ---- *)
Lemma list3_ind {A} (P : list A -> Prop) :
  P [] -> (forall a, P [a]) -> (forall a b, P [a; b]) ->
  (forall a b c r, P r -> P (a :: b :: c :: r)) -> forall m, P m.
Proof.
  intros H0 H1 H2 H3. fix IH 1. intros [|a [|b [|c r]]].
  - exact H0.
  - apply H1.
  - apply H2.
  - apply H3. apply IH.
Qed.

Lemma Forall3_inv {A} (P : A -> Prop) a b c r :
  Forall P (a :: b :: c :: r) -> P a /\ P b /\ P c /\ Forall P r.
Proof.
  intros H. inversion H as [|? ? Ha H']; subst. inversion H' as [|? ? Hb H'']; subst.
  inversion H'' as [|? ? Hc Hr]; subst. auto.
Qed.

(* ---- facts about the alphabets ---- *)
Lemma b64_char_not_crlf url v : v < 64 -> is_crlf (b64_char url v) = false.
Proof.
  intros H. unfold is_crlf, b64_char.
  destruct (v <? 26) eqn:A; [lia|]. destruct (v <? 52) eqn:B; [lia|].
  destruct (v <? 62) eqn:C; [lia|]. destruct (v =? 62) eqn:D; destruct url; reflexivity.
Qed.

Lemma b64_char_std_not_url v : v < 64 -> is_url_char (b64_char false v) = false.
Proof.
  intros H. unfold is_url_char, b64_char.
  destruct (v <? 26) eqn:A; [lia|]. destruct (v <? 52) eqn:B; [lia|].
  destruct (v <? 62) eqn:C; [lia|]. destruct (v =? 62) eqn:D; reflexivity.
Qed.

Lemma b64_char_url_eq v : v < 64 -> is_url_char (b64_char true v) = false ->
  b64_char true v = b64_char false v.
Proof.
  intros H. unfold is_url_char, b64_char.
  destruct (v <? 26) eqn:A; [reflexivity|]. destruct (v <? 52) eqn:B; [reflexivity|].
  destruct (v <? 62) eqn:C; [reflexivity|]. destruct (v =? 62) eqn:D; cbn; discriminate.
Qed.

Lemma tail1 a : (a mod 4) * 16 < 64.
Proof. pose proof (N.mod_lt a 4). lia. Qed.
Lemma tail2 b : (b mod 16) * 4 < 64.
Proof. pose proof (N.mod_lt b 16). lia. Qed.

(* ---- (1) an encoding contains no CR / LF ---- *)
Lemma strip_crlf_id s : Forall (fun c => is_crlf c = false) s -> strip_crlf s = s.
Proof.
  unfold strip_crlf. induction 1 as [|c s Hc _ IH]; cbn [filter]; [reflexivity|].
  rewrite Hc. cbn [negb]. f_equal. exact IH.
Qed.

Lemma b64_encode_no_crlf url pad : forall m, Forall (fun b => b < 256) m ->
  Forall (fun c => is_crlf c = false) (b64_encode url pad m).
Proof.
  induction m as [|a|a b|a b c r IH] using list3_ind; intros H; cbn [b64_encode].
  - constructor.
  - inversion H as [|? ? Ha _]; subst.
    repeat constructor; try (apply b64_char_not_crlf; auto using sext1, tail1).
    destruct pad; repeat constructor.
  - inversion H as [|? ? Ha H']; subst. inversion H' as [|? ? Hb _]; subst.
    repeat constructor; try (apply b64_char_not_crlf; auto using sext1, sext2, tail2).
    destruct pad; repeat constructor.
  - apply Forall3_inv in H. destruct H as (Ha & Hb & Hc & Hr).
    repeat constructor; try (apply b64_char_not_crlf; auto using sext1, sext2, sext3, sext4).
    apply IH; auto.
Qed.

Lemma b64_encode_strip url pad m : Forall (fun b => b < 256) m ->
  strip_crlf (b64_encode url pad m) = b64_encode url pad m.
Proof. intros H. apply strip_crlf_id, b64_encode_no_crlf, H. Qed.

(* ---- (2) lengths ---- *)
Lemma mod4_shift n : (S (S (S (S n))) mod 4 = n mod 4)%nat.
Proof.
  replace (S (S (S (S n)))) with (n + 1 * 4)%nat by lia. apply Nat.mod_add. lia.
Qed.

Lemma b64_encode_padded_len url : forall m, (length (b64_encode url true m) mod 4 = 0)%nat.
Proof.
  induction m as [|a|a b|a b c r IH] using list3_ind; cbn [b64_encode length]; try reflexivity.
  rewrite mod4_shift. exact IH.
Qed.

Lemma b64_encode_raw_len url : forall m,
  b64_encode url false m = b64_encode url true m \/
  Nat.eqb (length (b64_encode url false m) mod 4) 0 = false.
Proof.
  induction m as [|a|a b|a b c r IH] using list3_ind; cbn [b64_encode length].
  - left; reflexivity.
  - right; reflexivity.
  - right; reflexivity.
  - destruct IH as [E|E].
    + left. rewrite E. reflexivity.
    + right. rewrite mod4_shift. exact E.
Qed.

(* the padding decision of parse_bytes fits the text *)
Lemma pad_choice url pad m : exists pad',
  b64_encode url pad m = b64_encode url pad' m /\
  Nat.eqb (length (b64_encode url pad m) mod 4) 0 = pad'.
Proof.
  destruct pad.
  - exists true. split; [reflexivity|]. rewrite b64_encode_padded_len. reflexivity.
  - destruct (b64_encode_raw_len url m) as [E|E].
    + exists true. split; [exact E|]. rewrite E, b64_encode_padded_len. reflexivity.
    + exists false. split; [reflexivity|exact E].
Qed.

(* ---- (3) alphabets ---- *)
Lemma b64_encode_std_no_url_char pad : forall m, Forall (fun b => b < 256) m ->
  existsb is_url_char (b64_encode false pad m) = false.
Proof.
  induction m as [|a|a b|a b c r IH] using list3_ind; intros H; cbn [b64_encode existsb].
  - reflexivity.
  - inversion H as [|? ? Ha _]; subst.
    rewrite !b64_char_std_not_url by auto using sext1, tail1.
    destruct pad; reflexivity.
  - inversion H as [|? ? Ha H']; subst. inversion H' as [|? ? Hb _]; subst.
    rewrite !b64_char_std_not_url by auto using sext1, sext2, tail2.
    destruct pad; reflexivity.
  - apply Forall3_inv in H. destruct H as (Ha & Hb & Hc & Hr).
    rewrite !b64_char_std_not_url by auto using sext1, sext2, sext3, sext4.
    cbn [orb]. apply IH; auto.
Qed.

Lemma b64_encode_url_no_url_char pad : forall m, Forall (fun b => b < 256) m ->
  existsb is_url_char (b64_encode true pad m) = false ->
  b64_encode true pad m = b64_encode false pad m.
Proof.
  induction m as [|a|a b|a b c r IH] using list3_ind; intros H; cbn [b64_encode existsb]; intros E.
  - reflexivity.
  - inversion H as [|? ? Ha _]; subst.
    apply orb_false_iff in E. destruct E as [E1 E]. apply orb_false_iff in E. destruct E as [E2 _].
    rewrite (b64_char_url_eq _ (sext1 a Ha) E1), (b64_char_url_eq _ (tail1 a) E2). reflexivity.
  - inversion H as [|? ? Ha H']; subst. inversion H' as [|? ? Hb _]; subst.
    apply orb_false_iff in E. destruct E as [E1 E]. apply orb_false_iff in E. destruct E as [E2 E].
    apply orb_false_iff in E. destruct E as [E3 _].
    rewrite (b64_char_url_eq _ (sext1 a Ha) E1), (b64_char_url_eq _ (sext2 a b Ha Hb) E2),
      (b64_char_url_eq _ (tail2 b) E3). reflexivity.
  - apply Forall3_inv in H. destruct H as (Ha & Hb & Hc & Hr).
    apply orb_false_iff in E. destruct E as [E1 E]. apply orb_false_iff in E. destruct E as [E2 E].
    apply orb_false_iff in E. destruct E as [E3 E]. apply orb_false_iff in E. destruct E as [E4 E].
    rewrite (b64_char_url_eq _ (sext1 a Ha) E1), (b64_char_url_eq _ (sext2 a b Ha Hb) E2),
      (b64_char_url_eq _ (sext3 b c Hb Hc) E3), (b64_char_url_eq _ (sext4 c) E4).
    rewrite (IH Hr E). reflexivity.
Qed.

(* the alphabet decision of parse_bytes fits the text *)
Lemma alphabet_choice url pad m : Forall (fun b => b < 256) m -> exists url',
  b64_encode url pad m = b64_encode url' pad m /\
  existsb is_url_char (b64_encode url pad m) = url'.
Proof.
  intros H. destruct url.
  - destruct (existsb is_url_char (b64_encode true pad m)) eqn:E.
    + exists true. split; reflexivity.
    + exists false. split; [apply b64_encode_url_no_url_char; auto|reflexivity].
  - exists false. split; [reflexivity|apply b64_encode_std_no_url_char; auto].
Qed.

(* ---- main theorems ---- *)
Theorem parse_bytes_all_spellings : forall url pad m,
  Forall (fun b => b < 256) m -> parse_bytes (b64_encode url pad m) = Some m.
Proof.
  intros url pad m H. unfold parse_bytes. rewrite b64_encode_strip by exact H.
  destruct (alphabet_choice url pad m H) as (url' & Eu & Hu). rewrite Hu.
  destruct (pad_choice url pad m) as (pad' & Ep & Hp). rewrite Hp.
  assert (E : b64_encode url pad m = b64_encode url' pad' m).
  { rewrite Ep in Eu.
    destruct (alphabet_choice url pad' m H) as (url'' & Eu' & Hu').
    rewrite <- Ep in Hu'. rewrite Hu in Hu'. subst url''. rewrite Ep. exact Eu'. }
  rewrite E. apply b64_roundtrip. exact H.
Qed.

Theorem parse_bytes_sound : forall raw v, parse_bytes raw = Some v ->
  exists url pad, b64_decode url pad (strip_crlf raw) = Some v.
Proof.
  intros raw v H. unfold parse_bytes in H. eauto.
Qed.

Print Assumptions parse_bytes_all_spellings.
Print Assumptions parse_bytes_sound.
