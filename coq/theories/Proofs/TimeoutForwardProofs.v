From Coq Require Import ZArith List Bool Lia.
From Larking Require Import Model.TimeoutForward.
Import ListNotations.
Local Open Scope Z_scope.

Lemma div_up_spec d r : 0 < r -> 0 <= d -> d <= div_up d r * r < d + r.
Proof.
  intros Hr Hd. unfold div_up.
  pose proof (Z.div_mod d r ltac:(lia)) as E. pose proof (Z.mod_pos_bound d r Hr) as B.
  destruct (0 <? d mod r) eqn:C; [apply Z.ltb_lt in C | apply Z.ltb_ge in C]; nia.
Qed.

(* d <= q * u  ->  div_up d u <= q *)
Lemma div_up_le d u q : 0 < u -> 0 <= d -> d <= q * u -> div_up d u <= q.
Proof.
  intros Hu Hd H. pose proof (div_up_spec d u Hu Hd) as [_ S].
  assert (div_up d u * u < (q + 1) * u) by nia. nia.
Qed.

Lemma div_up_pos d u : 0 < u -> 0 < d -> 0 < div_up d u.
Proof. intros Hu Hd. pose proof (div_up_spec d u Hu ltac:(lia)). nia. Qed.

(* what encode_in returns: some unit of the list (or the hour) with the value rounded up in that unit *)
Lemma encode_in_shape us t v u : encode_in us t = (v, u) -> (In u us \/ u = hour_ns) /\ v = div_up t u.
Proof.
  revert v u; induction us as [|a r IH]; cbn [encode_in]; intros v u E.
  - injection E as <- <-. split; [right; reflexivity | reflexivity].
  - destruct (div_up t a <=? max_timeout_value) eqn:C.
    + injection E as <- <-. split; [left; left; reflexivity | reflexivity].
    + destruct (IH _ _ E) as [[I | I] V]; split; auto. left; right; exact I.
Qed.

Lemma fwd_unit_pos u : In u fwd_units \/ u = hour_ns -> 0 < u.
Proof. unfold fwd_units, hour_ns; cbn [In]; intros [[<- | [<- | [<- | [<- | [<- | []]]]]] | ->]; lia. Qed.

(* the backend is never given less than the time that was left, and less than one unit more *)
Lemma forwarded_sound t : 0 < t ->
  let (v, u) := encode_duration t in t <= v * u < t + u /\ 0 < v.
Proof.
  intros Ht. unfold encode_duration. replace (t <=? 0) with false by (symmetry; apply Z.leb_gt; lia).
  destruct (encode_in fwd_units t) as [v u] eqn:E.
  destruct (encode_in_shape _ _ _ _ E) as [I ->]. pose proof (fwd_unit_pos u I) as Hu.
  split; [apply div_up_spec; lia | apply div_up_pos; lia].
Qed.

(* every value but an hour count fits the eight digits of the wire grammar *)
Lemma forwarded_value_fits t : 0 < t -> t <= max_timeout_value * hour_ns ->
  let (v, _) := encode_duration t in v <= max_timeout_value.
Proof.
  intros Ht Hmax. unfold encode_duration. replace (t <=? 0) with false by (symmetry; apply Z.leb_gt; lia).
  unfold fwd_units. cbn [encode_in].
  repeat match goal with |- context [if ?c then _ else _] => destruct c eqn:?; [apply Z.leb_le; assumption|] end.
  apply div_up_le; unfold hour_ns, max_timeout_value in *; lia.
Qed.

(* the first unit that fits is finer than (and divides) any unit in which the time left fits *)
Lemma encode_in_first us t v u : encode_in us t = (v, u) ->
  forall w, In w us -> div_up t w <= max_timeout_value -> exists pre post, us = pre ++ w :: post /\ (In u pre \/ u = w).
Proof.
  revert v u; induction us as [|a r IH]; cbn [encode_in]; intros v u E w I Hw; [destruct I|].
  destruct (div_up t a <=? max_timeout_value) eqn:C.
  - injection E as <- <-. destruct I as [-> | I].
    + exists [], r. split; [reflexivity | right; reflexivity].
    + destruct (in_split _ _ I) as (p & q & ->). exists (a :: p), q. split; [reflexivity | left; left; reflexivity].
  - destruct I as [-> | I]; [apply Z.leb_gt in C; lia|].
    destruct (IH _ _ E w I Hw) as (p & q & -> & D). exists (a :: p), q. split; [reflexivity|].
    destruct D as [D | D]; [left; right; exact D | right; exact D].
Qed.

(* The deadline is never extended: a call that came with T = k units (a legal grpc-timeout: k of at most eight digits)
   and has t of it left is forwarded with at most T. *)
Lemma forwarded_within_original t k u :
  0 < t -> legal_unit u = true -> 1 <= k <= max_timeout_value -> t <= k * u -> forwarded_ns t <= k * u.
Proof.
  intros Ht Hu Hk Hle. unfold forwarded_ns, encode_duration.
  replace (t <=? 0) with false by (symmetry; apply Z.leb_gt; lia).
  unfold legal_unit in Hu. repeat rewrite orb_true_iff in Hu. repeat rewrite Z.eqb_eq in Hu.
  unfold fwd_units. cbn [encode_in].
  (* per candidate unit a: either it is chosen -- then a divides u and rounding up in a stays within k*u -- or it does
     not fit, which contradicts t <= k*u when a = u *)
  assert (R : forall a c, 0 < a -> 0 < c -> u = c * a -> div_up t a * a <= k * u).
  { intros a c Ha Hc ->. assert (div_up t a <= k * c) by (apply div_up_le; nia). nia. }
  assert (F : forall a, 0 < a -> u = a -> div_up t a <= max_timeout_value).
  { intros a Ha ->. assert (div_up t a <= k) by (apply div_up_le; lia). lia. }
  destruct (div_up t 1 <=? _) eqn:C1.
  { destruct Hu as [[[[[-> | ->] | ->] | ->] | ->] | ->];
      [apply (R 1 1) | apply (R 1 1000) | apply (R 1 1000000) | apply (R 1 1000000000) | apply (R 1 60000000000) | apply (R 1 3600000000000)]; lia. }
  destruct (div_up t 1000 <=? _) eqn:C2.
  { destruct Hu as [[[[[-> | ->] | ->] | ->] | ->] | ->];
      [apply Z.leb_gt in C1; specialize (F 1 ltac:(lia) eq_refl); lia
      | apply (R 1000 1) | apply (R 1000 1000) | apply (R 1000 1000000) | apply (R 1000 60000000) | apply (R 1000 3600000000)]; lia. }
  destruct (div_up t 1000000 <=? _) eqn:C3.
  { destruct Hu as [[[[[-> | ->] | ->] | ->] | ->] | ->];
      [apply Z.leb_gt in C1; specialize (F 1 ltac:(lia) eq_refl); lia
      | apply Z.leb_gt in C2; specialize (F 1000 ltac:(lia) eq_refl); lia
      | apply (R 1000000 1) | apply (R 1000000 1000) | apply (R 1000000 60000) | apply (R 1000000 3600000)]; lia. }
  destruct (div_up t 1000000000 <=? _) eqn:C4.
  { destruct Hu as [[[[[-> | ->] | ->] | ->] | ->] | ->];
      [apply Z.leb_gt in C1; specialize (F 1 ltac:(lia) eq_refl); lia
      | apply Z.leb_gt in C2; specialize (F 1000 ltac:(lia) eq_refl); lia
      | apply Z.leb_gt in C3; specialize (F 1000000 ltac:(lia) eq_refl); lia
      | apply (R 1000000000 1) | apply (R 1000000000 60) | apply (R 1000000000 3600)]; lia. }
  destruct (div_up t 60000000000 <=? _) eqn:C5.
  { destruct Hu as [[[[[-> | ->] | ->] | ->] | ->] | ->];
      [apply Z.leb_gt in C1; specialize (F 1 ltac:(lia) eq_refl); lia
      | apply Z.leb_gt in C2; specialize (F 1000 ltac:(lia) eq_refl); lia
      | apply Z.leb_gt in C3; specialize (F 1000000 ltac:(lia) eq_refl); lia
      | apply Z.leb_gt in C4; specialize (F 1000000000 ltac:(lia) eq_refl); lia
      | apply (R 60000000000 1) | apply (R 60000000000 60)]; lia. }
  destruct Hu as [[[[[-> | ->] | ->] | ->] | ->] | ->];
      [apply Z.leb_gt in C1; specialize (F 1 ltac:(lia) eq_refl); lia
      | apply Z.leb_gt in C2; specialize (F 1000 ltac:(lia) eq_refl); lia
      | apply Z.leb_gt in C3; specialize (F 1000000 ltac:(lia) eq_refl); lia
      | apply Z.leb_gt in C4; specialize (F 1000000000 ltac:(lia) eq_refl); lia
      | apply Z.leb_gt in C5; specialize (F 60000000000 ltac:(lia) eq_refl); lia
      | unfold hour_ns; apply (R 3600000000000 1); lia ].
Qed.

(* non-vacuity and two evaluations: 1 s with 0.9995 s left goes out as 999500 us; an hour count of eight digits with a
   millisecond gone still goes out within it *)
Example forwarded_examples :
  encode_duration 999500000 = (999500, 1000) /\ encode_duration 99999999 = (99999999, 1) /\ encode_duration 100000000 = (100000, 1000) /\
  forwarded_ns (99999999 * 3600000000000 - 1000000) <= 99999999 * 3600000000000 /\ encode_duration 0 = (0, 1).
Proof. vm_compute. repeat split; discriminate. Qed.

(* ---- joined with the decoder of Model/Timeout.v: the caller's own timeout string ---- *)
From Larking Require Import Base.GoSem Model.Timeout Proofs.TimeoutProofs.

Lemma unit_ns_legal_unit c d : unit_ns c = Some d -> legal_unit d = true.
Proof.
  unfold unit_ns. repeat match goal with |- context [if ?c then _ else _] => destruct c end;
    intros H; inversion H; reflexivity.
Qed.

(* a call that came with the legal timeout string s (T nanoseconds, below the clamp) and has t of it left is forwarded
   to the backend with at most T *)
Lemma proxied_deadline_within_callers s T t :
  decode_timeout s = Some T -> T < max_i64 -> 0 < t <= T -> forwarded_ns t <= T.
Proof.
  intros D Hc Ht. apply decode_timeout_sound in D. destruct D as (ds & u & d & _ & Hl & Hd & Hu & ->).
  pose proof (digits_val_bound ds 0 Hd ltac:(lia)) as B. pose proof (unit_ns_pos _ _ Hu) as Pd.
  assert (P10 : 10 ^ Z.of_nat (length ds) <= 10 ^ 8) by (apply Z.pow_le_mono_r; lia).
  change (10 ^ 8) with 100000000 in P10.
  rewrite Z.min_l in * by lia.
  apply forwarded_within_original; [lia | eapply unit_ns_legal_unit; eassumption | unfold max_timeout_value; nia | lia].
Qed.
