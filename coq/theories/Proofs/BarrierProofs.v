(* The guarded discipline of Model/Barrier.v never misuses the WaitGroup, whatever the interleaving; the pinned
   discipline does, on a two-event schedule. *)
From Coq Require Import List Bool Arith Lia.
Import ListNotations.
From Larking Require Import Model.Barrier.

(* invariant of the guarded discipline along a schedule whose Waits come after a Close:
   a Wait in progress implies closed, and no misuse so far *)
Definition BInv (s : bstate) (seen_close : bool) : Prop :=
  misuse s = false /\ (waiting s = true -> closed s = true) /\ (seen_close = true -> closed s = true).

Lemma bstep_inv s e seen : BInv s seen ->
  closes_before_wait seen [e] = true ->
  BInv (bstep true s e) (match e with EvClose => true | _ => seen end).
Proof.
  intros (Hm & Hw & Hc) Hord. destruct e; cbn [bstep andb closes_before_wait] in *.
  - destruct (closed s) eqn:Ec; cbn [closed waiting count misuse].
    + repeat split; auto.
    + repeat split; cbn [closed waiting count misuse]; auto.
      rewrite Hm. cbn [orb]. destruct (waiting s) eqn:Ew; [|reflexivity]. specialize (Hw eq_refl). congruence.
  - repeat split; cbn [closed waiting count misuse]; auto.
  - repeat split; cbn [closed waiting count misuse]; auto.
  - apply andb_true_iff in Hord. destruct Hord as [Hs _]. repeat split; cbn [closed waiting count misuse]; auto.
  - destruct (Nat.eqb (count s) 0); repeat split; cbn [closed waiting count misuse]; auto. intro; discriminate.
Qed.

Lemma closes_before_wait_cons seen e r : closes_before_wait seen (e :: r) = true ->
  closes_before_wait seen [e] = true /\ closes_before_wait (match e with EvClose => true | _ => seen end) r = true.
Proof.
  destruct e; cbn [closes_before_wait]; intro H; try (split; [reflexivity|exact H]).
  apply andb_true_iff in H. destruct H as [A B]. split; [rewrite A; reflexivity|exact B].
Qed.

Lemma brun_inv es : forall s seen, BInv s seen -> closes_before_wait seen es = true ->
  misuse (fold_left (bstep true) es s) = false.
Proof.
  induction es as [|e r IH]; intros s seen HI Hord; cbn [fold_left].
  - apply HI.
  - destruct (closes_before_wait_cons _ _ _ Hord) as [H1 H2]. eapply IH; [apply bstep_inv; eassumption|exact H2].
Qed.

(* every schedule of stream operations, closes and waits in which the serving function sets closed before it waits *)
Theorem guarded_barrier_safe es : closes_before_wait false es = true -> misuse (brun true es) = false.
Proof. intro H. unfold brun. eapply brun_inv; [|exact H]. repeat split; intro; discriminate. Qed.

(* ... and after the close no operation gets in: the counter only falls, so the Wait that follows returns *)
Lemma enter_after_close_refused s : closed s = true -> count (bstep true s EvEnter) = count s /\ refused (bstep true s EvEnter) = S (refused s).
Proof. intro H. cbn [bstep andb]. rewrite H. split; reflexivity. Qed.

Lemma closed_stays es : forall s, closed s = true -> closed (fold_left (bstep true) es s) = true.
Proof.
  induction es as [|e r IH]; intros s H; cbn [fold_left]; [exact H|]. apply IH.
  destruct e; cbn [bstep andb]; try exact H; try reflexivity.
  - rewrite H. reflexivity.
  - destruct (Nat.eqb (count s) 0); exact H.
Qed.

Lemma count_falls_after_close es : forall s, closed s = true -> count (fold_left (bstep true) es s) <= count s.
Proof.
  induction es as [|e r IH]; intros s H; cbn [fold_left]; [lia|].
  assert (Hc : closed (bstep true s e) = true) by (apply (closed_stays [e]); exact H).
  specialize (IH _ Hc). assert (count (bstep true s e) <= count s); [|lia].
  destruct e; cbn [bstep andb]; try rewrite H; cbn [count]; try lia. destruct (Nat.eqb (count s) 0); cbn [count]; lia.
Qed.

(* the pinned discipline: the handler has returned, the serving function waits, the pump enters its next RecvMsg *)
Theorem unguarded_barrier_refuted : exists es, closes_before_wait false es = false /\ misuse (brun false es) = true.
Proof. exists [EvWaitBegin; EvEnter]. split; reflexivity. Qed.
Theorem unguarded_barrier_refuted_even_with_close : exists es, closes_before_wait false es = true /\ misuse (brun false es) = true.
Proof. exists [EvClose; EvWaitBegin; EvEnter]. split; reflexivity. Qed.

(* non-vacuity: a schedule with operations in flight across the close *)
Example guarded_schedule :
  let es := [EvEnter; EvEnter; EvLeave; EvClose; EvEnter; EvWaitBegin; EvEnter; EvLeave; EvWaitEnd] in
  closes_before_wait false es = true /\ brun true es = BState true false 0 false 2.
Proof. split; reflexivity. Qed.
