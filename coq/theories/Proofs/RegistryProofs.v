(* Proofs about Model/Registry.v: the registry refines the table of live registrations. *)
From Larking Require Import Base.GoSem Model.Registry.
Local Open Scope nat_scope.

Lemma filter_filter_and {A} (f g : A -> bool) l :
  filter f (filter g l) = filter (fun x => f x && g x) l.
Proof.
  induction l as [|a l IH]; [reflexivity|]. cbn [filter].
  destruct (g a); cbn [filter]; rewrite ?andb_true_r, ?andb_false_r; destruct (f a); rewrite IH; reflexivity.
Qed.

(* ---------- association lists ---------- *)
Lemma aget_aset {A} k k' (v : A) l : aget k' (aset k v l) = if k =? k' then Some v else aget k' l.
Proof. reflexivity. Qed.
Lemma aget_adel {A} k k' (l : list (nat * A)) : aget k' (adel k l) = if k =? k' then None else aget k' l.
Proof.
  induction l as [|[a v] l IH]; cbn [adel filter aget fst negb].
  - destruct (k =? k'); reflexivity.
  - destruct (a =? k) eqn:E; cbn [negb].
    + apply Nat.eqb_eq in E; subst a. fold (adel k l). rewrite IH.
      destruct (k =? k') eqn:E2; reflexivity.
    + cbn [aget]. fold (adel k l). rewrite IH.
      destruct (a =? k') eqn:E2; [|reflexivity].
      apply Nat.eqb_eq in E2; subst a. rewrite Nat.eqb_sym, E. reflexivity.
Qed.

Lemma hget_aset t c k v hs m :
  hget (State t c (aset k v hs)) m = if k =? m then v else hget (State t c hs) m.
Proof. unfold hget; cbn [shandlers]. rewrite aget_aset. destruct (k =? m); reflexivity. Qed.
Lemma hget_adel t c k hs m :
  hget (State t c (adel k hs)) m = if k =? m then [] else hget (State t c hs) m.
Proof. unfold hget; cbn [shandlers]. rewrite aget_adel. destruct (k =? m); reflexivity. Qed.
Lemma hget_state s t c : hget (State t c (shandlers s)) = hget s.
Proof. reflexivity. Qed.

Lemma owner_eqb_eq a b : owner_eqb a b = true <-> a = b.
Proof.
  destruct a, b; cbn; rewrite ?Nat.eqb_eq; split; intro H; try congruence; try discriminate.
Qed.
Lemma owner_eqb_refl a : owner_eqb a a = true.
Proof. apply owner_eqb_eq; reflexivity. Qed.
Lemma owner_eqb_neq a b : owner_eqb a b = false <-> a <> b.
Proof.
  split; intro H.
  - intro E. apply owner_eqb_eq in E. congruence.
  - destruct (owner_eqb a b) eqn:E; [|reflexivity]. apply owner_eqb_eq in E. contradiction.
Qed.

(* ---------- the trie ---------- *)
Lemma t_find_in t n v m : t_find t n v = Some m -> In (n, v, m) t.
Proof.
  unfold t_find. destruct (find _ t) as [[[n' v'] m']|] eqn:F; [|discriminate].
  intro H; inversion H; subst. apply find_some in F. destruct F as [F1 F2]. cbn [fst snd] in F2.
  apply andb_true_iff in F2. destruct F2 as [A B]. apply Nat.eqb_eq in A, B. subst. exact F1.
Qed.
Lemma t_find_none t n v : t_find t n v = None -> ~ In (n, v) (map fst t).
Proof.
  unfold t_find. destruct (find _ t) as [e|] eqn:F; [discriminate|]. intros _ Hin.
  apply in_map_iff in Hin. destruct Hin as ([[n' v'] m'] & E & Hin). cbn [fst] in E. injection E as -> ->.
  pose proof (find_none _ _ F _ Hin) as X. cbn [fst snd] in X. rewrite !Nat.eqb_refl in X. discriminate.
Qed.
Lemma t_find_cons n0 v0 m0 t n v :
  t_find ((n0, v0, m0) :: t) n v = if (n0 =? n) && (v0 =? v) then Some m0 else t_find t n v.
Proof. unfold t_find. cbn [find fst snd]. destruct ((n0 =? n) && (v0 =? v)); reflexivity. Qed.
Lemma t_in_find t n v m : NoDup (map fst t) -> In (n, v, m) t -> t_find t n v = Some m.
Proof.
  induction t as [|[[n0 v0] m0] t IH]; intros Hnd Hin; [contradiction|].
  cbn [map fst] in Hnd. inversion Hnd as [|x l Hnotin Hnd']; subst. rewrite t_find_cons.
  destruct Hin as [E|Hin].
  - injection E as -> -> ->. now rewrite !Nat.eqb_refl.
  - destruct ((n0 =? n) && (v0 =? v)) eqn:Q; [|now apply IH].
    apply andb_true_iff in Q. destruct Q as [A B]. apply Nat.eqb_eq in A, B. subst. exfalso. apply Hnotin.
    apply in_map_iff. exists (n, v, m). auto.
Qed.
Lemma t_other_false x m : t_other x m = false <-> forall m', x = Some m' -> m' = m.
Proof.
  unfold t_other. destruct x as [m0|].
  - rewrite negb_false_iff, Nat.eqb_eq. split; [intros -> m' H; now injection H|auto].
  - split; [intros _ m' H; discriminate|reflexivity].
Qed.
Lemma t_owned_true t n m : t_owned t n m = true <-> forall v m', In (n, v, m') t -> m' = m.
Proof.
  unfold t_owned. rewrite forallb_forall. split.
  - intros H v m' Hin. specialize (H _ Hin). cbn [fst snd] in H. rewrite Nat.eqb_refl in H. now apply Nat.eqb_eq in H.
  - intros H [[n0 v0] m0] Hin. cbn [fst snd]. destruct (n0 =? n) eqn:Q; [|reflexivity].
    apply Nat.eqb_eq in Q. subst n0. cbn [negb orb]. apply Nat.eqb_eq. eauto.
Qed.

(* the two ways t_add succeeds *)
Lemma t_add_inv t k m t' b : t_add t k m = Ok (t', b) ->
  kvalid k = true /\ t_other (t_find t (knode k) 0) m = false /\
  (kverb k = 0 -> t_owned t (knode k) m = true) /\
  ((b = false /\ t' = t /\ t_find t (knode k) (kverb k) = Some m) \/
   (b = true /\ t' = (knode k, kverb k, m) :: t /\ t_find t (knode k) (kverb k) = None)).
Proof.
  unfold t_add. destruct (kvalid k); cbn [negb]; [|discriminate].
  destruct (t_other (t_find t (knode k) 0) m) eqn:Eo; [discriminate|].
  destruct (kverb k =? 0) eqn:Ev.
  - apply Nat.eqb_eq in Ev. destruct (t_owned t (knode k) m) eqn:Ew; cbn [negb]; [|discriminate].
    rewrite Ev. destruct (t_find t (knode k) 0) as [m0|] eqn:Ef; intro H; injection H as <- <-.
    + split; [reflexivity|]. split; [reflexivity|]. split; [reflexivity|]. left. split; [reflexivity|]. split; [reflexivity|].
      f_equal. apply (proj1 (t_other_false _ _) Eo). reflexivity.
    + split; [reflexivity|]. split; [reflexivity|]. split; [reflexivity|]. right. auto.
  - apply Nat.eqb_neq in Ev. destruct (t_find t (knode k) (kverb k)) as [m0|] eqn:Ef.
    + destruct (m0 =? m) eqn:Em; [|discriminate]. apply Nat.eqb_eq in Em. subst m0. intro H; injection H as <- <-.
      split; [reflexivity|]. split; [reflexivity|]. split; [intro; contradiction|]. left. auto.
    + intro H; injection H as <- <-. split; [reflexivity|]. split; [reflexivity|]. split; [intro; contradiction|]. right. auto.
Qed.

Lemma t_add_spec t k m t' b : t_add t k m = Ok (t', b) ->
  (forall e, In e t -> In e t') /\ (forall e, In e t' -> In e t \/ snd e = m).
Proof.
  intro H. apply t_add_inv in H. destruct H as (_ & _ & _ & [(_ & -> & _)|(_ & -> & _)]).
  - split; auto.
  - split; intros e He.
    + right; exact He.
    + destruct He as [<-|He]; [right; reflexivity|left; exact He].
Qed.

(* when t_add succeeds, in the vocabulary of the specification: the key is valid and every binding it
   meets (same node; same verb, or a "*" on either side) is of this method *)
Definition entry_key (e : nat * nat * method) : bkey := BKey (fst (fst e)) (snd (fst e)) true.
Lemma key_meets_entry k n v m0 :
  key_meets k (entry_key (n, v, m0)) = true <-> knode k = n /\ (kverb k = v \/ kverb k = 0 \/ v = 0).
Proof.
  unfold key_meets, entry_key. cbn [knode kverb fst snd].
  rewrite andb_true_iff, !orb_true_iff, !Nat.eqb_eq. tauto.
Qed.
Theorem t_add_ok_iff t k m : NoDup (map fst t) ->
  (is_ok (t_add t k m) = true <->
   kvalid k = true /\ forall e, In e t -> key_meets k (entry_key e) = true -> snd e = m).
Proof.
  intro Hnd. split.
  - destruct (t_add t k m) as [[t' b]| | |] eqn:E; try discriminate. intros _.
    apply t_add_inv in E. destruct E as (V & Ho & Hw & Hc). split; [exact V|].
    intros [[n v] m0] Hin Hm. cbn [snd]. apply key_meets_entry in Hm. destruct Hm as [<- Hv].
    destruct (Nat.eq_dec v 0) as [->|Hv0].
    { apply (proj1 (t_other_false _ _) Ho). now apply t_in_find. }
    destruct (Nat.eq_dec (kverb k) 0) as [Hk0|Hk0].
    { apply (proj1 (t_owned_true _ _ _) (Hw Hk0) v). exact Hin. }
    destruct Hv as [Hv|[Hv|Hv]]; try contradiction. subst v.
    pose proof (t_in_find _ _ _ _ Hnd Hin) as F.
    destruct Hc as [(_ & _ & F')|(_ & _ & F')]; congruence.
  - intros [V H]. unfold t_add. rewrite V. cbn [negb].
    assert (Ho : t_other (t_find t (knode k) 0) m = false).
    { apply t_other_false. intros m' F. apply t_find_in in F. apply (H _ F). apply key_meets_entry. auto. }
    rewrite Ho. destruct (kverb k =? 0) eqn:Ev.
    + apply Nat.eqb_eq in Ev.
      assert (Hw : t_owned t (knode k) m = true).
      { apply t_owned_true. intros v m' Hin. apply (H _ Hin). apply key_meets_entry. auto. }
      rewrite Hw. cbn [negb]. destruct (t_find t (knode k) 0); reflexivity.
    + destruct (t_find t (knode k) (kverb k)) as [m0|] eqn:F; [|reflexivity].
      apply t_find_in in F. assert (E0 : m0 = m) by (apply (H _ F), key_meets_entry; auto).
      subst m0. now rewrite Nat.eqb_refl.
Qed.

(* ---- the invariant of the map: keys are keys, and bindings that meet belong to one method ---- *)
Definition t_wf (t : trie) : Prop :=
  NoDup (map fst t) /\
  forall e1 e2, In e1 t -> In e2 t -> key_meets (entry_key e1) (entry_key e2) = true -> snd e1 = snd e2.
Lemma t_wf_nil : t_wf [].
Proof. split; [constructor|intros e1 e2 []]. Qed.
Lemma key_meets_sym a b : key_meets a b = key_meets b a.
Proof.
  unfold key_meets. rewrite (Nat.eqb_sym (knode a)), (Nat.eqb_sym (kverb a) (kverb b)).
  destruct (knode b =? knode a), (kverb b =? kverb a), (kverb a =? 0), (kverb b =? 0); reflexivity.
Qed.
Lemma t_add_wf t k m t' b : t_wf t -> t_add t k m = Ok (t', b) -> t_wf t'.
Proof.
  intros [Hnd Hc] H. pose proof (proj1 (t_add_ok_iff t k m Hnd)) as Hok. rewrite H in Hok. destruct (Hok eq_refl) as [_ Hm].
  apply t_add_inv in H. destruct H as (_ & _ & _ & [(_ & -> & _)|(_ & -> & F)]); [split; assumption|].
  split.
  - cbn [map fst]. constructor; [now apply t_find_none|exact Hnd].
  - assert (Hnew : forall e, In e t -> key_meets (entry_key (knode k, kverb k, m)) (entry_key e) = true -> m = snd e).
    { intros e He Hk. symmetry. apply (Hm e He). destruct k as [n v vl]. exact Hk. }
    intros e1 e2 [<-|H1] [<-|H2] Hk; cbn [snd]; auto.
    symmetry. apply (Hnew e1 H1). now rewrite key_meets_sym.
Qed.
Lemma t_del_wf t m : t_wf t -> t_wf (t_del t m).
Proof.
  intros [Hnd Hc]. split.
  - unfold t_del. clear Hc. induction t as [|a t IH]; cbn [filter]; [constructor|].
    cbn [map] in Hnd. inversion Hnd as [|x l Hnotin Hnd']; subst. match goal with |- context [if ?c then _ else _] => destruct c end; cbn [map]; auto.
    constructor; auto. intro Hin. apply Hnotin. apply in_map_iff in Hin. destruct Hin as (z & E & Hz).
    apply filter_In in Hz. apply in_map_iff. exists z. tauto.
  - intros e1 e2 H1 H2. unfold t_del in H1, H2. apply filter_In in H1, H2. apply Hc; tauto.
Qed.

(* a key that resolves to the method already: accepted, and every key resolves as before *)
Lemma t_add_bound t k m : t_wf t -> kvalid k = true -> t_lookup t (knode k) (kverb k) = Some m ->
  exists t' b, t_add t k m = Ok (t', b) /\ forall n v, t_lookup t' n v = t_lookup t n v.
Proof.
  intros [Hnd Hc] V L.
  assert (Hok : is_ok (t_add t k m) = true).
  { apply (t_add_ok_iff t k m Hnd). split; [exact V|]. intros [[n v] m0] Hin Hm. cbn [snd].
    apply key_meets_entry in Hm. destruct Hm as [<- Hv].
    unfold t_lookup in L. destruct (t_find t (knode k) (kverb k)) as [m1|] eqn:F.
    - injection L as ->. apply t_find_in in F. apply (Hc _ _ Hin F). apply key_meets_entry. cbn [knode kverb fst snd]. intuition.
    - apply t_find_in in L. apply (Hc _ _ Hin L). apply key_meets_entry. cbn [knode kverb fst snd].
      split; [reflexivity|]. right. right. reflexivity. }
  destruct (t_add t k m) as [[t' b]| | |] eqn:E; try discriminate. exists t', b. split; [reflexivity|].
  apply t_add_inv in E. destruct E as (_ & _ & _ & [(_ & -> & _)|(_ & -> & F)]); [reflexivity|].
  intros n v. unfold t_lookup in *. rewrite F in L. rewrite !t_find_cons.
  destruct (knode k =? n) eqn:En; cbn [andb]; [|reflexivity]. apply Nat.eqb_eq in En. subst n.
  assert (Hv0 : (kverb k =? 0) = false).
  { destruct (kverb k =? 0) eqn:Q; [|reflexivity]. apply Nat.eqb_eq in Q. rewrite Q in F. congruence. }
  rewrite Hv0. destruct (kverb k =? v) eqn:Ev; [|reflexivity]. apply Nat.eqb_eq in Ev. subst v. now rewrite F, L.
Qed.
Lemma t_add_all_spec ks : forall t m t', t_add_all t ks m = Ok t' ->
  (forall e, In e t -> In e t') /\ (forall e, In e t' -> In e t \/ snd e = m).
Proof.
  induction ks as [|k ks IH]; intros t m t'; cbn [t_add_all].
  - intro H; inversion H; subst. split; auto.
  - destruct (t_add t k m) as [[t1 b]| | |] eqn:E; cbn [bind]; try discriminate.
    intro H. apply IH in H. apply t_add_spec in E. cbn [fst] in H.
    destruct H as [H1 H2], E as [E1 E2]. split; intros e He.
    + auto.
    + destruct (H2 e He) as [H|H]; [apply E2 in H; exact H|right; exact H].
Qed.
Lemma t_add_rule_spec t r m t' : t_add_rule t r m = Ok t' ->
  (forall e, In e t -> In e t') /\ (forall e, In e t' -> In e t \/ snd e = m).
Proof.
  unfold t_add_rule. destruct (t_add t (rmain r) m) as [[t1 b]| | |] eqn:E; cbn [bind]; try discriminate.
  apply t_add_spec in E. destruct E as [E1 E2]. cbn [fst snd].
  intro H. apply t_add_all_spec in H. destruct H as [H1 H2]. split; intros e He; auto.
  destruct (H2 e He) as [H|H]; [apply E2 in H; exact H|right; exact H].
Qed.
Lemma t_add_rules_spec rs : forall t m t', t_add_rules t rs m = Ok t' ->
  (forall e, In e t -> In e t') /\ (forall e, In e t' -> In e t \/ snd e = m).
Proof.
  induction rs as [|r rs IH]; intros t m t'; cbn [t_add_rules].
  - intro H; inversion H; subst. split; auto.
  - destruct (t_add_rule t r m) as [t1| | |] eqn:E; cbn [bind]; try discriminate.
    intro H. apply IH in H. apply t_add_rule_spec in E.
    destruct H as [H1 H2], E as [E1 E2]. split; intros e He; auto.
    destruct (H2 e He) as [H|H]; [apply E2 in H; exact H|right; exact H].
Qed.
Lemma t_del_in t m e : In e (t_del t m) <-> In e t /\ snd e <> m.
Proof.
  unfold t_del. rewrite filter_In. cbv beta. split; intros [H1 H2]; split; auto.
  - intro E. apply negb_true_iff, Nat.eqb_neq in H2. apply H2. exact E.
  - apply negb_true_iff, Nat.eqb_neq. exact H2.
Qed.

(* ---------- appendHandler, process ---------- *)
Fixpoint mk_handlers (o : owner) (ds : list mdesc) (n : nat) : list handler :=
  match ds with [] => [] | d :: ds' => Handler n o (mname d) :: mk_handlers o ds' (S n) end.

Lemma append_handler_spec s d h s' : append_handler s d h = Ok s' ->
  sconns s' = sconns s /\
  (forall m, hget s' m = if mname d =? m then hget s m ++ [h] else hget s m) /\
  (forall e, In e (spath s) -> In e (spath s')) /\
  (forall e, In e (spath s') -> In e (spath s) \/ snd e = mname d).
Proof.
  unfold append_handler.
  destruct (t_add (spath s) (BKey (mnode d) 0 true) (mname d)) as [[t1 b]| | |] eqn:E; try discriminate.
  cbn [fst]. destruct (t_add_rules t1 (mrules d) (mname d)) as [t2| | |] eqn:E2; cbn [bind]; try discriminate.
  intro H; inversion H; subst; clear H. cbn [sconns spath].
  apply t_add_spec in E. apply t_add_rules_spec in E2. destruct E as [A1 A2], E2 as [B1 B2].
  split; [reflexivity|]. split; [|split].
  - intro m. rewrite hget_aset. destruct (mname d =? m) eqn:Q.
    + apply Nat.eqb_eq in Q. rewrite Q. reflexivity.
    + destruct s; reflexivity.
  - auto.
  - intros e He. destruct (B2 e He) as [H|H]; [apply A2 in H; exact H|right; exact H].
Qed.

Lemma process_spec ds : forall s o n acc s' hs, process s o ds n acc = Ok (s', hs) ->
  sconns s' = sconns s /\ hs = acc ++ mk_handlers o ds n /\
  (forall m, hget s' m = hget s m ++ filter (fun h => hmeth h =? m) (mk_handlers o ds n)) /\
  (forall e, In e (spath s) -> In e (spath s')) /\
  (forall e, In e (spath s') -> In e (spath s) \/ exists d, In d ds /\ snd e = mname d).
Proof.
  induction ds as [|d ds IH]; intros s o n acc s' hs; cbn [process mk_handlers].
  - intro H; inversion H; subst. rewrite app_nil_r. repeat split; auto.
    intro m. cbn. rewrite app_nil_r. reflexivity.
  - destruct (append_handler s d (Handler n o (mname d))) as [s1| | |] eqn:E; cbn [bind]; try discriminate.
    intro H. apply IH in H. apply append_handler_spec in E.
    destruct E as (E0 & E1 & E2 & E3), H as (H0 & H1 & H2 & H3 & H4).
    split; [congruence|]. split; [rewrite H1, <- app_assoc; reflexivity|]. split; [|split].
    + intro m. rewrite H2, E1. cbn [filter hmeth].
      destruct (mname d =? m); [rewrite <- app_assoc|]; reflexivity.
    + auto.
    + intros e He. destruct (H4 e He) as [H|(d' & Hd & Hs)].
      * destruct (E3 e H) as [H'|H']; [left; exact H'|right; exists d; split; [left; reflexivity|exact H']].
      * right; exists d'; split; [right; exact Hd|exact Hs].
Qed.

Lemma mk_handlers_in o ds : forall n h, In h (mk_handlers o ds n) ->
  howner h = o /\ n <= hid h < n + length ds /\ exists d, In d ds /\ hmeth h = mname d.
Proof.
  induction ds as [|d ds IH]; intros n h; cbn [mk_handlers length]; [intros []|].
  intros [<-|H].
  - cbn. split; [reflexivity|]. split; [lia|]. exists d; split; [left|]; reflexivity.
  - apply IH in H. destruct H as (H1 & H2 & d' & Hd & Hm).
    split; [exact H1|]. split; [lia|]. exists d'; split; [right; exact Hd|exact Hm].
Qed.
Lemma mk_handlers_ids o ds : forall n, NoDup (map hid (mk_handlers o ds n)).
Proof.
  induction ds as [|d ds IH]; intro n; cbn [mk_handlers map hid]; constructor.
  - intro H. apply in_map_iff in H. destruct H as (h & Hh & Hin).
    apply mk_handlers_in in Hin. lia.
  - apply IH.
Qed.
Lemma mk_handlers_exposes o ds m : forall n,
  (exists h, In h (mk_handlers o ds n) /\ hmeth h = m) <-> exposes ds m = true.
Proof.
  unfold exposes. induction ds as [|d ds IH]; intro n; cbn [mk_handlers existsb].
  - split; [intros (h & [] & _)|discriminate].
  - rewrite orb_true_iff, <- (IH (S n)), Nat.eqb_eq. split.
    + intros (h & [E|Hin] & Hm).
      * left. subst h. exact Hm.
      * right. exists h. split; assumption.
    + intros [E|(h & Hin & Hm)].
      * exists (Handler n o (mname d)). split; [left; reflexivity|exact E].
      * exists h. split; [right; exact Hin|exact Hm].
Qed.

(* ---------- removeHandler ---------- *)
Lemma drop_one_spec s hd :
  sconns (drop_one s hd) = sconns s /\
  (forall m, hget (drop_one s hd) m =
     if hmeth hd =? m then filter (fun h => negb (hid h =? hid hd)) (hget s m) else hget s m) /\
  (forall e, In e (spath (drop_one s hd)) -> In e (spath s)) /\
  (forall e, In e (spath s) -> hget (drop_one s hd) (snd e) <> [] -> In e (spath (drop_one s hd))).
Proof.
  unfold drop_one.
  destruct (filter (fun mhd => negb (hid mhd =? hid hd)) (hget s (hmeth hd))) as [|x l] eqn:F.
  - cbn [sconns spath]. split; [reflexivity|]. split; [|split].
    + intro m. rewrite hget_adel. destruct (hmeth hd =? m) eqn:E.
      * apply Nat.eqb_eq in E; subst m. rewrite F. reflexivity.
      * destruct s; reflexivity.
    + intros e He. apply t_del_in in He. tauto.
    + intros e He Hne. apply t_del_in. split; [exact He|].
      intro E. apply Hne. rewrite hget_adel, E, Nat.eqb_refl. reflexivity.
  - cbn [sconns spath]. split; [reflexivity|]. split; [|split; auto].
    intro m. rewrite hget_aset. destruct (hmeth hd =? m) eqn:E.
    + apply Nat.eqb_eq in E; subst m. rewrite F. reflexivity.
    + destruct s; reflexivity.
Qed.

Definition hit (hds : list handler) (m : method) (h : handler) : bool :=
  existsb (fun hd => (hmeth hd =? m) && (hid h =? hid hd)) hds.

Lemma drop_all_spec hds : forall s,
  sconns (fold_left drop_one hds s) = sconns s /\
  (forall m, hget (fold_left drop_one hds s) m = filter (fun h => negb (hit hds m h)) (hget s m)) /\
  (forall e, In e (spath (fold_left drop_one hds s)) -> In e (spath s)) /\
  (forall e, In e (spath s) -> hget (fold_left drop_one hds s) (snd e) <> [] -> In e (spath (fold_left drop_one hds s))).
Proof.
  induction hds as [|hd hds IH]; intro s; cbn [fold_left].
  - repeat split; auto. intro m. unfold hit; cbn. induction (hget s m) as [|a l IHl]; cbn; congruence.
  - destruct (IH (drop_one s hd)) as (A0 & A1 & A2 & A3).
    destruct (drop_one_spec s hd) as (B0 & B1 & B2 & B3).
    split; [congruence|]. split; [|split].
    + intro m. rewrite A1, B1. unfold hit; cbn [existsb].
      destruct (hmeth hd =? m) eqn:E; cbn [andb orb].
      * rewrite filter_filter_and. apply filter_ext. intro h.
        rewrite negb_orb, andb_comm. reflexivity.
      * reflexivity.
    + auto.
    + intros e He Hne. apply A3; [|exact Hne]. apply B3; [exact He|].
      intro E. apply Hne. rewrite A1, E. reflexivity.
Qed.

Lemma drop_one_D s hd : (forall e, In e (spath s) -> hget s (snd e) <> []) ->
  forall e, In e (spath (drop_one s hd)) -> hget (drop_one s hd) (snd e) <> [].
Proof.
  intros HD e. unfold drop_one.
  destruct (filter (fun mhd => negb (hid mhd =? hid hd)) (hget s (hmeth hd))) as [|x l] eqn:F; cbn [spath].
  - intro He. apply t_del_in in He. destruct He as [He Hne].
    rewrite hget_adel. destruct (hmeth hd =? snd e) eqn:Q.
    + apply Nat.eqb_eq in Q. exfalso. apply Hne. symmetry. exact Q.
    + specialize (HD e He). destruct s; exact HD.
  - intro He. rewrite hget_aset. destruct (hmeth hd =? snd e); [discriminate|].
    specialize (HD e He). destruct s; exact HD.
Qed.
Lemma drop_all_D hds : forall s, (forall e, In e (spath s) -> hget s (snd e) <> []) ->
  forall e, In e (spath (fold_left drop_one hds s)) -> hget (fold_left drop_one hds s) (snd e) <> [].
Proof.
  induction hds as [|hd hds IH]; intros s HD; cbn [fold_left]; [exact HD|].
  apply IH. apply drop_one_D. exact HD.
Qed.

(* ---------- the table of live registrations ---------- *)
Definition conn_entries (T : ltable) (c : nat) : ltable := filter (fun x => owner_eqb (fst x) (OConn c)) T.
Definition drop_entries (T : ltable) (c : nat) : ltable := filter (fun x => negb (owner_eqb (fst x) (OConn c))) T.

Lemma in_live_in T m o : In o (live_in T m) <-> exists ds, In (o, ds) T /\ exposes ds m = true.
Proof.
  unfold live_in. rewrite in_map_iff. split.
  - intros ([o' ds] & <- & H). apply filter_In in H. exists ds. exact H.
  - intros (ds & H1 & H2). exists (o, ds). split; [reflexivity|]. apply filter_In. split; assumption.
Qed.
Lemma live_in_app T o ds m : live_in (T ++ [(o, ds)]) m = live_in T m ++ (if exposes ds m then [o] else []).
Proof.
  unfold live_in. rewrite filter_app, map_app. cbn [filter snd]. destruct (exposes ds m); reflexivity.
Qed.
Lemma live_in_drop T c m o : In o (live_in (drop_entries T c) m) <-> In o (live_in T m) /\ o <> OConn c.
Proof.
  rewrite !in_live_in. unfold drop_entries. split.
  - intros (ds & H1 & H2). apply filter_In in H1. destruct H1 as [H1 H3]. cbn [fst] in H3.
    apply negb_true_iff, owner_eqb_neq in H3. split; [exists ds; split; assumption|exact H3].
  - intros [(ds & H1 & H2) H3]. exists ds. split; [|exact H2]. apply filter_In. split; [exact H1|].
    cbn [fst]. apply negb_true_iff, owner_eqb_neq. exact H3.
Qed.
Lemma conn_entries_app T o ds c :
  conn_entries (T ++ [(o, ds)]) c = conn_entries T c ++ (if owner_eqb o (OConn c) then [(o, ds)] else []).
Proof. unfold conn_entries. rewrite filter_app. cbn [filter fst]. destruct (owner_eqb o (OConn c)); reflexivity. Qed.
Lemma conn_entries_drop T c c' :
  conn_entries (drop_entries T c) c' = if c =? c' then [] else conn_entries T c'.
Proof.
  unfold conn_entries, drop_entries. rewrite filter_filter_and.
  destruct (c =? c') eqn:E.
  - apply Nat.eqb_eq in E; subst c'. induction T as [|x T IH]; [reflexivity|]. cbn [filter].
    destruct (owner_eqb (fst x) (OConn c)); cbn [negb andb]; exact IH.
  - apply filter_ext. intro x. destruct (owner_eqb (fst x) (OConn c')) eqn:Q; [|reflexivity].
    apply owner_eqb_eq in Q. rewrite Q. cbn [owner_eqb]. rewrite Nat.eqb_sym, E. reflexivity.
Qed.
Lemma drop_entries_id T c : conn_entries T c = [] -> drop_entries T c = T.
Proof.
  unfold conn_entries, drop_entries. induction T as [|x T IH]; [reflexivity|]. cbn [filter].
  destruct (owner_eqb (fst x) (OConn c)); [discriminate|]. intro H. cbn [negb]. rewrite IH; auto.
Qed.

(* ---------- the invariant ---------- *)
Definition hash_okD (D : list desc) : Prop :=
  forall d d', In d D -> In d' D -> dhash d = dhash d' -> dmethods d = dmethods d'.

Record Inv (D : list desc) (s : state) (T : ltable) (n : nat) : Prop := {
  iH1 : forall m h, In h (hget s m) -> hmeth h = m /\ hid h < n;
  iH2 : forall m, NoDup (map hid (hget s m));
  iH3 : forall c cl, aget c (sconns s) = Some cl ->
        forall h, In h (chandlers cl) <-> (In h (hget s (hmeth h)) /\ howner h = OConn c);
  iH3n : forall c, aget c (sconns s) = None -> forall m h, In h (hget s m) -> howner h <> OConn c;
  iC1 : forall m o, In o (map howner (hget s m)) <-> In o (live_in T m);
  iC2 : forall c, match aget c (sconns s) with
                  | None => conn_entries T c = []
                  | Some cl => exists ds, conn_entries T c = [(OConn c, ds)] /\
                                 forall d, In d D -> dhash d = chash cl -> dmethods d = ds
                  end;
  iD : forall e, In e (spath s) -> hget s (snd e) <> []
}.

Lemma Inv_empty D : Inv D empty_state [] 0.
Proof. constructor; cbn; try tauto; try (intros; constructor); try discriminate. Qed.

Lemma NoDup_map_eq {A B} (f : A -> B) l a b : NoDup (map f l) -> In a l -> In b l -> f a = f b -> a = b.
Proof.
  induction l as [|x l IH]; cbn [map]; [intros _ []|].
  intro H. inversion H as [|? ? Hn Hd]; subst. intros [<-|Ha] [<-|Hb] E; auto.
  - exfalso. apply Hn. rewrite E. apply in_map. exact Hb.
  - exfalso. apply Hn. rewrite <- E. apply in_map. exact Ha.
Qed.
Lemma NoDup_map_filter {A B} (f : A -> B) g l : NoDup (map f l) -> NoDup (map f (filter g l)).
Proof.
  induction l as [|x l IH]; cbn [map filter]; [auto|].
  intro H. inversion H as [|? ? Hn Hd]; subst. destruct (g x); cbn [map]; [constructor|]; auto.
  intro Hin. apply Hn. apply in_map_iff in Hin. destruct Hin as (y & <- & Hy).
  apply filter_In in Hy. apply in_map. tauto.
Qed.

Lemma hit_owner D s T n c cl m h : Inv D s T n -> aget c (sconns s) = Some cl -> In h (hget s m) ->
  hit (chandlers cl) m h = owner_eqb (howner h) (OConn c).
Proof.
  intros I Hc Hh. destruct (owner_eqb (howner h) (OConn c)) eqn:Q.
  - apply owner_eqb_eq in Q. unfold hit. apply existsb_exists. exists h.
    destruct (iH1 _ _ _ _ I _ _ Hh) as [Hm _]. split.
    + apply (iH3 _ _ _ _ I _ _ Hc). rewrite Hm. split; assumption.
    + rewrite Hm, !Nat.eqb_refl. reflexivity.
  - apply owner_eqb_neq in Q. destruct (hit (chandlers cl) m h) eqn:E; [|reflexivity].
    exfalso. apply Q. unfold hit in E. apply existsb_exists in E. destruct E as (hd & Hin & E).
    apply andb_true_iff in E. destruct E as [E1 E2]. apply Nat.eqb_eq in E1, E2.
    apply (iH3 _ _ _ _ I _ _ Hc) in Hin. destruct Hin as [Hin Ho]. rewrite E1 in Hin.
    assert (h = hd) by (eapply NoDup_map_eq; [apply (iH2 _ _ _ _ I m)|assumption..]). subst hd. exact Ho.
Qed.

Lemma remove_spec D s T n c cl : Inv D s T n -> aget c (sconns s) = Some cl ->
  let s1 := fst (remove_handler s c) in
  snd (remove_handler s c) = true /\ sconns s1 = adel c (sconns s) /\
  (forall m, hget s1 m = filter (fun h => negb (owner_eqb (howner h) (OConn c))) (hget s m)) /\
  (forall e, In e (spath s1) -> In e (spath s)) /\
  (forall e, In e (spath s) -> hget s1 (snd e) <> [] -> In e (spath s1)) /\
  (forall e, In e (spath s1) -> hget s1 (snd e) <> []).
Proof.
  intros I Hc. unfold remove_handler. rewrite Hc. cbn [fst snd].
  destruct (drop_all_spec (chandlers cl) s) as (A0 & A1 & A2 & A3).
  cbn [sconns spath]. rewrite hget_state. split; [reflexivity|]. split; [rewrite A0; reflexivity|].
  split; [|split; [exact A2|split; [exact A3|]]].
  - intro m. rewrite A1. apply filter_ext_in. intros h Hh. erewrite hit_owner; eauto.
  - apply drop_all_D. exact (iD _ _ _ _ I).
Qed.

Lemma remove_inv D s T n c cl : Inv D s T n -> aget c (sconns s) = Some cl ->
  Inv D (fst (remove_handler s c)) (drop_entries T c) n.
Proof.
  intros I Hc. destruct (remove_spec _ _ _ _ _ _ I Hc) as (_ & R0 & R1 & R2 & R3 & R4).
  set (s1 := fst (remove_handler s c)) in *. constructor.
  - intros m h Hh. rewrite R1 in Hh. apply filter_In in Hh. apply (iH1 _ _ _ _ I). tauto.
  - intro m. rewrite R1. apply NoDup_map_filter. apply (iH2 _ _ _ _ I).
  - intros c' cl' Hc' h. rewrite R0, aget_adel in Hc'. destruct (c =? c') eqn:E; [discriminate|].
    rewrite (iH3 _ _ _ _ I _ _ Hc' h), R1, filter_In. split; [|tauto].
    intros [H1 H2]. split; [split; [exact H1|]|exact H2].
    apply negb_true_iff, owner_eqb_neq. rewrite H2. intro Q. inversion Q; subst.
    rewrite Nat.eqb_refl in E. discriminate.
  - intros c' Hc' m h Hh. rewrite R1 in Hh. apply filter_In in Hh. destruct Hh as [Hh Ho].
    rewrite R0, aget_adel in Hc'. destruct (c =? c') eqn:E.
    + apply Nat.eqb_eq in E; subst c'. apply negb_true_iff, owner_eqb_neq in Ho. exact Ho.
    + apply (iH3n _ _ _ _ I _ Hc' _ _ Hh).
  - intros m o. rewrite live_in_drop, <- (iC1 _ _ _ _ I), R1, !in_map_iff. split.
    + intros (h & <- & Hh). apply filter_In in Hh. destruct Hh as [Hh Ho].
      apply negb_true_iff, owner_eqb_neq in Ho. split; [exists h; auto|exact Ho].
    + intros [(h & <- & Hh) Ho]. exists h. split; [reflexivity|]. apply filter_In. split; [exact Hh|].
      apply negb_true_iff, owner_eqb_neq. exact Ho.
  - intro c'. rewrite R0, aget_adel, conn_entries_drop. destruct (c =? c'); [reflexivity|].
    apply (iC2 _ _ _ _ I c').
  - exact R4.
Qed.

Lemma NoDup_app_lt (l1 l2 : list nat) n : NoDup l1 -> NoDup l2 ->
  (forall x, In x l1 -> x < n) -> (forall x, In x l2 -> n <= x) -> NoDup (l1 ++ l2).
Proof.
  intros H1 H2 A B. induction l1 as [|a l1 IH]; [exact H2|]. cbn [app].
  inversion H1; subst. constructor.
  - intro Hin. apply in_app_or in Hin. destruct Hin as [Hin|Hin]; [contradiction|].
    specialize (A a (or_introl eq_refl)). specialize (B a Hin). lia.
  - apply IH; [assumption|]. intros x Hx. apply A. right. exact Hx.
Qed.

Lemma install_inv D s T n o ds s' hs conns' :
  Inv D s T n -> process s o ds n [] = Ok (s', hs) ->
  (forall c' cl', aget c' conns' = Some cl' ->
     (OConn c' <> o /\ aget c' (sconns s) = Some cl') \/
     (OConn c' = o /\ aget c' (sconns s) = None /\ chandlers cl' = hs /\
      forall d', In d' D -> dhash d' = chash cl' -> dmethods d' = ds)) ->
  (forall c', aget c' conns' = None -> OConn c' <> o /\ aget c' (sconns s) = None) ->
  Inv D (State (spath s') conns' (shandlers s')) (T ++ [(o, ds)]) (n + length ds).
Proof.
  intros I P HS HN. apply process_spec in P. destruct P as (P0 & P1 & P2 & P3 & P4). cbn [app] in P1.
  assert (NEW : forall m h, In h (filter (fun h => hmeth h =? m) (mk_handlers o ds n)) ->
                howner h = o /\ hmeth h = m /\ n <= hid h < n + length ds /\ In h hs).
  { intros m h Hh. apply filter_In in Hh. destruct Hh as [Hh Hm]. apply Nat.eqb_eq in Hm.
    destruct (mk_handlers_in _ _ _ _ Hh) as (A & B & _). subst hs. auto. }
  constructor; cbn [sconns spath]; rewrite ?hget_state.
  - intros m h Hh. rewrite P2 in Hh. apply in_app_or in Hh. destruct Hh as [Hh|Hh].
    + destruct (iH1 _ _ _ _ I _ _ Hh). split; [assumption|lia].
    + apply NEW in Hh. split; [tauto|lia].
  - intro m. rewrite P2, map_app. apply NoDup_app_lt with (n := n).
    + apply (iH2 _ _ _ _ I).
    + apply NoDup_map_filter. apply mk_handlers_ids.
    + intros x Hx. apply in_map_iff in Hx. destruct Hx as (h & <- & Hh). apply (iH1 _ _ _ _ I _ _ Hh).
    + intros x Hx. apply in_map_iff in Hx. destruct Hx as (h & <- & Hh). apply NEW in Hh. lia.
  - intros c' cl' Hc' h. rewrite P2. destruct (HS _ _ Hc') as [[Hne Hold]|(He & Hold & Hh & _)].
    + rewrite (iH3 _ _ _ _ I _ _ Hold h). split.
      * intros [H1 H2]. split; [apply in_or_app; left; exact H1|exact H2].
      * intros [H1 H2]. split; [|exact H2]. apply in_app_or in H1. destruct H1 as [H1|H1]; [exact H1|].
        apply NEW in H1. exfalso. apply Hne. rewrite <- H2. tauto.
    + rewrite Hh. split.
      * intro Hin. rewrite P1 in Hin. destruct (mk_handlers_in _ _ _ _ Hin) as (A & _ & _).
        split; [|congruence]. apply in_or_app. right. apply filter_In. split; [exact Hin|apply Nat.eqb_refl].
      * intros [H1 H2]. apply in_app_or in H1. destruct H1 as [H1|H1].
        -- exfalso. exact (iH3n _ _ _ _ I _ Hold _ _ H1 H2).
        -- apply NEW in H1. tauto.
  - intros c' Hc' m h Hh. destruct (HN _ Hc') as [Hne Hold]. rewrite P2 in Hh.
    apply in_app_or in Hh. destruct Hh as [Hh|Hh].
    + apply (iH3n _ _ _ _ I _ Hold _ _ Hh).
    + apply NEW in Hh. intro Q. apply Hne. rewrite <- Q. tauto.
  - intros m o'. rewrite live_in_app, P2, map_app, !in_app_iff, (iC1 _ _ _ _ I).
    apply or_iff_compat_l. split.
    + intro Hin. apply in_map_iff in Hin. destruct Hin as (h & <- & Hh).
      assert (E : exposes ds m = true).
      { apply (mk_handlers_exposes o ds m n). apply filter_In in Hh. destruct Hh as [Hh Hm].
        apply Nat.eqb_eq in Hm. exists h. auto. }
      rewrite E. left. apply NEW in Hh. symmetry. tauto.
    + destruct (exposes ds m) eqn:E; [|intros []]. intros [<-|[]].
      apply (mk_handlers_exposes o ds m n) in E. destruct E as (h & Hin & Hm).
      apply in_map_iff. exists h. split.
      * apply mk_handlers_in in Hin. tauto.
      * apply filter_In. split; [exact Hin|apply Nat.eqb_eq; exact Hm].
  - intro c'. rewrite conn_entries_app. destruct (aget c' conns') as [cl'|] eqn:Hc'.
    + destruct (HS _ _ Hc') as [[Hne Hold]|(He & Hold & Hh & Hhash)].
      * generalize (iC2 _ _ _ _ I c'). rewrite Hold. intros (ds' & E1 & E2).
        exists ds'. split; [|exact E2]. rewrite E1.
        destruct (owner_eqb o (OConn c')) eqn:Q; [apply owner_eqb_eq in Q; congruence|reflexivity].
      * generalize (iC2 _ _ _ _ I c'). rewrite Hold. intro E1. exists ds. split; [|exact Hhash].
        rewrite E1, <- He, owner_eqb_refl. reflexivity.
    + destruct (HN _ Hc') as [Hne Hold]. generalize (iC2 _ _ _ _ I c'). rewrite Hold. intro E1.
      rewrite E1. destruct (owner_eqb o (OConn c')) eqn:Q; [apply owner_eqb_eq in Q; congruence|reflexivity].
  - intros e He. rewrite P2. destruct (P4 e He) as [H|(d & Hd & Hs)].
    + intro Q. apply app_eq_nil in Q. destruct Q as [Q _]. exact (iD _ _ _ _ I e H Q).
    + intro Q. apply app_eq_nil in Q. destruct Q as [_ Q].
      assert (E : exposes ds (snd e) = true).
      { unfold exposes. apply existsb_exists. exists d. split; [exact Hd|]. rewrite Hs. apply Nat.eqb_refl. }
      apply (mk_handlers_exposes o ds (snd e) n) in E. destruct E as (h & Hin & Hm).
      assert (In h (filter (fun h => hmeth h =? snd e) (mk_handlers o ds n))).
      { apply filter_In. split; [exact Hin|apply Nat.eqb_eq; exact Hm]. }
      rewrite Q in H. exact H.
Qed.

Lemma Inv_mono D s T n n' : n <= n' -> Inv D s T n -> Inv D s T n'.
Proof.
  intros L I. destruct I. constructor; auto.
  intros m h Hh. destruct (iH4 _ _ Hh). split; [assumption|lia].
Qed.
Lemma Inv_retable D s T T' n : Inv D s T n ->
  (forall m o, In o (live_in T' m) <-> In o (live_in T m)) ->
  (forall c, conn_entries T' c = conn_entries T c) -> Inv D s T' n.
Proof.
  intros I L C. destruct I. constructor; auto.
  - intros m o. rewrite L. apply iC3.
  - intro c. rewrite C. apply iC4.
Qed.
Lemma state_eta s : State (spath s) (sconns s) (shandlers s) = s.
Proof. destruct s; reflexivity. Qed.

(* ---------- one operation ---------- *)
Definition MInv D (mx : mux) (T : ltable) : Prop := Inv D (clone (published mx)) T (fresh mx).
Definition op_in (D : list desc) (o : op) : Prop := match o with RegConn _ d => In d D | _ => True end.

Lemma create_inv D s T n c d r : hash_okD D -> In d D -> Inv D s T n -> aget c (sconns s) = None ->
  process s (OConn c) (dmethods d) n [] = Ok r ->
  Inv D (State (spath (fst r)) (aset c (ConnList (snd r) (dhash d)) (sconns (fst r))) (shandlers (fst r)))
        (T ++ [(OConn c, dmethods d)]) (n + length (dmethods d)).
Proof.
  intros HK Hd I Hc P. destruct r as [s' hs]. cbn [fst snd].
  pose proof (process_spec _ _ _ _ _ _ _ P) as (P0 & _).
  eapply install_inv; eauto.
  - intros c' cl'. rewrite aget_aset, P0. destruct (c =? c') eqn:E.
    + apply Nat.eqb_eq in E; subst c'. intro Q; inversion Q; subst. right. cbn [chandlers chash].
      repeat split; auto.
    + intro Q. left. split; [|exact Q]. intro X; inversion X; subst. rewrite Nat.eqb_refl in E. discriminate.
  - intros c'. rewrite aget_aset, P0. destruct (c =? c') eqn:E; [discriminate|].
    intro Q. split; [|exact Q]. intro X; inversion X; subst. rewrite Nat.eqb_refl in E. discriminate.
Qed.

Lemma live_step_conn T c d : live_step T (RegConn c d, ROk) = drop_entries T c ++ [(OConn c, dmethods d)].
Proof. reflexivity. Qed.
Lemma live_step_drop T c r : live_step T (DropConn c, r) = drop_entries T c.
Proof. reflexivity. Qed.

Lemma step_inv D mx T o : hash_okD D -> op_in D o -> MInv D mx T ->
  MInv D (fst (step mx o)) (live_step T (o, snd (step mx o))).
Proof.
  intros HK Ho I. unfold MInv in *. set (s := clone (published mx)) in *.
  destruct o as [l ds|c d|c]; cbn [step]; fold s.
  - (* RegLocal *)
    destruct (process s (OLocal l) ds (fresh mx) []) as [[s' hs]| | |] eqn:P; cbn [fst snd published fresh clone]; rewrite ?live_step_conn, ?live_step_drop; cbn [live_step];
      try (eapply Inv_mono; [|exact I]; lia).
    pose proof (process_spec _ _ _ _ _ _ _ P) as (P0 & _).
    rewrite <- (state_eta s'). eapply install_inv; eauto.
    + intros c' cl' Q. left. split; [discriminate|]. rewrite <- P0. exact Q.
    + intros c' Q. split; [discriminate|]. rewrite <- P0. exact Q.
  - (* RegConn *)
    cbn [op_in] in Ho. unfold add_conn_handler.
    destruct (aget c (sconns s)) as [cl|] eqn:Hc.
    + destruct (chash cl =? dhash d) eqn:Hh.
      * (* unchanged: nothing to do *)
        cbn [fst snd published fresh clone]; rewrite ?live_step_conn, ?live_step_drop; cbn [live_step]. apply Nat.eqb_eq in Hh.
        generalize (iC2 _ _ _ _ I c). rewrite Hc. intros (ds & E1 & E2).
        assert (Eds : dmethods d = ds) by (apply E2; [exact Ho|congruence]).
        eapply Inv_mono; [|eapply Inv_retable; [exact I| |]]; [lia| |].
        -- intros m o. rewrite live_in_app, in_app_iff, live_in_drop. split.
           ++ intros [[H _]|H]; [exact H|]. destruct (exposes (dmethods d) m) eqn:X; [|destruct H].
              destruct H as [<-|[]]. apply in_live_in. exists ds. split; [|congruence].
              assert (In (OConn c, ds) (conn_entries T c)) by (rewrite E1; left; reflexivity).
              unfold conn_entries in H. apply filter_In in H. tauto.
           ++ intro H. destruct (owner_eqb o (OConn c)) eqn:Q.
              ** apply owner_eqb_eq in Q; subst o. right. apply in_live_in in H. destruct H as (ds' & H1 & H2).
                 assert (In (OConn c, ds') (conn_entries T c)).
                 { unfold conn_entries. apply filter_In. split; [exact H1|apply owner_eqb_refl]. }
                 rewrite E1 in H. destruct H as [H|[]]. inversion H; subst ds'. rewrite Eds, H2. left; reflexivity.
              ** apply owner_eqb_neq in Q. left. split; assumption.
        -- intro c'. rewrite conn_entries_app, conn_entries_drop. cbn [owner_eqb]. destruct (c =? c') eqn:Q.
           ++ apply Nat.eqb_eq in Q; subst c'. rewrite E1, Eds. reflexivity.
           ++ rewrite app_nil_r. reflexivity.
      * (* drop and recreate *)
        pose proof (remove_inv _ _ _ _ _ _ I Hc) as I1.
        pose proof (remove_spec _ _ _ _ _ _ I Hc) as (_ & R0 & _).
        set (s1 := fst (remove_handler s c)) in *.
        assert (Hc1 : aget c (sconns s1) = None) by (rewrite R0, aget_adel, Nat.eqb_refl; reflexivity).
        destruct (process s1 (OConn c) (dmethods d) (fresh mx) []) as [r| | |] eqn:P; cbn [bind fst snd published fresh clone]; rewrite ?live_step_conn, ?live_step_drop; cbn [live_step];
          try (eapply Inv_mono; [|exact I]; lia).
        eapply create_inv; eauto.
    + (* first registration of the connection *)
      assert (ET : drop_entries T c = T).
      { apply drop_entries_id. generalize (iC2 _ _ _ _ I c). rewrite Hc. auto. }
      destruct (process s (OConn c) (dmethods d) (fresh mx) []) as [r| | |] eqn:P; cbn [bind fst snd published fresh clone]; rewrite ?live_step_conn, ?live_step_drop; cbn [live_step];
        try (eapply Inv_mono; [|exact I]; lia).
      rewrite ET. eapply create_inv; eauto.
  - (* DropConn *)
    destruct (aget c (sconns s)) as [cl|] eqn:Hc.
    + pose proof (remove_spec _ _ _ _ _ _ I Hc) as (R & _). rewrite R.
      cbn [fst snd published fresh clone]; rewrite ?live_step_conn, ?live_step_drop; cbn [live_step]. eapply remove_inv; eauto.
    + unfold remove_handler. rewrite Hc. cbn [fst snd]. rewrite live_step_drop.
      rewrite drop_entries_id; [exact I|]. generalize (iC2 _ _ _ _ I c). rewrite Hc. auto.
Qed.

Lemma steps_inv D : hash_okD D -> forall h mx T, Forall (op_in D) h -> MInv D mx T ->
  MInv D (steps mx h) (fold_left live_step (trace_from mx h) T).
Proof.
  intros HK h. induction h as [|o h IH]; intros mx T F I; cbn [steps trace_from fold_left]; [exact I|].
  inversion F; subst. apply IH; [assumption|]. apply step_inv; assumption.
Qed.

(* ---------- histories ---------- *)
Definition descs_of (h : list op) : list desc :=
  flat_map (fun o => match o with RegConn _ d => [d] | _ => [] end) h.
(* the descriptor hash (SHA-256 of the file descriptors) identifies what a backend lists *)
Definition hash_ok (h : list op) : Prop := hash_okD (descs_of h).

Lemma op_in_descs h : Forall (op_in (descs_of h)) h.
Proof.
  apply Forall_forall. intros o Ho. destruct o as [l ds|c d|c]; cbn [op_in]; auto.
  unfold descs_of. apply in_flat_map. exists (RegConn c d). split; [exact Ho|left; reflexivity].
Qed.

Lemma run_inv h : hash_ok h -> MInv (descs_of h) (run h) (live_table (trace h)).
Proof.
  intro HK. unfold run, trace, live_table. apply steps_inv; [exact HK|apply op_in_descs|].
  unfold MInv. cbn. apply Inv_empty.
Qed.

Lemma candidates_clone mx m : candidates mx m = map howner (hget (clone (published mx)) m).
Proof. unfold candidates. destruct (published mx); reflexivity. Qed.

Lemma dispatch_live h m o : hash_ok h -> In o (candidates (run h) m) <-> In o (live (trace h) m).
Proof.
  intro HK. rewrite candidates_clone. unfold live. apply (iC1 _ _ _ _ (run_inv h HK)).
Qed.

Lemma nil_iff_no_member {A} (l : list A) : l = [] <-> forall x, ~ In x l.
Proof.
  split; [intros -> x []|]. destruct l as [|a l]; [reflexivity|]. intro H. exfalso. apply (H a). left; reflexivity.
Qed.
Lemma candidates_nil_iff h m : hash_ok h -> candidates (run h) m = [] <-> live (trace h) m = [].
Proof.
  intro HK. rewrite !nil_iff_no_member. split; intros H x Hx; apply (H x); apply (dispatch_live h m x HK); exact Hx.
Qed.

Lemma unimplemented_iff_empty h m : hash_ok h ->
  (grpc_replies (run h) m = [Unimplemented] <-> live (trace h) m = []) /\
  (forall r, In r (grpc_replies (run h) m) ->
     (r = Unimplemented /\ live (trace h) m = []) \/ (exists o, r = Served o /\ In o (live (trace h) m))).
Proof.
  intro HK. pose proof (candidates_nil_iff h m HK) as N. unfold grpc_replies.
  destruct (candidates (run h) m) as [|o os] eqn:C.
  - split; [split; intro; [apply N|]; reflexivity|]. intros r [<-|[]]. left. split; [reflexivity|apply N; reflexivity].
  - split.
    + split; [cbn; discriminate|]. intro L. apply N in L. discriminate.
    + intros r Hr. apply in_map_iff in Hr. destruct Hr as (o' & <- & Ho). right. exists o'. split; [reflexivity|].
      apply (dispatch_live h m o' HK). rewrite C. exact Ho.
Qed.

Lemma t_lookup_in t n v m : t_lookup t n v = Some m -> exists v', In (n, v', m) t.
Proof.
  unfold t_lookup. destruct (t_find t n v) as [m'|] eqn:F.
  - intro H; inversion H; subst. exists v. apply t_find_in. exact F.
  - intro H. exists 0. apply t_find_in. exact H.
Qed.

(* a route that is present leads to a method with a live backend *)
Lemma route_live h n v m : hash_ok h -> route (run h) n v = Some m -> live (trace h) m <> [].
Proof.
  intros HK R. unfold route in R. destruct (published (run h)) as [s|] eqn:P; [|discriminate].
  apply t_lookup_in in R. destruct R as (v' & Hin).
  pose proof (run_inv h HK) as I. unfold MInv in I. rewrite P in I. cbn [clone] in I.
  pose proof (iD _ _ _ _ I _ Hin) as Hne. cbn [snd] in Hne.
  intro L. apply (candidates_nil_iff h m HK) in L. rewrite candidates_clone, P in L. cbn [clone] in L.
  apply map_eq_nil in L. contradiction.
Qed.

Lemma routes_follow h n v r : hash_ok h -> In r (http_replies (run h) n v) ->
  (r = NotFound /\ route (run h) n v = None) \/
  (exists m o, route (run h) n v = Some m /\ r = Served o /\ In o (live (trace h) m)).
Proof.
  intros HK. unfold http_replies. destruct (route (run h) n v) as [m|] eqn:R.
  - intro Hr. right. pose proof (route_live h n v m HK R) as L.
    destruct (proj2 (unimplemented_iff_empty h m HK) r Hr) as [[_ E]|(o & E & Ho)]; [contradiction|].
    exists m, o. auto.
  - intros [<-|[]]. left. auto.
Qed.

(* ---------- the safe operations ---------- *)
Lemma conn_known h c : hash_ok h ->
  (aget c (sconns (clone (published (run h)))) = None <-> conn_entries (live_table (trace h)) c = []).
Proof.
  intro HK. pose proof (run_inv h HK) as I. generalize (iC2 _ _ _ _ I c).
  destruct (aget c (sconns (clone (published (run h))))) as [cl|].
  - intros (ds & E & _). rewrite E. split; discriminate.
  - intro E. split; auto.
Qed.

Lemma drop_unknown h c : hash_ok h -> conn_entries (live_table (trace h)) c = [] ->
  step (run h) (DropConn c) = (run h, RFalse).
Proof.
  intros HK E. apply (conn_known h c HK) in E. cbn [step]. unfold remove_handler. rewrite E. reflexivity.
Qed.
Lemma drop_known h c : hash_ok h -> conn_entries (live_table (trace h)) c <> [] ->
  snd (step (run h) (DropConn c)) = RTrue /\
  forall m o, In o (candidates (fst (step (run h) (DropConn c))) m) <-> In o (candidates (run h) m) /\ o <> OConn c.
Proof.
  intros HK E. pose proof (run_inv h HK) as I. unfold MInv in I.
  destruct (aget c (sconns (clone (published (run h))))) as [cl|] eqn:Hc.
  - pose proof (remove_spec _ _ _ _ _ _ I Hc) as (R & _ & R1 & _). cbn [step]. rewrite R. cbn [fst snd].
    split; [reflexivity|]. intros m o. rewrite !candidates_clone. cbn [published clone]. rewrite R1, !in_map_iff. split.
    + intros (x & <- & Hx). apply filter_In in Hx. destruct Hx as [Hx Ho]. apply negb_true_iff, owner_eqb_neq in Ho.
      split; [exists x; auto|exact Ho].
    + intros [(x & <- & Hx) Ho]. exists x. split; [reflexivity|]. apply filter_In. split; [exact Hx|].
      apply negb_true_iff, owner_eqb_neq. exact Ho.
  - apply (conn_known h c HK) in Hc. contradiction.
Qed.

(* a successful RegisterConn leaves the descriptor hash behind; repeating it is a no-op *)
Lemma reg_conn_hash mx c d : snd (step mx (RegConn c d)) = ROk ->
  exists cl, aget c (sconns (clone (published (fst (step mx (RegConn c d)))))) = Some cl /\ chash cl = dhash d.
Proof.
  cbn [step]. unfold add_conn_handler. set (s := clone (published mx)).
  destruct (aget c (sconns s)) as [cl|] eqn:Hc.
  - destruct (chash cl =? dhash d) eqn:Hh.
    + intros _. cbn [fst published clone]. exists cl. apply Nat.eqb_eq in Hh. auto.
    + destruct (process _ _ _ _ _) as [r| | |]; cbn [bind fst snd]; try discriminate.
      intros _. cbn [published clone sconns]. rewrite aget_aset, Nat.eqb_refl. eexists; split; reflexivity.
  - destruct (process _ _ _ _ _) as [r| | |]; cbn [bind fst snd]; try discriminate.
    intros _. cbn [published clone sconns]. rewrite aget_aset, Nat.eqb_refl. eexists; split; reflexivity.
Qed.
Lemma reg_conn_again mx c d cl : aget c (sconns (clone (published mx))) = Some cl -> chash cl = dhash d ->
  snd (step mx (RegConn c d)) = ROk /\
  clone (published (fst (step mx (RegConn c d)))) = clone (published mx).
Proof.
  intros Hc Hh. cbn [step]. unfold add_conn_handler. rewrite Hc. apply Nat.eqb_eq in Hh. rewrite Hh.
  cbn [fst snd published clone]. auto.
Qed.

(* operations on other connections and local registrations leave a connection's entry alone *)
Definition touches (c : nat) (o : op) : bool :=
  match o with RegConn c' _ | DropConn c' => c' =? c | RegLocal _ _ => false end.
Lemma step_frame mx o c : touches c o = false ->
  aget c (sconns (clone (published (fst (step mx o))))) = aget c (sconns (clone (published mx))).
Proof.
  intro Tc. set (s := clone (published mx)). destruct o as [l ds|c' d|c']; cbn [step touches] in *; fold s.
  - destruct (process s (OLocal l) ds (fresh mx) []) as [[s' hs]| | |] eqn:P; cbn [fst published clone]; try reflexivity.
    apply process_spec in P. destruct P as (P0 & _). rewrite P0. reflexivity.
  - unfold add_conn_handler.
    assert (RM : forall cl, aget c' (sconns s) = Some cl -> aget c (sconns (fst (remove_handler s c'))) = aget c (sconns s)).
    { intros cl Hc. unfold remove_handler. rewrite Hc. cbn [fst sconns].
      destruct (drop_all_spec (chandlers cl) s) as (A0 & _). rewrite A0, aget_adel, Tc. reflexivity. }
    assert (CR : forall s0, aget c (sconns s0) = aget c (sconns s) ->
      match (do r <- process s0 (OConn c') (dmethods d) (fresh mx) [];
             Ok (State (spath (fst r)) (aset c' (ConnList (snd r) (dhash d)) (sconns (fst r))) (shandlers (fst r)))) with
      | Ok s' => aget c (sconns s') = aget c (sconns s) | _ => True end).
    { intros s0 E. destruct (process s0 (OConn c') (dmethods d) (fresh mx) []) as [[s' hs]| | |] eqn:P; cbn [bind]; auto.
      apply process_spec in P. destruct P as (P0 & _). cbn [fst snd sconns]. rewrite aget_aset, Tc, P0. exact E. }
    destruct (aget c' (sconns s)) as [cl|] eqn:Hc.
    + destruct (chash cl =? dhash d); [reflexivity|].
      specialize (CR _ (RM cl eq_refl)).
      destruct (do r <- process _ _ _ _ _; _) as [s'| | |]; cbn [fst published clone]; auto.
    + specialize (CR s eq_refl).
      destruct (do r <- process _ _ _ _ _; _) as [s'| | |]; cbn [fst published clone]; auto.
  - unfold remove_handler. destruct (aget c' (sconns s)) as [cl|] eqn:Hc; cbn [fst snd published clone]; [|reflexivity].
    cbn [sconns]. destruct (drop_all_spec (chandlers cl) s) as (A0 & _). rewrite A0, aget_adel, Tc. reflexivity.
Qed.
Lemma steps_frame h : forall mx c, (forall o, In o h -> touches c o = false) ->
  aget c (sconns (clone (published (steps mx h)))) = aget c (sconns (clone (published mx))).
Proof.
  induction h as [|o h IH]; intros mx c F; cbn [steps]; [reflexivity|].
  rewrite IH; [|intros o' Ho'; apply F; right; exact Ho'].
  apply step_frame. apply F. left; reflexivity.
Qed.

(* a second backend for services that are already routed *)
Definition all_bound (t : trie) (ds : list mdesc) : Prop :=
  forall d k, In d ds -> In k (mkeys d) -> kvalid k = true /\ t_lookup t (knode k) (kverb k) = Some (mname d).

(* the invariant of the map along every operation *)
Lemma t_add_all_wf ks : forall t m t', t_wf t -> t_add_all t ks m = Ok t' -> t_wf t'.
Proof.
  induction ks as [|k ks IH]; intros t m t' W; cbn [t_add_all].
  - intro H; injection H as <-. exact W.
  - destruct (t_add t k m) as [[t1 b]| | |] eqn:E; cbn [bind fst]; try discriminate.
    apply IH. eapply t_add_wf; eauto.
Qed.
Lemma t_add_rule_wf t r m t' : t_wf t -> t_add_rule t r m = Ok t' -> t_wf t'.
Proof.
  unfold t_add_rule. intro W. destruct (t_add t (rmain r) m) as [[t1 b]| | |] eqn:E; cbn [bind fst]; try discriminate.
  apply t_add_all_wf. eapply t_add_wf; eauto.
Qed.
Lemma t_add_rules_wf rs : forall t m t', t_wf t -> t_add_rules t rs m = Ok t' -> t_wf t'.
Proof.
  induction rs as [|r rs IH]; intros t m t' W; cbn [t_add_rules].
  - intro H; injection H as <-. exact W.
  - destruct (t_add_rule t r m) as [t1| | |] eqn:E; cbn [bind]; try discriminate.
    apply IH. eapply t_add_rule_wf; eauto.
Qed.
Lemma append_handler_wf s d h s' : t_wf (spath s) -> append_handler s d h = Ok s' -> t_wf (spath s').
Proof.
  unfold append_handler. intro W.
  destruct (t_add (spath s) (BKey (mnode d) 0 true) (mname d)) as [[t1 b]| | |] eqn:E; try discriminate.
  cbn [fst]. destruct (t_add_rules t1 (mrules d) (mname d)) as [t2| | |] eqn:E2; cbn [bind]; try discriminate.
  intro H; injection H as <-. cbn [spath]. eapply t_add_rules_wf; [|exact E2]. eapply t_add_wf; eauto.
Qed.
Lemma process_wf ds : forall s o n acc r, t_wf (spath s) -> process s o ds n acc = Ok r -> t_wf (spath (fst r)).
Proof.
  induction ds as [|d ds IH]; intros s o n acc r W; cbn [process].
  - intro H; injection H as <-. exact W.
  - destruct (append_handler s d (Handler n o (mname d))) as [s1| | |] eqn:E; cbn [bind]; try discriminate.
    apply IH. eapply append_handler_wf; eauto.
Qed.
Lemma drop_one_wf s hd : t_wf (spath s) -> t_wf (spath (drop_one s hd)).
Proof.
  intro W. unfold drop_one. destruct (filter _ (hget s (hmeth hd))); cbn [spath]; [now apply t_del_wf|exact W].
Qed.
Lemma drop_all_wf hds : forall s, t_wf (spath s) -> t_wf (spath (fold_left drop_one hds s)).
Proof. induction hds as [|hd hds IH]; intros s W; cbn [fold_left]; [exact W|]. apply IH. now apply drop_one_wf. Qed.
Lemma remove_handler_wf s c : t_wf (spath s) -> t_wf (spath (fst (remove_handler s c))).
Proof.
  intro W. unfold remove_handler. destruct (aget c (sconns s)) as [cl|]; cbn [fst spath]; [|exact W]. now apply drop_all_wf.
Qed.
Lemma add_conn_handler_wf s c d n s' : t_wf (spath s) -> add_conn_handler s c d n = Ok s' -> t_wf (spath s').
Proof.
  intro W. unfold add_conn_handler.
  assert (C : forall s0, t_wf (spath s0) ->
            (do r <- process s0 (OConn c) (dmethods d) n [];
             Ok (State (spath (fst r)) (aset c (ConnList (snd r) (dhash d)) (sconns (fst r))) (shandlers (fst r)))) = Ok s' ->
            t_wf (spath s')).
  { intros s0 W0. destruct (process s0 (OConn c) (dmethods d) n []) as [r| | |] eqn:P; cbn [bind]; try discriminate.
    intro H; injection H as <-. cbn [spath]. eapply process_wf; eauto. }
  destruct (aget c (sconns s)) as [cl|].
  - destruct (chash cl =? dhash d); [intro H; injection H as <-; exact W|]. apply C. now apply remove_handler_wf.
  - now apply C.
Qed.
Lemma step_wf mx o : t_wf (spath (clone (published mx))) -> t_wf (spath (clone (published (fst (step mx o))))).
Proof.
  intro W. destruct o as [l ds|c d|c]; cbn [step].
  - destruct (process (clone (published mx)) (OLocal l) ds (fresh mx) []) as [r| | |] eqn:P; cbn [fst published clone]; auto.
    eapply process_wf; eauto.
  - destruct (add_conn_handler (clone (published mx)) c d (fresh mx)) as [s'| | |] eqn:P; cbn [fst published clone]; auto.
    eapply add_conn_handler_wf; eauto.
  - destruct (snd (remove_handler (clone (published mx)) c)); cbn [fst published clone]; auto.
    now apply remove_handler_wf.
Qed.
Lemma steps_wf h : forall mx, t_wf (spath (clone (published mx))) -> t_wf (spath (clone (published (steps mx h)))).
Proof. induction h as [|o h IH]; intros mx W; cbn [steps]; [exact W|]. apply IH. now apply step_wf. Qed.
(* in every published map keys are keys and bindings that meet belong to one method: the pairwise
   condition of [unobstructed], on the map itself *)
Theorem run_wf h : t_wf (spath (clone (published (run h)))).
Proof. apply steps_wf. apply t_wf_nil. Qed.

Lemma t_add_all_bound ks : forall t m, t_wf t ->
  (forall k, In k ks -> kvalid k = true /\ t_lookup t (knode k) (kverb k) = Some m) ->
  exists t', t_add_all t ks m = Ok t' /\ t_wf t' /\ forall n v, t_lookup t' n v = t_lookup t n v.
Proof.
  induction ks as [|k ks IH]; intros t m W H; cbn [t_add_all]; [exists t; auto|].
  destruct (H k (or_introl eq_refl)) as [V L].
  destruct (t_add_bound t k m W V L) as (t1 & b & E & Q). rewrite E. cbn [bind fst].
  destruct (IH t1 m (t_add_wf _ _ _ _ _ W E)) as (t' & E' & W' & Q').
  { intros k' Hk. destruct (H k' (or_intror Hk)) as [V' L']. split; [exact V'|]. now rewrite Q. }
  exists t'. split; [exact E'|]. split; [exact W'|]. intros n v. now rewrite Q', Q.
Qed.
Lemma t_add_rules_bound rs : forall t m, t_wf t ->
  (forall k, In k (flat_map rule_keys rs) -> kvalid k = true /\ t_lookup t (knode k) (kverb k) = Some m) ->
  exists t', t_add_rules t rs m = Ok t' /\ t_wf t' /\ forall n v, t_lookup t' n v = t_lookup t n v.
Proof.
  induction rs as [|r rs IH]; intros t m W H; cbn [t_add_rules]; [exists t; auto|].
  cbn [flat_map] in H. unfold t_add_rule.
  destruct (t_add_all_bound (rule_keys r) t m W) as (t1 & E & W1 & Q).
  { intros k Hk. apply H. apply in_or_app. now left. }
  unfold rule_keys in E. cbn [t_add_all] in E.
  destruct (t_add t (rmain r) m) as [x| | |]; cbn [bind] in E |- *; try discriminate. rewrite E. cbn [bind].
  destruct (IH t1 m W1) as (t' & E' & W' & Q').
  { intros k Hk. destruct (H k) as [V L]; [apply in_or_app; now right|]. split; [exact V|]. now rewrite Q. }
  exists t'. split; [exact E'|]. split; [exact W'|]. intros n v. now rewrite Q', Q.
Qed.
Lemma process_bound ds : forall s o n acc, t_wf (spath s) -> all_bound (spath s) ds ->
  exists s', process s o ds n acc = Ok (s', acc ++ mk_handlers o ds n) /\
             forall n' v, t_lookup (spath s') n' v = t_lookup (spath s) n' v.
Proof.
  induction ds as [|d ds IH]; intros s o n acc W B; cbn [process mk_handlers].
  - exists s. rewrite app_nil_r. auto.
  - unfold append_handler.
    destruct (t_add_rules_bound (Rule (BKey (mnode d) 0 true) [] :: mrules d) (spath s) (mname d) W) as (t2 & E & W2 & Q).
    { intros k Hk. apply (B d k); [left; reflexivity|]. unfold mkeys. cbn [flat_map rule_keys rmain radd app] in Hk. exact Hk. }
    cbn [t_add_rules] in E. unfold t_add_rule at 1 in E. cbn [rmain radd t_add_all] in E.
    destruct (t_add (spath s) (BKey (mnode d) 0 true) (mname d)) as [x| | |]; cbn [bind] in E; try discriminate.
    rewrite E. cbn [bind].
    destruct (IH (State t2 (sconns s) (aset (mname d) (hget s (mname d) ++ [Handler n o (mname d)]) (shandlers s)))
                 o (S n) (acc ++ [Handler n o (mname d)])) as (s' & P & Q').
    { exact W2. }
    { intros d' k Hd Hk. cbn [spath]. destruct (B d' k (or_intror Hd) Hk) as [V L]. split; [exact V|]. now rewrite Q. }
    exists s'. rewrite P, <- app_assoc. split; [reflexivity|]. intros n' v. rewrite Q'. cbn [spath]. apply Q.
Qed.


(* ---------- when a registration is accepted: [unobstructed], against the bindings of the map ---------- *)
(* The specification Registry.unobstructed T ds takes "theirs" from the descriptors of the live table T.
   The exact law takes them from the published map: the rules of a method stay in the trie until its
   last handler goes, whichever registration brought them (unobstructed_live_table_insufficient). *)
Definition trie_keys (t : trie) : list (bkey * method) := map (fun e => (entry_key e, snd e)) t.
Definition unobstructed_in (theirs : list (bkey * method)) (ds : list mdesc) : bool :=
  let mine := bound_keys ds in
  forallb (fun km => kvalid (fst km) &&
             forallb (fun km' => negb (key_meets (fst km) (fst km')) || (snd km =? snd km')) (mine ++ theirs)) mine.
Lemma unobstructed_eq T ds : unobstructed T ds = unobstructed_in (flat_map (fun x => bound_keys (snd x)) T) ds.
Proof. reflexivity. Qed.

Definition Unob (theirs mine : list (bkey * method)) : Prop :=
  forall km, In km mine -> kvalid (fst km) = true /\
    forall km', In km' (mine ++ theirs) -> key_meets (fst km) (fst km') = true -> snd km = snd km'.
Lemma unobstructed_in_Unob theirs ds : unobstructed_in theirs ds = true <-> Unob theirs (bound_keys ds).
Proof.
  unfold unobstructed_in, Unob. rewrite forallb_forall. split.
  - intros H km Hin. specialize (H km Hin). apply andb_true_iff in H. destruct H as [V H]. split; [exact V|].
    rewrite forallb_forall in H. intros km' Hin' Hm. specialize (H km' Hin'). cbv beta in H. apply orb_true_iff in H. destruct H as [H|H]; [|now apply Nat.eqb_eq].
    apply negb_true_iff in H. exfalso. revert H Hm. unfold method. intros H Hm. rewrite H in Hm. discriminate.
  - intros H km Hin. destruct (H km Hin) as [V C]. apply andb_true_iff. split; [exact V|]. apply forallb_forall. intros km' Hin'.
    apply orb_true_iff. destruct (key_meets (fst km) (fst km')) eqn:Hm; [right|left; reflexivity].
    apply Nat.eqb_eq. now apply C.
Qed.

Fixpoint t_add_keys (t : trie) (kms : list (bkey * method)) : outcome trie :=
  match kms with
  | [] => Ok t
  | km :: r => do x <- t_add t (fst km) (snd km); t_add_keys (fst x) r
  end.
Lemma t_add_keys_app a : forall b t, t_add_keys t (a ++ b) = (do t1 <- t_add_keys t a; t_add_keys t1 b).
Proof.
  induction a as [|km a IH]; intros b t; [reflexivity|]. cbn [app t_add_keys].
  destruct (t_add t (fst km) (snd km)) as [x| | |]; cbn [bind]; [apply IH|reflexivity|reflexivity|reflexivity].
Qed.
Lemma t_add_all_keys ks : forall t m, t_add_all t ks m = t_add_keys t (map (fun k => (k, m)) ks).
Proof.
  induction ks as [|k ks IH]; intros t m; [reflexivity|]. cbn [t_add_all map t_add_keys fst snd].
  destruct (t_add t k m) as [x| | |]; cbn [bind]; [apply IH|reflexivity|reflexivity|reflexivity].
Qed.
Lemma t_add_rules_keys rs : forall t m, t_add_rules t rs m = t_add_keys t (map (fun k => (k, m)) (flat_map rule_keys rs)).
Proof.
  induction rs as [|r rs IH]; intros t m; [reflexivity|]. cbn [t_add_rules flat_map]. rewrite map_app, t_add_keys_app.
  assert (E : t_add_rule t r m = t_add_keys t (map (fun k => (k, m)) (rule_keys r))).
  { unfold t_add_rule, rule_keys. cbn [map t_add_keys fst snd].
    destruct (t_add t (rmain r) m) as [x| | |]; cbn [bind]; [apply t_add_all_keys|reflexivity|reflexivity|reflexivity]. }
  rewrite E. destruct (t_add_keys t (map (fun k => (k, m)) (rule_keys r))) as [t1| | |]; cbn [bind]; [apply IH|reflexivity|reflexivity|reflexivity].
Qed.
Lemma t_add_benign t k m : match t_add t k m with Ok _ | Err _ => True | _ => False end.
Proof.
  unfold t_add. destruct (negb (kvalid k)); [exact I|]. destruct (t_other _ m); [exact I|].
  destruct (kverb k =? 0).
  - destruct (negb (t_owned t (knode k) m)); [exact I|]. destruct (t_find t (knode k) 0); exact I.
  - destruct (t_find t (knode k) (kverb k)) as [m'|]; [destruct (m' =? m)|]; exact I.
Qed.
Definition otrie {A} (f : A -> trie) (r : outcome A) : outcome trie :=
  match r with Ok s => Ok (f s) | Err e => Err e | Panic p => Panic p | OutOfFuel => OutOfFuel end.
Lemma append_handler_keys s d h :
  otrie spath (append_handler s d h) = t_add_keys (spath s) (map (fun k => (k, mname d)) (mkeys d)).
Proof.
  unfold append_handler, mkeys. cbn [map t_add_keys fst snd].
  pose proof (t_add_benign (spath s) (BKey (mnode d) 0 true) (mname d)) as B.
  destruct (t_add (spath s) (BKey (mnode d) 0 true) (mname d)) as [x|e| |]; cbn [bind otrie]; try contradiction; [|reflexivity].
  rewrite <- t_add_rules_keys. destruct (t_add_rules (fst x) (mrules d) (mname d)); reflexivity.
Qed.
Lemma process_keys ds : forall s o n acc,
  otrie (fun r => spath (fst r)) (process s o ds n acc) = t_add_keys (spath s) (bound_keys ds).
Proof.
  induction ds as [|d ds IH]; intros s o n acc; [reflexivity|].
  cbn [process]. unfold bound_keys. cbn [flat_map]. rewrite t_add_keys_app, <- (append_handler_keys s d (Handler n o (mname d))).
  destruct (append_handler s d (Handler n o (mname d))) as [s1| | |]; cbn [bind otrie]; [apply IH|reflexivity|reflexivity|reflexivity].
Qed.

Lemma key_meets_norm x k : key_meets x (BKey (knode k) (kverb k) true) = key_meets x k.
Proof. reflexivity. Qed.
Lemma trie_keys_in t e : In e t -> In (entry_key e, snd e) (trie_keys t).
Proof. intro H. unfold trie_keys. apply in_map_iff. exists e. auto. Qed.

Theorem t_add_keys_ok_iff kms : forall t, t_wf t -> (is_ok (t_add_keys t kms) = true <-> Unob (trie_keys t) kms).
Proof.
  induction kms as [|[k m] kms IH]; intros t W; cbn [t_add_keys fst snd].
  - split; [intros _ km []|reflexivity].
  - pose proof (t_add_ok_iff t k m (proj1 W)) as Hok.
    destruct (t_add t k m) as [[t1 b]| | |] eqn:E; cbn [bind fst is_ok] in *.
    2,3,4: split; [discriminate|]; intro U; apply Hok; destruct (U (k, m) (or_introl eq_refl)) as [V C]; split; [exact V|];
           intros e0 He Hm; symmetry; apply (C (entry_key e0, snd e0)); [right; apply in_or_app; right; now apply trie_keys_in|exact Hm].
    destruct (proj1 Hok eq_refl) as [V Hcl].
    pose proof (t_add_wf _ _ _ _ _ W E) as W1. pose proof (t_add_spec _ _ _ _ _ E) as [Sub _].
    assert (Hk1 : In (BKey (knode k) (kverb k) true, m) (trie_keys t1)).
    { apply t_add_inv in E. destruct E as (_ & _ & _ & [(_ & -> & F)|(_ & -> & _)]).
      - apply t_find_in in F. exact (trie_keys_in _ _ F).
      - left. reflexivity. }
    rewrite (IH t1 W1). split.
    + intros U km [<-|Hin]; cbn [fst snd].
      * split; [exact V|]. intros km' Hin' Hm. cbn [app] in Hin'. destruct Hin' as [<-|Hin']; [reflexivity|].
        apply in_app_or in Hin'. destruct Hin' as [Hin'|Hin'].
        -- destruct (U km' Hin') as [_ C]. symmetry. apply (C _ (in_or_app _ _ _ (or_intror Hk1))).
           cbn [fst]. now rewrite key_meets_norm, key_meets_sym.
        -- unfold trie_keys in Hin'. apply in_map_iff in Hin'. destruct Hin' as (e & <- & He). cbn [fst snd] in *.
           symmetry. now apply Hcl.
      * destruct (U km Hin) as [V' C]. split; [exact V'|]. intros km' Hin' Hm. cbn [app] in Hin'. destruct Hin' as [<-|Hin'].
        -- apply (C _ (in_or_app _ _ _ (or_intror Hk1))). cbn [fst] in *. now rewrite key_meets_norm.
        -- apply in_app_or in Hin'. destruct Hin' as [Hin'|Hin']; [apply C; [apply in_or_app; now left|exact Hm]|].
           apply C; [|exact Hm]. apply in_or_app. right. unfold trie_keys in *. apply in_map_iff in Hin'.
           destruct Hin' as (e & <- & He). apply in_map_iff. exists e. auto.
    + intros U km Hin. destruct (U km (or_intror Hin)) as [V' C]. split; [exact V'|]. intros km' Hin' Hm.
      apply in_app_or in Hin'. destruct Hin' as [Hin'|Hin'].
      * apply C; [right; apply in_or_app; now left|exact Hm].
      * unfold trie_keys in Hin'. apply in_map_iff in Hin'. destruct Hin' as (e & <- & He). cbn [fst snd] in *.
        assert (Hold : In e t -> snd km = snd e).
        { intro He0. apply (C (entry_key e, snd e)); [right; apply in_or_app; right; now apply trie_keys_in|exact Hm]. }
        apply t_add_inv in E. destruct E as (_ & _ & _ & [(_ & -> & _)|(_ & -> & _)]); [now apply Hold|].
        destruct He as [<-|He0]; [|now apply Hold]. cbn [snd].
        apply (C (k, m)); [left; reflexivity|]. cbn [fst]. unfold entry_key in Hm. cbn [fst snd] in Hm. now rewrite key_meets_norm in Hm.
Qed.

(* registerService / the method loop of RegisterConn is accepted exactly when the registration is
   unobstructed by the bindings of the map it starts from *)
Theorem process_ok_iff s o ds n acc : t_wf (spath s) ->
  (is_ok (process s o ds n acc) = true <-> unobstructed_in (trie_keys (spath s)) ds = true).
Proof.
  intro W. rewrite unobstructed_in_Unob, <- (t_add_keys_ok_iff (bound_keys ds) (spath s) W), <- (process_keys ds s o n acc).
  destruct (process s o ds n acc); reflexivity.
Qed.
Theorem reglocal_ok_iff h l ds :
  snd (step (run h) (RegLocal l ds)) = ROk <->
  unobstructed_in (trie_keys (spath (clone (published (run h))))) ds = true.
Proof.
  rewrite <- (process_ok_iff (clone (published (run h))) (OLocal l) ds (fresh (run h)) [] (run_wf h)).
  cbn [step]. destruct (process (clone (published (run h))) (OLocal l) ds (fresh (run h)) []); cbn [snd is_ok]; split; congruence.
Qed.

(* the live table is not enough: method 1 is still served by connection 1, so its rule at (5, GET) --
   brought by connection 0, which is gone -- still stands, and method 2 cannot take that key *)
Example unobstructed_live_table_insufficient :
  let h := [RegConn 0 (Desc 1 [MDesc 1 1 [Rule (BKey 5 1 true) []]]); RegConn 1 (Desc 2 [MDesc 1 1 []]); DropConn 0] in
  let ds := [MDesc 2 2 [Rule (BKey 5 1 true) []]] in
  map snd (trace h) = [ROk; ROk; RTrue] /\
  unobstructed (live_table (trace h)) ds = true /\
  snd (step (run h) (RegLocal 0 ds)) = RErr /\
  unobstructed_in (trie_keys (spath (clone (published (run h))))) ds = false.
Proof. vm_compute. repeat split; reflexivity. Qed.

Lemma second_backend h c d : hash_ok (h ++ [RegConn c d]) ->
  conn_entries (live_table (trace h)) c = [] ->
  all_bound (spath (clone (published (run h)))) (dmethods d) ->
  snd (step (run h) (RegConn c d)) = ROk /\
  (forall n v, route (fst (step (run h) (RegConn c d))) n v = route (run h) n v) /\
  forall m o, In o (candidates (fst (step (run h) (RegConn c d))) m) <->
              In o (candidates (run h) m) \/ (o = OConn c /\ exposes (dmethods d) m = true).
Proof.
  intros HK E B.
  assert (HKh : hash_ok h).
  { intros d1 d2 H1 H2. apply HK; unfold descs_of in *; rewrite flat_map_app; apply in_or_app; left; assumption. }
  pose proof (proj2 (conn_known h c HKh) E) as Hc.
  destruct (process_bound (dmethods d) (clone (published (run h))) (OConn c) (fresh (run h)) [] (run_wf h) B) as (s' & P & Et).
  assert (R : snd (step (run h) (RegConn c d)) = ROk).
  { cbn [step]. unfold add_conn_handler. rewrite Hc, P. reflexivity. }
  split; [exact R|]. split.
  - intros n v. cbn [step]. unfold add_conn_handler. rewrite Hc, P. cbn [bind fst snd]. unfold route. cbn [published spath].
    rewrite Et. destruct (published (run h)) as [s|] eqn:Q; reflexivity.
  - intros m o.
    assert (RUN : fst (step (run h) (RegConn c d)) = run (h ++ [RegConn c d])).
    { unfold run. rewrite <- (app_nil_r (h ++ [RegConn c d])) at 1. clear. generalize mux0.
      induction h as [|x h IH]; intro m0; cbn; [reflexivity|apply IH]. }
    rewrite RUN, (dispatch_live _ m o HK), (dispatch_live _ m o HKh).
    assert (TR : live_table (trace (h ++ [RegConn c d])) = live_step (live_table (trace h)) (RegConn c d, ROk)).
    { rewrite <- R. unfold live_table, trace, run. generalize (@nil (owner * list mdesc)). generalize mux0. clear.
      induction h as [|x h IH]; intros m0 T0; cbn; [reflexivity|apply IH]. }
    unfold live. rewrite TR, live_step_conn, (drop_entries_id _ _ E), live_in_app, in_app_iff.
    apply or_iff_compat_l. destruct (exposes (dmethods d) m); cbn; intuition congruence.
Qed.

Lemma steps_app h1 : forall h2 mx, steps mx (h1 ++ h2) = steps (steps mx h1) h2.
Proof. induction h1 as [|o h1 IH]; intros h2 mx; cbn [app steps]; [reflexivity|apply IH]. Qed.

Lemma reregister_unchanged h1 h2 c d :
  snd (step (run h1) (RegConn c d)) = ROk -> (forall o, In o h2 -> touches c o = false) ->
  let mx := run (h1 ++ RegConn c d :: h2) in
  snd (step mx (RegConn c d)) = ROk /\ clone (published (fst (step mx (RegConn c d)))) = clone (published mx).
Proof.
  intros R F mx. destruct (reg_conn_hash _ _ _ R) as (cl & Hc & Hh).
  apply (reg_conn_again mx c d cl); [|exact Hh].
  unfold mx, run. rewrite steps_app. cbn [steps]. rewrite steps_frame; [exact Hc|exact F].
Qed.
