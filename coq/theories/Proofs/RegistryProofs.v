(* Proofs about Model/Registry.v: the registry refines the table of live registrations. *)
From Larking Require Import Base.GoSem Model.Registry.
Local Open Scope nat_scope.

Lemma filter_filter_and {A} (f g : A -> bool) l :
  filter f (filter g l) = filter (fun x => f x && g x) l.
Proof.
  induction l as [|a l IH]; [reflexivity|]. cbn [filter].
  destruct (g a); cbn [filter]; rewrite ?andb_true_r, ?andb_false_r; destruct (f a); rewrite IH; reflexivity.
Qed.

(* ---------- association lists ---------- *)
Lemma aget_aset {A} k k' (v : A) l : aget k' (aset k v l) = if k =? k' then Some v else aget k' l.
Proof. reflexivity. Qed.
Lemma aget_adel {A} k k' (l : list (nat * A)) : aget k' (adel k l) = if k =? k' then None else aget k' l.
Proof.
  induction l as [|[a v] l IH]; cbn [adel filter aget fst negb].
  - destruct (k =? k'); reflexivity.
  - destruct (a =? k) eqn:E; cbn [negb].
    + apply Nat.eqb_eq in E; subst a. fold (adel k l). rewrite IH.
      destruct (k =? k') eqn:E2; reflexivity.
    + cbn [aget]. fold (adel k l). rewrite IH.
      destruct (a =? k') eqn:E2; [|reflexivity].
      apply Nat.eqb_eq in E2; subst a. rewrite Nat.eqb_sym, E. reflexivity.
Qed.

Lemma hget_aset t c k v hs m :
  hget (State t c (aset k v hs)) m = if k =? m then v else hget (State t c hs) m.
Proof. unfold hget; cbn [shandlers]. rewrite aget_aset. destruct (k =? m); reflexivity. Qed.
Lemma hget_adel t c k hs m :
  hget (State t c (adel k hs)) m = if k =? m then [] else hget (State t c hs) m.
Proof. unfold hget; cbn [shandlers]. rewrite aget_adel. destruct (k =? m); reflexivity. Qed.
Lemma hget_state s t c : hget (State t c (shandlers s)) = hget s.
Proof. reflexivity. Qed.

Lemma owner_eqb_eq a b : owner_eqb a b = true <-> a = b.
Proof.
  destruct a, b; cbn; rewrite ?Nat.eqb_eq; split; intro H; try congruence; try discriminate.
Qed.
Lemma owner_eqb_refl a : owner_eqb a a = true.
Proof. apply owner_eqb_eq; reflexivity. Qed.
Lemma owner_eqb_neq a b : owner_eqb a b = false <-> a <> b.
Proof.
  split; intro H.
  - intro E. apply owner_eqb_eq in E. congruence.
  - destruct (owner_eqb a b) eqn:E; [|reflexivity]. apply owner_eqb_eq in E. contradiction.
Qed.

(* ---------- the trie ---------- *)
Lemma t_add_spec t k m t' b : t_add t k m = Ok (t', b) ->
  (forall e, In e t -> In e t') /\ (forall e, In e t' -> In e t \/ snd e = m).
Proof.
  unfold t_add. destruct (negb (kvalid k)); [discriminate|].
  destruct (t_lookup t (knode k) (kverb k)) as [m'|].
  - destruct (m' =? m); [|discriminate]. intro H; inversion H; subst. split; auto.
  - intro H; inversion H; subst. split; intros e He.
    + right; exact He.
    + destruct He as [<-|He]; [right; reflexivity|left; exact He].
Qed.
Lemma t_add_all_spec ks : forall t m t', t_add_all t ks m = Ok t' ->
  (forall e, In e t -> In e t') /\ (forall e, In e t' -> In e t \/ snd e = m).
Proof.
  induction ks as [|k ks IH]; intros t m t'; cbn [t_add_all].
  - intro H; inversion H; subst. split; auto.
  - destruct (t_add t k m) as [[t1 b]| | |] eqn:E; cbn [bind]; try discriminate.
    intro H. apply IH in H. apply t_add_spec in E. cbn [fst] in H.
    destruct H as [H1 H2], E as [E1 E2]. split; intros e He.
    + auto.
    + destruct (H2 e He) as [H|H]; [apply E2 in H; exact H|right; exact H].
Qed.
Lemma t_add_rule_spec t r m t' : t_add_rule t r m = Ok t' ->
  (forall e, In e t -> In e t') /\ (forall e, In e t' -> In e t \/ snd e = m).
Proof.
  unfold t_add_rule. destruct (t_add t (rmain r) m) as [[t1 b]| | |] eqn:E; cbn [bind]; try discriminate.
  apply t_add_spec in E. destruct E as [E1 E2]. cbn [fst snd].
  intro H. apply t_add_all_spec in H. destruct H as [H1 H2]. split; intros e He; auto.
  destruct (H2 e He) as [H|H]; [apply E2 in H; exact H|right; exact H].
Qed.
Lemma t_add_rules_spec rs : forall t m t', t_add_rules t rs m = Ok t' ->
  (forall e, In e t -> In e t') /\ (forall e, In e t' -> In e t \/ snd e = m).
Proof.
  induction rs as [|r rs IH]; intros t m t'; cbn [t_add_rules].
  - intro H; inversion H; subst. split; auto.
  - destruct (t_add_rule t r m) as [t1| | |] eqn:E; cbn [bind]; try discriminate.
    intro H. apply IH in H. apply t_add_rule_spec in E.
    destruct H as [H1 H2], E as [E1 E2]. split; intros e He; auto.
    destruct (H2 e He) as [H|H]; [apply E2 in H; exact H|right; exact H].
Qed.
Lemma t_del_in t m e : In e (t_del t m) <-> In e t /\ snd e <> m.
Proof.
  unfold t_del. rewrite filter_In. cbv beta. split; intros [H1 H2]; split; auto.
  - intro E. apply negb_true_iff, Nat.eqb_neq in H2. apply H2. exact E.
  - apply negb_true_iff, Nat.eqb_neq. exact H2.
Qed.

(* ---------- appendHandler, process ---------- *)
Fixpoint mk_handlers (o : owner) (ds : list mdesc) (n : nat) : list handler :=
  match ds with [] => [] | d :: ds' => Handler n o (mname d) :: mk_handlers o ds' (S n) end.

Lemma append_handler_spec s d h s' : append_handler s d h = Ok s' ->
  sconns s' = sconns s /\
  (forall m, hget s' m = if mname d =? m then hget s m ++ [h] else hget s m) /\
  (forall e, In e (spath s) -> In e (spath s')) /\
  (forall e, In e (spath s') -> In e (spath s) \/ snd e = mname d).
Proof.
  unfold append_handler.
  destruct (t_add (spath s) (BKey (mnode d) 0 true) (mname d)) as [[t1 b]| | |] eqn:E; try discriminate.
  cbn [fst]. destruct (t_add_rules t1 (mrules d) (mname d)) as [t2| | |] eqn:E2; cbn [bind]; try discriminate.
  intro H; inversion H; subst; clear H. cbn [sconns spath].
  apply t_add_spec in E. apply t_add_rules_spec in E2. destruct E as [A1 A2], E2 as [B1 B2].
  split; [reflexivity|]. split; [|split].
  - intro m. rewrite hget_aset. destruct (mname d =? m) eqn:Q.
    + apply Nat.eqb_eq in Q. rewrite Q. reflexivity.
    + destruct s; reflexivity.
  - auto.
  - intros e He. destruct (B2 e He) as [H|H]; [apply A2 in H; exact H|right; exact H].
Qed.

Lemma process_spec ds : forall s o n acc s' hs, process s o ds n acc = Ok (s', hs) ->
  sconns s' = sconns s /\ hs = acc ++ mk_handlers o ds n /\
  (forall m, hget s' m = hget s m ++ filter (fun h => hmeth h =? m) (mk_handlers o ds n)) /\
  (forall e, In e (spath s) -> In e (spath s')) /\
  (forall e, In e (spath s') -> In e (spath s) \/ exists d, In d ds /\ snd e = mname d).
Proof.
  induction ds as [|d ds IH]; intros s o n acc s' hs; cbn [process mk_handlers].
  - intro H; inversion H; subst. rewrite app_nil_r. repeat split; auto.
    intro m. cbn. rewrite app_nil_r. reflexivity.
  - destruct (append_handler s d (Handler n o (mname d))) as [s1| | |] eqn:E; cbn [bind]; try discriminate.
    intro H. apply IH in H. apply append_handler_spec in E.
    destruct E as (E0 & E1 & E2 & E3), H as (H0 & H1 & H2 & H3 & H4).
    split; [congruence|]. split; [rewrite H1, <- app_assoc; reflexivity|]. split; [|split].
    + intro m. rewrite H2, E1. cbn [filter hmeth].
      destruct (mname d =? m); [rewrite <- app_assoc|]; reflexivity.
    + auto.
    + intros e He. destruct (H4 e He) as [H|(d' & Hd & Hs)].
      * destruct (E3 e H) as [H'|H']; [left; exact H'|right; exists d; split; [left; reflexivity|exact H']].
      * right; exists d'; split; [right; exact Hd|exact Hs].
Qed.

Lemma mk_handlers_in o ds : forall n h, In h (mk_handlers o ds n) ->
  howner h = o /\ n <= hid h < n + length ds /\ exists d, In d ds /\ hmeth h = mname d.
Proof.
  induction ds as [|d ds IH]; intros n h; cbn [mk_handlers length]; [intros []|].
  intros [<-|H].
  - cbn. split; [reflexivity|]. split; [lia|]. exists d; split; [left|]; reflexivity.
  - apply IH in H. destruct H as (H1 & H2 & d' & Hd & Hm).
    split; [exact H1|]. split; [lia|]. exists d'; split; [right; exact Hd|exact Hm].
Qed.
Lemma mk_handlers_ids o ds : forall n, NoDup (map hid (mk_handlers o ds n)).
Proof.
  induction ds as [|d ds IH]; intro n; cbn [mk_handlers map hid]; constructor.
  - intro H. apply in_map_iff in H. destruct H as (h & Hh & Hin).
    apply mk_handlers_in in Hin. lia.
  - apply IH.
Qed.
Lemma mk_handlers_exposes o ds m : forall n,
  (exists h, In h (mk_handlers o ds n) /\ hmeth h = m) <-> exposes ds m = true.
Proof.
  unfold exposes. induction ds as [|d ds IH]; intro n; cbn [mk_handlers existsb].
  - split; [intros (h & [] & _)|discriminate].
  - rewrite orb_true_iff, <- (IH (S n)), Nat.eqb_eq. split.
    + intros (h & [E|Hin] & Hm).
      * left. subst h. exact Hm.
      * right. exists h. split; assumption.
    + intros [E|(h & Hin & Hm)].
      * exists (Handler n o (mname d)). split; [left; reflexivity|exact E].
      * exists h. split; [right; exact Hin|exact Hm].
Qed.

(* ---------- removeHandler ---------- *)
Lemma drop_one_spec s hd :
  sconns (drop_one s hd) = sconns s /\
  (forall m, hget (drop_one s hd) m =
     if hmeth hd =? m then filter (fun h => negb (hid h =? hid hd)) (hget s m) else hget s m) /\
  (forall e, In e (spath (drop_one s hd)) -> In e (spath s)) /\
  (forall e, In e (spath s) -> hget (drop_one s hd) (snd e) <> [] -> In e (spath (drop_one s hd))).
Proof.
  unfold drop_one.
  destruct (filter (fun mhd => negb (hid mhd =? hid hd)) (hget s (hmeth hd))) as [|x l] eqn:F.
  - cbn [sconns spath]. split; [reflexivity|]. split; [|split].
    + intro m. rewrite hget_adel. destruct (hmeth hd =? m) eqn:E.
      * apply Nat.eqb_eq in E; subst m. rewrite F. reflexivity.
      * destruct s; reflexivity.
    + intros e He. apply t_del_in in He. tauto.
    + intros e He Hne. apply t_del_in. split; [exact He|].
      intro E. apply Hne. rewrite hget_adel, E, Nat.eqb_refl. reflexivity.
  - cbn [sconns spath]. split; [reflexivity|]. split; [|split; auto].
    intro m. rewrite hget_aset. destruct (hmeth hd =? m) eqn:E.
    + apply Nat.eqb_eq in E; subst m. rewrite F. reflexivity.
    + destruct s; reflexivity.
Qed.

Definition hit (hds : list handler) (m : method) (h : handler) : bool :=
  existsb (fun hd => (hmeth hd =? m) && (hid h =? hid hd)) hds.

Lemma drop_all_spec hds : forall s,
  sconns (fold_left drop_one hds s) = sconns s /\
  (forall m, hget (fold_left drop_one hds s) m = filter (fun h => negb (hit hds m h)) (hget s m)) /\
  (forall e, In e (spath (fold_left drop_one hds s)) -> In e (spath s)) /\
  (forall e, In e (spath s) -> hget (fold_left drop_one hds s) (snd e) <> [] -> In e (spath (fold_left drop_one hds s))).
Proof.
  induction hds as [|hd hds IH]; intro s; cbn [fold_left].
  - repeat split; auto. intro m. unfold hit; cbn. induction (hget s m) as [|a l IHl]; cbn; congruence.
  - destruct (IH (drop_one s hd)) as (A0 & A1 & A2 & A3).
    destruct (drop_one_spec s hd) as (B0 & B1 & B2 & B3).
    split; [congruence|]. split; [|split].
    + intro m. rewrite A1, B1. unfold hit; cbn [existsb].
      destruct (hmeth hd =? m) eqn:E; cbn [andb orb].
      * rewrite filter_filter_and. apply filter_ext. intro h.
        rewrite negb_orb, andb_comm. reflexivity.
      * reflexivity.
    + auto.
    + intros e He Hne. apply A3; [|exact Hne]. apply B3; [exact He|].
      intro E. apply Hne. rewrite A1, E. reflexivity.
Qed.

Lemma drop_one_D s hd : (forall e, In e (spath s) -> hget s (snd e) <> []) ->
  forall e, In e (spath (drop_one s hd)) -> hget (drop_one s hd) (snd e) <> [].
Proof.
  intros HD e. unfold drop_one.
  destruct (filter (fun mhd => negb (hid mhd =? hid hd)) (hget s (hmeth hd))) as [|x l] eqn:F; cbn [spath].
  - intro He. apply t_del_in in He. destruct He as [He Hne].
    rewrite hget_adel. destruct (hmeth hd =? snd e) eqn:Q.
    + apply Nat.eqb_eq in Q. exfalso. apply Hne. symmetry. exact Q.
    + specialize (HD e He). destruct s; exact HD.
  - intro He. rewrite hget_aset. destruct (hmeth hd =? snd e); [discriminate|].
    specialize (HD e He). destruct s; exact HD.
Qed.
Lemma drop_all_D hds : forall s, (forall e, In e (spath s) -> hget s (snd e) <> []) ->
  forall e, In e (spath (fold_left drop_one hds s)) -> hget (fold_left drop_one hds s) (snd e) <> [].
Proof.
  induction hds as [|hd hds IH]; intros s HD; cbn [fold_left]; [exact HD|].
  apply IH. apply drop_one_D. exact HD.
Qed.

(* ---------- the table of live registrations ---------- *)
Definition conn_entries (T : ltable) (c : nat) : ltable := filter (fun x => owner_eqb (fst x) (OConn c)) T.
Definition drop_entries (T : ltable) (c : nat) : ltable := filter (fun x => negb (owner_eqb (fst x) (OConn c))) T.

Lemma in_live_in T m o : In o (live_in T m) <-> exists ds, In (o, ds) T /\ exposes ds m = true.
Proof.
  unfold live_in. rewrite in_map_iff. split.
  - intros ([o' ds] & <- & H). apply filter_In in H. exists ds. exact H.
  - intros (ds & H1 & H2). exists (o, ds). split; [reflexivity|]. apply filter_In. split; assumption.
Qed.
Lemma live_in_app T o ds m : live_in (T ++ [(o, ds)]) m = live_in T m ++ (if exposes ds m then [o] else []).
Proof.
  unfold live_in. rewrite filter_app, map_app. cbn [filter snd]. destruct (exposes ds m); reflexivity.
Qed.
Lemma live_in_drop T c m o : In o (live_in (drop_entries T c) m) <-> In o (live_in T m) /\ o <> OConn c.
Proof.
  rewrite !in_live_in. unfold drop_entries. split.
  - intros (ds & H1 & H2). apply filter_In in H1. destruct H1 as [H1 H3]. cbn [fst] in H3.
    apply negb_true_iff, owner_eqb_neq in H3. split; [exists ds; split; assumption|exact H3].
  - intros [(ds & H1 & H2) H3]. exists ds. split; [|exact H2]. apply filter_In. split; [exact H1|].
    cbn [fst]. apply negb_true_iff, owner_eqb_neq. exact H3.
Qed.
Lemma conn_entries_app T o ds c :
  conn_entries (T ++ [(o, ds)]) c = conn_entries T c ++ (if owner_eqb o (OConn c) then [(o, ds)] else []).
Proof. unfold conn_entries. rewrite filter_app. cbn [filter fst]. destruct (owner_eqb o (OConn c)); reflexivity. Qed.
Lemma conn_entries_drop T c c' :
  conn_entries (drop_entries T c) c' = if c =? c' then [] else conn_entries T c'.
Proof.
  unfold conn_entries, drop_entries. rewrite filter_filter_and.
  destruct (c =? c') eqn:E.
  - apply Nat.eqb_eq in E; subst c'. induction T as [|x T IH]; [reflexivity|]. cbn [filter].
    destruct (owner_eqb (fst x) (OConn c)); cbn [negb andb]; exact IH.
  - apply filter_ext. intro x. destruct (owner_eqb (fst x) (OConn c')) eqn:Q; [|reflexivity].
    apply owner_eqb_eq in Q. rewrite Q. cbn [owner_eqb]. rewrite Nat.eqb_sym, E. reflexivity.
Qed.
Lemma drop_entries_id T c : conn_entries T c = [] -> drop_entries T c = T.
Proof.
  unfold conn_entries, drop_entries. induction T as [|x T IH]; [reflexivity|]. cbn [filter].
  destruct (owner_eqb (fst x) (OConn c)); [discriminate|]. intro H. cbn [negb]. rewrite IH; auto.
Qed.

(* ---------- the invariant ---------- *)
Definition hash_okD (D : list desc) : Prop :=
  forall d d', In d D -> In d' D -> dhash d = dhash d' -> dmethods d = dmethods d'.

Record Inv (D : list desc) (s : state) (T : ltable) (n : nat) : Prop := {
  iH1 : forall m h, In h (hget s m) -> hmeth h = m /\ hid h < n;
  iH2 : forall m, NoDup (map hid (hget s m));
  iH3 : forall c cl, aget c (sconns s) = Some cl ->
        forall h, In h (chandlers cl) <-> (In h (hget s (hmeth h)) /\ howner h = OConn c);
  iH3n : forall c, aget c (sconns s) = None -> forall m h, In h (hget s m) -> howner h <> OConn c;
  iC1 : forall m o, In o (map howner (hget s m)) <-> In o (live_in T m);
  iC2 : forall c, match aget c (sconns s) with
                  | None => conn_entries T c = []
                  | Some cl => exists ds, conn_entries T c = [(OConn c, ds)] /\
                                 forall d, In d D -> dhash d = chash cl -> dmethods d = ds
                  end;
  iD : forall e, In e (spath s) -> hget s (snd e) <> []
}.

Lemma Inv_empty D : Inv D empty_state [] 0.
Proof. constructor; cbn; try tauto; try (intros; constructor); try discriminate. Qed.

Lemma NoDup_map_eq {A B} (f : A -> B) l a b : NoDup (map f l) -> In a l -> In b l -> f a = f b -> a = b.
Proof.
  induction l as [|x l IH]; cbn [map]; [intros _ []|].
  intro H. inversion H as [|? ? Hn Hd]; subst. intros [<-|Ha] [<-|Hb] E; auto.
  - exfalso. apply Hn. rewrite E. apply in_map. exact Hb.
  - exfalso. apply Hn. rewrite <- E. apply in_map. exact Ha.
Qed.
Lemma NoDup_map_filter {A B} (f : A -> B) g l : NoDup (map f l) -> NoDup (map f (filter g l)).
Proof.
  induction l as [|x l IH]; cbn [map filter]; [auto|].
  intro H. inversion H as [|? ? Hn Hd]; subst. destruct (g x); cbn [map]; [constructor|]; auto.
  intro Hin. apply Hn. apply in_map_iff in Hin. destruct Hin as (y & <- & Hy).
  apply filter_In in Hy. apply in_map. tauto.
Qed.

Lemma hit_owner D s T n c cl m h : Inv D s T n -> aget c (sconns s) = Some cl -> In h (hget s m) ->
  hit (chandlers cl) m h = owner_eqb (howner h) (OConn c).
Proof.
  intros I Hc Hh. destruct (owner_eqb (howner h) (OConn c)) eqn:Q.
  - apply owner_eqb_eq in Q. unfold hit. apply existsb_exists. exists h.
    destruct (iH1 _ _ _ _ I _ _ Hh) as [Hm _]. split.
    + apply (iH3 _ _ _ _ I _ _ Hc). rewrite Hm. split; assumption.
    + rewrite Hm, !Nat.eqb_refl. reflexivity.
  - apply owner_eqb_neq in Q. destruct (hit (chandlers cl) m h) eqn:E; [|reflexivity].
    exfalso. apply Q. unfold hit in E. apply existsb_exists in E. destruct E as (hd & Hin & E).
    apply andb_true_iff in E. destruct E as [E1 E2]. apply Nat.eqb_eq in E1, E2.
    apply (iH3 _ _ _ _ I _ _ Hc) in Hin. destruct Hin as [Hin Ho]. rewrite E1 in Hin.
    assert (h = hd) by (eapply NoDup_map_eq; [apply (iH2 _ _ _ _ I m)|assumption..]). subst hd. exact Ho.
Qed.

Lemma remove_spec D s T n c cl : Inv D s T n -> aget c (sconns s) = Some cl ->
  let s1 := fst (remove_handler s c) in
  snd (remove_handler s c) = true /\ sconns s1 = adel c (sconns s) /\
  (forall m, hget s1 m = filter (fun h => negb (owner_eqb (howner h) (OConn c))) (hget s m)) /\
  (forall e, In e (spath s1) -> In e (spath s)) /\
  (forall e, In e (spath s) -> hget s1 (snd e) <> [] -> In e (spath s1)) /\
  (forall e, In e (spath s1) -> hget s1 (snd e) <> []).
Proof.
  intros I Hc. unfold remove_handler. rewrite Hc. cbn [fst snd].
  destruct (drop_all_spec (chandlers cl) s) as (A0 & A1 & A2 & A3).
  cbn [sconns spath]. rewrite hget_state. split; [reflexivity|]. split; [rewrite A0; reflexivity|].
  split; [|split; [exact A2|split; [exact A3|]]].
  - intro m. rewrite A1. apply filter_ext_in. intros h Hh. erewrite hit_owner; eauto.
  - apply drop_all_D. exact (iD _ _ _ _ I).
Qed.

Lemma remove_inv D s T n c cl : Inv D s T n -> aget c (sconns s) = Some cl ->
  Inv D (fst (remove_handler s c)) (drop_entries T c) n.
Proof.
  intros I Hc. destruct (remove_spec _ _ _ _ _ _ I Hc) as (_ & R0 & R1 & R2 & R3 & R4).
  set (s1 := fst (remove_handler s c)) in *. constructor.
  - intros m h Hh. rewrite R1 in Hh. apply filter_In in Hh. apply (iH1 _ _ _ _ I). tauto.
  - intro m. rewrite R1. apply NoDup_map_filter. apply (iH2 _ _ _ _ I).
  - intros c' cl' Hc' h. rewrite R0, aget_adel in Hc'. destruct (c =? c') eqn:E; [discriminate|].
    rewrite (iH3 _ _ _ _ I _ _ Hc' h), R1, filter_In. split; [|tauto].
    intros [H1 H2]. split; [split; [exact H1|]|exact H2].
    apply negb_true_iff, owner_eqb_neq. rewrite H2. intro Q. inversion Q; subst.
    rewrite Nat.eqb_refl in E. discriminate.
  - intros c' Hc' m h Hh. rewrite R1 in Hh. apply filter_In in Hh. destruct Hh as [Hh Ho].
    rewrite R0, aget_adel in Hc'. destruct (c =? c') eqn:E.
    + apply Nat.eqb_eq in E; subst c'. apply negb_true_iff, owner_eqb_neq in Ho. exact Ho.
    + apply (iH3n _ _ _ _ I _ Hc' _ _ Hh).
  - intros m o. rewrite live_in_drop, <- (iC1 _ _ _ _ I), R1, !in_map_iff. split.
    + intros (h & <- & Hh). apply filter_In in Hh. destruct Hh as [Hh Ho].
      apply negb_true_iff, owner_eqb_neq in Ho. split; [exists h; auto|exact Ho].
    + intros [(h & <- & Hh) Ho]. exists h. split; [reflexivity|]. apply filter_In. split; [exact Hh|].
      apply negb_true_iff, owner_eqb_neq. exact Ho.
  - intro c'. rewrite R0, aget_adel, conn_entries_drop. destruct (c =? c'); [reflexivity|].
    apply (iC2 _ _ _ _ I c').
  - exact R4.
Qed.

Lemma NoDup_app_lt (l1 l2 : list nat) n : NoDup l1 -> NoDup l2 ->
  (forall x, In x l1 -> x < n) -> (forall x, In x l2 -> n <= x) -> NoDup (l1 ++ l2).
Proof.
  intros H1 H2 A B. induction l1 as [|a l1 IH]; [exact H2|]. cbn [app].
  inversion H1; subst. constructor.
  - intro Hin. apply in_app_or in Hin. destruct Hin as [Hin|Hin]; [contradiction|].
    specialize (A a (or_introl eq_refl)). specialize (B a Hin). lia.
  - apply IH; [assumption|]. intros x Hx. apply A. right. exact Hx.
Qed.

Lemma install_inv D s T n o ds s' hs conns' :
  Inv D s T n -> process s o ds n [] = Ok (s', hs) ->
  (forall c' cl', aget c' conns' = Some cl' ->
     (OConn c' <> o /\ aget c' (sconns s) = Some cl') \/
     (OConn c' = o /\ aget c' (sconns s) = None /\ chandlers cl' = hs /\
      forall d', In d' D -> dhash d' = chash cl' -> dmethods d' = ds)) ->
  (forall c', aget c' conns' = None -> OConn c' <> o /\ aget c' (sconns s) = None) ->
  Inv D (State (spath s') conns' (shandlers s')) (T ++ [(o, ds)]) (n + length ds).
Proof.
  intros I P HS HN. apply process_spec in P. destruct P as (P0 & P1 & P2 & P3 & P4). cbn [app] in P1.
  assert (NEW : forall m h, In h (filter (fun h => hmeth h =? m) (mk_handlers o ds n)) ->
                howner h = o /\ hmeth h = m /\ n <= hid h < n + length ds /\ In h hs).
  { intros m h Hh. apply filter_In in Hh. destruct Hh as [Hh Hm]. apply Nat.eqb_eq in Hm.
    destruct (mk_handlers_in _ _ _ _ Hh) as (A & B & _). subst hs. auto. }
  constructor; cbn [sconns spath]; rewrite ?hget_state.
  - intros m h Hh. rewrite P2 in Hh. apply in_app_or in Hh. destruct Hh as [Hh|Hh].
    + destruct (iH1 _ _ _ _ I _ _ Hh). split; [assumption|lia].
    + apply NEW in Hh. split; [tauto|lia].
  - intro m. rewrite P2, map_app. apply NoDup_app_lt with (n := n).
    + apply (iH2 _ _ _ _ I).
    + apply NoDup_map_filter. apply mk_handlers_ids.
    + intros x Hx. apply in_map_iff in Hx. destruct Hx as (h & <- & Hh). apply (iH1 _ _ _ _ I _ _ Hh).
    + intros x Hx. apply in_map_iff in Hx. destruct Hx as (h & <- & Hh). apply NEW in Hh. lia.
  - intros c' cl' Hc' h. rewrite P2. destruct (HS _ _ Hc') as [[Hne Hold]|(He & Hold & Hh & _)].
    + rewrite (iH3 _ _ _ _ I _ _ Hold h). split.
      * intros [H1 H2]. split; [apply in_or_app; left; exact H1|exact H2].
      * intros [H1 H2]. split; [|exact H2]. apply in_app_or in H1. destruct H1 as [H1|H1]; [exact H1|].
        apply NEW in H1. exfalso. apply Hne. rewrite <- H2. tauto.
    + rewrite Hh. split.
      * intro Hin. rewrite P1 in Hin. destruct (mk_handlers_in _ _ _ _ Hin) as (A & _ & _).
        split; [|congruence]. apply in_or_app. right. apply filter_In. split; [exact Hin|apply Nat.eqb_refl].
      * intros [H1 H2]. apply in_app_or in H1. destruct H1 as [H1|H1].
        -- exfalso. exact (iH3n _ _ _ _ I _ Hold _ _ H1 H2).
        -- apply NEW in H1. tauto.
  - intros c' Hc' m h Hh. destruct (HN _ Hc') as [Hne Hold]. rewrite P2 in Hh.
    apply in_app_or in Hh. destruct Hh as [Hh|Hh].
    + apply (iH3n _ _ _ _ I _ Hold _ _ Hh).
    + apply NEW in Hh. intro Q. apply Hne. rewrite <- Q. tauto.
  - intros m o'. rewrite live_in_app, P2, map_app, !in_app_iff, (iC1 _ _ _ _ I).
    apply or_iff_compat_l. split.
    + intro Hin. apply in_map_iff in Hin. destruct Hin as (h & <- & Hh).
      assert (E : exposes ds m = true).
      { apply (mk_handlers_exposes o ds m n). apply filter_In in Hh. destruct Hh as [Hh Hm].
        apply Nat.eqb_eq in Hm. exists h. auto. }
      rewrite E. left. apply NEW in Hh. symmetry. tauto.
    + destruct (exposes ds m) eqn:E; [|intros []]. intros [<-|[]].
      apply (mk_handlers_exposes o ds m n) in E. destruct E as (h & Hin & Hm).
      apply in_map_iff. exists h. split.
      * apply mk_handlers_in in Hin. tauto.
      * apply filter_In. split; [exact Hin|apply Nat.eqb_eq; exact Hm].
  - intro c'. rewrite conn_entries_app. destruct (aget c' conns') as [cl'|] eqn:Hc'.
    + destruct (HS _ _ Hc') as [[Hne Hold]|(He & Hold & Hh & Hhash)].
      * generalize (iC2 _ _ _ _ I c'). rewrite Hold. intros (ds' & E1 & E2).
        exists ds'. split; [|exact E2]. rewrite E1.
        destruct (owner_eqb o (OConn c')) eqn:Q; [apply owner_eqb_eq in Q; congruence|reflexivity].
      * generalize (iC2 _ _ _ _ I c'). rewrite Hold. intro E1. exists ds. split; [|exact Hhash].
        rewrite E1, <- He, owner_eqb_refl. reflexivity.
    + destruct (HN _ Hc') as [Hne Hold]. generalize (iC2 _ _ _ _ I c'). rewrite Hold. intro E1.
      rewrite E1. destruct (owner_eqb o (OConn c')) eqn:Q; [apply owner_eqb_eq in Q; congruence|reflexivity].
  - intros e He. rewrite P2. destruct (P4 e He) as [H|(d & Hd & Hs)].
    + intro Q. apply app_eq_nil in Q. destruct Q as [Q _]. exact (iD _ _ _ _ I e H Q).
    + intro Q. apply app_eq_nil in Q. destruct Q as [_ Q].
      assert (E : exposes ds (snd e) = true).
      { unfold exposes. apply existsb_exists. exists d. split; [exact Hd|]. rewrite Hs. apply Nat.eqb_refl. }
      apply (mk_handlers_exposes o ds (snd e) n) in E. destruct E as (h & Hin & Hm).
      assert (In h (filter (fun h => hmeth h =? snd e) (mk_handlers o ds n))).
      { apply filter_In. split; [exact Hin|apply Nat.eqb_eq; exact Hm]. }
      rewrite Q in H. exact H.
Qed.

Lemma Inv_mono D s T n n' : n <= n' -> Inv D s T n -> Inv D s T n'.
Proof.
  intros L I. destruct I. constructor; auto.
  intros m h Hh. destruct (iH4 _ _ Hh). split; [assumption|lia].
Qed.
Lemma Inv_retable D s T T' n : Inv D s T n ->
  (forall m o, In o (live_in T' m) <-> In o (live_in T m)) ->
  (forall c, conn_entries T' c = conn_entries T c) -> Inv D s T' n.
Proof.
  intros I L C. destruct I. constructor; auto.
  - intros m o. rewrite L. apply iC3.
  - intro c. rewrite C. apply iC4.
Qed.
Lemma state_eta s : State (spath s) (sconns s) (shandlers s) = s.
Proof. destruct s; reflexivity. Qed.

(* ---------- one operation ---------- *)
Definition MInv D (mx : mux) (T : ltable) : Prop := Inv D (clone (published mx)) T (fresh mx).
Definition op_in (D : list desc) (o : op) : Prop := match o with RegConn _ d => In d D | _ => True end.

Lemma create_inv D s T n c d r : hash_okD D -> In d D -> Inv D s T n -> aget c (sconns s) = None ->
  process s (OConn c) (dmethods d) n [] = Ok r ->
  Inv D (State (spath (fst r)) (aset c (ConnList (snd r) (dhash d)) (sconns (fst r))) (shandlers (fst r)))
        (T ++ [(OConn c, dmethods d)]) (n + length (dmethods d)).
Proof.
  intros HK Hd I Hc P. destruct r as [s' hs]. cbn [fst snd].
  pose proof (process_spec _ _ _ _ _ _ _ P) as (P0 & _).
  eapply install_inv; eauto.
  - intros c' cl'. rewrite aget_aset, P0. destruct (c =? c') eqn:E.
    + apply Nat.eqb_eq in E; subst c'. intro Q; inversion Q; subst. right. cbn [chandlers chash].
      repeat split; auto.
    + intro Q. left. split; [|exact Q]. intro X; inversion X; subst. rewrite Nat.eqb_refl in E. discriminate.
  - intros c'. rewrite aget_aset, P0. destruct (c =? c') eqn:E; [discriminate|].
    intro Q. split; [|exact Q]. intro X; inversion X; subst. rewrite Nat.eqb_refl in E. discriminate.
Qed.

Lemma live_step_conn T c d : live_step T (RegConn c d, ROk) = drop_entries T c ++ [(OConn c, dmethods d)].
Proof. reflexivity. Qed.
Lemma live_step_drop T c r : live_step T (DropConn c, r) = drop_entries T c.
Proof. reflexivity. Qed.

Lemma step_inv D mx T o : hash_okD D -> op_in D o -> MInv D mx T ->
  MInv D (fst (step mx o)) (live_step T (o, snd (step mx o))).
Proof.
  intros HK Ho I. unfold MInv in *. set (s := clone (published mx)) in *.
  destruct o as [l ds|c d|c]; cbn [step]; fold s.
  - (* RegLocal *)
    destruct (process s (OLocal l) ds (fresh mx) []) as [[s' hs]| | |] eqn:P; cbn [fst snd published fresh clone]; rewrite ?live_step_conn, ?live_step_drop; cbn [live_step];
      try (eapply Inv_mono; [|exact I]; lia).
    pose proof (process_spec _ _ _ _ _ _ _ P) as (P0 & _).
    rewrite <- (state_eta s'). eapply install_inv; eauto.
    + intros c' cl' Q. left. split; [discriminate|]. rewrite <- P0. exact Q.
    + intros c' Q. split; [discriminate|]. rewrite <- P0. exact Q.
  - (* RegConn *)
    cbn [op_in] in Ho. unfold add_conn_handler.
    destruct (aget c (sconns s)) as [cl|] eqn:Hc.
    + destruct (chash cl =? dhash d) eqn:Hh.
      * (* unchanged: nothing to do *)
        cbn [fst snd published fresh clone]; rewrite ?live_step_conn, ?live_step_drop; cbn [live_step]. apply Nat.eqb_eq in Hh.
        generalize (iC2 _ _ _ _ I c). rewrite Hc. intros (ds & E1 & E2).
        assert (Eds : dmethods d = ds) by (apply E2; [exact Ho|congruence]).
        eapply Inv_mono; [|eapply Inv_retable; [exact I| |]]; [lia| |].
        -- intros m o. rewrite live_in_app, in_app_iff, live_in_drop. split.
           ++ intros [[H _]|H]; [exact H|]. destruct (exposes (dmethods d) m) eqn:X; [|destruct H].
              destruct H as [<-|[]]. apply in_live_in. exists ds. split; [|congruence].
              assert (In (OConn c, ds) (conn_entries T c)) by (rewrite E1; left; reflexivity).
              unfold conn_entries in H. apply filter_In in H. tauto.
           ++ intro H. destruct (owner_eqb o (OConn c)) eqn:Q.
              ** apply owner_eqb_eq in Q; subst o. right. apply in_live_in in H. destruct H as (ds' & H1 & H2).
                 assert (In (OConn c, ds') (conn_entries T c)).
                 { unfold conn_entries. apply filter_In. split; [exact H1|apply owner_eqb_refl]. }
                 rewrite E1 in H. destruct H as [H|[]]. inversion H; subst ds'. rewrite Eds, H2. left; reflexivity.
              ** apply owner_eqb_neq in Q. left. split; assumption.
        -- intro c'. rewrite conn_entries_app, conn_entries_drop. cbn [owner_eqb]. destruct (c =? c') eqn:Q.
           ++ apply Nat.eqb_eq in Q; subst c'. rewrite E1, Eds. reflexivity.
           ++ rewrite app_nil_r. reflexivity.
      * (* drop and recreate *)
        pose proof (remove_inv _ _ _ _ _ _ I Hc) as I1.
        pose proof (remove_spec _ _ _ _ _ _ I Hc) as (_ & R0 & _).
        set (s1 := fst (remove_handler s c)) in *.
        assert (Hc1 : aget c (sconns s1) = None) by (rewrite R0, aget_adel, Nat.eqb_refl; reflexivity).
        destruct (process s1 (OConn c) (dmethods d) (fresh mx) []) as [r| | |] eqn:P; cbn [bind fst snd published fresh clone]; rewrite ?live_step_conn, ?live_step_drop; cbn [live_step];
          try (eapply Inv_mono; [|exact I]; lia).
        eapply create_inv; eauto.
    + (* first registration of the connection *)
      assert (ET : drop_entries T c = T).
      { apply drop_entries_id. generalize (iC2 _ _ _ _ I c). rewrite Hc. auto. }
      destruct (process s (OConn c) (dmethods d) (fresh mx) []) as [r| | |] eqn:P; cbn [bind fst snd published fresh clone]; rewrite ?live_step_conn, ?live_step_drop; cbn [live_step];
        try (eapply Inv_mono; [|exact I]; lia).
      rewrite ET. eapply create_inv; eauto.
  - (* DropConn *)
    destruct (aget c (sconns s)) as [cl|] eqn:Hc.
    + pose proof (remove_spec _ _ _ _ _ _ I Hc) as (R & _). rewrite R.
      cbn [fst snd published fresh clone]; rewrite ?live_step_conn, ?live_step_drop; cbn [live_step]. eapply remove_inv; eauto.
    + unfold remove_handler. rewrite Hc. cbn [fst snd]. rewrite live_step_drop.
      rewrite drop_entries_id; [exact I|]. generalize (iC2 _ _ _ _ I c). rewrite Hc. auto.
Qed.

Lemma steps_inv D : hash_okD D -> forall h mx T, Forall (op_in D) h -> MInv D mx T ->
  MInv D (steps mx h) (fold_left live_step (trace_from mx h) T).
Proof.
  intros HK h. induction h as [|o h IH]; intros mx T F I; cbn [steps trace_from fold_left]; [exact I|].
  inversion F; subst. apply IH; [assumption|]. apply step_inv; assumption.
Qed.

(* ---------- histories ---------- *)
Definition descs_of (h : list op) : list desc :=
  flat_map (fun o => match o with RegConn _ d => [d] | _ => [] end) h.
(* the descriptor hash (SHA-256 of the file descriptors) identifies what a backend lists *)
Definition hash_ok (h : list op) : Prop := hash_okD (descs_of h).

Lemma op_in_descs h : Forall (op_in (descs_of h)) h.
Proof.
  apply Forall_forall. intros o Ho. destruct o as [l ds|c d|c]; cbn [op_in]; auto.
  unfold descs_of. apply in_flat_map. exists (RegConn c d). split; [exact Ho|left; reflexivity].
Qed.

Lemma run_inv h : hash_ok h -> MInv (descs_of h) (run h) (live_table (trace h)).
Proof.
  intro HK. unfold run, trace, live_table. apply steps_inv; [exact HK|apply op_in_descs|].
  unfold MInv. cbn. apply Inv_empty.
Qed.

Lemma candidates_clone mx m : candidates mx m = map howner (hget (clone (published mx)) m).
Proof. unfold candidates. destruct (published mx); reflexivity. Qed.

Lemma dispatch_live h m o : hash_ok h -> In o (candidates (run h) m) <-> In o (live (trace h) m).
Proof.
  intro HK. rewrite candidates_clone. unfold live. apply (iC1 _ _ _ _ (run_inv h HK)).
Qed.

Lemma nil_iff_no_member {A} (l : list A) : l = [] <-> forall x, ~ In x l.
Proof.
  split; [intros -> x []|]. destruct l as [|a l]; [reflexivity|]. intro H. exfalso. apply (H a). left; reflexivity.
Qed.
Lemma candidates_nil_iff h m : hash_ok h -> candidates (run h) m = [] <-> live (trace h) m = [].
Proof.
  intro HK. rewrite !nil_iff_no_member. split; intros H x Hx; apply (H x); apply (dispatch_live h m x HK); exact Hx.
Qed.

Lemma unimplemented_iff_empty h m : hash_ok h ->
  (grpc_replies (run h) m = [Unimplemented] <-> live (trace h) m = []) /\
  (forall r, In r (grpc_replies (run h) m) ->
     (r = Unimplemented /\ live (trace h) m = []) \/ (exists o, r = Served o /\ In o (live (trace h) m))).
Proof.
  intro HK. pose proof (candidates_nil_iff h m HK) as N. unfold grpc_replies.
  destruct (candidates (run h) m) as [|o os] eqn:C.
  - split; [split; intro; [apply N|]; reflexivity|]. intros r [<-|[]]. left. split; [reflexivity|apply N; reflexivity].
  - split.
    + split; [cbn; discriminate|]. intro L. apply N in L. discriminate.
    + intros r Hr. apply in_map_iff in Hr. destruct Hr as (o' & <- & Ho). right. exists o'. split; [reflexivity|].
      apply (dispatch_live h m o' HK). rewrite C. exact Ho.
Qed.

Lemma t_find_in t n v m : t_find t n v = Some m -> In (n, v, m) t.
Proof.
  unfold t_find. destruct (find _ t) as [[[n' v'] m']|] eqn:F; [|discriminate].
  intro H; inversion H; subst. apply find_some in F. destruct F as [F1 F2]. cbn [fst snd] in F2.
  apply andb_true_iff in F2. destruct F2 as [A B]. apply Nat.eqb_eq in A, B. subst. exact F1.
Qed.
Lemma t_lookup_in t n v m : t_lookup t n v = Some m -> exists v', In (n, v', m) t.
Proof.
  unfold t_lookup. destruct (t_find t n v) as [m'|] eqn:F.
  - intro H; inversion H; subst. exists v. apply t_find_in. exact F.
  - intro H. exists 0. apply t_find_in. exact H.
Qed.

(* a route that is present leads to a method with a live backend *)
Lemma route_live h n v m : hash_ok h -> route (run h) n v = Some m -> live (trace h) m <> [].
Proof.
  intros HK R. unfold route in R. destruct (published (run h)) as [s|] eqn:P; [|discriminate].
  apply t_lookup_in in R. destruct R as (v' & Hin).
  pose proof (run_inv h HK) as I. unfold MInv in I. rewrite P in I. cbn [clone] in I.
  pose proof (iD _ _ _ _ I _ Hin) as Hne. cbn [snd] in Hne.
  intro L. apply (candidates_nil_iff h m HK) in L. rewrite candidates_clone, P in L. cbn [clone] in L.
  apply map_eq_nil in L. contradiction.
Qed.

Lemma routes_follow h n v r : hash_ok h -> In r (http_replies (run h) n v) ->
  (r = NotFound /\ route (run h) n v = None) \/
  (exists m o, route (run h) n v = Some m /\ r = Served o /\ In o (live (trace h) m)).
Proof.
  intros HK. unfold http_replies. destruct (route (run h) n v) as [m|] eqn:R.
  - intro Hr. right. pose proof (route_live h n v m HK R) as L.
    destruct (proj2 (unimplemented_iff_empty h m HK) r Hr) as [[_ E]|(o & E & Ho)]; [contradiction|].
    exists m, o. auto.
  - intros [<-|[]]. left. auto.
Qed.

(* ---------- the safe operations ---------- *)
Lemma conn_known h c : hash_ok h ->
  (aget c (sconns (clone (published (run h)))) = None <-> conn_entries (live_table (trace h)) c = []).
Proof.
  intro HK. pose proof (run_inv h HK) as I. generalize (iC2 _ _ _ _ I c).
  destruct (aget c (sconns (clone (published (run h))))) as [cl|].
  - intros (ds & E & _). rewrite E. split; discriminate.
  - intro E. split; auto.
Qed.

Lemma drop_unknown h c : hash_ok h -> conn_entries (live_table (trace h)) c = [] ->
  step (run h) (DropConn c) = (run h, RFalse).
Proof.
  intros HK E. apply (conn_known h c HK) in E. cbn [step]. unfold remove_handler. rewrite E. reflexivity.
Qed.
Lemma drop_known h c : hash_ok h -> conn_entries (live_table (trace h)) c <> [] ->
  snd (step (run h) (DropConn c)) = RTrue /\
  forall m o, In o (candidates (fst (step (run h) (DropConn c))) m) <-> In o (candidates (run h) m) /\ o <> OConn c.
Proof.
  intros HK E. pose proof (run_inv h HK) as I. unfold MInv in I.
  destruct (aget c (sconns (clone (published (run h))))) as [cl|] eqn:Hc.
  - pose proof (remove_spec _ _ _ _ _ _ I Hc) as (R & _ & R1 & _). cbn [step]. rewrite R. cbn [fst snd].
    split; [reflexivity|]. intros m o. rewrite !candidates_clone. cbn [published clone]. rewrite R1, !in_map_iff. split.
    + intros (x & <- & Hx). apply filter_In in Hx. destruct Hx as [Hx Ho]. apply negb_true_iff, owner_eqb_neq in Ho.
      split; [exists x; auto|exact Ho].
    + intros [(x & <- & Hx) Ho]. exists x. split; [reflexivity|]. apply filter_In. split; [exact Hx|].
      apply negb_true_iff, owner_eqb_neq. exact Ho.
  - apply (conn_known h c HK) in Hc. contradiction.
Qed.

(* a successful RegisterConn leaves the descriptor hash behind; repeating it is a no-op *)
Lemma reg_conn_hash mx c d : snd (step mx (RegConn c d)) = ROk ->
  exists cl, aget c (sconns (clone (published (fst (step mx (RegConn c d)))))) = Some cl /\ chash cl = dhash d.
Proof.
  cbn [step]. unfold add_conn_handler. set (s := clone (published mx)).
  destruct (aget c (sconns s)) as [cl|] eqn:Hc.
  - destruct (chash cl =? dhash d) eqn:Hh.
    + intros _. cbn [fst published clone]. exists cl. apply Nat.eqb_eq in Hh. auto.
    + destruct (process _ _ _ _ _) as [r| | |]; cbn [bind fst snd]; try discriminate.
      intros _. cbn [published clone sconns]. rewrite aget_aset, Nat.eqb_refl. eexists; split; reflexivity.
  - destruct (process _ _ _ _ _) as [r| | |]; cbn [bind fst snd]; try discriminate.
    intros _. cbn [published clone sconns]. rewrite aget_aset, Nat.eqb_refl. eexists; split; reflexivity.
Qed.
Lemma reg_conn_again mx c d cl : aget c (sconns (clone (published mx))) = Some cl -> chash cl = dhash d ->
  snd (step mx (RegConn c d)) = ROk /\
  clone (published (fst (step mx (RegConn c d)))) = clone (published mx).
Proof.
  intros Hc Hh. cbn [step]. unfold add_conn_handler. rewrite Hc. apply Nat.eqb_eq in Hh. rewrite Hh.
  cbn [fst snd published clone]. auto.
Qed.

(* operations on other connections and local registrations leave a connection's entry alone *)
Definition touches (c : nat) (o : op) : bool :=
  match o with RegConn c' _ | DropConn c' => c' =? c | RegLocal _ _ => false end.
Lemma step_frame mx o c : touches c o = false ->
  aget c (sconns (clone (published (fst (step mx o))))) = aget c (sconns (clone (published mx))).
Proof.
  intro Tc. set (s := clone (published mx)). destruct o as [l ds|c' d|c']; cbn [step touches] in *; fold s.
  - destruct (process s (OLocal l) ds (fresh mx) []) as [[s' hs]| | |] eqn:P; cbn [fst published clone]; try reflexivity.
    apply process_spec in P. destruct P as (P0 & _). rewrite P0. reflexivity.
  - unfold add_conn_handler.
    assert (RM : forall cl, aget c' (sconns s) = Some cl -> aget c (sconns (fst (remove_handler s c'))) = aget c (sconns s)).
    { intros cl Hc. unfold remove_handler. rewrite Hc. cbn [fst sconns].
      destruct (drop_all_spec (chandlers cl) s) as (A0 & _). rewrite A0, aget_adel, Tc. reflexivity. }
    assert (CR : forall s0, aget c (sconns s0) = aget c (sconns s) ->
      match (do r <- process s0 (OConn c') (dmethods d) (fresh mx) [];
             Ok (State (spath (fst r)) (aset c' (ConnList (snd r) (dhash d)) (sconns (fst r))) (shandlers (fst r)))) with
      | Ok s' => aget c (sconns s') = aget c (sconns s) | _ => True end).
    { intros s0 E. destruct (process s0 (OConn c') (dmethods d) (fresh mx) []) as [[s' hs]| | |] eqn:P; cbn [bind]; auto.
      apply process_spec in P. destruct P as (P0 & _). cbn [fst snd sconns]. rewrite aget_aset, Tc, P0. exact E. }
    destruct (aget c' (sconns s)) as [cl|] eqn:Hc.
    + destruct (chash cl =? dhash d); [reflexivity|].
      specialize (CR _ (RM cl eq_refl)).
      destruct (do r <- process _ _ _ _ _; _) as [s'| | |]; cbn [fst published clone]; auto.
    + specialize (CR s eq_refl).
      destruct (do r <- process _ _ _ _ _; _) as [s'| | |]; cbn [fst published clone]; auto.
  - unfold remove_handler. destruct (aget c' (sconns s)) as [cl|] eqn:Hc; cbn [fst snd published clone]; [|reflexivity].
    cbn [sconns]. destruct (drop_all_spec (chandlers cl) s) as (A0 & _). rewrite A0, aget_adel, Tc. reflexivity.
Qed.
Lemma steps_frame h : forall mx c, (forall o, In o h -> touches c o = false) ->
  aget c (sconns (clone (published (steps mx h)))) = aget c (sconns (clone (published mx))).
Proof.
  induction h as [|o h IH]; intros mx c F; cbn [steps]; [reflexivity|].
  rewrite IH; [|intros o' Ho'; apply F; right; exact Ho'].
  apply step_frame. apply F. left; reflexivity.
Qed.

(* a second backend for services that are already routed *)
Definition all_bound (t : trie) (ds : list mdesc) : Prop :=
  forall d k, In d ds -> In k (mkeys d) -> kvalid k = true /\ t_lookup t (knode k) (kverb k) = Some (mname d).

Lemma t_add_bound t k m : kvalid k = true -> t_lookup t (knode k) (kverb k) = Some m -> t_add t k m = Ok (t, false).
Proof. intros V L. unfold t_add. rewrite V, L, Nat.eqb_refl. reflexivity. Qed.
Lemma t_add_all_bound t m ks :
  (forall k, In k ks -> kvalid k = true /\ t_lookup t (knode k) (kverb k) = Some m) -> t_add_all t ks m = Ok t.
Proof.
  induction ks as [|k ks IH]; intro H; cbn [t_add_all]; [reflexivity|].
  rewrite t_add_bound; [| apply H; left; reflexivity ..]. cbn [bind fst].
  apply IH. intros k' Hk. apply H. right. exact Hk.
Qed.
Lemma t_add_rules_bound t m rs :
  (forall k, In k (flat_map rule_keys rs) -> kvalid k = true /\ t_lookup t (knode k) (kverb k) = Some m) ->
  t_add_rules t rs m = Ok t.
Proof.
  induction rs as [|r rs IH]; intro H; cbn [t_add_rules]; [reflexivity|].
  unfold t_add_rule. rewrite t_add_bound; [| apply H; cbn; left; reflexivity ..]. cbn [bind fst snd].
  rewrite t_add_all_bound; [|intros k Hk; apply H; cbn [flat_map]; apply in_or_app; left; unfold rule_keys; right; exact Hk].
  cbn [bind].
  apply IH. intros k Hk. apply H. cbn [flat_map]. apply in_or_app. right. exact Hk.
Qed.
Lemma process_bound ds : forall s o n acc, all_bound (spath s) ds ->
  exists s', process s o ds n acc = Ok (s', acc ++ mk_handlers o ds n) /\ spath s' = spath s.
Proof.
  induction ds as [|d ds IH]; intros s o n acc B; cbn [process mk_handlers].
  - exists s. rewrite app_nil_r. auto.
  - unfold append_handler.
    destruct (B d (BKey (mnode d) 0 true)) as [_ L]; [left; reflexivity|left; reflexivity|]. cbn [knode kverb] in L.
    rewrite t_add_bound; [|reflexivity|exact L]. cbn [fst].
    rewrite t_add_rules_bound; [|intros k Hk; apply (B d k); [left; reflexivity|right; exact Hk]].
    cbn [bind].
    destruct (IH (State (spath s) (sconns s) (aset (mname d) (hget s (mname d) ++ [Handler n o (mname d)]) (shandlers s)))
                 o (S n) (acc ++ [Handler n o (mname d)])) as (s' & P & E).
    { intros d' k Hd Hk. apply (B d' k); [right; exact Hd|exact Hk]. }
    exists s'. rewrite P, <- app_assoc. split; [reflexivity|exact E].
Qed.

Lemma second_backend h c d : hash_ok (h ++ [RegConn c d]) ->
  conn_entries (live_table (trace h)) c = [] ->
  all_bound (spath (clone (published (run h)))) (dmethods d) ->
  snd (step (run h) (RegConn c d)) = ROk /\
  (forall n v, route (fst (step (run h) (RegConn c d))) n v = route (run h) n v) /\
  forall m o, In o (candidates (fst (step (run h) (RegConn c d))) m) <->
              In o (candidates (run h) m) \/ (o = OConn c /\ exposes (dmethods d) m = true).
Proof.
  intros HK E B.
  assert (HKh : hash_ok h).
  { intros d1 d2 H1 H2. apply HK; unfold descs_of in *; rewrite flat_map_app; apply in_or_app; left; assumption. }
  pose proof (proj2 (conn_known h c HKh) E) as Hc.
  destruct (process_bound (dmethods d) (clone (published (run h))) (OConn c) (fresh (run h)) [] B) as (s' & P & Et).
  assert (R : snd (step (run h) (RegConn c d)) = ROk).
  { cbn [step]. unfold add_conn_handler. rewrite Hc, P. reflexivity. }
  split; [exact R|]. split.
  - intros n v. cbn [step]. unfold add_conn_handler. rewrite Hc, P. cbn [bind fst snd]. unfold route. cbn [published spath].
    rewrite Et. destruct (published (run h)) as [s|] eqn:Q; reflexivity.
  - intros m o.
    assert (RUN : fst (step (run h) (RegConn c d)) = run (h ++ [RegConn c d])).
    { unfold run. rewrite <- (app_nil_r (h ++ [RegConn c d])) at 1. clear. generalize mux0.
      induction h as [|x h IH]; intro m0; cbn; [reflexivity|apply IH]. }
    rewrite RUN, (dispatch_live _ m o HK), (dispatch_live _ m o HKh).
    assert (TR : live_table (trace (h ++ [RegConn c d])) = live_step (live_table (trace h)) (RegConn c d, ROk)).
    { rewrite <- R. unfold live_table, trace, run. generalize (@nil (owner * list mdesc)). generalize mux0. clear.
      induction h as [|x h IH]; intros m0 T0; cbn; [reflexivity|apply IH]. }
    unfold live. rewrite TR, live_step_conn, (drop_entries_id _ _ E), live_in_app, in_app_iff.
    apply or_iff_compat_l. destruct (exposes (dmethods d) m); cbn; intuition congruence.
Qed.

Lemma steps_app h1 : forall h2 mx, steps mx (h1 ++ h2) = steps (steps mx h1) h2.
Proof. induction h1 as [|o h1 IH]; intros h2 mx; cbn [app steps]; [reflexivity|apply IH]. Qed.

Lemma reregister_unchanged h1 h2 c d :
  snd (step (run h1) (RegConn c d)) = ROk -> (forall o, In o h2 -> touches c o = false) ->
  let mx := run (h1 ++ RegConn c d :: h2) in
  snd (step mx (RegConn c d)) = ROk /\ clone (published (fst (step mx (RegConn c d)))) = clone (published mx).
Proof.
  intros R F mx. destruct (reg_conn_hash _ _ _ R) as (cl & Hc & Hh).
  apply (reg_conn_again mx c d cl); [|exact Hh].
  unfold mx, run. rewrite steps_app. cbn [steps]. rewrite steps_frame; [exact Hc|exact F].
Qed.
