(* Proofs about Model/Negotiate.v against Spec/AcceptSpec.v. *)
From Coq Require Import QArith Lqa.
From Larking Require Import Base.GoSem Model.Negotiate Spec.AcceptSpec.
Local Close Scope Q_scope.
Local Open Scope nat_scope.
Local Open Scope bool_scope.

(* ------------------------------------------------------------------ *)
(* q-value comparisons                                                  *)

Lemma qltb_lt x y : qltb x y = true <-> (x < y)%Q.
Proof.
  unfold qltb. rewrite negb_true_iff. split; intros H.
  - apply Qnot_le_lt. intros L. apply Qle_bool_iff in L. congruence.
  - destruct (Qle_bool y x) eqn:E; auto. apply Qle_bool_iff in E. exfalso. apply (Qlt_not_le _ _ H E).
Qed.
Lemma qltb_ge x y : qltb x y = false <-> (y <= x)%Q.
Proof.
  unfold qltb. rewrite negb_false_iff. apply Qle_bool_iff.
Qed.
Lemma qeqb_eq x y : Qeq_bool x y = true <-> (x == y)%Q.
Proof. apply Qeq_bool_iff. Qed.
Lemma qeqb_neq x y : Qeq_bool x y = false <-> ~ (x == y)%Q.
Proof.
  split; intros H.
  - intros E. apply Qeq_bool_iff in E. congruence.
  - destruct (Qeq_bool x y) eqn:E; auto. apply Qeq_bool_iff in E. contradiction.
Qed.

(* ------------------------------------------------------------------ *)
(* parseAccept: total, never panics, q-values are non-negative          *)

Lemma token_len_le s : token_len s <= length s.
Proof. induction s as [|c s IH]; cbn; auto. destruct (is_token c || (c =? 47)%N); cbn; lia. Qed.
Lemma skip_space_le s : length (skip_space s) <= length s.
Proof. induction s as [|c s IH]; cbn; auto. destruct (is_space c); cbn; lia. Qed.
Lemma has_prefix_len p s : has_prefix p s = true -> length p <= length s.
Proof.
  unfold has_prefix. intros H. apply bytes_eqb_eq in H.
  rewrite <- H at 1. rewrite firstn_length. lia.
Qed.
Lemma q_digits_le s : forall n d n' d' r, q_digits s n d = (n', d', r) -> length r <= length s.
Proof.
  induction s as [|c s IH]; cbn; intros n d n' d' r H.
  - inversion H; subst; cbn; lia.
  - destruct ((48 <=? c)%N && (c <=? 57)%N).
    + apply IH in H. lia.
    + inversion H; subst; cbn; lia.
Qed.
Lemma expect_quality_le s q r : expect_quality s = Some (q, r) -> length r <= length s.
Proof.
  unfold expect_quality. destruct s as [|c s]; [discriminate|].
  destruct ((c =? 48)%N || (c =? 49)%N); [|discriminate].
  destruct s as [|c' s'].
  - intros H; inversion H; subst; cbn; lia.
  - destruct (c' =? 46)%N.
    + destruct (q_digits s' 0%N 1%positive) as [[n d] rest] eqn:E. intros H; inversion H; subst.
      apply q_digits_le in E. cbn. lia.
    + intros H; inversion H; subst; cbn; lia.
Qed.
Lemma expect_quality_nonneg s q r : expect_quality s = Some (q, r) -> (0 <= q)%Q.
Proof.
  unfold expect_quality. destruct s as [|c s]; [discriminate|].
  destruct ((c =? 48)%N || (c =? 49)%N); [|discriminate].
  assert (Hz : forall n : N, (0 <= inject_Z (Z.of_N n))%Q).
  { intros n. unfold Qle, inject_Z. cbn [Qnum Qden]. rewrite Z.mul_0_l, Z.mul_1_r. apply N2Z.is_nonneg. }
  destruct s as [|c' s'].
  - intros H; inversion H; subst. apply Hz.
  - destruct (c' =? 46)%N.
    + destruct (q_digits s' 0%N 1%positive) as [[n d] rest] eqn:E. intros H; inversion H; subst.
      unfold Qle. cbn [Qnum Qden]. rewrite Z.mul_0_l, Z.mul_1_r. apply N2Z.is_nonneg.
    + intros H; inversion H; subst. apply Hz.
Qed.

Definition nonneg (l : list spec) : Prop := Forall (fun sp => (0 <= sq sp)%Q) l.

Lemma nonneg_snoc l v q : nonneg l -> (0 <= q)%Q -> nonneg (l ++ [mkspec v q]).
Proof. intros H Hq. apply Forall_app. split; auto. Qed.

Lemma parse_value_total : forall fuel s acc, length s < fuel -> nonneg acc ->
  exists l, parse_value fuel s acc = Ok l /\ nonneg l.
Proof.
  induction fuel as [|fuel IH]; intros s acc Hf Hacc; [lia|].
  cbn [parse_value].
  pose proof (token_len_le s) as Hn.
  unfold slice. replace (Nat.leb 0 (token_len s) && Nat.leb (token_len s) (length s)) with true
    by (symmetry; apply andb_true_iff; split; apply Nat.leb_le; lia).
  cbn [bind]. unfold slice_from at 1.
  replace (Nat.leb (token_len s) (length s)) with true by (symmetry; apply Nat.leb_le; lia).
  cbn [bind]. rewrite Nat.sub_0_r. cbn [skipn].
  destruct (is_nil (firstn (token_len s) s)) eqn:Hnil; [eauto|].
  assert (Hpos : 1 <= token_len s).
  { destruct (token_len s); [|lia]. cbn in Hnil. discriminate. }
  set (rest := skip_space (skipn (token_len s) s)).
  assert (Hrest : length rest < length s).
  { subst rest. pose proof (skip_space_le (skipn (token_len s) s)). rewrite skipn_length in H. lia. }
  (* the continuation after a range was accepted *)
  assert (Hafter : forall q s', (0 <= q)%Q -> length s' < length s ->
    exists l, (let acc0 := acc ++ [mkspec (firstn (token_len s) s) q] in
               let s0 := skip_space s' in
               if has_prefix comma s0 then do s1 <- slice_from 1 s0; parse_value fuel (skip_space s1) acc0
               else Ok acc0) = Ok l /\ nonneg l).
  { intros q s' Hq Hs'. cbn zeta.
    pose proof (skip_space_le s') as Hsk.
    destruct (has_prefix comma (skip_space s')) eqn:Hc.
    - apply has_prefix_len in Hc. change (length comma) with 1 in Hc. unfold slice_from.
      replace (Nat.leb 1 (length (skip_space s'))) with true by (symmetry; apply Nat.leb_le; lia).
      cbn [bind]. apply IH.
      + pose proof (skip_space_le (skipn 1 (skip_space s'))) as H2. rewrite skipn_length in H2. lia.
      + apply nonneg_snoc; auto.
    - eexists; split; [reflexivity|]. apply nonneg_snoc; auto. }
  destruct (has_prefix semicolon rest) eqn:Hsemi.
  - apply has_prefix_len in Hsemi. change (length semicolon) with 1 in Hsemi. unfold slice_from at 1.
    replace (Nat.leb 1 (length rest)) with true by (symmetry; apply Nat.leb_le; lia).
    cbn [bind].
    set (r2 := skip_space (skipn 1 rest)).
    assert (Hr2 : length r2 < length s).
    { subst r2. pose proof (skip_space_le (skipn 1 rest)) as H2. rewrite skipn_length in H2. lia. }
    destruct (has_prefix q_eq r2) eqn:Hq; [|eauto].
    apply has_prefix_len in Hq. change (length q_eq) with 2 in Hq. unfold slice_from at 1.
    replace (Nat.leb 2 (length r2)) with true by (symmetry; apply Nat.leb_le; lia).
    cbn [bind].
    destruct (expect_quality (skipn 2 r2)) as [[q s']|] eqn:Eq; [|eauto].
    apply Hafter.
    + eapply expect_quality_nonneg; eauto.
    + apply expect_quality_le in Eq. rewrite skipn_length in Eq. lia.
  - apply Hafter; [|exact Hrest]. unfold Qle; cbn; lia.
Qed.

Lemma parse_values_total : forall vs acc, nonneg acc -> exists l, parse_values vs acc = Ok l /\ nonneg l.
Proof.
  induction vs as [|s vs IH]; intros acc Hacc; cbn [parse_values]; [eauto|].
  destruct (parse_value_total (S (length s)) s acc) as [l [Hl Hn]]; [lia|auto|].
  rewrite Hl. cbn [bind]. apply IH; auto.
Qed.

Lemma parse_accept_ok : forall values, exists specs, parse_accept values = Ok specs /\ nonneg specs.
Proof. intros. apply parse_values_total. constructor. Qed.

Lemma parse_accept_total' : forall values, no_crash (parse_accept values) /\ exists specs, parse_accept values = Ok specs.
Proof.
  intros values. destruct (parse_accept_ok values) as [l [H _]]. rewrite H. split; [exact I|eauto].
Qed.

(* ------------------------------------------------------------------ *)
(* the boolean readings decide the declarative ones                     *)

Lemma admits_byb_iff sp t : admits_byb sp t = true <-> admits_by sp t.
Proof.
  unfold admits_byb, admits_by. rewrite andb_true_iff, qltb_lt. tauto.
Qed.
Lemma admitsb_iff specs t : admitsb specs t = true <-> admits specs t.
Proof.
  unfold admitsb, admits. rewrite existsb_exists.
  split; intros [sp [H1 H2]]; exists sp; (split; [auto|]); apply admits_byb_iff; auto.
Qed.
Lemma betterb_iff a b : betterb a b = true <-> better a b.
Proof.
  unfold betterb, better. rewrite orb_true_iff, andb_true_iff, qltb_lt, qeqb_eq, Nat.ltb_lt. tauto.
Qed.
Lemma best_choiceb_iff specs offers r : best_choiceb specs offers r = true <-> best_choice specs offers r.
Proof.
  unfold best_choiceb, best_choice. rewrite existsb_exists. split.
  - intros [sp [Hin H]]. apply andb_true_iff in H. destruct H as [Ha Hall].
    exists sp. split; [auto|]. split; [apply admits_byb_iff; auto|].
    intros o sp' Ho Hsp' Hadm Hb.
    rewrite forallb_forall in Hall. specialize (Hall o Ho). rewrite forallb_forall in Hall.
    specialize (Hall sp' Hsp'). apply negb_true_iff in Hall.
    apply admits_byb_iff in Hadm. apply betterb_iff in Hb. rewrite Hadm, Hb in Hall. discriminate.
  - intros [sp [Hin [Ha Hall]]]. exists sp. split; [auto|]. apply andb_true_iff. split; [apply admits_byb_iff; auto|].
    apply forallb_forall. intros o Ho. apply forallb_forall. intros sp' Hsp'.
    apply negb_true_iff. destruct (admits_byb sp' o) eqn:E1; [|reflexivity].
    destruct (betterb sp' sp) eqn:E2; [|reflexivity].
    exfalso. apply (Hall o sp' Ho Hsp'); [apply admits_byb_iff|apply betterb_iff]; auto.
Qed.
Lemma mem_iff t l : mem t l = true <-> In t l.
Proof.
  unfold mem. rewrite existsb_exists. split.
  - intros [x [H1 H2]]. apply bytes_eqb_eq in H2. subst. auto.
  - intros H. exists t. split; auto. apply bytes_eqb_eq. reflexivity.
Qed.

(* ------------------------------------------------------------------ *)
(* negotiateContentType                                                 *)

(* the switch of the loop body, restated with the reading's vocabulary *)
Definition ct_step' (offer : bytes) (s : cst) (sp : spec) : cst :=
  if negb (Qeq_bool (sq sp) 0%Q) && matches (sval sp) offer && negb (qltb (sq sp) (bq s))
     && (qltb (bq s) (sq sp) || Nat.ltb (wild (sval sp)) (bw s))
  then mkcst (sq sp) (wild (sval sp)) offer else s.

Lemma removelast_firstn_len' {A} (l : list A) : removelast l = firstn (length l - 1) l.
Proof. rewrite Nat.sub_1_r. apply removelast_firstn_len. Qed.

Lemma ct_step_eq offer s sp : ct_step offer s sp = ct_step' offer s sp.
Proof.
  unfold ct_step, ct_step', matches, wild.
  destruct (Qeq_bool (sq sp) 0%Q); cbn [negb andb]; [reflexivity|].
  destruct (qltb (sq sp) (bq s)); cbn [negb andb].
  - rewrite andb_false_r. reflexivity.
  - rewrite andb_true_r.
    destruct (bytes_eqb (sval sp) star_star); [reflexivity|].
    destruct (has_suffix slash_star (sval sp)).
    + rewrite removelast_firstn_len'. reflexivity.
    + reflexivity.
Qed.

Definition cand (o : bytes) (sp : spec) : bool := negb (Qeq_bool (sq sp) 0%Q) && matches (sval sp) o.

Lemma cand_admits o sp : (0 <= sq sp)%Q -> (cand o sp = true <-> admits_by sp o).
Proof.
  intros Hq. unfold cand, admits_by. rewrite andb_true_iff, negb_true_iff, qeqb_neq. split.
  - intros [H1 H2]. split; auto. destruct (Qlt_le_dec 0 (sq sp)) as [L|L]; auto.
    exfalso. apply H1. apply Qle_antisym; auto.
  - intros [H1 H2]. split; auto. intros E. rewrite E in H1. apply (Qlt_irrefl _ H1).
Qed.

Definition pstep (s : cst) (p : bytes * spec) : cst := ct_step' (fst p) s (snd p).

Lemma fold_pairs specs : forall offers s,
  fold_left (fun s o => fold_left (ct_step o) specs s) offers s = fold_left pstep (pairs specs offers) s.
Proof.
  induction offers as [|o offers IH]; intros s; cbn [fold_left pairs flat_map]; [reflexivity|].
  rewrite fold_left_app. rewrite IH. f_equal.
  clear IH. revert s. induction specs as [|sp specs IHs]; intros s; cbn [fold_left map]; [reflexivity|].
  rewrite IHs. unfold pstep at 2. cbn [fst snd]. rewrite ct_step_eq. reflexivity.
Qed.

Lemma in_pairs specs offers o sp : In (o, sp) (pairs specs offers) <-> In o offers /\ In sp specs.
Proof.
  unfold pairs. rewrite in_flat_map. split.
  - intros [o' [Ho H]]. apply in_map_iff in H. destruct H as [sp' [E Hs]]. inversion E; subst. auto.
  - intros [Ho Hs]. exists o. split; auto. apply in_map_iff. exists sp. auto.
Qed.

(* invariant of the loop over a processed prefix P of the pairs *)
Definition inv (def : bytes) (P : list (bytes * spec)) (s : cst) : Prop :=
  ((forall o sp, In (o, sp) P -> cand o sp = false) /\ s = mkcst (-1)%Q 3 def) \/
  (exists o sp, In (o, sp) P /\ cand o sp = true /\ s = mkcst (sq sp) (wild (sval sp)) o /\
     forall o' sp', In (o', sp') P -> cand o' sp' = true -> ~ better sp' sp).

Lemma better_irrefl a : ~ better a a.
Proof. unfold better. intros [L|[_ L]]; [apply (Qlt_irrefl _ L)|lia]. Qed.
Lemma better_trans a b c : better a b -> better b c -> better a c.
Proof.
  unfold better. intros [L|[L W]] [L'|[L' W']].
  - left; lra.
  - left; lra.
  - left; lra.
  - right; split; [lra|lia].
Qed.
Lemma better_asym a b : better a b -> ~ better b a.
Proof. intros H H'. apply (better_irrefl a). eapply better_trans; eauto. Qed.
(* (q, specificity) is a strict weak order *)
Lemma better_negtrans a b c : better a b -> ~ better c b -> better a c.
Proof.
  unfold better. intros Hab Hcb.
  destruct (Qlt_le_dec (sq c) (sq a)) as [L|L]; [left; auto|].
  destruct Hab as [L1|[L1 W1]].
  - exfalso. apply Hcb. left. lra.
  - destruct (Qlt_le_dec (sq b) (sq c)) as [L2|L2]; [exfalso; apply Hcb; left; auto|].
    right. split; [lra|].
    destruct (Nat.lt_ge_cases (wild (sval a)) (wild (sval c))) as [W|W]; auto.
    exfalso. apply Hcb. right. split; [lra|lia].
Qed.

(* invariant of the loop over a processed prefix P of the pairs: the state is the FIRST pair of P
   that is maximal in the (q, specificity) order *)
Definition inv2 (def : bytes) (P : list (bytes * spec)) (s : cst) : Prop :=
  ((forall o sp, In (o, sp) P -> cand o sp = false) /\ s = mkcst (-1)%Q 3 def) \/
  (exists P1 P2 o sp, P = P1 ++ (o, sp) :: P2 /\ cand o sp = true /\ s = mkcst (sq sp) (wild (sval sp)) o /\
     (forall o' sp', In (o', sp') P1 -> cand o' sp' = true -> better sp sp') /\
     (forall o' sp', In (o', sp') P2 -> cand o' sp' = true -> ~ better sp' sp)).

Lemma snoc_split {A} (P1 P2 : list A) x y : (P1 ++ x :: P2) ++ [y] = P1 ++ x :: (P2 ++ [y]).
Proof. rewrite <- app_assoc. reflexivity. Qed.

Lemma inv2_keep def P1 P2 o0 sp0 o sp :
  cand o0 sp0 = true ->
  (forall o' sp', In (o', sp') P1 -> cand o' sp' = true -> better sp0 sp') ->
  (forall o' sp', In (o', sp') P2 -> cand o' sp' = true -> ~ better sp' sp0) ->
  (cand o sp = true -> ~ better sp sp0) ->
  inv2 def ((P1 ++ (o0, sp0) :: P2) ++ [(o, sp)]) (mkcst (sq sp0) (wild (sval sp0)) o0).
Proof.
  intros Hc0 H1 H2 Hnew. right. exists P1, (P2 ++ [(o, sp)]), o0, sp0.
  split; [apply snoc_split|]. split; auto. split; auto. split; auto.
  intros o' sp' H Hc'. apply in_app_or in H. destruct H as [H|H]; [eauto|].
  destruct H as [H|H]; [|destruct H]. inversion H; subst. auto.
Qed.

Lemma inv2_step def P s p :
  (forall o sp, In (o, sp) (P ++ [p]) -> (0 <= sq sp)%Q) ->
  inv2 def P s -> inv2 def (P ++ [p]) (pstep s p).
Proof.
  intros Hnn Hinv. destruct p as [o sp]. unfold pstep, ct_step'. cbn [fst snd].
  assert (Hq : (0 <= sq sp)%Q) by (apply (Hnn o sp); apply in_or_app; right; left; reflexivity).
  fold (cand o sp).
  destruct (cand o sp) eqn:Hc; cbn [andb].
  2:{ (* not a candidate: state unchanged *)
    destruct Hinv as [[Hno Hs]|[P1 [P2 [o0 [sp0 [HP [Hc0 [Hs [H1 H2]]]]]]]]].
    - left. split; auto. intros o' sp' H. apply in_app_or in H. destruct H as [H|H]; [auto|].
      destruct H as [H|H]; [|destruct H]. inversion H; subst; auto.
    - subst P s. apply inv2_keep; auto. congruence. }
  assert (Hpos : (0 < sq sp)%Q) by (apply (cand_admits o sp Hq); auto).
  destruct Hinv as [[Hno Hs]|[P1 [P2 [o0 [sp0 [HP [Hc0 [Hs [H1 H2]]]]]]]]].
  - (* first candidate *)
    subst s. cbn [bq bw].
    assert (E1 : qltb (sq sp) (-1)%Q = false) by (apply qltb_ge; lra).
    assert (E2 : qltb (-1)%Q (sq sp) = true) by (apply qltb_lt; lra).
    rewrite E1, E2. cbn [negb andb orb].
    right. exists P, [], o, sp. split; auto. split; auto. split; auto. split.
    + intros o' sp' H Hc'. rewrite (Hno _ _ H) in Hc'. discriminate.
    + intros o' sp' [].
  - subst s P. cbn [bq bw].
    destruct (qltb (sq sp) (sq sp0)) eqn:E1; cbn [negb andb].
    + (* lower q: skipped *)
      apply qltb_lt in E1. apply inv2_keep; auto.
      intros _. unfold better. intros [L|[L _]]; lra.
    + apply qltb_ge in E1.
      destruct (qltb (sq sp0) (sq sp) || Nat.ltb (wild (sval sp)) (wild (sval sp0))) eqn:E2.
      * (* strictly better: taken; everything before it is strictly worse *)
        assert (Hb : better sp sp0).
        { apply orb_true_iff in E2. destruct E2 as [E2|E2].
          - left. apply qltb_lt; auto.
          - apply Nat.ltb_lt in E2. destruct (Qlt_le_dec (sq sp0) (sq sp)) as [L|L]; [left; auto|].
            right. split; [apply Qle_antisym; auto|auto]. }
        right. exists (P1 ++ (o0, sp0) :: P2), [], o, sp. split; auto. split; auto. split; auto. split.
        -- intros o' sp' H Hc'. apply in_app_or in H. destruct H as [H|H].
           ++ eapply better_trans; eauto.
           ++ destruct H as [H|H].
              ** inversion H; subst. auto.
              ** eapply better_negtrans; eauto.
        -- intros o' sp' [].
      * (* equal q, not more specific: kept *)
        apply orb_false_iff in E2. destruct E2 as [E2 E3]. apply qltb_ge in E2. apply Nat.ltb_ge in E3.
        apply inv2_keep; auto.
        intros _. unfold better. intros [L|[L W]]; [lra|lia].
Qed.

Lemma inv2_fold def : forall Q P s,
  (forall o sp, In (o, sp) (P ++ Q) -> (0 <= sq sp)%Q) ->
  inv2 def P s -> inv2 def (P ++ Q) (fold_left pstep Q s).
Proof.
  induction Q as [|p Q IH]; intros P s Hnn Hinv; cbn [fold_left].
  - rewrite app_nil_r. exact Hinv.
  - replace (P ++ p :: Q) with ((P ++ [p]) ++ Q) by (rewrite <- app_assoc; reflexivity).
    apply IH.
    + rewrite <- app_assoc. exact Hnn.
    + apply inv2_step; auto. intros o sp H. apply (Hnn o sp). apply in_app_or in H. apply in_or_app. destruct H as [H|H]; [left; auto|]. right. destruct H as [H|H]; [left; auto|destruct H].
Qed.

Lemma ct_final_inv2 specs offers def : nonneg specs ->
  inv2 def (pairs specs offers) (ct_final specs offers def).
Proof.
  intros Hnn. unfold ct_final. rewrite fold_pairs.
  apply (inv2_fold def (pairs specs offers) [] (mkcst (-1)%Q 3 def)).
  - cbn [app]. intros o sp H. apply in_pairs in H. destruct H as [_ H].
    unfold nonneg in Hnn. rewrite Forall_forall in Hnn. auto.
  - left. split; auto. intros o sp [].
Qed.

Lemma inv2_inv def P s : inv2 def P s -> inv def P s.
Proof.
  intros [[Hno Hs]|[P1 [P2 [o0 [sp0 [HP [Hc0 [Hs [H1 H2]]]]]]]]]; [left; auto|].
  right. exists o0, sp0. subst P. split; [apply in_or_app; right; left; reflexivity|]. split; auto. split; auto.
  intros o' sp' H Hc'. apply in_app_or in H. destruct H as [H|H].
  - apply better_asym. eauto.
  - destruct H as [H|H]; [inversion H; subst; apply better_irrefl|eauto].
Qed.

Lemma ct_final_inv specs offers def : nonneg specs ->
  inv def (pairs specs offers) (ct_final specs offers def).
Proof. intros. apply inv2_inv. apply ct_final_inv2. auto. Qed.

(* nothing admitted: the default; something admitted: an admitted offer *)
Lemma negotiate_admitted specs offers def : nonneg specs ->
  let r := negotiate_content_type specs offers def in
  ((exists o, In o offers /\ admits specs o) -> In r offers /\ admits specs r) /\
  (~ (exists o, In o offers /\ admits specs o) -> r = def).
Proof.
  intros Hnn r. subst r. unfold negotiate_content_type.
  pose proof (ct_final_inv specs offers def Hnn) as Hinv.
  assert (Hq : forall sp, In sp specs -> (0 <= sq sp)%Q).
  { unfold nonneg in Hnn. rewrite Forall_forall in Hnn. auto. }
  destruct Hinv as [[Hno Hs]|[o0 [sp0 [Hin [Hc0 [Hs Hbest]]]]]]; rewrite Hs; cbn [bo].
  - split; auto. intros [o [Ho [sp [Hsp Ha]]]]. exfalso.
    assert (Hc : cand o sp = true) by (apply cand_admits; auto).
    rewrite (Hno o sp) in Hc; [discriminate|]. apply in_pairs. auto.
  - apply in_pairs in Hin. destruct Hin as [Ho Hsp]. split.
    + intros _. split; auto. exists sp0. split; auto. apply cand_admits; auto.
    + intros Hn. exfalso. apply Hn. exists o0. split; auto. exists sp0. split; auto. apply cand_admits; auto.
Qed.

(* the choice is best in the order the code implements: higher q, then exact < type/* < */* *)
Lemma negotiate_best specs offers def : nonneg specs ->
  (exists o, In o offers /\ admits specs o) ->
  best_choice specs offers (negotiate_content_type specs offers def).
Proof.
  intros Hnn Hex. unfold negotiate_content_type.
  pose proof (ct_final_inv specs offers def Hnn) as Hinv.
  assert (Hq : forall sp, In sp specs -> (0 <= sq sp)%Q).
  { unfold nonneg in Hnn. rewrite Forall_forall in Hnn. auto. }
  destruct Hinv as [[Hno Hs]|[o0 [sp0 [Hin [Hc0 [Hs Hbest]]]]]]; rewrite Hs; cbn [bo].
  - exfalso. destruct Hex as [o [Ho [sp [Hsp Ha]]]].
    assert (Hc : cand o sp = true) by (apply cand_admits; auto).
    rewrite (Hno o sp) in Hc; [discriminate|]. apply in_pairs. auto.
  - apply in_pairs in Hin. destruct Hin as [Ho Hsp].
    exists sp0. split; auto. split; [apply cand_admits; auto|].
    intros o sp' Ho' Hsp' Ha. apply (Hbest o sp'); [apply in_pairs; auto|apply cand_admits; auto].
Qed.

(* ties: the choice is the FIRST pair, in the loop's iteration order (offers outer, ranges inner),
   that is maximal: every admitting pair before it is strictly worse, none after it is better *)
Lemma negotiate_first specs offers def : nonneg specs ->
  (exists o, In o offers /\ admits specs o) ->
  exists P1 P2 sp, pairs specs offers = P1 ++ (negotiate_content_type specs offers def, sp) :: P2 /\
    admits_by sp (negotiate_content_type specs offers def) /\
    (forall o' sp', In (o', sp') P1 -> admits_by sp' o' -> better sp sp') /\
    (forall o' sp', In (o', sp') P2 -> admits_by sp' o' -> ~ better sp' sp).
Proof.
  intros Hnn Hex. unfold negotiate_content_type.
  assert (Hq : forall sp, In sp specs -> (0 <= sq sp)%Q).
  { unfold nonneg in Hnn. rewrite Forall_forall in Hnn. auto. }
  destruct (ct_final_inv2 specs offers def Hnn) as [[Hno Hs]|[P1 [P2 [o0 [sp0 [HP [Hc0 [Hs [H1 H2]]]]]]]]]; rewrite Hs; cbn [bo].
  - exfalso. destruct Hex as [o [Ho [sp [Hsp Ha]]]].
    assert (Hc : cand o sp = true) by (apply cand_admits; auto).
    rewrite (Hno o sp) in Hc; [discriminate|]. apply in_pairs. auto.
  - assert (Hin : forall o sp, In (o, sp) P1 \/ In (o, sp) P2 \/ (o, sp) = (o0, sp0) -> In sp specs).
    { intros o sp H. apply (proj1 (in_pairs specs offers o sp)). rewrite HP. apply in_or_app.
      destruct H as [H|[H|H]]; [left; auto|right; right; auto|right; left; auto]. }
    exists P1, P2, sp0. split; auto. split.
    + apply cand_admits; [apply Hq; apply (Hin o0 sp0); auto|auto].
    + split; intros o' sp' H Ha.
      * apply (H1 o' sp' H). apply cand_admits; [apply Hq; apply (Hin o' sp'); auto|auto].
      * apply (H2 o' sp' H). apply cand_admits; [apply Hq; apply (Hin o' sp'); auto|auto].
Qed.

Lemma choice_ok_iff specs offers def r :
  choice_ok specs offers def r = true <->
  ((exists o, In o offers /\ admits specs o) /\ In r offers /\ admits specs r /\ best_choice specs offers r) \/
  (~ (exists o, In o offers /\ admits specs o) /\ r = def).
Proof.
  unfold choice_ok.
  destruct (existsb (admitsb specs) offers) eqn:E.
  - apply existsb_exists in E. destruct E as [o [Ho Ha]]. apply admitsb_iff in Ha.
    rewrite !andb_true_iff, mem_iff, admitsb_iff, best_choiceb_iff. split.
    + intros [[H1 H2] H3]. left. split; [exists o; auto|auto].
    + intros [[_ [H1 [H2 H3]]]|[Hn _]]; [auto|]. exfalso. apply Hn. exists o; auto.
  - rewrite bytes_eqb_eq. split.
    + intros H. right. split; auto. intros [o [Ho Ha]].
      assert (existsb (admitsb specs) offers = true) by (apply existsb_exists; exists o; split; auto; apply admitsb_iff; auto).
      congruence.
    + intros [[[o [Ho Ha]] _]|[_ H]]; auto.
      assert (existsb (admitsb specs) offers = true) by (apply existsb_exists; exists o; split; auto; apply admitsb_iff; auto).
      congruence.
Qed.

(* the model's choice passes the reading's decision procedure *)
Lemma negotiate_choice_ok specs offers def : nonneg specs ->
  choice_ok specs offers def (negotiate_content_type specs offers def) = true.
Proof.
  intros Hnn. apply choice_ok_iff.
  destruct (negotiate_admitted specs offers def Hnn) as [H1 H2].
  destruct (existsb (admitsb specs) offers) eqn:E.
  - apply existsb_exists in E. destruct E as [o [Ho Ha]]. apply admitsb_iff in Ha.
    left. assert (Hex : exists o, In o offers /\ admits specs o) by (exists o; auto).
    destruct (H1 Hex) as [A B]. split; auto. split; auto. split; auto. apply negotiate_best; auto.
  - right. assert (Hn : ~ (exists o, In o offers /\ admits specs o)).
    { intros [o [Ho Ha]].
      assert (existsb (admitsb specs) offers = true) by (apply existsb_exists; exists o; split; auto; apply admitsb_iff; auto).
      congruence. }
    split; auto.
Qed.

(* the result is always an offer or the default (used by the response path: encError's codec exists) *)
Lemma negotiate_in specs offers def : nonneg specs ->
  In (negotiate_content_type specs offers def) offers \/ negotiate_content_type specs offers def = def.
Proof.
  intros Hnn. unfold negotiate_content_type.
  destruct (ct_final_inv specs offers def Hnn) as [[Hno Hs]|[o0 [sp0 [Hin [Hc0 [Hs Hbest]]]]]]; rewrite Hs; cbn [bo]; auto.
  apply in_pairs in Hin. tauto.
Qed.

(* ------------------------------------------------------------------ *)
(* negotiateContentEncoding: an offer, "identity" or ""                 *)

Lemma enc_inner offers o specs : forall s,
  (ebo s = identity \/ In (ebo s) offers) -> In o offers ->
  let s' := fold_left (enc_step o) specs s in ebo s' = identity \/ In (ebo s') offers.
Proof.
  induction specs as [|sp specs IH]; intros s Hs Ho; cbn [fold_left]; auto.
  apply IH; auto. unfold enc_step.
  destruct (qltb (ebq s) (sq sp) && (bytes_eqb (sval sp) star || bytes_eqb (sval sp) o)); cbn [ebo]; auto.
Qed.

Lemma enc_outer specs offers0 : forall offers s,
  (forall o, In o offers -> In o offers0) ->
  (ebo s = identity \/ In (ebo s) offers0) ->
  let s' := fold_left (fun s o => fold_left (enc_step o) specs s) offers s in ebo s' = identity \/ In (ebo s') offers0.
Proof.
  induction offers as [|o offers IH]; intros s Hsub Hs; cbn [fold_left]; auto.
  apply IH.
  - intros o' H. apply Hsub. right; auto.
  - apply enc_inner; auto. apply Hsub. left; auto.
Qed.

Lemma negotiate_encoding_in specs offers :
  let r := negotiate_encoding specs offers in r = [] \/ r = identity \/ In r offers.
Proof.
  cbn zeta. unfold negotiate_encoding.
  destruct (Qeq_bool _ _); [left; reflexivity|right].
  apply (enc_outer specs offers offers (mkest (-1)%Q identity)); auto.
Qed.

(* ------------------------------------------------------------------ *)
(* the statements about header values (byte strings) in, choice out     *)

Lemma parse_accept_total_hdr : forall values : list bytes,
  no_crash (parse_accept values) /\ exists specs, parse_accept values = Ok specs /\ nonneg specs.
Proof.
  intros values. destruct (parse_accept_ok values) as [l [H Hn]]. rewrite H. split; [exact I|eauto].
Qed.

Lemma negotiation_admitted_hdr : forall (accept : list bytes) (offers : list bytes) (def : bytes),
  exists specs, parse_accept accept = Ok specs /\
    let r := negotiate_content_type specs offers def in
    ((exists o, In o offers /\ admits specs o) -> In r offers /\ admits specs r) /\
    (~ (exists o, In o offers /\ admits specs o) -> r = def).
Proof.
  intros accept offers def. destruct (parse_accept_ok accept) as [specs [H Hn]].
  exists specs. split; [exact H|]. exact (negotiate_admitted specs offers def Hn).
Qed.

Lemma negotiation_best_hdr : forall (accept : list bytes) (offers : list bytes) (def : bytes),
  exists specs, parse_accept accept = Ok specs /\
    ((exists o, In o offers /\ admits specs o) ->
     exists sp, In sp specs /\ admits_by sp (negotiate_content_type specs offers def) /\
       forall o sp', In o offers -> In sp' specs -> admits_by sp' o ->
         ~ ((sq sp < sq sp')%Q \/ ((sq sp' == sq sp)%Q /\ wild (sval sp') < wild (sval sp)))).
Proof.
  intros accept offers def. destruct (parse_accept_ok accept) as [specs [H Hn]].
  exists specs. split; [exact H|]. intros Hex. exact (negotiate_best specs offers def Hn Hex).
Qed.

Lemma negotiation_first_hdr : forall (accept : list bytes) (offers : list bytes) (def : bytes),
  exists specs, parse_accept accept = Ok specs /\
    ((exists o, In o offers /\ admits specs o) ->
     exists P1 P2 sp, pairs specs offers = P1 ++ (negotiate_content_type specs offers def, sp) :: P2 /\
       admits_by sp (negotiate_content_type specs offers def) /\
       (forall o' sp', In (o', sp') P1 -> admits_by sp' o' -> better sp sp') /\
       (forall o' sp', In (o', sp') P2 -> admits_by sp' o' -> ~ better sp' sp)).
Proof.
  intros accept offers def. destruct (parse_accept_ok accept) as [specs [H Hn]].
  exists specs. split; [exact H|]. intros Hex. exact (negotiate_first specs offers def Hn Hex).
Qed.
