(* Acceptance is order independent too: if one order of a list of pairwise distinct bindings is
   accepted, every permutation is. *)
From Larking Require Import Base.GoSem Model.Lexer Model.Trie Model.Match Spec.Grammar Spec.Route
  Proofs.LexerProofs Proofs.MatchProofs Proofs.TrieProofs Proofs.RoutingProofs Proofs.OrderProofs.
From Coq Require Import Sorting.Sorted Permutation.
Local Open Scope N_scope.

Section Accept.
Variables isLetter isNumber : N -> bool.
Variable resolves body_ok resp_ok : str -> list str -> bool.

Notation Inv := (Inv isLetter isNumber resolves).
Notation InvX := (InvX isLetter isNumber resolves).
Notation compiled := (compiled isLetter isNumber resolves).
Notation add_binding := (add_binding resolves body_ok resp_ok isLetter isNumber).
Notation leaf := (leaf resolves body_ok resp_ok).
Notation build_from := (build_from isLetter isNumber resolves body_ok resp_ok).
Notation Distinct := (Distinct isLetter isNumber resolves).
Notation at_node := (at_node isLetter isNumber resolves).

Definition selectors_ok (x : str * brule) : Prop :=
  (match b_body (snd x) with BField p => resolves (fst x) p && body_ok (fst x) p | _ => true end = true) /\
  (match b_resp (snd x) with [] => true | p => resp_ok (fst x) p end = true).

(* a leaf update that stores something new has checked the selectors *)
Lemma leaf_new_selectors mid b vfs nd nd' :
  leaf mid b vfs nd = Ok nd' -> (forall m, ~ stored (info nd) (b_verb b) m) -> selectors_ok (mid, b).
Proof.
  intros H _. unfold Trie.leaf in H. unfold selectors_ok. cbn [fst snd].
  match type of H with (do m <- (if ?c then _ else _); _) = _ => destruct c eqn:Ec; [|discriminate] end.
  apply andb_true_iff in Ec. exact Ec.
Qed.

(* a leaf update that succeeds met no binding of another method under an overlapping verb *)
Lemma leaf_ok_compat mid b vfs nd nd' key m :
  assoc star_verb (n_meths nd) = None -> leaf mid b vfs nd = Ok nd' ->
  stored (info nd) key m -> overlap key (b_verb b) -> m_id m = mid.
Proof.
  intros Hn H Hs Ho. destruct (list_eq_dec N.eq_dec (m_id m) mid) as [E|E]; auto.
  destruct (leaf_rejects_conflict resolves body_ok resp_ok mid b vfs nd key m Hn Hs E Ho) as [e He]. congruence.
Qed.


Notation accept_binding := (accept_binding isLetter isNumber resolves body_ok resp_ok).

Definition fine (x : str * brule) : Prop := (exists es vfs, compiled (fst x) (snd x) es vfs) /\ selectors_ok x.
(* two bindings that meet at one node under overlapping verbs belong to one method *)
Definition compat (x y : str * brule) : Prop :=
  forall ex vx ey vy, compiled (fst x) (snd x) ex vx -> compiled (fst y) (snd y) ey vy -> keys ex = keys ey ->
    overlap (b_verb (snd y)) (b_verb (snd x)) -> fst y = fst x.

Lemma overlap_sym a b : overlap a b -> overlap b a.
Proof. unfold overlap. intros [H|[H|H]]; auto. Qed.
Lemma compat_sym x y : compat x y -> compat y x.
Proof. intros H ey vy ex vx Cy Cx E O. symmetry. apply (H ex vx ey vy); auto. now apply overlap_sym. Qed.

Lemma exists_info root es : exists_at root es -> exists i, info_at root es = Some i.
Proof. unfold exists_at, info_at. destruct (walk_to es root); [eauto|intros H; now exfalso]. Qed.

(* what the acceptance of one binding tells about it and about everything registered before *)
Lemma step_facts L root x r1 :
  InvX L root -> Distinct (x :: L) -> ~ In x L ->
  add_binding (fst x) root (snd x) = Ok r1 ->
  fine x /\ forall y, In y L -> compat x y.
Proof.
  intros HX HD Hnin H. destruct x as [mid b]. cbn [fst snd] in *.
  destruct (add_binding_inv isLetter isNumber resolves body_ok resp_ok _ _ _ _ H) as (es0 & vfs & leaf' & Hc & Hu & Hl & Hw & Hlen & Hg).
  pose proof (invx_inv _ _ _ _ _ HX) as HI.
  split; [split; [eauto|]|].
  - apply (leaf_new_selectors mid b vfs _ _ Hl). intros m Hs.
    destruct (info_at root es0) as [i0|] eqn:Ei0; [|rewrite (info_leaf_none _ _ Ei0) in Hs; now apply stored_empty in Hs].
    rewrite <- (info_leaf_of _ _ _ Ei0) in Hs. apply (invx_info _ _ _ _ _ HX es0 i0 _ m Ei0) in Hs.
    destruct Hs as (y & ey & vy & A & B & C & D & E).
    assert (y = (mid, b)) by (apply (HD y (mid, b) ey vy es0 vfs); [now right|now left|exact B|exact Hc|exact C|exact D]).
    subst y. contradiction.
  - intros y Hy ex vx ey vy Cx Cy Ek Ho. destruct (compiled_fun _ _ _ _ _ _ _ _ _ Cx Hc) as [-> ->].
    assert (Hex : exists_at root es0).
    { apply (invx_dom _ _ _ _ _ HX). right. exists y, ey, vy. split; [exact Hy|]. split; [exact Cy|]. rewrite Ek. apply is_prefix_refl. }
    destruct (exists_info _ _ Hex) as [i0 Ei0].
    assert (Hs : stored i0 (b_verb (snd y)) (mk_of y vy)).
    { apply (invx_info _ _ _ _ _ HX es0 i0 _ _ Ei0). exists y, ey, vy. split; [exact Hy|]. split; [exact Cy|]. split; [now symmetry|]. split; reflexivity. }
    rewrite (info_leaf_of _ _ _ Ei0) in Hs.
    assert (Hn : assoc star_verb (n_meths (leaf_of root es0)) = None).
    { pose proof (inv_nostar _ _ _ _ _ HI es0 i0 Ei0) as X. now rewrite (info_leaf_of _ _ _ Ei0) in X. }
    pose proof (leaf_ok_compat mid b vfs _ _ _ _ Hn Hl Hs Ho) as E. cbn in E. exact E.
Qed.

Lemma nodup_assoc {A} k (v : A) l : NoDup (map fst l) -> In (k, v) l -> assoc k l = Some v.
Proof.
  induction l as [|[k' v'] l IH]; cbn; [contradiction|]. intros Hn [E|Hin].
  - inversion E; subst. now rewrite str_eqb_refl.
  - inversion Hn as [|? ? Hk Hn']; subst. destruct (str_eqb k' k) eqn:E; [|now apply IH].
    apply str_eqb_eq in E. subst k'. exfalso. apply Hk. change k with (fst (k, v)). now apply in_map.
Qed.

(* a fine binding compatible with everything registered is accepted *)
Lemma step_accept L root x :
  InvX L root -> fine x -> (forall y, In y L -> compat x y) ->
  exists r1, add_binding (fst x) root (snd x) = Ok r1.
Proof.
  intros HX [(es & vfs & Hc) [Hb Hr]] Hcompat. destruct x as [mid b]. cbn [fst snd] in *.
  apply (accept_binding root mid b es vfs Hc); auto.
  assert (Hst : forall key m, stored (info (leaf_of root es)) key m -> overlap key (b_verb b) -> m_id m = mid).
  { intros key m Hs Ho.
    destruct (info_at root es) as [i0|] eqn:Ei0; [|rewrite (info_leaf_none _ _ Ei0) in Hs; now apply stored_empty in Hs].
    rewrite <- (info_leaf_of _ _ _ Ei0) in Hs. apply (invx_info _ _ _ _ _ HX es i0 _ m Ei0) in Hs.
    destruct Hs as (y & ey & vy & A & B & C & D & E). subst m key. cbn.
    apply (Hcompat y A es vfs ey vy Hc B); [now symmetry|exact Ho]. }
  split; [|split].
  - intros y Hy. apply (Hst star_verb y); [left; split; [reflexivity|exact Hy]|right; left; reflexivity].
  - intros Hv k m Hin.
    assert (Hnd : NoDup (map fst (n_meths (leaf_of root es)))).
    { destruct (info_at root es) as [i0|] eqn:Ei0.
      - pose proof (invx_nodup _ _ _ _ _ HX es i0 Ei0) as X. now rewrite (info_leaf_of _ _ _ Ei0) in X.
      - rewrite (info_leaf_none _ _ Ei0). constructor. }
    apply (Hst k m); [right; now apply nodup_assoc|right; right; exact Hv].
  - intros y Hy. apply (Hst (b_verb b) y); [right; exact Hy|left; reflexivity].
Qed.

(* facts of a whole accepted build *)
Lemma build_facts l : forall L0 root r,
  InvX L0 root -> Distinct (rev l ++ L0) -> NoDup (rev l ++ L0) -> build_from root l = Ok r ->
  (forall x, In x l -> fine x) /\
  (forall x y, In x l -> In y (l ++ L0) -> x <> y -> compat x y).
Proof.
  induction l as [|x l IH]; intros L0 root r HX HD HN H; cbn in H.
  - split; intros x; contradiction.
  - destruct (add_binding (fst x) root (snd x)) as [r1| | |] eqn:E1; try discriminate. cbn [bind] in H.
    cbn [rev] in HD, HN. rewrite <- app_assoc in HD, HN. cbn [app] in HD, HN.
    assert (HDx : Distinct (x :: L0)) by (eapply Distinct_sub; [|exact HD]; intros z Hz; apply in_or_app; now right).
    assert (Hnin : ~ In x L0).
    { pose proof (NoDup_remove_2 _ _ _ HN) as X. intros Hx. apply X. apply in_or_app. now right. }
    destruct (step_facts L0 root x r1 HX HDx Hnin E1) as [Fx Cx].
    destruct x as [mid b].
    pose proof (InvX_step isLetter isNumber resolves body_ok resp_ok L0 root mid b r1 HX HDx E1) as HX1.
    destruct (IH ((mid, b) :: L0) r1 r HX1 HD HN H) as [F C].
    split.
    + intros y [<-|Hy]; auto.
    + intros y z [<-|Hy] Hz Hne.
      * cbn in Hz. destruct Hz as [E|Hz]; [congruence|]. apply in_app_or in Hz. destruct Hz as [Hz|Hz].
        -- apply compat_sym. apply (C z (mid, b) Hz); [apply in_or_app; right; now left|congruence].
        -- now apply Cx.
      * cbn in Hz. destruct Hz as [<-|Hz].
        -- apply (C y (mid, b) Hy); [apply in_or_app; right; now left|exact Hne].
        -- apply (C y z Hy); [|exact Hne]. apply in_app_or in Hz. apply in_or_app. destruct Hz as [Hz|Hz]; [now left|right; now right].
Qed.

Lemma build_accept l : forall L0 root,
  InvX L0 root -> Distinct (rev l ++ L0) -> NoDup (rev l ++ L0) ->
  (forall x, In x l -> fine x) -> (forall x y, In x l -> In y (l ++ L0) -> x <> y -> compat x y) ->
  exists r, build_from root l = Ok r.
Proof.
  induction l as [|x l IH]; intros L0 root HX HD HN HF HC; cbn.
  - eauto.
  - cbn [rev] in HD, HN. rewrite <- app_assoc in HD, HN. cbn [app] in HD, HN.
    assert (Hnin : ~ In x L0).
    { pose proof (NoDup_remove_2 _ _ _ HN) as X. intros Hx. apply X. apply in_or_app. now right. }
    destruct (step_accept L0 root x HX (HF x (or_introl eq_refl))) as [r1 E1].
    { intros y Hy. apply HC; [now left|right; apply in_or_app; now right|]. intros E. subst. contradiction. }
    rewrite E1. cbn [bind]. destruct x as [mid b].
    assert (HDx : Distinct ((mid, b) :: L0)) by (eapply Distinct_sub; [|exact HD]; intros z Hz; apply in_or_app; now right).
    pose proof (InvX_step isLetter isNumber resolves body_ok resp_ok L0 root mid b r1 HX HDx E1) as HX1.
    apply (IH ((mid, b) :: L0) r1 HX1 HD HN).
    + intros y Hy. apply HF. now right.
    + intros y z Hy Hz Hne. apply HC; [now right| |exact Hne].
      apply in_app_or in Hz. destruct Hz as [Hz|[<-|Hz]]; [right; apply in_or_app; now left|now left|right; apply in_or_app; now right].
Qed.

(* acceptance does not depend on the order either *)
Theorem accept_perm l1 l2 r1 :
  Permutation l1 l2 -> NoDup l1 -> Distinct l1 -> build_from empty_node l1 = Ok r1 ->
  exists r2, build_from empty_node l2 = Ok r2.
Proof.
  intros HP HN HD H1.
  assert (D1 : Distinct (rev l1 ++ [])) by (eapply Distinct_sub; [|exact HD]; intros x Hx; rewrite app_nil_r in Hx; now apply in_rev).
  assert (N1 : NoDup (rev l1 ++ [])) by (rewrite app_nil_r; now apply NoDup_rev).
  destruct (build_facts l1 [] empty_node r1 (InvX_empty isLetter isNumber resolves) D1 N1 H1) as [F C].
  apply (build_accept l2 [] empty_node (InvX_empty isLetter isNumber resolves)).
  - eapply Distinct_sub; [|exact HD]. intros x Hx. rewrite app_nil_r in Hx. apply in_rev in Hx. eapply Permutation_in; [apply Permutation_sym; exact HP|exact Hx].
  - rewrite app_nil_r. apply NoDup_rev. eapply Permutation_NoDup; eauto.
  - intros x Hx. apply F. eapply Permutation_in; [apply Permutation_sym; exact HP|exact Hx].
  - intros x y Hx Hy Hne. rewrite app_nil_r in Hy. apply C; [eapply Permutation_in; [apply Permutation_sym; exact HP|exact Hx]| |exact Hne].
    rewrite app_nil_r. eapply Permutation_in; [apply Permutation_sym; exact HP|exact Hy].
Qed.

End Accept.
