(* Precedence, exactly: among all the bindings that cover a request, path.search answers with the one
   stored at the LEAST covering edge path -- in the lexicographic order on edge sequences in which, at
   each position, a literal edge precedes every variable edge and variable edges are ordered by the
   text of their pattern (Go's string order on variable.name, which is how p.variables is sorted).
   "Literal beats wildcard" and "the answer does not depend on registration order" are corollaries.
   The premise "every candidate's captures convert" is needed and is stated as such; without it the
   statement is false (least_edge_path_refuted, served_refuted: concrete tries), and what remains
   true is proved as least_edge_path_partial. *)
From Larking Require Import Base.GoSem Model.Lexer Model.Trie Model.Match Spec.Grammar Spec.Route
  Proofs.LexerProofs Proofs.MatchProofs Proofs.TrieProofs Proofs.RoutingProofs.
From Coq Require Import Sorting.Sorted.

(* ---- the order ---- *)
(* Two literal edges never need ordering: a literal edge that covers the next two tokens is spelled by
   them (cand_long below), so two covering paths never differ in a literal against a literal. *)
Inductive edge_lt : edge -> edge -> Prop :=
| EL_lit_var k p : edge_lt (ELit k) (EVar p)
| EL_var_var p q : str_ltb (spell p) (spell q) = true -> edge_lt (EVar p) (EVar q).

(* the first difference decides. A proper prefix is NOT comparable with its extensions: two covering
   paths of one token list are never a proper prefix of one another (cover_no_prefix), and the main
   theorem shows the answer comparable with every candidate, so nothing is lost. *)
Inductive path_lt : list edge -> list edge -> Prop :=
| PL_here e e' es es' : edge_lt e e' -> path_lt (e :: es) (e' :: es')
| PL_next e es es' : path_lt es es' -> path_lt (e :: es) (e :: es').

Lemma edge_lt_irrefl e : ~ edge_lt e e.
Proof.
  intros H. destruct e as [k|p]; inversion H as [|p0 q0 Hs]; subst.
  rewrite str_ltb_irrefl in Hs. discriminate.
Qed.
Lemma edge_lt_trans a b c : edge_lt a b -> edge_lt b c -> edge_lt a c.
Proof.
  intros H1 H2. destruct H1 as [k p|p q Hpq]; inversion H2 as [|p0 q0 Hqc]; subst; constructor.
  eapply str_ltb_trans; eauto.
Qed.
Lemma path_lt_irrefl es : ~ path_lt es es.
Proof.
  induction es as [|e es IH]; intros H; inversion H as [e0 e1 es0 es1 He|e0 es0 es1 Hp]; subst.
  - now apply (edge_lt_irrefl e).
  - now apply IH.
Qed.
Lemma path_lt_trans a b : path_lt a b -> forall c, path_lt b c -> path_lt a c.
Proof.
  induction 1 as [e e' es es' He|e es es' Hp IH]; intros c H2;
    inversion H2 as [e0 e1 es0 es1 He2|e0 es0 es1 Hp2]; subst.
  - apply PL_here. eapply edge_lt_trans; eauto.
  - now apply PL_here.
  - now apply PL_here.
  - apply PL_next. now apply IH.
Qed.
Lemma path_lt_asym a b : path_lt a b -> ~ path_lt b a.
Proof. intros H1 H2. apply (path_lt_irrefl a). eapply path_lt_trans; eauto. Qed.
Lemma path_le_antisym a b : a = b \/ path_lt a b -> b = a \/ path_lt b a -> a = b.
Proof. intros [E|H1] [E'|H2]; auto. exfalso. eapply path_lt_asym; eauto. Qed.
Lemma path_lt_app pre a b : path_lt a b -> path_lt (pre ++ a) (pre ++ b).
Proof. intros H. induction pre as [|e pre IH]; cbn; auto. now apply PL_next. Qed.

(* ---- for a fixed pattern and token list the capture split is unique ---- *)
(* No well-formedness of the pattern is needed: MatchPat is the greedy reading variable.index
   implements ("*" up to the next separator, "**" up to the next verb separator), so the split is a
   function of the pattern and the tokens. *)
Lemma MatchPat_split_unique pat c z c' z' :
  MatchPat pat c z -> MatchPat pat c' z' -> c ++ z = c' ++ z' -> c = c' /\ z = z'.
Proof.
  intros M M' E. apply var_index_complete in M. apply var_index_complete in M'.
  rewrite E in M. rewrite M in M'. inversion M'; auto.
Qed.

(* ---- small list facts ---- *)
Lemma nth_error_rev {A} (l : list A) : forall j, j < length l -> nth_error (rev l) j = nth_error l (length l - S j).
Proof.
  induction l as [|a l IH]; intros j Hj; cbn [length] in *; [lia|]. cbn [rev].
  destruct (Nat.eq_dec j (length l)) as [->|Hne].
  - rewrite nth_error_app2 by (rewrite rev_length; lia). rewrite rev_length, Nat.sub_diag.
    replace (S (length l) - S (length l)) with 0 by lia. reflexivity.
  - rewrite nth_error_app1 by (rewrite rev_length; lia). rewrite IH by lia.
    replace (S (length l) - S j) with (S (length l - S j)) by lia. reflexivity.
Qed.
Lemma combine_snoc {A B} (l : list A) : forall (a : list B) x y,
  nth_error l (length a) = Some y -> combine l (a ++ [x]) = combine l a ++ [(y, x)].
Proof.
  induction l as [|h l IH]; intros a x y H.
  - destruct (length a); discriminate.
  - destruct a as [|b a]; cbn in *.
    + inversion H; subst. now destruct l.
    + now rewrite (IH a x y H).
Qed.
Lemma forallb_combine_app {A B} (f : A * B -> bool) (l : list A) : forall (a b : list B),
  forallb f (combine l (a ++ b)) = true -> forallb f (combine l a) = true.
Proof.
  induction l as [|h l IH]; intros a b H; [reflexivity|].
  destruct a as [|x a]; [reflexivity|]. cbn in *. apply andb_true_iff in H. destruct H as [H1 H2].
  rewrite H1. cbn. eapply IH; eauto.
Qed.

(* ---- sorted variables: one child per pattern, later entries spell greater ---- *)
Lemma sorted_in_functional l pat c c' : names_sorted l -> In (pat, c) l -> In (pat, c') l -> c = c'.
Proof.
  intros Hs H1 H2. pose proof (sorted_find _ _ _ Hs H1) as F1. pose proof (sorted_find _ _ _ Hs H2) as F2.
  congruence.
Qed.
Lemma sorted_cons_lt p0 n0 l pat c : names_sorted ((p0, n0) :: l) -> In (pat, c) l -> str_ltb (spell p0) (spell pat) = true.
Proof.
  unfold names_sorted. cbn [map]. intros Hs Hin. inversion Hs as [|a l' Hs' Hall]; subst.
  rewrite Forall_forall in Hall. apply (Hall (vname (pat, c))). now apply in_map.
Qed.
Lemma sorted_tail p0 n0 l : names_sorted ((p0, n0) :: l) -> names_sorted l.
Proof. unfold names_sorted. cbn [map]. intros Hs. now inversion Hs. Qed.

Definition SortedBelow (nd : node) : Prop := forall es nd', Reach nd es nd' -> names_sorted (n_vars nd').
Lemma SortedBelow_lit nd key c : SortedBelow nd -> assoc key (n_segs nd) = Some c -> SortedBelow c.
Proof. intros S Ha es nd' HR. apply (S (ELit key :: es)). eapply R_lit; eauto. Qed.
Lemma SortedBelow_var nd pat c : SortedBelow nd -> In (pat, c) (n_vars nd) -> SortedBelow c.
Proof. intros S Hin es nd' HR. apply (S (EVar pat :: es)). eapply R_var; eauto. Qed.
Lemma WFn_SortedBelow P k nd : WFn P k nd -> SortedBelow nd.
Proof.
  intros Hw es nd' HR. destruct (Reach_walk P _ _ _ HR k Hw) as (_ & W & _). inversion W; subst. assumption.
Qed.

(* ---- candidates ---- *)
Definition Cand (verb : str) (nd : node) (toks : list token) (es : list edge) (nd' : node) (caps : list str) (m : minfo) : Prop :=
  Reach nd es nd' /\ MatchEdges es toks caps /\ bound_at verb nd' = Some m.

Lemma cand_short verb nd toks es nd' caps m :
  length toks <= 1 -> Cand verb nd toks es nd' caps m -> es = [] /\ nd' = nd /\ caps = [].
Proof.
  intros Hl (HR & HM & HB). inversion HM as [toks0 Hl0|t0 t1 rest es0 caps0 HM0|pat t0 c z es0 caps0 Ht Hne HP HM0]; subst.
  - inversion HR; subst. auto.
  - cbn in Hl. lia.
  - destruct (c ++ z) as [|x l] eqn:E; [contradiction|]. cbn in Hl. lia.
Qed.

Lemma cand_long verb nd t0 t1 rest es nd' caps m :
  Cand verb nd (t0 :: t1 :: rest) es nd' caps m ->
  (exists nxt es1, es = ELit (tval t0 ++ tval t1) :: es1 /\ assoc (tval t0 ++ tval t1) (n_segs nd) = Some nxt /\
                   Cand verb nxt rest es1 nd' caps m) \/
  (exists pat cn c z es1 caps1, es = EVar pat :: es1 /\ is TSlash t0 = true /\ In (pat, cn) (n_vars nd) /\
                   t1 :: rest = c ++ z /\ MatchPat pat c z /\ Cand verb cn z es1 nd' caps1 m /\ caps = caps1 ++ [spell c]).
Proof.
  intros (HR & HM & HB).
  remember (t0 :: t1 :: rest) as toks eqn:Et.
  destruct HM as [toks Hl|u0 u1 rest' es0 caps0 HM0|pat u0 c z es0 caps0 Ht Hne HP HM0].
  - subst toks. cbn in Hl. lia.
  - injection Et as -> -> ->. left.
    inversion HR as [|? key cn ? ? Ha HR'|]; subst. exists cn, es0. repeat split; auto.
  - injection Et as -> Ecz. right.
    inversion HR as [| |? ? cn ? ? Hin HR']; subst. exists pat, cn, c, z, es0, caps0. repeat split; auto.
Qed.

Lemma cand_lit verb nd t0 t1 rest nxt es nd' caps m :
  assoc (tval t0 ++ tval t1) (n_segs nd) = Some nxt -> Cand verb nxt rest es nd' caps m ->
  Cand verb nd (t0 :: t1 :: rest) (ELit (tval t0 ++ tval t1) :: es) nd' caps m.
Proof. intros Ha (HR & HM & HB). repeat split; auto. - eapply R_lit; eauto. - now apply ME_lit. Qed.

Lemma cand_var verb nd t0 pat cn c z es nd' caps m :
  In (pat, cn) (n_vars nd) -> is TSlash t0 = true -> MatchPat pat c z -> c ++ z <> [] ->
  Cand verb cn z es nd' caps m ->
  Cand verb nd (t0 :: c ++ z) (EVar pat :: es) nd' (caps ++ [spell c]) m.
Proof. intros Hin Ht HP Hne (HR & HM & HB). repeat split; auto. - eapply R_var; eauto. - now apply ME_var. Qed.

(* an edge path determines the node, the captures and the binding *)
Lemma cand_functional verb es : forall nd toks nd1 caps1 m1 nd2 caps2 m2,
  SortedBelow nd ->
  Cand verb nd toks es nd1 caps1 m1 -> Cand verb nd toks es nd2 caps2 m2 -> nd1 = nd2 /\ caps1 = caps2 /\ m1 = m2.
Proof.
  induction es as [|e es IH]; intros nd toks nd1 caps1 m1 nd2 caps2 m2 HS C1 C2.
  - destruct C1 as (R1 & M1 & B1), C2 as (R2 & M2 & B2).
    inversion R1; subst. inversion R2; subst. inversion M1; subst. inversion M2; subst.
    rewrite B1 in B2. inversion B2; auto.
  - destruct toks as [|t0 [|t1 rest]].
    + apply cand_short in C1; [|cbn; lia]. destruct C1 as (E & _). discriminate.
    + apply cand_short in C1; [|cbn; lia]. destruct C1 as (E & _). discriminate.
    + destruct (cand_long _ _ _ _ _ _ _ _ _ C1) as [(n1 & s1 & E1 & A1 & D1)|(p1 & n1 & c1 & z1 & s1 & k1 & E1 & T1 & I1 & Z1 & P1 & D1 & K1)];
      destruct (cand_long _ _ _ _ _ _ _ _ _ C2) as [(n2 & s2 & E2 & A2 & D2)|(p2 & n2 & c2 & z2 & s2 & k2 & E2 & T2 & I2 & Z2 & P2 & D2 & K2)];
      injection E1 as Ee1 Es1; injection E2 as Ee2 Es2; subst e s1 s2; try discriminate.
      * rewrite A1 in A2. injection A2 as <-.
        apply (IH n1 rest nd1 caps1 m1 nd2 caps2 m2); auto. eapply SortedBelow_lit; eauto.
      * injection Ee2 as <-.
        assert (n1 = n2) by (eapply sorted_in_functional; eauto; apply (HS [] nd (R_here nd))). subst n2.
        destruct (MatchPat_split_unique _ _ _ _ _ P1 P2) as [-> ->]; [congruence|].
        destruct (IH n1 z2 nd1 k1 m1 nd2 k2 m2) as (A & B & C); auto.
        -- eapply SortedBelow_var; eauto.
        -- subst. auto.
Qed.

(* two covering paths of one token list are never a proper prefix of one another *)
Lemma cover_no_prefix es : forall e ext toks caps caps',
  MatchEdges es toks caps -> MatchEdges (es ++ e :: ext) toks caps' -> False.
Proof.
  induction es as [|e0 es IH]; intros e ext toks caps caps' M1 M2.
  - inversion M1 as [toks0 Hl| |]; subst. cbn in M2.
    inversion M2 as [|t0 t1 rest es0 caps0 HM0|pat t0 c z es0 caps0 Ht Hne HP HM0]; subst; cbn in Hl; try lia.
    destruct (c ++ z) as [|x l]; [contradiction|]. cbn in Hl. lia.
  - cbn in M2.
    inversion M1 as [|t0 t1 rest es0 caps0 HM0|pat t0 c z es0 caps0 Ht Hne HP HM0]; subst.
    + inversion M2 as [|u0 u1 rest' es1 caps1 HM1|]; subst. eapply IH; eauto.
    + inversion M2 as [| |pat' u0 c' z' es1 caps1 Ht' Hne' HP' HM1 Epat Etoks]; subst.
      destruct (MatchPat_split_unique _ _ _ _ _ HP HP') as [-> ->]; auto. eapply IH; eauto.
Qed.

(* (two lemmas of MatchProofs carry an unused section variable) *)
Definition TI_lit := TrieInv_lit.
Definition TI_var := TrieInv_var (fun _ _ => true).
Definition caps_length := sound_caps_length (fun _ _ => true).

Section Least.
Variable okconv : list str -> str -> bool.

(* "the captures convert": every capture that is bound to a field converts to that field's type --
   exactly the pairs path_params builds *)
Definition conv_ok (m : minfo) (caps : list str) : bool :=
  forallb (fun fc => is_nil (fst fc) || okconv (fst fc) (snd fc)) (combine (rev (m_vars m)) caps).

Lemma conv_ok_snoc m ps fds x :
  length ps < length (m_vars m) -> nth_error (m_vars m) (length (m_vars m) - length ps - 1) = Some fds ->
  conv_ok m (ps ++ [x]) = conv_ok m ps && (is_nil fds || okconv fds x).
Proof.
  intros Hl Hn. unfold conv_ok.
  rewrite (combine_snoc (rev (m_vars m)) ps x fds).
  - rewrite forallb_app. cbn. now rewrite andb_true_r.
  - rewrite nth_error_rev by lia. rewrite <- Hn. f_equal. lia.
Qed.
Lemma conv_ok_app_false m ps qs : conv_ok m ps = false -> conv_ok m (ps ++ qs) = false.
Proof.
  intros H. destruct (conv_ok m (ps ++ qs)) eqn:E; auto.
  unfold conv_ok in *. apply forallb_combine_app in E. congruence.
Qed.

(* a candidate one of whose captures does not convert *)
Definition Bad (verb : str) (nd : node) (toks : list token) (es : list edge) : Prop :=
  exists nd' caps m, Cand verb nd toks es nd' caps m /\ conv_ok m caps = false.
Definition ConvAll (verb : str) (nd : node) (toks : list token) : Prop :=
  forall es nd' caps m, Cand verb nd toks es nd' caps m -> conv_ok m caps = true.

Lemma bad_lit verb nd t0 t1 rest nxt es :
  assoc (tval t0 ++ tval t1) (n_segs nd) = Some nxt -> Bad verb nxt rest es ->
  Bad verb nd (t0 :: t1 :: rest) (ELit (tval t0 ++ tval t1) :: es).
Proof. intros Ha (nd' & caps & m & C & F). exists nd', caps, m. split; [eapply cand_lit; eauto|exact F]. Qed.
Lemma bad_var verb nd t0 pat cn c z es :
  In (pat, cn) (n_vars nd) -> is TSlash t0 = true -> MatchPat pat c z -> c ++ z <> [] -> Bad verb cn z es ->
  Bad verb nd (t0 :: c ++ z) (EVar pat :: es).
Proof.
  intros Hin Ht HP Hne (nd' & caps & m & C & F). exists nd', (caps ++ [spell c]), m.
  split; [eapply cand_var; eauto|now apply conv_ok_app_false].
Qed.
Lemma ConvAll_lit verb nd t0 t1 rest nxt :
  assoc (tval t0 ++ tval t1) (n_segs nd) = Some nxt -> ConvAll verb nd (t0 :: t1 :: rest) -> ConvAll verb nxt rest.
Proof. intros Ha H es nd' caps m C. apply (H _ _ _ _ (cand_lit _ _ _ _ _ _ _ _ _ _ Ha C)). Qed.

(* the step of try_vars on a successful answer from below *)
Lemma conv_step verb nd k pat nxt c z m ps (r : outcome result) :
  TrieInv nd k -> In (pat, nxt) (n_vars nd) -> Sound verb nxt z (m, ps) ->
  (if Nat.ltb (length ps) (length (m_vars m)) then
     match nth_error (m_vars m) (length (m_vars m) - length ps - 1) with
     | Some fds => if is_nil fds then Ok (m, ps ++ [spell c])
                   else if okconv fds (spell c) then Ok (m, ps ++ [spell c]) else Err EOther
     | None => Panic PIndex end else Panic PIndex) = r ->
  exists fds, length ps < length (m_vars m) /\ nth_error (m_vars m) (length (m_vars m) - length ps - 1) = Some fds /\
    r = if is_nil fds || okconv fds (spell c) then Ok (m, ps ++ [spell c]) else Err EOther.
Proof.
  intros Inv Hin HS H.
  pose proof (caps_length verb nxt (S k) z m ps (TI_var _ _ _ _ Inv Hin) HS) as HL.
  replace (Nat.ltb (length ps) (length (m_vars m))) with true in H by (symmetry; apply Nat.ltb_lt; lia).
  destruct (nth_error (m_vars m) (length (m_vars m) - length ps - 1)) as [fds|] eqn:En.
  - exists fds. split; [lia|]. split; [reflexivity|]. subst r. destruct (is_nil fds); cbn; auto.
  - apply nth_error_None in En. lia.
Qed.

(* ---- an Err below a node that has a candidate is caused by a capture that does not convert ---- *)
Lemma try_vars_err_bad verb rec t0 tl nd k e :
  TrieInv nd k -> is TSlash t0 = true -> tl <> [] ->
  (forall nd toks r, rec nd toks = Ok r -> Sound verb nd toks r) ->
  (forall pat cn z e, In (pat, cn) (n_vars nd) -> length z <= length tl -> rec cn z = Err e ->
      forall es nd' caps m, Cand verb cn z es nd' caps m -> exists esb, Bad verb cn z esb) ->
  forall vs, (forall pat c, In (pat, c) vs -> In (pat, c) (n_vars nd)) ->
  try_vars okconv rec tl vs = Err e ->
  forall pat cn c z es nd' caps m, In (pat, cn) vs -> MatchPat pat c z -> tl = c ++ z -> Cand verb cn z es nd' caps m ->
  exists esb, Bad verb nd (t0 :: tl) esb.
Proof.
  intros Inv Ht Hne Hsound Hbad. induction vs as [|[pat0 nxt0] vs IH]; intros Hsub H pat cn c z es nd' caps m Hin HP Etl HC; [contradiction|].
  cbn [try_vars] in H.
  assert (Hin0 : In (pat0, nxt0) (n_vars nd)) by (apply Hsub; now left).
  assert (Hsub' : forall pat c, In (pat, c) vs -> In (pat, c) (n_vars nd)) by (intros; apply Hsub; now right).
  assert (Hok : forallb pat_tok_ok pat0 = true).
  { destruct Inv as [_ I2]. apply (I2 [] nd pat0 nxt0 (R_here nd) Hin0). }
  pose proof (var_index_complete _ _ _ HP) as Hvi. rewrite <- Etl in Hvi.
  destruct (var_index_total pat0 Hok tl) as [[[c1 z1]|] Ev]; rewrite Ev in H.
  - destruct (var_index_sound _ _ _ _ Ev) as [E1 HP1].
    destruct (rec nxt0 z1) as [[m1 ps1]|e1| |] eqn:Er; try discriminate.
    + (* the conversion failed: that candidate is the bad one *)
      pose proof (Hsound _ _ _ Er) as HS.
      destruct (conv_step verb nd k pat0 nxt0 c1 z1 m1 ps1 _ Inv Hin0 HS H) as (fds & Hl & Hn & Hr).
      destruct (is_nil fds || okconv fds (spell c1)) eqn:Ec; [discriminate|].
      destruct HS as (es1 & nd1 & HR1 & HB1 & HM1). cbn [fst snd] in HB1, HM1.
      exists (EVar pat0 :: es1), nd1, (ps1 ++ [spell c1]), m1. split.
      * rewrite E1. eapply cand_var; eauto; [now rewrite <- E1|]. repeat split; auto.
      * rewrite (conv_ok_snoc m1 ps1 fds _ Hl Hn), Ec. apply andb_false_r.
    + destruct Hin as [E|Hin].
      * injection E as -> ->. rewrite Hvi in Ev. injection Ev as <- <-.
        assert (Hz : length z <= length tl) by (rewrite Etl, app_length; lia).
        destruct (Hbad pat cn z e1 Hin0 Hz Er es nd' caps m HC) as [esb HB].
        exists (EVar pat :: esb). rewrite Etl. eapply bad_var; eauto. now rewrite <- Etl.
      * eapply IH; eauto.
  - destruct Hin as [E|Hin].
    + injection E as -> ->. rewrite Hvi in Ev. discriminate.
    + eapply IH; eauto.
Qed.

Theorem search_err_bad fuel verb : forall nd k toks e,
  TrieInv nd k -> length toks < fuel -> search okconv fuel verb nd toks = Err e ->
  forall es nd' caps m, Cand verb nd toks es nd' caps m -> exists esb, Bad verb nd toks esb.
Proof.
  induction fuel as [|f IH]; intros nd k toks e Inv Hf H es nd' caps m HC; [lia|].
  cbn [search] in H. unfold search_body in H.
  destruct toks as [|t0 [|t1 rest]].
  - destruct (cand_short verb nd [] es nd' caps m ltac:(cbn; lia) HC) as (-> & -> & ->). destruct HC as (_ & _ & HB).
    rewrite (bound_pick _ _ _ HB) in H. discriminate.
  - destruct (cand_short verb nd [t0] es nd' caps m ltac:(cbn; lia) HC) as (-> & -> & ->). destruct HC as (_ & _ & HB).
    rewrite (bound_pick _ _ _ HB) in H. discriminate.
  - cbn [length] in Hf.
    assert (Hvars : forall e', try_vars okconv (search okconv f verb) (t1 :: rest) (n_vars nd) = Err e' ->
              forall pat cn c z es1 nd' caps1 m, is TSlash t0 = true -> In (pat, cn) (n_vars nd) -> MatchPat pat c z -> t1 :: rest = c ++ z ->
              Cand verb cn z es1 nd' caps1 m -> exists esb, Bad verb nd (t0 :: t1 :: rest) esb).
    { intros e' Hv pat cn c z es1 nd1 caps1 m1 Ht Hin HP Ecz HC1.
      eapply (try_vars_err_bad verb (search okconv f verb) t0 (t1 :: rest) nd k e' Inv Ht); eauto.
      - discriminate.
      - intros. eapply search_sound; eauto.
      - intros pat0 cn0 z0 e0 Hin0 Hz0 Hr0 es0 nd0 caps0 m0 HC0.
        apply (IH cn0 (S k) z0 e0 (TI_var _ _ _ _ Inv Hin0)) with (es := es0) (nd' := nd0) (caps := caps0) (m := m0); auto.
        cbn [length] in Hz0. lia. }
    destruct (cand_long _ _ _ _ _ _ _ _ _ HC) as [(nxt & es1 & -> & Ha & HC1)|(pat & cn & c & z & es1 & caps1 & -> & Ht & Hin & Ecz & HP & HC1 & ->)].
    + rewrite Ha in H. destruct (search okconv f verb nxt rest) as [r|e1| |] eqn:Er; try discriminate.
      destruct (IH nxt k rest e1 (TI_lit _ _ _ _ Inv Ha) ltac:(lia) Er _ _ _ _ HC1) as [esb HB].
      exists (ELit (tval t0 ++ tval t1) :: esb). eapply bad_lit; eauto.
    + rewrite Ht in H.
      destruct (assoc (tval t0 ++ tval t1) (n_segs nd)) as [nxt|] eqn:Ea.
      * destruct (search okconv f verb nxt rest) as [r|e1| |] eqn:Er; try discriminate.
        eapply Hvars; eauto.
      * eapply Hvars; eauto.
Qed.

(* completeness with the property's own premise: if every candidate's captures convert and there is a
   candidate, the request is served *)
Theorem search_complete_conv fuel verb nd k toks es nd' caps m :
  TrieInv nd k -> length toks < fuel -> ConvAll verb nd toks -> Cand verb nd toks es nd' caps m ->
  exists r, search okconv fuel verb nd toks = Ok r.
Proof.
  intros Inv Hf Hconv HC. pose proof (search_total okconv fuel verb nd k toks Inv Hf) as Hb.
  destruct (search okconv fuel verb nd toks) as [r|e| |] eqn:Es; cbn in Hb; try contradiction; [eauto|].
  destruct (search_err_bad fuel verb nd k toks e Inv Hf Es _ _ _ _ HC) as (esb & ndb & capsb & mb & HCb & Hbad).
  rewrite (Hconv _ _ _ _ HCb) in Hbad. discriminate.
Qed.

(* ---- the answer against any other candidate ---- *)
(* es: the answer's path, es': any candidate's. Either the same path, or the answer is below, or the
   candidate is below the answer AND so is a candidate that does not convert (the only way the search
   can have passed over es': a conversion failure somewhere below the answer's path). *)
Definition Rel (verb : str) (nd : node) (toks : list token) (es es' : list edge) : Prop :=
  es = es' \/ path_lt es es' \/ (path_lt es' es /\ exists esb, Bad verb nd toks esb /\ path_lt esb es).

Lemma Rel_lit verb nd t0 t1 rest nxt es es' :
  assoc (tval t0 ++ tval t1) (n_segs nd) = Some nxt -> Rel verb nxt rest es es' ->
  Rel verb nd (t0 :: t1 :: rest) (ELit (tval t0 ++ tval t1) :: es) (ELit (tval t0 ++ tval t1) :: es').
Proof.
  intros Ha [->|[Hlt|(Hlt & esb & HB & Hb)]].
  - now left.
  - right. left. now apply PL_next.
  - right. right. split; [now apply PL_next|]. exists (ELit (tval t0 ++ tval t1) :: esb).
    split; [eapply bad_lit; eauto|now apply PL_next].
Qed.
Lemma Rel_var verb nd t0 pat cn c z es es' :
  In (pat, cn) (n_vars nd) -> is TSlash t0 = true -> MatchPat pat c z -> c ++ z <> [] -> Rel verb cn z es es' ->
  Rel verb nd (t0 :: c ++ z) (EVar pat :: es) (EVar pat :: es').
Proof.
  intros Hin Ht HP Hne [->|[Hlt|(Hlt & esb & HB & Hb)]].
  - now left.
  - right. left. now apply PL_next.
  - right. right. split; [now apply PL_next|]. exists (EVar pat :: esb).
    split; [eapply bad_var; eauto|now apply PL_next].
Qed.

(* what the search below a node is assumed to do, for the loop over the variables *)
Definition RecLeast (verb : str) (rec : node -> list token -> outcome result) (nd : node) (tl : list token) : Prop :=
  forall pat cn z m ps, In (pat, cn) (n_vars nd) -> length z <= length tl -> rec cn z = Ok (m, ps) ->
    exists es nd', Cand verb cn z es nd' ps m /\ conv_ok m ps = true /\
      forall es' nd'' caps' m', Cand verb cn z es' nd'' caps' m' -> Rel verb cn z es es'.

Lemma try_vars_least verb rec t0 tl nd k :
  TrieInv nd k -> names_sorted (n_vars nd) -> is TSlash t0 = true -> tl <> [] ->
  (forall nd toks r, rec nd toks = Ok r -> Sound verb nd toks r) ->
  (forall pat cn z e, In (pat, cn) (n_vars nd) -> length z <= length tl -> rec cn z = Err e ->
      forall es nd' caps m, Cand verb cn z es nd' caps m -> exists esb, Bad verb cn z esb) ->
  RecLeast verb rec nd tl ->
  forall vs m ps, (forall pat c, In (pat, c) vs -> In (pat, c) (n_vars nd)) -> names_sorted vs ->
  try_vars okconv rec tl vs = Ok (m, ps) ->
  exists patA cnA es1 nd', In (patA, cnA) vs /\
    Cand verb nd (t0 :: tl) (EVar patA :: es1) nd' ps m /\ conv_ok m ps = true /\
    forall pat' cn' c' z' es' nd'' caps' m', In (pat', cn') vs -> MatchPat pat' c' z' -> tl = c' ++ z' ->
      Cand verb cn' z' es' nd'' caps' m' -> Rel verb nd (t0 :: tl) (EVar patA :: es1) (EVar pat' :: es').
Proof.
  intros Inv Hsn Ht Hne Hsound Hbad Hleast.
  induction vs as [|[pat0 nxt0] vs IH]; intros m ps Hsub Hsv H; [discriminate|].
  cbn [try_vars] in H.
  assert (Hin0 : In (pat0, nxt0) (n_vars nd)) by (apply Hsub; now left).
  assert (Hsub' : forall pat c, In (pat, c) vs -> In (pat, c) (n_vars nd)) by (intros; apply Hsub; now right).
  assert (Hok : forallb pat_tok_ok pat0 = true).
  { destruct Inv as [_ I2]. apply (I2 [] nd pat0 nxt0 (R_here nd) Hin0). }
  (* candidates through the variables after the head, once the head does not give the answer *)
  assert (Hskip : forall (Hhead : forall c' z' es' nd'' caps' m', MatchPat pat0 c' z' -> tl = c' ++ z' ->
                      Cand verb nxt0 z' es' nd'' caps' m' -> exists esb, Bad verb nxt0 z' esb),
            try_vars okconv rec tl vs = Ok (m, ps) ->
            exists patA cnA es1 nd', In (patA, cnA) ((pat0, nxt0) :: vs) /\
              Cand verb nd (t0 :: tl) (EVar patA :: es1) nd' ps m /\ conv_ok m ps = true /\
              forall pat' cn' c' z' es' nd'' caps' m', In (pat', cn') ((pat0, nxt0) :: vs) -> MatchPat pat' c' z' -> tl = c' ++ z' ->
                Cand verb cn' z' es' nd'' caps' m' -> Rel verb nd (t0 :: tl) (EVar patA :: es1) (EVar pat' :: es')).
  { intros Hhead H'.
    destruct (IH m ps Hsub' (sorted_tail _ _ _ Hsv) H') as (patA & cnA & es1 & nd' & HinA & HCA & Hcv & HA).
    exists patA, cnA, es1, nd'. split; [now right|]. split; [exact HCA|]. split; [exact Hcv|].
    intros pat' cn' c' z' es' nd'' caps' m' [E|Hin'] HP' Etl HC'; [|eapply HA; eauto].
    injection E as <- <-.
    pose proof (sorted_cons_lt _ _ _ _ _ Hsv HinA) as Hlt.
    destruct (Hhead _ _ _ _ _ _ HP' Etl HC') as [esb HB].
    right. right. split; [apply PL_here; now constructor|].
    exists (EVar pat0 :: esb). split; [|apply PL_here; now constructor].
    rewrite Etl. eapply bad_var; eauto. now rewrite <- Etl. }
  destruct (var_index_total pat0 Hok tl) as [[[c1 z1]|] Ev]; rewrite Ev in H.
  - destruct (var_index_sound _ _ _ _ Ev) as [E1 HP1].
    assert (Hz1 : length z1 <= length tl) by (rewrite E1, app_length; lia).
    destruct (rec nxt0 z1) as [[m1 ps1]|e1| |] eqn:Er; try discriminate.
    + (* the head variable answers *)
      pose proof (Hsound _ _ _ Er) as HS.
      destruct (conv_step verb nd k pat0 nxt0 c1 z1 m1 ps1 _ Inv Hin0 HS H) as (fds & Hl & Hn & Hr).
      destruct (is_nil fds || okconv fds (spell c1)) eqn:Ec; [|discriminate].
      injection Hr as <- ->.
      destruct (Hleast pat0 nxt0 z1 m ps1 Hin0 Hz1 Er) as (es1 & nd' & HC1 & Hcv1 & HL1).
      exists pat0, nxt0, es1, nd'. split; [now left|]. split; [|split].
      * rewrite E1. eapply cand_var; eauto. now rewrite <- E1.
      * rewrite (conv_ok_snoc m ps1 fds _ Hl Hn), Hcv1, Ec. reflexivity.
      * intros pat' cn' c' z' es' nd'' caps' m' [E|Hin'] HP' Etl HC'.
        -- injection E as <- <-.
           pose proof (var_index_complete _ _ _ HP') as Hvi. rewrite <- Etl, Ev in Hvi. injection Hvi as <- <-.
           rewrite E1. eapply Rel_var; eauto. now rewrite <- E1.
        -- right. left. apply PL_here. constructor. eapply sorted_cons_lt; eauto.
    + (* nothing below the head variable *)
      apply Hskip; auto. intros c' z' es' nd'' caps' m' HP' Etl HC'.
      pose proof (var_index_complete _ _ _ HP') as Hvi. rewrite <- Etl, Ev in Hvi. injection Hvi as <- <-.
      eapply Hbad; eauto.
  - (* the head variable does not cover *)
    apply Hskip; auto. intros c' z' es' nd'' caps' m' HP' Etl HC'.
    pose proof (var_index_complete _ _ _ HP') as Hvi. rewrite <- Etl, Ev in Hvi. discriminate.
Qed.

(* ---- the main theorem, without any premise on conversions ---- *)
Theorem search_least_gen fuel verb : forall nd k toks m ps,
  TrieInv nd k -> SortedBelow nd -> length toks < fuel ->
  search okconv fuel verb nd toks = Ok (m, ps) ->
  exists es nd', Cand verb nd toks es nd' ps m /\ conv_ok m ps = true /\
    forall es' nd'' caps' m', Cand verb nd toks es' nd'' caps' m' -> Rel verb nd toks es es'.
Proof.
  induction fuel as [|f IH]; intros nd k toks m ps Inv HS Hf H; [lia|].
  cbn [search] in H. unfold search_body in H.
  destruct toks as [|t0 [|t1 rest]].
  - apply pick_bound in H. destruct H as [HB ->]. exists [], nd. split; [|split].
    + repeat split; auto; constructor. cbn. lia.
    + unfold conv_ok. now rewrite combine_nil.
    + intros es' nd'' caps' m' HC. destruct (cand_short verb nd [] es' nd'' caps' m' ltac:(cbn; lia) HC) as (-> & _). now left.
  - apply pick_bound in H. destruct H as [HB ->]. exists [], nd. split; [|split].
    + repeat split; auto; constructor. cbn. lia.
    + unfold conv_ok. now rewrite combine_nil.
    + intros es' nd'' caps' m' HC. destruct (cand_short verb nd [t0] es' nd'' caps' m' ltac:(cbn; lia) HC) as (-> & _). now left.
  - cbn [length] in Hf.
    (* the variables answer: the literal edge, if there is one, leads nowhere *)
    assert (Hvars : (forall nxt, assoc (tval t0 ++ tval t1) (n_segs nd) = Some nxt -> exists e1, search okconv f verb nxt rest = Err e1) ->
              (if is TSlash t0 then try_vars okconv (search okconv f verb) (t1 :: rest) (n_vars nd) else Err ENotFound) = Ok (m, ps) ->
              exists es nd', Cand verb nd (t0 :: t1 :: rest) es nd' ps m /\ conv_ok m ps = true /\
                forall es' nd'' caps' m', Cand verb nd (t0 :: t1 :: rest) es' nd'' caps' m' -> Rel verb nd (t0 :: t1 :: rest) es es').
    { intros Hlit Hv. destruct (is TSlash t0) eqn:Ht; [|discriminate].
      assert (Hbad : forall pat cn z e, In (pat, cn) (n_vars nd) -> length z <= length (t1 :: rest) -> search okconv f verb cn z = Err e ->
                 forall es nd' caps m, Cand verb cn z es nd' caps m -> exists esb, Bad verb cn z esb).
      { intros pat0 cn0 z0 e0 Hin0 Hz0 Hr0 es0 nd0 caps0 m0 HC0.
        apply (search_err_bad f verb cn0 (S k) z0 e0 (TI_var _ _ _ _ Inv Hin0)) with (es := es0) (nd' := nd0) (caps := caps0) (m := m0); auto.
        cbn [length] in Hz0. lia. }
      destruct (try_vars_least verb (search okconv f verb) t0 (t1 :: rest) nd k Inv (HS [] nd (R_here nd)) Ht ltac:(discriminate)
                  (fun nd toks r => search_sound okconv f verb nd toks r) Hbad) with (vs := n_vars nd) (m := m) (ps := ps)
        as (patA & cnA & es1 & nd' & HinA & HCA & Hcv & HA); auto.
      - intros pat0 cn0 z0 m0 ps0 Hin0 Hz0 Hr0.
        apply (IH cn0 (S k) z0 m0 ps0 (TI_var _ _ _ _ Inv Hin0) (SortedBelow_var _ _ _ HS Hin0)); auto. cbn [length] in Hz0. lia.
      - apply (HS [] nd (R_here nd)).
      - exists (EVar patA :: es1), nd'. split; [exact HCA|]. split; [exact Hcv|].
        intros es' nd'' caps' m' HC'.
        destruct (cand_long _ _ _ _ _ _ _ _ _ HC') as [(nxt & es2 & -> & Ha & HC2)|(pat & cn & c & z & es2 & caps2 & -> & _ & Hin & Ecz & HP & HC2 & ->)].
        + destruct (Hlit nxt Ha) as [e1 Er].
          destruct (search_err_bad f verb nxt k rest e1 (TI_lit _ _ _ _ Inv Ha) ltac:(lia) Er _ _ _ _ HC2) as [esb HB].
          right. right. split; [apply PL_here; constructor|].
          exists (ELit (tval t0 ++ tval t1) :: esb). split; [eapply bad_lit; eauto|apply PL_here; constructor].
        + eapply HA; eauto. }
    destruct (assoc (tval t0 ++ tval t1) (n_segs nd)) as [nxt|] eqn:Ea.
    + destruct (search okconv f verb nxt rest) as [[m1 ps1]|e1| |] eqn:Er; try discriminate.
      * (* the literal edge answers *)
        injection H as -> ->.
        destruct (IH nxt k rest m ps (TI_lit _ _ _ _ Inv Ea) (SortedBelow_lit _ _ _ HS Ea) ltac:(lia) Er) as (es1 & nd' & HC1 & Hcv & HL).
        exists (ELit (tval t0 ++ tval t1) :: es1), nd'. split; [eapply cand_lit; eauto|]. split; [exact Hcv|].
        intros es' nd'' caps' m' HC'.
        destruct (cand_long _ _ _ _ _ _ _ _ _ HC') as [(nxt' & es2 & -> & Ha & HC2)|(pat & cn & c & z & es2 & caps2 & -> & _)].
        -- rewrite Ea in Ha. injection Ha as <-. eapply Rel_lit; eauto.
        -- right. left. apply PL_here. constructor.
      * apply Hvars; auto. intros nxt' Ha. injection Ha as <-. eauto.
    + apply Hvars; auto. intros nxt' Ha. discriminate.
Qed.

(* ---- the statements ---- *)
(* the least candidate: a candidate that is below every other one *)
Definition Least (verb : str) (nd : node) (toks : list token) (es : list edge) (nd' : node) (caps : list str) (m : minfo) : Prop :=
  Cand verb nd toks es nd' caps m /\
  forall es' nd'' caps' m', Cand verb nd toks es' nd'' caps' m' -> es = es' \/ path_lt es es'.

Lemma Least_unique verb nd toks es1 nd1 caps1 m1 es2 nd2 caps2 m2 :
  SortedBelow nd -> Least verb nd toks es1 nd1 caps1 m1 -> Least verb nd toks es2 nd2 caps2 m2 ->
  es1 = es2 /\ nd1 = nd2 /\ caps1 = caps2 /\ m1 = m2.
Proof.
  intros HS [C1 L1] [C2 L2].
  assert (E : es1 = es2) by (apply path_le_antisym; [eapply L1|eapply L2]; eauto). subst es2.
  split; [reflexivity|]. eapply cand_functional; eauto.
Qed.

(* WITHOUT the premise on conversions: the answer is a candidate all of whose captures convert, and
   any candidate below it is there together with a candidate below the answer that does not convert *)
Theorem least_edge_path_partial fuel verb root k toks m ps :
  TrieInv root k -> SortedBelow root -> length toks < fuel ->
  search okconv fuel verb root toks = Ok (m, ps) ->
  exists es nd, Cand verb root toks es nd ps m /\ conv_ok m ps = true /\
    forall es' nd' caps' m', Cand verb root toks es' nd' caps' m' ->
      es = es' \/ path_lt es es' \/
      (path_lt es' es /\ exists esb ndb capsb mb,
          Cand verb root toks esb ndb capsb mb /\ conv_ok mb capsb = false /\ path_lt esb es).
Proof.
  intros Inv HS Hf H. destruct (search_least_gen fuel verb root k toks m ps Inv HS Hf H) as (es & nd & HC & Hcv & HL).
  exists es, nd. split; [exact HC|]. split; [exact Hcv|].
  intros es' nd' caps' m' HC'. destruct (HL _ _ _ _ HC') as [E|[Hlt|(Hlt & esb & (ndb & capsb & mb & HCb & Hb) & Hltb)]]; auto.
  right. right. split; [exact Hlt|]. exists esb, ndb, capsb, mb. auto.
Qed.

(* WITH the premise (every candidate's captures convert): the answer is the least candidate *)
Theorem least_edge_path fuel verb root k toks m ps :
  TrieInv root k -> SortedBelow root -> length toks < fuel -> ConvAll verb root toks ->
  search okconv fuel verb root toks = Ok (m, ps) ->
  exists es nd, Least verb root toks es nd ps m.
Proof.
  intros Inv HS Hf Hconv H. destruct (search_least_gen fuel verb root k toks m ps Inv HS Hf H) as (es & nd & HC & Hcv & HL).
  exists es, nd. split; [exact HC|].
  intros es' nd' caps' m' HC'. destruct (HL _ _ _ _ HC') as [E|[Hlt|(Hlt & esb & (ndb & capsb & mb & HCb & Hb) & Hltb)]]; auto.
  rewrite (Hconv _ _ _ _ HCb) in Hb. discriminate.
Qed.

(* the converse: the least candidate is what the search answers *)
Theorem least_is_served fuel verb root k toks es nd caps m :
  TrieInv root k -> SortedBelow root -> length toks < fuel -> ConvAll verb root toks ->
  Least verb root toks es nd caps m ->
  search okconv fuel verb root toks = Ok (m, caps).
Proof.
  intros Inv HS Hf Hconv HL.
  destruct (search_complete_conv fuel verb root k toks es nd caps m Inv Hf Hconv (proj1 HL)) as [[m2 ps2] Hr].
  destruct (least_edge_path fuel verb root k toks m2 ps2 Inv HS Hf Hconv Hr) as (es2 & nd2 & HL2).
  destruct (Least_unique _ _ _ _ _ _ _ _ _ _ _ HS HL HL2) as (_ & _ & -> & ->). exact Hr.
Qed.

(* the search is characterised: the least candidate, else an error *)
Theorem search_characterised fuel verb root k toks :
  TrieInv root k -> SortedBelow root -> length toks < fuel -> ConvAll verb root toks ->
  match search okconv fuel verb root toks with
  | Ok (m, ps) => exists es nd, Least verb root toks es nd ps m
  | Err _ => forall es nd caps m, ~ Cand verb root toks es nd caps m
  | _ => False
  end.
Proof.
  intros Inv HS Hf Hconv. pose proof (search_total okconv fuel verb root k toks Inv Hf) as Hb.
  destruct (search okconv fuel verb root toks) as [[m ps]|e| |] eqn:Es; cbn in Hb; try contradiction.
  - eapply least_edge_path; eauto.
  - intros es nd caps m HC.
    destruct (search_complete_conv fuel verb root k toks es nd caps m Inv Hf Hconv HC) as [r Hr]. congruence.
Qed.

(* the class of the error: "method not allowed" on the empty path, "not found" otherwise *)
Definition err_of (toks : list token) : err := if Nat.leb (length toks) 1 then EMethod else ENotFound.

Lemma try_vars_err_class verb rec t0 tl nd k e :
  TrieInv nd k -> is TSlash t0 = true -> tl <> [] ->
  (forall nd toks r, rec nd toks = Ok r -> Sound verb nd toks r) ->
  forall vs, (forall pat c, In (pat, c) vs -> In (pat, c) (n_vars nd)) ->
  try_vars okconv rec tl vs = Err e -> e = ENotFound \/ exists esb, Bad verb nd (t0 :: tl) esb.
Proof.
  intros Inv Ht Hne Hsound. induction vs as [|[pat0 nxt0] vs IH]; intros Hsub H; cbn [try_vars] in H.
  - injection H as <-. now left.
  - assert (Hin0 : In (pat0, nxt0) (n_vars nd)) by (apply Hsub; now left).
    assert (Hsub' : forall pat c, In (pat, c) vs -> In (pat, c) (n_vars nd)) by (intros; apply Hsub; now right).
    assert (Hok : forallb pat_tok_ok pat0 = true).
    { destruct Inv as [_ I2]. apply (I2 [] nd pat0 nxt0 (R_here nd) Hin0). }
    destruct (var_index_total pat0 Hok tl) as [[[c1 z1]|] Ev]; rewrite Ev in H; [|now apply IH].
    destruct (var_index_sound _ _ _ _ Ev) as [E1 HP1].
    destruct (rec nxt0 z1) as [[m1 ps1]|e1| |] eqn:Er; try discriminate; [|now apply IH].
    pose proof (Hsound _ _ _ Er) as HS.
    destruct (conv_step verb nd k pat0 nxt0 c1 z1 m1 ps1 _ Inv Hin0 HS H) as (fds & Hl & Hn & Hr).
    destruct (is_nil fds || okconv fds (spell c1)) eqn:Ec; [discriminate|].
    destruct HS as (es1 & nd1 & HR1 & HB1 & HM1). cbn [fst snd] in HB1, HM1.
    right. exists (EVar pat0 :: es1), nd1, (ps1 ++ [spell c1]), m1. split.
    + rewrite E1. eapply cand_var; eauto; [now rewrite <- E1|]. repeat split; auto.
    + rewrite (conv_ok_snoc m1 ps1 fds _ Hl Hn), Ec. apply andb_false_r.
Qed.

Lemma search_err_class fuel verb nd k toks e :
  TrieInv nd k -> ConvAll verb nd toks -> search okconv fuel verb nd toks = Err e -> e = err_of toks.
Proof.
  intros Inv Hconv H. destruct fuel as [|f]; [discriminate|]. cbn [search] in H. unfold search_body in H. unfold err_of.
  destruct toks as [|t0 [|t1 rest]]; cbn [length Nat.leb].
  - unfold pick in H. destruct (assoc verb (n_meths nd)); [discriminate|]. destruct (n_mall nd); [discriminate|]. congruence.
  - unfold pick in H. destruct (assoc verb (n_meths nd)); [discriminate|]. destruct (n_mall nd); [discriminate|]. congruence.
  - assert (Hv : (if is TSlash t0 then try_vars okconv (search okconv f verb) (t1 :: rest) (n_vars nd) else Err ENotFound) = Err e -> e = ENotFound).
    { destruct (is TSlash t0) eqn:Ht; [|congruence]. intros Hv.
      destruct (try_vars_err_class verb (search okconv f verb) t0 (t1 :: rest) nd k e Inv Ht ltac:(discriminate)
                  (fun nd toks r => search_sound okconv f verb nd toks r) (n_vars nd) (fun _ _ X => X) Hv)
        as [E|(esb & ndb & capsb & mb & HCb & Hb)]; auto.
      rewrite (Hconv _ _ _ _ HCb) in Hb. discriminate. }
    destruct (assoc (tval t0 ++ tval t1) (n_segs nd)) as [nxt|]; auto.
    destruct (search okconv f verb nxt rest); try discriminate; auto.
Qed.
End Least.

(* every capture converts (e.g. string fields only): the premise holds of every node and request *)
Lemma conv_true_ConvAll okconv verb nd toks : (forall fp t, okconv fp t = true) -> ConvAll okconv verb nd toks.
Proof.
  intros Hc es nd' caps m _. unfold conv_ok. apply forallb_forall. intros [fp t] _. cbn. rewrite Hc. apply orb_true_r.
Qed.

Print Assumptions MatchPat_split_unique.
Print Assumptions cover_no_prefix.
Print Assumptions search_err_bad.
Print Assumptions search_complete_conv.
Print Assumptions least_edge_path_partial.
Print Assumptions least_edge_path.
Print Assumptions least_is_served.
Print Assumptions search_characterised.

(* ---- corollaries ---- *)
(* literal beats variable: if some candidate has a literal edge where another path has a variable edge
   (same edges before), the answer does not go through that variable *)
Theorem literal_beats_variable okconv fuel verb root k toks m ps pre key s1 nd1 caps1 m1 :
  TrieInv root k -> SortedBelow root -> length toks < fuel -> ConvAll okconv verb root toks ->
  search okconv fuel verb root toks = Ok (m, ps) ->
  Cand verb root toks (pre ++ ELit key :: s1) nd1 caps1 m1 ->
  exists es nd, Least verb root toks es nd ps m /\ forall p s2, es <> pre ++ EVar p :: s2.
Proof.
  intros Inv HS Hf Hconv H HC1.
  destruct (least_edge_path okconv fuel verb root k toks m ps Inv HS Hf Hconv H) as (es & nd & HL).
  exists es, nd. split; [exact HL|]. intros p s2 E. subst es.
  assert (Hlt : path_lt (pre ++ ELit key :: s1) (pre ++ EVar p :: s2)) by (apply path_lt_app, PL_here; constructor).
  destruct (proj2 HL _ _ _ _ HC1) as [E|Hgt].
  - apply app_inv_head in E. discriminate.
  - eapply path_lt_asym; eauto.
Qed.

(* the answer is a function of the set of candidates: two tries (built in whatever order, or from
   different rule sets) that offer the same candidates to a request answer it identically *)
Theorem least_is_order_independent okconv fuel1 fuel2 verb root1 root2 k1 k2 toks :
  TrieInv root1 k1 -> SortedBelow root1 -> length toks < fuel1 -> ConvAll okconv verb root1 toks ->
  TrieInv root2 k2 -> SortedBelow root2 -> length toks < fuel2 -> ConvAll okconv verb root2 toks ->
  (forall es caps m, (exists nd, Cand verb root1 toks es nd caps m) <-> (exists nd, Cand verb root2 toks es nd caps m)) ->
  search okconv fuel1 verb root1 toks = search okconv fuel2 verb root2 toks.
Proof.
  intros I1 S1 F1 C1 I2 S2 F2 C2 Hsame.
  pose proof (search_characterised okconv fuel1 verb root1 k1 toks I1 S1 F1 C1) as H1.
  pose proof (search_characterised okconv fuel2 verb root2 k2 toks I2 S2 F2 C2) as H2.
  destruct (search okconv fuel1 verb root1 toks) as [[m1 ps1]|e1| |] eqn:E1; try contradiction;
  destruct (search okconv fuel2 verb root2 toks) as [[m2 ps2]|e2| |] eqn:E2; try contradiction.
  - destruct H1 as (es1 & nd1 & HC1 & HL1), H2 as (es2 & nd2 & HC2 & HL2).
    destruct (proj1 (Hsame _ _ _) (ex_intro _ nd1 HC1)) as [nd1' HC1'].
    destruct (proj2 (Hsame _ _ _) (ex_intro _ nd2 HC2)) as [nd2' HC2'].
    assert (E : es1 = es2) by (apply path_le_antisym; [eapply HL1|eapply HL2]; eauto). subst es2.
    destruct (cand_functional _ _ _ _ _ _ _ _ _ _ S2 HC1' HC2) as (_ & -> & ->). reflexivity.
  - destruct H1 as (es1 & nd1 & HC1 & HL1). destruct (proj1 (Hsame _ _ _) (ex_intro _ nd1 HC1)) as [nd1' HC1'].
    now apply H2 in HC1'.
  - destruct H2 as (es2 & nd2 & HC2 & HL2). destruct (proj2 (Hsame _ _ _) (ex_intro _ nd2 HC2)) as [nd2' HC2'].
    now apply H1 in HC2'.
  - rewrite (search_err_class okconv _ _ _ _ _ _ I1 C1 E1), (search_err_class okconv _ _ _ _ _ _ I2 C2 E2). reflexivity.
Qed.

Print Assumptions literal_beats_variable.
Print Assumptions least_is_order_independent.

(* ---- at the level of route, on every trie registration can build ---- *)
Section RouteLeast.
Variables isLetter isNumber : N -> bool.
Variable resolves : str -> list str -> bool.
Variable okconv : list str -> str -> bool.
Notation Inv := (Inv isLetter isNumber resolves).
Notation route := (route okconv isLetter isNumber).
Notation lex_path := (lex_path isLetter isNumber).

Lemma Inv_hyps L root : Inv L root -> TrieInv root 0 /\ SortedBelow root.
Proof.
  intros HI. pose proof (inv_wf _ _ _ _ _ HI) as Hw. split.
  - apply (WFn_TrieInv (PatG isLetter isNumber) (PatG_ok isLetter isNumber)). exact Hw.
  - eapply WFn_SortedBelow; eauto.
Qed.

(* route is characterised: the binding at the least covering edge path with that path's captures,
   else an error. (Sane is not needed: nothing here depends on the classifiers.) *)
Theorem route_is_least L root verb p :
  Inv L root ->
  (forall toks, lex_path (normalise p) = Ok toks -> ConvAll okconv verb root toks) ->
  match route root verb p with
  | Ok (m, ps) => exists toks es nd, lex_path (normalise p) = Ok toks /\ Least verb root toks es nd ps m
  | Err _ => forall toks es nd caps m, lex_path (normalise p) = Ok toks -> ~ Cand verb root toks es nd caps m
  | _ => False
  end.
Proof.
  intros HI Hconv. destruct (Inv_hyps _ _ HI) as [Hinv HS]. unfold Match.route.
  pose proof (lex_path_benign isLetter isNumber (normalise p)) as Hl.
  destruct (lex_path (normalise p)) as [toks|e| |] eqn:El; cbn in Hl; try contradiction.
  - pose proof (search_characterised okconv (S (length toks)) verb root 0 toks Hinv HS (Nat.lt_succ_diag_r _) (Hconv toks eq_refl)) as H.
    destruct (search okconv (S (length toks)) verb root toks) as [[m ps]|e| |]; try contradiction.
    + destruct H as (es & nd & HL). exists toks, es, nd. auto.
    + intros toks' es nd caps m E. injection E as <-. apply H.
  - intros toks es nd caps m E. discriminate.
Qed.

(* ... and conversely the least candidate is what route answers *)
Theorem route_least_served L root verb p toks es nd caps m :
  Inv L root -> lex_path (normalise p) = Ok toks -> ConvAll okconv verb root toks ->
  Least verb root toks es nd caps m -> route root verb p = Ok (m, caps).
Proof.
  intros HI El Hconv HL. destruct (Inv_hyps _ _ HI) as [Hinv HS]. unfold Match.route. rewrite El.
  eapply least_is_served; eauto.
Qed.

(* without the premise on conversions *)
Theorem route_least_partial L root verb p m ps :
  Inv L root -> route root verb p = Ok (m, ps) ->
  exists toks es nd, lex_path (normalise p) = Ok toks /\
    Cand verb root toks es nd ps m /\ conv_ok okconv m ps = true /\
    forall es' nd' caps' m', Cand verb root toks es' nd' caps' m' ->
      es = es' \/ path_lt es es' \/
      (path_lt es' es /\ exists esb ndb capsb mb,
          Cand verb root toks esb ndb capsb mb /\ conv_ok okconv mb capsb = false /\ path_lt esb es).
Proof.
  intros HI H. destruct (Inv_hyps _ _ HI) as [Hinv HS]. unfold Match.route in H.
  destruct (lex_path (normalise p)) as [toks|e| |] eqn:El; try discriminate.
  destruct (least_edge_path_partial okconv _ _ _ _ _ _ _ Hinv HS (Nat.lt_succ_diag_r _) H) as (es & nd & R).
  exists toks, es, nd. auto.
Qed.
End RouteLeast.

Print Assumptions route_is_least.
Print Assumptions route_least_served.
Print Assumptions route_least_partial.

(* the same with the premise of C02_complete: okconv constantly true *)
Corollary route_is_least_conv_true isLetter isNumber resolves okconv L root verb p :
  Inv isLetter isNumber resolves L root -> (forall fp t, okconv fp t = true) ->
  match route okconv isLetter isNumber root verb p with
  | Ok (m, ps) => exists toks es nd, lex_path isLetter isNumber (normalise p) = Ok toks /\ Least verb root toks es nd ps m
  | Err _ => forall toks es nd caps m, lex_path isLetter isNumber (normalise p) = Ok toks -> ~ Cand verb root toks es nd caps m
  | _ => False
  end.
Proof. intros HI Hc. eapply route_is_least; eauto. intros toks _. now apply conv_true_ConvAll. Qed.
Print Assumptions route_is_least_conv_true.

(* ---- all the candidates of a request, computed (in increasing order when variables are sorted) ---- *)
Fixpoint cands (fuel : nat) (verb : str) (nd : node) (toks : list token) : list (list edge * list str * minfo) :=
  match fuel with
  | O => []
  | S f =>
    match toks with
    | [] | [_] => match bound_at verb nd with Some m => [([], [], m)] | None => [] end
    | t0 :: t1 :: rest =>
      (match assoc (tval t0 ++ tval t1) (n_segs nd) with
       | Some nxt => map (fun x => (ELit (tval t0 ++ tval t1) :: fst (fst x), snd (fst x), snd x)) (cands f verb nxt rest)
       | None => []
       end) ++
      (if is TSlash t0 then
         flat_map (fun pc => match var_index (fst pc) (t1 :: rest) with
                             | Ok (Some (c, z)) =>
                               map (fun x => (EVar (fst pc) :: fst (fst x), snd (fst x) ++ [spell c], snd x)) (cands f verb (snd pc) z)
                             | _ => []
                             end) (n_vars nd)
       else [])
    end
  end.

Lemma cands_sound fuel verb : forall nd toks es caps m,
  In (es, caps, m) (cands fuel verb nd toks) -> exists nd', Cand verb nd toks es nd' caps m.
Proof.
  induction fuel as [|f IH]; intros nd toks es caps m H; [contradiction|]. cbn [cands] in H.
  assert (Hshort : length toks <= 1 ->
            In (es, caps, m) (match bound_at verb nd with Some m => [([], [], m)] | None => [] end) ->
            exists nd', Cand verb nd toks es nd' caps m).
  { intros Hl H'. destruct (bound_at verb nd) as [m0|] eqn:Eb; [|contradiction].
    destruct H' as [E|[]]. injection E as <- <- <-. exists nd. repeat split; auto; now constructor. }
  destruct toks as [|t0 [|t1 rest]]; [apply Hshort; auto; cbn; lia|apply Hshort; auto; cbn; lia|].
  apply in_app_or in H. destruct H as [H|H].
  - destruct (assoc (tval t0 ++ tval t1) (n_segs nd)) as [nxt|] eqn:Ea; [|contradiction].
    apply in_map_iff in H. destruct H as ([[es1 caps1] m1] & E & Hin). cbn [fst snd] in E. injection E as <- <- <-.
    destruct (IH _ _ _ _ _ Hin) as [nd' HC]. exists nd'. eapply cand_lit; eauto.
  - destruct (is TSlash t0) eqn:Ht; [|contradiction].
    apply in_flat_map in H. destruct H as ([pat cn] & Hin & H). cbn [fst snd] in H.
    destruct (var_index pat (t1 :: rest)) as [[[c z]|]| | |] eqn:Ev; try contradiction.
    apply in_map_iff in H. destruct H as ([[es1 caps1] m1] & E & Hin1). cbn [fst snd] in E. injection E as <- <- <-.
    destruct (IH _ _ _ _ _ Hin1) as [nd' HC]. exists nd'.
    destruct (var_index_sound _ _ _ _ Ev) as [E1 HP]. rewrite E1. eapply cand_var; eauto. rewrite <- E1. discriminate.
Qed.

Lemma cands_complete fuel verb : forall nd toks es nd' caps m,
  length toks < fuel -> Cand verb nd toks es nd' caps m -> In (es, caps, m) (cands fuel verb nd toks).
Proof.
  induction fuel as [|f IH]; intros nd toks es nd' caps m Hf HC; [lia|]. cbn [cands].
  destruct toks as [|t0 [|t1 rest]].
  - destruct (cand_short verb nd [] es nd' caps m ltac:(cbn; lia) HC) as (-> & -> & ->). destruct HC as (_ & _ & ->). now left.
  - destruct (cand_short verb nd [t0] es nd' caps m ltac:(cbn; lia) HC) as (-> & -> & ->). destruct HC as (_ & _ & ->). now left.
  - cbn [length] in Hf. apply in_or_app.
    destruct (cand_long _ _ _ _ _ _ _ _ _ HC) as [(nxt & es1 & -> & Ha & HC1)|(pat & cn & c & z & es1 & caps1 & -> & Ht & Hin & Ecz & HP & HC1 & ->)].
    + left. rewrite Ha. apply in_map_iff. exists (es1, caps, m). split; [reflexivity|]. eapply IH; eauto. lia.
    + right. rewrite Ht. apply in_flat_map. exists (pat, cn). split; [exact Hin|]. cbn [fst snd].
      rewrite Ecz, (var_index_complete _ _ _ HP). apply in_map_iff. exists (es1, caps1, m). split; [reflexivity|].
      eapply IH; eauto. assert (length z <= length (t1 :: rest)) by (rewrite Ecz, app_length; lia). cbn [length] in *. lia.
Qed.

(* ---- instances ---- *)
Module Instances.
Local Open Scope N_scope.
Definition asciiL (r : N) : bool := ((65 <=? r) && (r <=? 90)) || ((97 <=? r) && (r <=? 122)).
Definition asciiN (r : N) : bool := (48 <=? r) && (r <=? 57).
Definition all_ok (_ : str) (_ : list str) := true.
Definition conv_true (_ : list str) (_ : str) := true.
Definition GET : str := [71;69;84].
Definition mk verb tmpl := {| h_main := {| b_verb := verb; b_tmpl := tmpl; b_body := BNone; b_resp := []; b_nested := false |}; h_adds := [] |}.
Definition decl (mid tmpl : str) := {| d_id := mid; d_config := []; d_annot := Some (mk GET tmpl) |}.
Definition build ds := run_services asciiL asciiN all_ok all_ok all_ok empty_node [ds].
Definition tSl := Tok TSlash [47].
Definition pStar := [Tok TStar [42]].
Definition pStarStar := [Tok TStarStar [42;42]].

Lemma build_Inv ds : exists L, Inv asciiL asciiN all_ok L (build ds).
Proof.
  destruct (published_Inv asciiL asciiN all_ok all_ok all_ok [ds] [] empty_node (Inv_empty _ _ _)) as (L & HI & _).
  exists (L ++ []). exact HI.
Qed.

(* -- (4) three overlapping templates; every capture converts: the hypotheses are satisfiable and
      the answer is the least of the three candidates, in whatever order they were registered -- *)
Definition mL : str := [47;83;118;47;77;108].   (* "/Sv/Ml": GET /aa/bb/v1 *)
Definition mV : str := [47;83;118;47;77;118].   (* "/Sv/Mv": GET /aa/{s1}/v1 *)
Definition mA : str := [47;83;118;47;77;97].    (* "/Sv/Ma": GET /aa/{s2=**} *)
Definition dL := decl mL [47;97;97;47;98;98;47;118;49].
Definition dV := decl mV [47;97;97;47;123;115;49;125;47;118;49].
Definition dA := decl mA [47;97;97;47;123;115;50;61;42;42;125].
Definition req3 : str := [47;97;97;47;98;98;47;118;49].       (* /aa/bb/v1 *)
Definition toks3 := [tSl; Tok TPath [97;97]; tSl; Tok TPath [98;98]; tSl; Tok TPath [118;49]; Tok TEOF []].
Definition esL := [ELit [47;97;97]; ELit [47;98;98]; ELit [47;118;49]].
Definition esV := [ELit [47;97;97]; EVar pStar; ELit [47;118;49]].
Definition esA := [ELit [47;97;97]; EVar pStarStar].
Definition infoL := {| m_id := mL; m_vars := []; m_body := BNone; m_resp := [] |}.

Example three_overlapping_templates : forall ds, In ds [[dL; dV; dA]; [dA; dV; dL]; [dV; dA; dL]] ->
  let root := build ds in
  (exists L, Inv asciiL asciiN all_ok L root) /\
  (forall verb toks, ConvAll conv_true verb root toks) /\
  lex_path asciiL asciiN (normalise req3) = Ok toks3 /\
  map (fun x => (fst (fst x), snd (fst x), m_id (snd x))) (cands 8 GET root toks3)
    = [(esL, [], mL); (esV, [[98;98]], mV); (esA, [[98;98;47;118;49]], mA)] /\
  path_lt esL esV /\ path_lt esV esA /\
  route conv_true asciiL asciiN root GET req3 = Ok (infoL, []) /\
  exists nd, Least GET root toks3 esL nd [] infoL.
Proof.
  intros ds Hds root.
  assert (Hconv : forall verb toks, ConvAll conv_true verb root toks) by (intros; now apply conv_true_ConvAll).
  assert (Hlex : lex_path asciiL asciiN (normalise req3) = Ok toks3) by (vm_compute; reflexivity).
  assert (Hroute : route conv_true asciiL asciiN root GET req3 = Ok (infoL, [])).
  { subst root. cbn in Hds. repeat (destruct Hds as [ <- | Hds ]; [vm_compute; reflexivity|]). contradiction. }
  assert (Hcands : map (fun x => (fst (fst x), snd (fst x), m_id (snd x))) (cands 8 GET root toks3)
                   = [(esL, [], mL); (esV, [[98;98]], mV); (esA, [[98;98;47;118;49]], mA)]).
  { subst root. cbn in Hds. repeat (destruct Hds as [ <- | Hds ]; [vm_compute; reflexivity|]). contradiction. }
  destruct (build_Inv ds) as [L HI]. fold root in HI.
  split; [eauto|]. split; [exact Hconv|]. split; [exact Hlex|]. split; [exact Hcands|].
  split; [apply PL_next, PL_here; constructor|]. split; [apply PL_next, PL_here; constructor; vm_compute; reflexivity|].
  split; [exact Hroute|].
  pose proof (route_is_least asciiL asciiN all_ok conv_true L root GET req3 HI (fun toks _ => Hconv GET toks)) as H.
  rewrite Hroute in H. destruct H as (toks & es & nd & El & HL). rewrite Hlex in El. injection El as <-.
  exists nd. replace esL with es; [exact HL|].
  pose proof (cands_complete 8 GET root toks3 es nd [] infoL ltac:(cbn; lia) (proj1 HL)) as Hin.
  apply (in_map (fun x => (fst (fst x), snd (fst x), m_id (snd x)))) in Hin. rewrite Hcands in Hin. cbn in Hin.
  destruct Hin as [E|[E|[E|[]]]]; try discriminate E. now injection E.
Qed.

(* -- the premise on conversions is needed -- *)
(* the field x converts from digits only (an integer field, say); every other field from any text *)
Definition okx (fp : list str) (t : str) : bool := negb (list_eqb str_eqb fp [[120]]) || forallb asciiN t.
Definition nA : str := [47;83;118;47;77;97].    (* "/Sv/Ma": GET /aa/{x}/cc *)
Definition nB : str := [47;83;118;47;77;98].    (* "/Sv/Mb": GET /aa/{y=**} *)
Definition nC : str := [47;83;118;47;77;99].    (* "/Sv/Mc": GET /{w}/{v}/cc *)
Definition eA := decl nA [47;97;97;47;123;120;125;47;99;99].
Definition eB := decl nB [47;97;97;47;123;121;61;42;42;125].
Definition eC := decl nC [47;123;119;125;47;123;118;125;47;99;99].
Definition reqx : str := [47;97;97;47;122;122;47;99;99].       (* /aa/zz/cc *)
Definition toksx := [tSl; Tok TPath [97;97]; tSl; Tok TPath [122;122]; tSl; Tok TPath [99;99]; Tok TEOF []].
Definition pathA := [ELit [47;97;97]; EVar pStar; ELit [47;99;99]].
Definition pathB := [ELit [47;97;97]; EVar pStarStar].
Definition pathC := [EVar pStar; EVar pStar; ELit [47;99;99]].
Definition infoB := {| m_id := nB; m_vars := [[[121]]]; m_body := BNone; m_resp := [] |}.
Definition infoC := {| m_id := nC; m_vars := [[[119]]; [[118]]]; m_body := BNone; m_resp := [] |}.
Definition rootAB := build [eA; eB].
Definition rootABC := build [eA; eB; eC].

(* completeness without the premise is false: /aa/{x}/cc captures "zz", which does not convert; the
   loop over the variables returns that error instead of going on to /aa/{y=**}, whose capture would
   convert -- and the literal level above turns the error into "not found" *)
Example served_refuted :
  (exists L, Inv asciiL asciiN all_ok L rootAB) /\
  lex_path asciiL asciiN (normalise reqx) = Ok toksx /\
  (exists nd, Cand GET rootAB toksx pathB nd [[122;122;47;99;99]] infoB) /\
  conv_ok okx infoB [[122;122;47;99;99]] = true /\
  route okx asciiL asciiN rootAB GET reqx = Err ENotFound.
Proof.
  split; [apply build_Inv|]. split; [vm_compute; reflexivity|]. split; [|split; vm_compute; reflexivity].
  apply (cands_sound 8). vm_compute. right. left. reflexivity.
Qed.

(* the answer is not the least candidate, not even the least candidate whose captures convert: with
   /{w}/{v}/cc also registered the request is answered by it (path: variable, variable, literal),
   although /aa/{y=**} (path: literal, variable) covers it, converts, and is below *)
Example least_edge_path_refuted :
  (exists L, Inv asciiL asciiN all_ok L rootABC) /\
  lex_path asciiL asciiN (normalise reqx) = Ok toksx /\
  route okx asciiL asciiN rootABC GET reqx = Ok (infoC, [[122;122]; [97;97]]) /\
  (exists nd, Cand GET rootABC toksx pathC nd [[122;122]; [97;97]] infoC) /\
  (exists nd, Cand GET rootABC toksx pathB nd [[122;122;47;99;99]] infoB) /\
  conv_ok okx infoB [[122;122;47;99;99]] = true /\
  path_lt pathB pathC /\
  ~ (exists es nd, Least GET rootABC toksx es nd [[122;122]; [97;97]] infoC).
Proof.
  assert (HB : exists nd, Cand GET rootABC toksx pathB nd [[122;122;47;99;99]] infoB).
  { apply (cands_sound 8). vm_compute. right. left. reflexivity. }
  split; [apply build_Inv|]. split; [vm_compute; reflexivity|]. split; [vm_compute; reflexivity|].
  split; [apply (cands_sound 8); vm_compute; right; right; left; reflexivity|].
  split; [exact HB|]. split; [vm_compute; reflexivity|]. split; [apply PL_here; constructor|].
  intros (es & nd & HC & HL). destruct HB as [ndB HB].
  pose proof (cands_complete 8 GET rootABC toksx es nd _ _ ltac:(cbn; lia) HC) as Hin.
  vm_compute in Hin. destruct Hin as [E|[E|[E|[]]]]; try discriminate E.
  injection E as <-. destruct (HL _ _ _ _ HB) as [E|Hlt]; [discriminate E|].
  inversion Hlt as [e e' es0 es1 He|e es0 es1 Hp]; subst. inversion He.
Qed.
End Instances.
Print Assumptions cands_sound.
Print Assumptions cands_complete.
Print Assumptions Instances.three_overlapping_templates.
Print Assumptions Instances.served_refuted.
Print Assumptions Instances.least_edge_path_refuted.
