(* Proofs about Model/Codec.v: every ReadNext call refines the pure parser of Spec/Frames.v
   for every schedule, EOF style and carry-over. *)
From Larking Require Import Base.GoSem Base.Reader Base.Varint Spec.Frames Model.Codec.

(* ---------- fill ---------- *)
Lemma read_any_split s ch e s' : read_any s = (ch, e, s') -> ch ++ rem s' = rem s.
Proof. apply read1_split. Qed.
Lemma read_any_eof s ch s' : read_any s = (ch, true, s') -> rem s' = [].
Proof. apply read1_eof_rem. Qed.
Lemma read_any_len s ch e s' : read_any s = (ch, e, s') -> length (rem s') + length ch = length (rem s).
Proof. intros H. apply read_any_split in H. rewrite <- H, app_length. lia. Qed.
Lemma read_any_noeof_progress s ch s' : read_any s = (ch, false, s') -> ch <> [].
Proof.
  intros H. destruct (rem s) as [|x r] eqn:E.
  - unfold read_any, read1 in H. rewrite E in H. inversion H.
  - eapply read_any_progress; eauto. congruence.
Qed.

Lemma fill_ok : forall fuel tr b s i b' s',
  fill fuel tr b s i = FlOk b' s' ->
  b' ++ rem s' = b ++ rem s /\ i < length b' /\ exists x, b' = b ++ x.
Proof.
  induction fuel as [|f IH]; intros tr b s i b' s' H; cbn [fill] in H.
  - destruct (Nat.ltb i (length b)) eqn:L; [|discriminate]. inversion H; subst.
    apply Nat.ltb_lt in L. repeat split; auto. exists []. now rewrite app_nil_r.
  - destruct (Nat.ltb i (length b)) eqn:L.
    + inversion H; subst. apply Nat.ltb_lt in L. repeat split; auto. exists []. now rewrite app_nil_r.
    + destruct (read_any s) as [[ch e] s1] eqn:R.
      destruct (e && negb (Nat.ltb i (length (b ++ ch)))); [discriminate|].
      apply IH in H. destruct H as (H1 & H2 & x & H3). repeat split; auto.
      * rewrite H1, <- app_assoc. f_equal. eapply read_any_split; eauto.
      * exists (ch ++ x). now rewrite app_assoc.
Qed.

Lemma fill_err : forall fuel tr b s i e b' s',
  fill fuel tr b s i = FlErr e b' s' ->
  b' ++ rem s' = b ++ rem s /\ rem s' = [] /\ length b' <= i /\
  e = (if tr b' then EUnexpectedEOF else EEOF) /\ exists x, b' = b ++ x.
Proof.
  induction fuel as [|f IH]; intros tr b s i e b' s' H; cbn [fill] in H.
  - destruct (Nat.ltb i (length b)); discriminate.
  - destruct (Nat.ltb i (length b)) eqn:L; [discriminate|].
    destruct (read_any s) as [[ch eof] s1] eqn:R.
    destruct (eof && negb (Nat.ltb i (length (b ++ ch)))) eqn:C.
    + inversion H; subst. apply andb_true_iff in C. destruct C as [C1 C2]. subst eof.
      apply negb_true_iff, Nat.ltb_ge in C2.
      repeat split; auto.
      * rewrite <- app_assoc. f_equal. eapply read_any_split; eauto.
      * eapply read_any_eof; eauto.
      * now exists ch.
    + apply IH in H. destruct H as (H1 & H2 & H3 & H4 & x & H5). repeat split; auto.
      * rewrite H1, <- app_assoc. f_equal. eapply read_any_split; eauto.
      * exists (ch ++ x). now rewrite app_assoc.
Qed.

Lemma fill_total : forall fuel tr b s i, length (rem s) < fuel ->
  fill fuel tr b s i <> FlFuel /\ fill fuel tr b s i <> FlPanic.
Proof.
  induction fuel as [|f IH]; intros tr b s i Hf; [lia|]. cbn [fill].
  destruct (Nat.ltb i (length b)); [split; discriminate|].
  destruct (read_any s) as [[ch eof] s1] eqn:R.
  destruct (eof && negb (Nat.ltb i (length (b ++ ch)))) eqn:C; [split; discriminate|].
  pose proof (read_any_len _ _ _ _ R) as Hl.
  destruct eof.
  - cbn [andb] in C. apply negb_false_iff in C.
    destruct f; cbn [fill]; rewrite C; split; discriminate.
  - apply IH. apply read_any_noeof_progress in R. destruct ch; [congruence|]. cbn [length] in Hl. lia.
Qed.

(* ---------- io.ReadFull ---------- *)
Lemma read_full_spec : forall fuel need acc s out ok s',
  read_full fuel need acc s = Some (out, ok, s') ->
  if ok then out = acc ++ firstn need (rem s) /\ rem s' = skipn need (rem s) /\ need <= length (rem s)
  else length (rem s) < need.
Proof.
  induction fuel as [|f IH]; intros need acc s out ok s' H; destruct need as [|n]; cbn [read_full] in H;
    try discriminate; try (inversion H; subst; cbn; rewrite app_nil_r; repeat split; lia).
  destruct (read1 (S n) s) as [[ch e] s1] eqn:R.
  pose proof (read1_split _ _ _ _ _ R) as Hs. pose proof (read1_len _ _ _ _ _ R) as Hl.
  destruct ch as [|c ch'].
  - inversion H; subst. cbn in Hs.
    destruct (rem s) as [|x r] eqn:E; [cbn; lia|].
    exfalso. eapply (read1_progress (S n)); eauto; [lia|congruence].
  - apply IH in H. set (chn := c :: ch') in *.
    assert (Hk : S n = length chn + (S n - length chn)) by lia.
    destruct ok.
    + destruct H as (H1 & H2 & H3). rewrite <- Hs.
      assert (E1 : firstn (S n) (chn ++ rem s1) = chn ++ firstn (S n - length chn) (rem s1)).
      { rewrite Hk at 1. apply firstn_app_len. }
      assert (E2 : skipn (S n) (chn ++ rem s1) = skipn (S n - length chn) (rem s1)).
      { rewrite Hk at 1. apply skipn_app_len. }
      repeat split.
      * rewrite H1, E1, <- app_assoc. reflexivity.
      * rewrite H2, E2. reflexivity.
      * rewrite app_length. lia.
    + rewrite <- Hs, app_length. lia.
Qed.

Lemma read_full_total : forall fuel need acc s, length (rem s) < fuel -> read_full fuel need acc s <> None.
Proof.
  induction fuel as [|f IH]; intros need acc s Hf; [lia|].
  destruct need as [|n]; cbn [read_full]; [discriminate|].
  destruct (read1 (S n) s) as [[ch e] s1] eqn:R.
  destruct ch as [|c ch']; [discriminate|].
  apply IH. apply read1_split in R. rewrite <- R, app_length in Hf. cbn [length] in Hf. lia.
Qed.

(* ---------- what "refines the parser" means for one call ---------- *)
Definition refines (c : codec) (limit : nat) (L : bytes) (r : rres) : Prop :=
  match r with
  | RRet dst n None s' =>
      n <= length dst /\ parse c limit L = FMsg (firstn n dst) (skipn n dst ++ rem s') /\
      (c = CBody -> 0 < n)
  | RRet dst n (Some EEOF) s' =>
      (n = 0 /\ parse c limit L = FEnd /\ dst ++ rem s' = L) \/
      (c = CBody /\ 0 < n /\ n <= length dst /\ parse c limit L = FMsg (firstn n dst) [] /\ skipn n dst ++ rem s' = [])
  | RRet dst n (Some e) s' => n = 0 /\ parse c limit L = FErr e
  | RPanic | RFuel => False
  end.

Lemma bytes_eqb_refl a : bytes_eqb a a = true.
Proof. now apply bytes_eqb_eq. Qed.

(* the Prop and the executable predicate evaluated on the implementation agree *)
Lemma parse_body_noerr limit L e : parse_body limit L <> FErr e.
Proof. unfold parse_body. destruct L; discriminate. Qed.

Lemma refines_obs_ok c limit L dst n e s' :
  refines c limit L (RRet dst n e s') -> obs_ok c limit L (rem s') (RObs dst (Z.of_nat n) e) = true.
Proof.
  unfold refines, obs_ok. cbn [o_n o_dst o_err]. rewrite Nat2Z.id.
  replace (Z.of_nat n <? 0)%Z with false by lia. cbn [orb].
  destruct e as [e|].
  2: { intros (Hl & Hp & Hb). replace (Z.of_nat (length dst) <? Z.of_nat n)%Z with false by lia.
       rewrite Hp, !bytes_eqb_refl. destruct c; cbn [andb]; try reflexivity.
       specialize (Hb eq_refl). destruct n; [lia|reflexivity]. }
  assert (Hother : n = 0 /\ parse c limit L = FErr e -> e <> EEOF ->
     (if (Z.of_nat (length dst) <? Z.of_nat n)%Z then false else
      match c, Some e with
      | CBody, Some EEOF => if Nat.eqb n 0 then match parse c limit L with FEnd => true | _ => false end
                            else match parse c limit L with
                                 | FMsg m' r' => bytes_eqb (firstn n dst) m' && bytes_eqb (skipn n dst ++ rem s') r'
                                 | _ => false end && is_nil (skipn n dst ++ rem s')
      | CBody, Some _ => false
      | _, Some EEOF => match parse c limit L with FEnd => Nat.eqb n 0 && bytes_eqb (skipn n dst ++ rem s') L | _ => false end
      | _, Some e0 => Nat.eqb n 0 && match parse c limit L with FErr e' => err_eqb e0 e' | _ => false end
      | _, None => false
      end) = true).
  { intros [Hn Hp] Hne. subst n. replace (Z.of_nat (length dst) <? Z.of_nat 0)%Z with false by lia.
    destruct c; cbn [parse] in *.
    - rewrite Hp. destruct e; try congruence; reflexivity.
    - rewrite Hp. destruct e; try congruence; reflexivity.
    - exfalso. eapply parse_body_noerr; eauto. }
  destruct e; try (intros H; apply Hother; [exact H|discriminate]).
  clear Hother.
  intros [(Hn & Hp & Hd) | (Hc & Hn & Hl & Hp & Hr)].
  - subst n. replace (Z.of_nat (length dst) <? Z.of_nat 0)%Z with false by lia.
    rewrite Hp. cbn [skipn firstn Nat.eqb]. rewrite Hd.
    destruct c; cbn [andb]; rewrite ?bytes_eqb_refl; reflexivity.
  - subst c. replace (Z.of_nat (length dst) <? Z.of_nat n)%Z with false by lia.
    rewrite Hp, Hr. destruct n; [lia|]. cbn [Nat.eqb]. rewrite !bytes_eqb_refl. reflexivity.
Qed.

(* ---------- CodecProto.ReadNext ---------- *)
Lemma cv_all_cont : forall k b, length b < k -> Forall (fun y => (128 <= y)%N) b -> cv k b = VTrunc.
Proof.
  induction k as [|k IH]; intros b Hl Hf; [lia|]. cbn [cv].
  destruct b as [|y r]; [reflexivity|]. inversion Hf as [|? ? Hy Hr]; subst. cbn [length] in Hl.
  destruct (Nat.eqb k 0) eqn:K; [apply Nat.eqb_eq in K; lia|].
  replace (y <? 128)%N with false by lia. rewrite IH; auto; lia.
Qed.

Lemma firstn_app_le {A} (l x : list A) i : i <= length l -> firstn i (l ++ x) = firstn i l.
Proof. intros H. rewrite firstn_app. replace (i - length l) with 0 by lia. cbn. apply app_nil_r. Qed.

Lemma firstn_S_nth {A} (l : list A) i x : nth_error l i = Some x -> firstn (S i) l = firstn i l ++ [x].
Proof.
  revert i. induction l as [|a l IH]; intros [|i] H; cbn in *; try discriminate.
  - now inversion H.
  - now rewrite (IH _ H).
Qed.

Lemma scan_varint_spec : forall k i b s,
  i <= length b -> Forall (fun y => (128 <= y)%N) (firstn i b) -> i + k = 10 ->
  match scan_varint k i b s with
  | FlOk b1 s1 => b1 ++ rem s1 = b ++ rem s /\
                  (10 <= length b1 \/ Exists (fun y => (y <? 128)%N = true) b1)
  | FlErr e b1 s1 => b1 ++ rem s1 = b ++ rem s /\ rem s1 = [] /\ Forall (fun y => (128 <= y)%N) b1 /\
                     length b1 < 10 /\ e = (if nonempty b1 then EUnexpectedEOF else EEOF)
  | FlPanic | FlFuel => False
  end.
Proof.
  induction k as [|k IH]; intros i b s Hi Hf Hk; cbn [scan_varint].
  - split; [reflexivity|left; lia].
  - destruct (fill_total (fill_fuel s) nonempty b s i) as [Hnf Hnp]; [unfold fill_fuel; lia|].
    destruct (fill (fill_fuel s) nonempty b s i) as [b' s'|e b' s'| |] eqn:F; try contradiction.
    + apply fill_ok in F. destruct F as (F1 & F2 & x & F3).
      destruct (nth_error b' i) as [y|] eqn:N; [|apply nth_error_None in N; lia].
      destruct (y <? 128)%N eqn:Y.
      * split; [exact F1|]. right. apply Exists_exists. exists y. split; [eapply nth_error_In; eauto|exact Y].
      * specialize (IH (S i) b' s'). rewrite F1 in IH. apply IH; [lia| |lia].
        rewrite (firstn_S_nth _ _ _ N). apply Forall_app. split.
        -- subst b'. rewrite firstn_app_le by lia. exact Hf.
        -- constructor; [cbn beta; lia|constructor].
    + apply fill_err in F. destruct F as (F1 & F2 & F3 & F4 & x & F5).
      assert (x = []). { subst b'. rewrite app_length in F3. destruct x; [reflexivity|cbn [length] in F3; lia]. }
      subst x. rewrite app_nil_r in F5. subst b'.
      assert (length b = i) by lia. subst i. rewrite firstn_all in Hf.
      repeat split; auto. lia.
Qed.

Lemma skipn_app_le {A} (l x : list A) i : i <= length l -> skipn i (l ++ x) = skipn i l ++ x.
Proof. intros H. rewrite skipn_app. replace (i - length l) with 0 by lia. reflexivity. Qed.

Lemma take_exact {A} (b2 r : list A) n : length b2 <= n -> n - length b2 <= length r ->
  firstn n (b2 ++ firstn (n - length b2) r) = firstn n (b2 ++ r) /\
  skipn n (b2 ++ firstn (n - length b2) r) = [] /\
  skipn n (b2 ++ r) = skipn (n - length b2) r.
Proof.
  intros H1 H2. set (k := n - length b2). replace n with (length b2 + k) by lia.
  rewrite !firstn_app_len, !skipn_app_len. repeat split.
  - f_equal. rewrite firstn_firstn. f_equal. lia.
  - apply skipn_all2. rewrite firstn_length. lia.
Qed.

Theorem proto_next_refines b s limit : 0 < limit -> (N.of_nat limit < 2 ^ 63)%N ->
  refines CProto limit (b ++ rem s) (proto_next b s limit).
Proof.
  intros Hlim Hint. unfold proto_next.
  pose proof (scan_varint_spec 10 0 b s) as S. cbn [firstn] in S.
  specialize (S ltac:(lia) ltac:(constructor) eq_refl).
  destruct (scan_varint 10 0 b s) as [b1 s1|e b1 s1| |]; try contradiction.
  - destruct S as [SL SD]. rewrite <- SL. clear SL.
    assert (Hnt : consume_varint b1 <> VTrunc) by (apply cv_decided; exact SD).
    assert (Hne : b1 ++ rem s1 <> []).
    { destruct b1; [|discriminate]. exfalso. apply Hnt. reflexivity. }
    unfold refines, parse, parse_proto.
    destruct (b1 ++ rem s1) as [|l0 L'] eqn:EL; [congruence|]. rewrite <- EL. clear EL l0 L' Hne.
    destruct (consume_varint b1) as [v nv| |] eqn:CV; try congruence.
    + destruct (cv_prefix_ok _ _ _ _ (rem s1) CV) as (CV' & Hnv & _).
      unfold consume_varint. unfold consume_varint in CV'. rewrite CV'.
      destruct ((2 ^ 63 <=? v)%N || (Nat.ltb 0 limit && (N.of_nat limit <? v)%N)) eqn:TL.
      * split; [reflexivity|].
        replace (N.of_nat limit <? v)%N with true; [reflexivity|].
        destruct (2 ^ 63 <=? v)%N eqn:B; [|cbn [orb] in TL; apply andb_true_iff in TL; destruct TL; congruence].
        lia.
      * apply orb_false_iff in TL. destruct TL as [T1 T2].
        replace (Nat.ltb 0 limit) with true in T2 by (symmetry; apply Nat.ltb_lt; lia). cbn [andb] in T2.
        rewrite T2. unfold slice_from. replace (Nat.leb nv (length b1)) with true by (symmetry; apply Nat.leb_le; lia).
        rewrite skipn_app_le by lia. set (b2 := skipn nv b1). set (n := N.to_nat v).
        destruct (Nat.ltb (length b2) n) eqn:LT.
        -- apply Nat.ltb_lt in LT.
           pose proof (read_full_total (S (length (rem s1))) (n - length b2) [] s1 ltac:(lia)) as RT.
           destruct (read_full (S (length (rem s1))) (n - length b2) [] s1) as [[[more ok] s2]|] eqn:RF; [|congruence].
           apply read_full_spec in RF. destruct ok.
           ++ destruct RF as (R1 & R2 & R3). cbn [app] in R1. subst more.
              destruct (take_exact b2 (rem s1) n ltac:(lia) R3) as (T_1 & T_2 & T_3).
              repeat split; try discriminate.
              ** rewrite app_length, firstn_length. lia.
              ** replace (Nat.ltb (length (b2 ++ rem s1)) n) with false
                   by (symmetry; apply Nat.ltb_ge; rewrite app_length; lia).
                 rewrite T_1, T_2, T_3, R2. reflexivity.
           ++ split; [reflexivity|].
              replace (Nat.ltb (length (b2 ++ rem s1)) n) with true; [reflexivity|].
              symmetry. apply Nat.ltb_lt. rewrite app_length. lia.
        -- apply Nat.ltb_ge in LT. repeat split; try discriminate; [lia|].
           replace (Nat.ltb (length (b2 ++ rem s1)) n) with false
             by (symmetry; apply Nat.ltb_ge; rewrite app_length; lia).
           rewrite firstn_app_le, skipn_app_le by lia. reflexivity.
    + unfold consume_varint in *. rewrite (cv_prefix_ovf _ _ (rem s1) CV). split; reflexivity.
  - destruct S as (SL & SR & SF & SLen & SE). rewrite <- SL, SR, app_nil_r.
    unfold refines, parse, parse_proto.
    destruct b1 as [|y r].
    + subst e. cbn. left. auto.
    + subst e. cbn [nonempty is_nil negb]. split; [reflexivity|].
      unfold consume_varint. rewrite cv_all_cont; [reflexivity|lia|exact SF].
Qed.

(* ---------- CodecJSON.ReadNext ---------- *)
Definition json_rel (L : bytes) (r : rres) (j : jres) : Prop :=
  match j, r with
  | JFrame n', RRet dst n None s' => n = n' /\ dst ++ rem s' = L /\ n <= length dst
  | JEnd st', RRet dst n (Some e) s' =>
      n = 0 /\ dst ++ rem s' = L /\ e = (if Nat.ltb 0 (depth st') then EUnexpectedEOF else EEOF)
  | JTooLarge, RRet dst n (Some e) s' => n = 0 /\ e = ETooLarge
  | JErr, RRet dst n (Some e) s' => n = 0 /\ e = EUnbalanced
  | _, _ => False
  end.

Lemma skipn_nth {A} (l : list A) i c : nth_error l i = Some c -> skipn i l = c :: skipn (S i) l.
Proof.
  revert i. induction l as [|a l IH]; intros [|i] H; cbn in *; try discriminate.
  - now inversion H.
  - now apply IH.
Qed.

Lemma json_loop_spec : forall k i st b s,
  i <= length b -> json_rel (b ++ rem s) (json_loop k i st b s) (json_scan k st (skipn i (b ++ rem s)) i).
Proof.
  induction k as [|k IH]; intros i st b s Hi; cbn [json_loop json_scan].
  - cbn. auto.
  - destruct (fill_total (fill_fuel s) (fun _ => Nat.ltb 0 (depth st)) b s i) as [Hnf Hnp]; [unfold fill_fuel; lia|].
    destruct (fill (fill_fuel s) (fun _ => Nat.ltb 0 (depth st)) b s i) as [b' s'|e b' s'| |] eqn:F; try contradiction.
    + apply fill_ok in F. destruct F as (F1 & F2 & x & F3). rewrite <- F1.
      destruct (nth_error b' i) as [c|] eqn:N; [|apply nth_error_None in N; lia].
      assert (NL : nth_error (b' ++ rem s') i = Some c) by (rewrite nth_error_app1; auto).
      rewrite (skipn_nth _ _ _ NL).
      destruct (json_step st c) as [st'| |].
      * apply IH. lia.
      * cbn. repeat split; lia.
      * cbn. auto.
    + apply fill_err in F. destruct F as (F1 & F2 & F3 & F4 & x & F5).
      assert (x = []). { subst b'. rewrite app_length in F3. destruct x; [reflexivity|cbn [length] in F3; lia]. }
      subst x. rewrite app_nil_r in F5. subst b'. assert (length b = i) by lia. subst i.
      assert (RS : rem s = []).
      { apply (f_equal (@length _)) in F1. rewrite !app_length, F2 in F1.
        destruct (rem s); [reflexivity|cbn [length] in F1; lia]. }
      rewrite RS, app_nil_r, skipn_all. cbn. rewrite F2, app_nil_r. auto.
Qed.

Theorem json_next_refines b s limit : refines CJSON limit (b ++ rem s) (json_next b s limit).
Proof.
  unfold json_next. pose proof (json_loop_spec limit 0 jst0 b s ltac:(lia)) as H. cbn [skipn] in H.
  unfold refines, parse, parse_json. set (L := b ++ rem s) in *.
  destruct (json_scan limit jst0 L 0) as [n'|st'| |]; destruct (json_loop limit 0 jst0 b s) as [dst n [e|] s'| |];
    cbn [json_rel] in H; try contradiction.
  - destruct H as (-> & HL & Hn). repeat split; try discriminate; [exact Hn|].
    rewrite <- HL, firstn_app_le, skipn_app_le by lia. reflexivity.
  - destruct H as (-> & HL & ->). destruct (Nat.ltb 0 (depth st')) eqn:D.
    + split; [reflexivity|]. replace (Nat.eqb (depth st') 0) with false; [reflexivity|].
      apply Nat.ltb_lt in D. symmetry. apply Nat.eqb_neq. lia.
    + left. repeat split; auto. replace (Nat.eqb (depth st') 0) with true; [reflexivity|].
      apply Nat.ltb_ge in D. symmetry. apply Nat.eqb_eq. lia.
  - destruct H as (-> & ->). auto.
  - destruct H as (-> & ->). auto.
Qed.

(* ---------- codecHTTPBody.ReadNext ---------- *)
Lemma body_loop_refines : forall fuel b s limit, 0 < limit -> length (rem s) < fuel ->
  refines CBody limit (b ++ rem s) (body_loop fuel b s limit).
Proof.
  induction fuel as [|f IH]; intros b s limit Hl Hf; [lia|]. cbn [body_loop].
  replace (Nat.ltb 0 limit) with true by (symmetry; apply Nat.ltb_lt; lia). cbn [andb].
  destruct (Nat.leb limit (length b)) eqn:LB.
  - apply Nat.leb_le in LB. unfold refines, parse, parse_body.
    destruct (b ++ rem s) eqn:E; [destruct b; [cbn in LB; lia|discriminate]|]. rewrite <- E.
    repeat split; try lia. rewrite firstn_app_le, skipn_app_le by lia. reflexivity.
  - apply Nat.leb_gt in LB.
    destruct (read_any s) as [[ch eof] s'] eqn:R.
    pose proof (read_any_split _ _ _ _ R) as RS. rewrite <- RS, app_assoc.
    destruct eof.
    + pose proof (read_any_eof _ _ _ R) as RE. rewrite RE, app_nil_r.
      destruct (Nat.ltb limit (length (b ++ ch))) eqn:LT.
      * apply Nat.ltb_lt in LT. unfold refines, parse, parse_body.
        destruct (b ++ ch) eqn:E; [cbn in LT; lia|]. rewrite <- E in *. rewrite RE, app_nil_r.
        repeat split; try lia.
      * apply Nat.ltb_ge in LT. unfold refines, parse, parse_body. rewrite RE, app_nil_r.
        destruct (b ++ ch) as [|y r] eqn:E.
        -- left. cbn. auto.
        -- right. assert (0 < length (b ++ ch)) by (rewrite E; cbn [length]; lia).
           rewrite <- E in LT |- *. repeat split; try lia.
           ++ rewrite firstn_all, firstn_all2, skipn_all2 by lia. reflexivity.
           ++ rewrite skipn_all. reflexivity.
    + apply IH; [lia|]. pose proof (read_any_len _ _ _ _ R).
      apply read_any_noeof_progress in R. destruct ch; [congruence|]. cbn [length] in *. lia.
Qed.

Theorem body_next_refines b s limit : 0 < limit -> refines CBody limit (b ++ rem s) (body_next b s limit).
Proof. intros H. apply body_loop_refines; [exact H|unfold fill_fuel; lia]. Qed.

(* ---------- all three ---------- *)
Theorem read_next_refines c b s limit : 0 < limit -> (N.of_nat limit < 2 ^ 63)%N ->
  refines c limit (b ++ rem s) (read_next c b s limit).
Proof.
  intros H1 H2. destruct c; cbn [read_next].
  - now apply proto_next_refines.
  - apply json_next_refines.
  - now apply body_next_refines.
Qed.

(* ---------- the caller's loop is the schedule-free parser ---------- *)
Definition end_rel (e : rend) (p : send) : Prop :=
  match e, p with EndClean, SClean => True | EndErr a, SErr b => a = b | _, _ => False end.

Lemma json_scan_frame_bounds : forall k st l i n, json_scan k st l i = JFrame n -> i < n /\ n <= i + length l.
Proof.
  induction k as [|k IH]; intros st l i n H; cbn [json_scan] in H; [discriminate|].
  destruct l as [|c l']; [discriminate|]. cbn [length].
  destruct (json_step st c); try discriminate.
  - apply IH in H. lia.
  - inversion H; subst. lia.
Qed.

Lemma parse_progress c limit L m r : 0 < limit -> parse c limit L = FMsg m r -> length r < length L.
Proof.
  intros Hl H. destruct c; cbn [parse] in H.
  - unfold parse_proto in H. destruct L as [|x L']; [discriminate|]. set (L := x :: L') in *.
    destruct (consume_varint L) as [v n| |] eqn:CV; try discriminate.
    destruct (cv_prefix_ok _ _ _ _ [] CV) as (_ & H1 & H2).
    destruct (N.of_nat limit <? v)%N; [discriminate|].
    destruct (Nat.ltb (length (skipn n L)) (N.to_nat v)); [discriminate|].
    inversion H; subst. rewrite !skipn_length. lia.
  - unfold parse_json in H. destruct (json_scan limit jst0 L 0) as [n| | |] eqn:J; try discriminate.
    + inversion H; subst. apply json_scan_frame_bounds in J. rewrite skipn_length. lia.
    + destruct (Nat.eqb (depth s) 0); discriminate.
  - unfold parse_body in H. destruct L as [|x L']; [discriminate|]. set (L := x :: L') in *.
    inversion H; subst. rewrite skipn_length. assert (0 < length L) by (cbn; lia). lia.
Qed.

Theorem recv_all_parse_all : forall fuel c limit carry s,
  0 < limit -> (N.of_nat limit < 2 ^ 63)%N -> length (carry ++ rem s) < fuel ->
  fst (recv_all fuel c limit carry s) = fst (parse_all fuel c limit (carry ++ rem s)) /\
  end_rel (snd (recv_all fuel c limit carry s)) (snd (parse_all fuel c limit (carry ++ rem s))).
Proof.
  induction fuel as [|f IH]; intros c limit carry s Hl Hi Hf; [lia|].
  cbn [recv_all parse_all].
  pose proof (read_next_refines c carry s limit Hl Hi) as R.
  destruct (read_next c carry s limit) as [dst n [e|] s'| |]; cbn [refines] in R; try contradiction.
  - assert (Hoth : e <> EEOF -> n = 0 /\ parse c limit (carry ++ rem s) = FErr e ->
        fst (@nil (list N), EndErr e) = fst (match parse c limit (carry ++ rem s) with
            | FMsg m r => let '(ms, e0) := parse_all f c limit r in (m :: ms, e0)
            | FEnd => ([], SClean) | FErr e0 => ([], SErr e0) end) /\
        end_rel (snd (@nil (list N), EndErr e)) (snd (match parse c limit (carry ++ rem s) with
            | FMsg m r => let '(ms, e0) := parse_all f c limit r in (m :: ms, e0)
            | FEnd => ([], SClean) | FErr e0 => ([], SErr e0) end))).
    { intros _ [_ Hp]. rewrite Hp. cbn. auto. }
    destruct e; try (apply Hoth; [discriminate|exact R]). clear Hoth.
    destruct R as [(-> & Hp & Hd) | (-> & Hn & Hle & Hp & Hr)].
    + rewrite Hp. cbn [fst snd]. split; [reflexivity|].
      destruct c; cbn [parse] in Hp.
      * unfold parse_proto in Hp. destruct (carry ++ rem s) eqn:E; [|destruct (consume_varint _); try discriminate;
          destruct (N.of_nat limit <? v)%N; try discriminate; destruct (Nat.ltb _ _); discriminate].
        destruct dst; [exact I|discriminate].
      * exact I.
      * unfold parse_body in Hp. destruct (carry ++ rem s) eqn:E; [|discriminate].
        destruct dst; [exact I|discriminate].
    + rewrite Hp. destruct n as [|n']; [lia|].
      assert (Hs : skipn (S n') dst = []) by (destruct (skipn (S n') dst); [reflexivity|discriminate]).
      rewrite Hs. cbn [is_nil].
      assert (1 <= f).
      { apply (parse_progress _ _ _ _ _ Hl) in Hp. cbn [length] in Hp. lia. }
      destruct f as [|f']; [lia|]. cbn [parse_all parse parse_body]. cbn. auto.
  - destruct R as (Hn & Hp & Hb). rewrite Hp.
    pose proof (parse_progress _ _ _ _ _ Hl Hp) as Hprog.
    specialize (IH c limit (skipn n dst) s' Hl Hi ltac:(lia)).
    destruct (recv_all f c limit (skipn n dst) s') as [ms e].
    destruct (parse_all f c limit (skipn n dst ++ rem s')) as [ms' e'].
    cbn [fst snd] in *. destruct IH as [-> IH2]. auto.
Qed.

(* ---------- the parser inverts the writers ---------- *)
Lemma encode_varint_len v : 1 <= length (encode_varint v) <= 10.
Proof. apply enc_f_len. lia. Qed.

Lemma parse_proto_write limit m R : length m <= limit -> (N.of_nat limit < 2 ^ 63)%N ->
  parse_proto limit (write_proto m ++ R) = FMsg m R.
Proof.
  intros Hm Hl. unfold parse_proto, write_proto. rewrite <- app_assoc.
  set (v := N.of_nat (length m)). pose proof (encode_varint_len v) as Hlen.
  destruct (encode_varint v ++ m ++ R) eqn:E.
  { destruct (encode_varint v); [cbn in Hlen; lia|discriminate]. }
  rewrite <- E. clear E. rewrite consume_encode by (unfold v; lia).
  replace (N.of_nat limit <? v)%N with false by (unfold v; lia).
  replace (length (encode_varint v)) with (length (encode_varint v) + 0) by lia.
  rewrite skipn_app_len. cbn [skipn]. unfold v. rewrite Nat2N.id.
  replace (Nat.ltb (length (m ++ R)) (length m)) with false
    by (symmetry; apply Nat.ltb_ge; rewrite app_length; lia).
  pose proof (firstn_app_len m R 0) as F1. pose proof (skipn_app_len m R 0) as F2.
  rewrite Nat.add_0_r in F1, F2. rewrite F1, F2. cbn. now rewrite app_nil_r.
Qed.

Lemma json_scan_prefix : forall k st m i n R, json_scan k st m i = JFrame n -> json_scan k st (m ++ R) i = JFrame n.
Proof.
  induction k as [|k IH]; intros st m i n R H; cbn [json_scan] in *; [discriminate|].
  destruct m as [|c m']; [discriminate|]. cbn [app].
  destruct (json_step st c); try discriminate; auto.
Qed.

(* a JSON message, for framing purposes: the brace automaton accepts exactly the whole text *)
Definition json_msg (limit : nat) (m : bytes) : Prop := json_scan limit jst0 m 0 = JFrame (length m).

Lemma parse_json_write limit m R : json_msg limit m -> parse_json limit (write_json m ++ R) = FMsg m R.
Proof.
  unfold json_msg, parse_json, write_json. intros H. rewrite (json_scan_prefix _ _ _ _ _ R H).
  pose proof (firstn_app_len m R 0) as F1. pose proof (skipn_app_len m R 0) as F2.
  rewrite Nat.add_0_r in F1, F2. rewrite F1, F2. cbn. now rewrite app_nil_r.
Qed.

Definition fits (c : codec) (limit : nat) (m : bytes) : Prop :=
  match c with CProto => length m <= limit | CJSON => json_msg limit m | CBody => False end.

Lemma parse_write c limit m R : fits c limit m -> (N.of_nat limit < 2 ^ 63)%N ->
  parse c limit (write_next c m ++ R) = FMsg m R.
Proof.
  destruct c; cbn [fits parse write_next]; intros H Hl.
  - now apply parse_proto_write.
  - now apply parse_json_write.
  - contradiction.
Qed.

Lemma parse_nil c limit : 0 < limit -> parse c limit [] = FEnd.
Proof. intros H. destruct c; try reflexivity. cbn. unfold parse_json. destruct limit; [lia|reflexivity]. Qed.

Theorem parse_all_roundtrip : forall msgs fuel c limit,
  0 < limit -> (N.of_nat limit < 2 ^ 63)%N -> Forall (fits c limit) msgs ->
  length (concat (map (write_next c) msgs)) < fuel ->
  parse_all fuel c limit (concat (map (write_next c) msgs)) = (msgs, SClean).
Proof.
  induction msgs as [|m ms IH]; intros fuel c limit Hl Hi Hf Hfuel.
  - destruct fuel; [lia|]. cbn [map concat parse_all]. now rewrite parse_nil.
  - inversion Hf as [|? ? Hm Hms]; subst. destruct fuel as [|f]; [lia|].
    cbn [map concat parse_all]. rewrite (parse_write _ _ _ _ Hm Hi).
    pose proof (parse_progress c limit _ _ _ Hl (parse_write c limit m (concat (map (write_next c) ms)) Hm Hi)) as P.
    cbn [map concat] in Hfuel. rewrite IH; auto. lia.
Qed.

(* HttpBody: the chunks are the stream cut every [limit] bytes: nothing lost, nothing added *)
Theorem parse_all_body : forall fuel limit L, 0 < limit -> length L < fuel ->
  snd (parse_all fuel CBody limit L) = SClean /\ concat (fst (parse_all fuel CBody limit L)) = L /\
  Forall (fun m => 0 < length m <= limit) (fst (parse_all fuel CBody limit L)).
Proof.
  induction fuel as [|f IH]; intros limit L Hl Hf; [lia|]. cbn [parse_all parse].
  destruct L as [|x L']; [cbn; auto|].
  remember (x :: L') as L eqn:E.
  assert (0 < length L) by (subst L; cbn; lia).
  replace (parse_body limit L) with (FMsg (firstn limit L) (skipn limit L)) by (subst L; reflexivity).
  specialize (IH limit (skipn limit L) Hl ltac:(rewrite skipn_length; lia)).
  destruct (parse_all f CBody limit (skipn limit L)) as [ms e]. cbn [fst snd] in *.
  destruct IH as (I1 & I2 & I3). repeat split; auto.
  - cbn [concat]. rewrite I2. apply firstn_skipn.
  - constructor; [|exact I3]. rewrite firstn_length. lia.
Qed.

(* ---------- corollaries used by Properties/C17.v ---------- *)
Theorem recv_all_roundtrip c msgs limit sch e :
  0 < limit -> (N.of_nat limit < 2 ^ 63)%N -> Forall (fits c limit) msgs ->
  let L := concat (map (write_next c) msgs) in
  recv_all (S (length L)) c limit [] (Src L sch e) = (msgs, EndClean).
Proof.
  intros Hl Hi Hf. cbv zeta. set (L := concat (map (write_next c) msgs)).
  pose proof (recv_all_parse_all (S (length L)) c limit [] (Src L sch e) Hl Hi) as H.
  cbn [rem app] in H. specialize (H ltac:(lia)).
  assert (P : parse_all (S (length L)) c limit L = (msgs, SClean)).
  { apply parse_all_roundtrip; auto; fold L; lia. }
  rewrite P in H.
  destruct (recv_all (S (length L)) c limit [] (Src L sch e)) as [ms en]. cbn [fst snd] in H.
  destruct H as [-> H2]. destruct en; cbn in H2; try contradiction. reflexivity.
Qed.

Theorem recv_all_body limit L sch e : 0 < limit -> (N.of_nat limit < 2 ^ 63)%N ->
  let r := recv_all (S (length L)) CBody limit [] (Src L sch e) in
  snd r = EndClean /\ concat (fst r) = L /\ Forall (fun m => 0 < length m <= limit) (fst r).
Proof.
  intros Hl Hi. cbv zeta. set (r := recv_all (S (length L)) CBody limit [] (Src L sch e)).
  pose proof (recv_all_parse_all (S (length L)) CBody limit [] (Src L sch e) Hl Hi) as H.
  cbn [rem app] in H. specialize (H ltac:(lia)). fold r in H.
  destruct (parse_all_body (S (length L)) limit L Hl ltac:(lia)) as (P1 & P2 & P3).
  destruct H as [H1 H2]. rewrite H1. repeat split; auto.
  rewrite P1 in H2. destruct (snd r); cbn in H2; try contradiction. reflexivity.
Qed.

Lemma refines_err c limit L r e : refines c limit L r -> parse c limit L = FErr e ->
  exists dst s', r = RRet dst 0 (Some e) s'.
Proof.
  intros R P. destruct r as [dst n [e'|] s'| |]; cbn [refines] in R; try contradiction.
  - destruct e'; try (destruct R as [-> R]; rewrite P in R; inversion R; subst; eauto; fail).
    destruct R as [(_ & R & _) | (_ & _ & _ & R & _)]; rewrite P in R; discriminate.
  - destruct R as (_ & R & _). rewrite P in R. discriminate.
Qed.

(* any length prefix that decodes to more than the limit -- including values of 2^63 and above
   and over-long encodings -- is refused as too large *)
Theorem proto_limit_safe b s limit v n :
  0 < limit -> (N.of_nat limit < 2 ^ 63)%N ->
  consume_varint (b ++ rem s) = VOk v n -> (N.of_nat limit < v)%N ->
  exists dst s', proto_next b s limit = RRet dst 0 (Some ETooLarge) s'.
Proof.
  intros Hl Hi CV Hv. apply (refines_err CProto limit (b ++ rem s)); [now apply proto_next_refines|].
  cbn [parse]. unfold parse_proto. rewrite CV.
  replace (N.of_nat limit <? v)%N with true by lia.
  destruct (b ++ rem s); [discriminate|reflexivity].
Qed.

Theorem json_limit_safe b s limit :
  0 < limit -> json_scan limit jst0 (b ++ rem s) 0 = JTooLarge ->
  exists dst s', json_next b s limit = RRet dst 0 (Some ETooLarge) s'.
Proof.
  intros Hl J. apply (refines_err CJSON limit (b ++ rem s)); [apply json_next_refines|].
  cbn [parse]. unfold parse_json. now rewrite J.
Qed.

(* never a crash, never a reported length outside the returned buffer *)
Theorem read_next_safe c b s limit : 0 < limit -> (N.of_nat limit < 2 ^ 63)%N ->
  match read_next c b s limit with RRet dst n _ _ => n <= length dst | RPanic | RFuel => False end.
Proof.
  intros Hl Hi. pose proof (read_next_refines c b s limit Hl Hi) as R.
  destruct (read_next c b s limit) as [dst n [e|] s'| |]; cbn [refines] in R; try contradiction.
  - destruct e; try (destruct R as [-> _]; lia). destruct R as [(-> & _)|(_ & _ & R & _)]; lia.
  - destruct R as [R _]. exact R.
Qed.
