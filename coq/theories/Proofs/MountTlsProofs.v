(* TLSCredsOption is transparent: wherever it stands among the options, the server answers every path as the server
   built without it -- except that the options behind it are counted one later (an extra handler's identity in the
   model is the position of its option). *)
From Coq Require Import List NArith Bool Arith Lia.
From Larking Require Import Model.Mount.
Import ListNotations.

Definition bump (k j : nat) : nat := if j <? k then j else S j.
Definition rl_tgt (k : nat) (t : target) : target :=
  match t with TExtra j => TExtra (bump k j) | TMux s => TMux s end.
Definition rl_entry (k : nat) (e : entry) : entry := mk_entry (e_pat e) (rl_tgt k (e_tgt e)).
Definition rl_tbl (k : nat) (t : list entry) : list entry := map (rl_entry k) t.
Definition rl_opts (k : nat) (r : opts_result) : opts_result :=
  match r with OOk t p => OOk (rl_tbl k t) p | x => x end.
Definition rl_reg (k : nat) (r : reg_result) : reg_result :=
  match r with ROk t => ROk (rl_tbl k t) | x => x end.
Definition rl_resp (k : nat) (r : response) : response :=
  match r with ToExtra i p => ToExtra (bump k i) p | x => x end.
Definition rl_obs (k : nat) (o : observation) : observation :=
  match o with ObsResp r => ObsResp (rl_resp k r) | x => x end.

Lemma has_pat_rl k t p : has_pat (rl_tbl k t) p = has_pat t p.
Proof. unfold has_pat, rl_tbl. induction t as [|e t IH]; cbn [map existsb]; [reflexivity|]. now rewrite IH. Qed.

Lemma register_rl k t pat nilh tg :
  register (rl_tbl k t) pat nilh (rl_tgt k tg) = rl_reg k (register t pat nilh tg).
Proof.
  unfold register. destruct pat as [|c pat']; [reflexivity|].
  destruct nilh; [reflexivity|]. destruct (negb (plain (c :: pat'))); [reflexivity|].
  rewrite has_pat_rl. destruct (has_pat t (c :: pat')); [reflexivity|].
  cbn [rl_reg]. unfold rl_tbl. now rewrite map_app.
Qed.

(* the options behind position k, counted one later *)
Lemma apply_opts_shift post : forall i t pats k, k <= i ->
  apply_opts post (S i) (rl_tbl k t) pats = rl_opts k (apply_opts post i t pats).
Proof.
  induction post as [|o post IH]; intros i t pats k Hk; cbn [apply_opts]; [reflexivity|].
  destruct o as [|ps|pat nilh].
  - apply IH; lia.
  - destruct pats; [reflexivity | apply IH; lia].
  - replace (TExtra (S i)) with (rl_tgt k (TExtra i)) by (cbn [rl_tgt]; unfold bump; replace (i <? k) with false by (symmetry; apply Nat.ltb_ge; lia); reflexivity).
    rewrite register_rl. destruct (register t pat nilh (TExtra i)) as [t'| |]; cbn [rl_reg]; [apply IH; lia | reflexivity | reflexivity].
Qed.

(* all extra handlers of a table come from options before position k *)
Definition small (k : nat) (t : list entry) : Prop :=
  Forall (fun e => match e_tgt e with TExtra j => j < k | TMux _ => True end) t.

Lemma rl_small k t : small k t -> rl_tbl k t = t.
Proof.
  unfold small, rl_tbl. induction 1 as [|e t He _ IH]; cbn [map]; [reflexivity|]. rewrite IH. f_equal.
  destruct e as [p [s|j]]; cbn [e_tgt] in He; [reflexivity|]. unfold rl_entry, rl_tgt, bump; cbn [e_pat e_tgt].
  replace (j <? k) with true by (symmetry; apply Nat.ltb_lt; exact He). reflexivity.
Qed.

Lemma small_mono k k' t : k <= k' -> small k t -> small k' t.
Proof. intros H. unfold small. apply Forall_impl. intros [p [s|j]]; cbn; [auto | lia]. Qed.

Lemma register_small k t pat nilh i t' : small k t -> i < k -> register t pat nilh (TExtra i) = ROk t' -> small k t'.
Proof.
  unfold register. destruct pat as [|c pat']; [discriminate|]. destruct nilh; [discriminate|].
  destruct (negb (plain (c :: pat'))); [discriminate|]. destruct (has_pat t (c :: pat')); [discriminate|].
  intros S Hi E. injection E as <-. unfold small. apply Forall_app. split; [exact S | constructor; [cbn; exact Hi | constructor]].
Qed.

Lemma apply_opts_tls pre : forall post i t pats, small i t ->
  apply_opts (pre ++ OTLS :: post) i t pats = rl_opts (i + length pre) (apply_opts (pre ++ post) i t pats).
Proof.
  induction pre as [|o pre IH]; intros post i t pats S; cbn [app length apply_opts].
  - rewrite Nat.add_0_r. rewrite <- (rl_small i t S) at 1. apply apply_opts_shift. lia.
  - replace (i + Datatypes.S (length pre)) with (Datatypes.S i + length pre) by lia.
    destruct o as [|ps|pat nilh].
    + apply IH. eapply small_mono; [|exact S]. lia.
    + destruct pats; [reflexivity|]. apply IH. eapply small_mono; [|exact S]. lia.
    + destruct (register t pat nilh (TExtra i)) as [t'| |] eqn:R; [|reflexivity|reflexivity].
      apply IH. eapply register_small; [eapply small_mono; [|exact S]; lia | | exact R]. lia.
Qed.

Lemma reg_mounts_rl k ps : forall t, reg_mounts ps (rl_tbl k t) = rl_reg k (reg_mounts ps t).
Proof.
  induction ps as [|p ps IH]; intros t; cbn [reg_mounts]; [reflexivity|].
  change (e_tgt (mount_entry p)) with (rl_tgt k (e_tgt (mount_entry p))) at 1.
  rewrite register_rl. destruct (register t (e_pat (mount_entry p)) false (e_tgt (mount_entry p))); cbn [rl_reg]; [apply IH | reflexivity | reflexivity].
Qed.

Definition rl_server (k : nat) (s : server) : server := mk_server (rl_tbl k (s_tbl s)) (s_mounts s).
Definition rl_ns (k : nat) (r : ns_result) : ns_result := match r with NSOk s => NSOk (rl_server k s) | x => x end.

Lemma new_server_tls nm pre post :
  new_server nm (pre ++ OTLS :: post) = rl_ns (length pre) (new_server nm (pre ++ post)).
Proof.
  unfold new_server. destruct nm; [reflexivity|].
  rewrite (apply_opts_tls pre post 0 [] None) by constructor. cbn [Nat.add].
  destruct (apply_opts (pre ++ post) 0 [] None) as [t pats| | |]; cbn [rl_opts rl_ns]; try reflexivity.
  rewrite reg_mounts_rl. destruct (reg_mounts (effective_mounts pats) t); reflexivity.
Qed.

Lemma best_rl k path : forall t acc,
  best (rl_tbl k t) path (option_map (rl_entry k) acc) = option_map (rl_entry k) (best t path acc).
Proof.
  induction t as [|e t IH]; intros acc; cbn [rl_tbl map best]; [reflexivity|].
  change (e_pat (rl_entry k e)) with (e_pat e).
  destruct (claims (e_pat e) path); [|apply IH].
  destruct acc as [a|]; cbn [option_map].
  - change (e_pat (rl_entry k a)) with (e_pat a).
    destruct (length (e_pat a) <? length (e_pat e)); [apply (IH (Some e)) | apply (IH (Some a))].
  - apply (IH (Some e)).
Qed.

Lemma run_entry_rl k e path : run_entry (rl_entry k e) path = rl_resp k (run_entry e path).
Proof.
  unfold run_entry. destruct e as [p [s|j]]; cbn; [|reflexivity].
  unfold strip_serve. destruct s; [reflexivity|]. destruct (drop_prefix _ _); [|reflexivity].
  match goal with |- context [if ?c then _ else _] => destruct c end; reflexivity.
Qed.

Lemma serve_rl k s path : serve (rl_server k s) path = rl_resp k (serve s path).
Proof.
  unfold serve. destruct (negb (is_clean path)); [reflexivity|]. cbn [s_tbl rl_server].
  rewrite has_pat_rl. pose proof (best_rl k path (s_tbl s) None) as B. cbn [option_map] in B. rewrite B. clear B.
  destruct (best (s_tbl s) path None) as [e|]; cbn [option_map].
  - change (e_pat (rl_entry k e)) with (e_pat e). destruct (str_eqb (e_pat e) path); [apply run_entry_rl|].
    match goal with |- context [if ?c then _ else _] => destruct c end; [reflexivity | apply run_entry_rl].
  - match goal with |- context [if ?c then _ else _] => destruct c end; reflexivity.
Qed.

Lemma run_case_tls nm pre post path :
  run_case nm (pre ++ OTLS :: post) path = rl_obs (length pre) (run_case nm (pre ++ post) path).
Proof.
  unfold run_case. rewrite new_server_tls.
  destruct (new_server nm (pre ++ post)) as [s| | |]; cbn [rl_ns rl_obs]; try reflexivity.
  now rewrite serve_rl.
Qed.
