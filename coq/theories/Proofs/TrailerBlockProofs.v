From Coq Require Import List NArith Bool Lia.
From Larking Require Import Model.TrailerBlock.
Import ListNotations.
Local Open Scope N_scope.

Lemma forallb_rev {A} (f : A -> bool) l : forallb f (rev l) = forallb f l.
Proof.
  induction l as [|a l IH]; cbn [rev forallb]; [reflexivity|]. rewrite forallb_app, IH. cbn [forallb]. rewrite andb_true_r. apply andb_comm.
Qed.

Lemma forallb_drop_ws (f : N -> bool) l : forallb f l = true -> forallb f (drop_ws l) = true.
Proof.
  induction l as [|c l IH]; cbn [drop_ws forallb]; [reflexivity|]. intros H. destruct (is_ws c); [|exact H].
  apply andb_prop in H as [_ H]. exact (IH H).
Qed.

Lemma forallb_trim_ws (f : N -> bool) l : forallb f l = true -> forallb f (trim_ws l) = true.
Proof.
  intros H. unfold trim_ws. rewrite forallb_rev. apply forallb_drop_ws. rewrite forallb_rev. apply forallb_drop_ws. exact H.
Qed.

Lemma wire_value_no_nl v : forallb (fun c => negb (is_nl c)) (wire_value v) = true.
Proof.
  unfold wire_value. apply forallb_trim_ws. induction v as [|c v IH]; cbn [map forallb]; [reflexivity|]. rewrite IH, andb_true_r.
  destruct (is_nl c) eqn:E; [reflexivity | now rewrite E].
Qed.

(* a value that has no line break and neither begins nor ends with blank space travels as it is *)
Lemma drop_ws_id l : match l with c :: _ => is_ws c = false | [] => True end -> drop_ws l = l.
Proof. destruct l as [|c r]; cbn [drop_ws]; [reflexivity|]. now intros ->. Qed.

Lemma wire_value_id v : forallb (fun c => negb (is_nl c)) v = true ->
  match v with c :: _ => is_ws c = false | [] => True end ->
  match rev v with c :: _ => is_ws c = false | [] => True end -> wire_value v = v.
Proof.
  intros H Hh Ht. unfold wire_value.
  replace (map (fun c => if is_nl c then 32 else c) v) with v.
  - unfold trim_ws. rewrite (drop_ws_id v Hh), (drop_ws_id (rev v) Ht). apply rev_involutive.
  - clear Hh Ht. induction v as [|c v IH]; cbn [map forallb] in *; [reflexivity|]. apply andb_prop in H as [Hc Hv].
    rewrite <- (IH Hv). apply negb_true_iff in Hc. now rewrite Hc.
Qed.

Definition no_lf (l : bytes) : Prop := forallb (fun c => negb (c =? 10)) l = true.

Lemma split_lf_line l : forall cur rest, no_lf l ->
  split_lf cur (l ++ 10 :: rest) = (rev cur ++ l) :: split_lf [] rest.
Proof.
  induction l as [|c l IH]; intros cur rest H; cbn [app split_lf].
  - rewrite N.eqb_refl, app_nil_r. reflexivity.
  - unfold no_lf in H. cbn [forallb] in H. apply andb_prop in H as [Hc Hl]. apply negb_true_iff in Hc. rewrite Hc.
    rewrite (IH (c :: cur) rest Hl). cbn [rev]. now rewrite <- app_assoc.
Qed.

Definition key_ok (k : bytes) : Prop := forallb (fun c => negb (is_nl c) && negb (c =? 58)) k = true.

Lemma cut_colon_key k : forall acc rest, key_ok k ->
  cut_colon acc (k ++ 58 :: rest) = Some (rev acc ++ k, match rest with 32 :: r' => r' | _ => rest end).
Proof.
  induction k as [|c k IH]; intros acc rest H; cbn [app cut_colon].
  - rewrite N.eqb_refl, app_nil_r. reflexivity.
  - unfold key_ok in H. cbn [forallb] in H. apply andb_prop in H as [Hc Hk]. apply andb_prop in Hc as [_ Hc].
    apply negb_true_iff in Hc. rewrite Hc. rewrite (IH (c :: acc) rest Hk). cbn [rev]. now rewrite <- app_assoc.
Qed.

Lemma no_nl_no_lf l : forallb (fun c => negb (is_nl c)) l = true -> no_lf l.
Proof.
  unfold no_lf. induction l as [|c l IH]; cbn [forallb]; [reflexivity|]. intros H. apply andb_prop in H as [Hc Hl].
  rewrite (IH Hl), andb_true_r. unfold is_nl in Hc. apply negb_true_iff in Hc. apply orb_false_iff in Hc as [Hc _]. now rewrite Hc.
Qed.

Lemma key_no_nl k : key_ok k -> forallb (fun c => negb (is_nl c)) k = true.
Proof.
  unfold key_ok. induction k as [|c k IH]; cbn [forallb]; [reflexivity|]. intros H. apply andb_prop in H as [Hc Hk].
  apply andb_prop in Hc as [Hc _]. now rewrite Hc, (IH Hk).
Qed.

Lemma forallb_app_intro {A} (f : A -> bool) a b : forallb f a = true -> forallb f b = true -> forallb f (a ++ b) = true.
Proof. intros Ha Hb. rewrite forallb_app, Ha, Hb. reflexivity. Qed.

Lemma drop_cr_snoc l : drop_cr (l ++ [13]) = l.
Proof. unfold drop_cr. rewrite rev_app_distr. cbn [rev app]. now rewrite rev_involutive. Qed.

(* no field can be forged through a value: the client reads back exactly the fields that were written, each value on
   one line, whatever bytes the handler put into the values *)
Lemma parse_write l : Forall (fun kv => key_ok (fst kv)) l ->
  parse_block (write_block l) = map (fun kv => Some (fst kv, wire_value (snd kv))) l.
Proof.
  unfold parse_block, write_block. induction 1 as [|[k v] l Hk _ IH]; cbn [map concat]; [reflexivity|].
  cbn [fst snd] in *. unfold write_line at 1. cbn [fst snd].
  replace ((k ++ [58; 32] ++ wire_value v ++ [13; 10]) ++ concat (map write_line l))
    with ((k ++ [58; 32] ++ wire_value v ++ [13]) ++ 10 :: concat (map write_line l))
    by (repeat rewrite <- app_assoc; cbn [app]; reflexivity).
  rewrite split_lf_line.
  - change (rev (@nil N)) with (@nil N). rewrite app_nil_l. cbn [map]. rewrite IH. f_equal.
    replace (k ++ [58; 32] ++ wire_value v ++ [13]) with ((k ++ 58 :: 32 :: wire_value v) ++ [13])
      by (repeat rewrite <- app_assoc; cbn [app]; reflexivity).
    rewrite drop_cr_snoc. rewrite cut_colon_key by exact Hk. reflexivity.
  - unfold no_lf. apply forallb_app_intro; [apply no_nl_no_lf, key_no_nl; exact Hk|].
    apply forallb_app_intro; [reflexivity|].
    apply forallb_app_intro; [apply no_nl_no_lf, wire_value_no_nl | reflexivity].
Qed.

Example forged_value :
  parse_block (write_block [([120;45;116], [98;121;101;13;10;103;114;112;99;45;115;116;97;116;117;115;58;32;49;51])])
  = [Some ([120;45;116], [98;121;101;32;32;103;114;112;99;45;115;116;97;116;117;115;58;32;49;51])].
Proof. vm_compute. reflexivity. Qed.
