(* C20 -- lemmas about Model/Mount.v (NewServer registration, ServeMux dispatch, StripPrefix). *)
From Coq Require Import List NArith Bool Arith Lia.
From Larking Require Import Model.Mount Spec.MountSpec.
Import ListNotations.

Local Open Scope nat_scope.

(* ---- strings ---------------------------------------------------------------------------------- *)
Lemma str_eqb_refl : forall a, str_eqb a a = true.
Proof. induction a as [|x a IH]; cbn [str_eqb]; [reflexivity|]. rewrite N.eqb_refl, IH. reflexivity. Qed.

Lemma str_eqb_eq : forall a b, str_eqb a b = true <-> a = b.
Proof.
  induction a as [|x a IH]; intros [|y b]; cbn [str_eqb]; split; intros H; try reflexivity; try discriminate.
  - apply andb_true_iff in H. destruct H as [H1 H2]. apply N.eqb_eq in H1. apply IH in H2. subst. reflexivity.
  - inversion H; subst. rewrite N.eqb_refl. cbn. apply IH. reflexivity.
Qed.

Lemma str_eqb_neq : forall a b, str_eqb a b = false <-> a <> b.
Proof.
  intros a b. split.
  - intros H E. apply str_eqb_eq in E. congruence.
  - intros H. destruct (str_eqb a b) eqn:E; [|reflexivity]. apply str_eqb_eq in E. contradiction.
Qed.

Lemma has_prefix_iff : forall p s, has_prefix p s = true <-> exists r, s = p ++ r.
Proof.
  induction p as [|x p IH]; intros s; cbn [has_prefix].
  - split; [intros _; exists s; reflexivity | reflexivity].
  - destruct s as [|y s].
    + split; [discriminate | intros [r Hr]; discriminate].
    + rewrite andb_true_iff, N.eqb_eq, IH. split.
      * intros [E [r Hr]]. subst. exists r. reflexivity.
      * intros [r Hr]. cbn in Hr. inversion Hr; subst. split; [reflexivity | exists r; reflexivity].
Qed.

Lemma has_prefix_app : forall p r, has_prefix p (p ++ r) = true.
Proof. intros. apply has_prefix_iff. exists r. reflexivity. Qed.

Lemma drop_prefix_app : forall p r, drop_prefix p (p ++ r) = Some r.
Proof. induction p as [|x p IH]; intros r; cbn [drop_prefix app]; [reflexivity|]. rewrite N.eqb_refl. apply IH. Qed.

Lemma drop_prefix_some : forall p s r, drop_prefix p s = Some r -> s = p ++ r.
Proof.
  induction p as [|x p IH]; intros s r H; cbn [drop_prefix] in H.
  - inversion H. reflexivity.
  - destruct s as [|y s]; [discriminate|]. destruct (N.eqb x y) eqn:E; [|discriminate].
    apply N.eqb_eq in E. subst. apply IH in H. subst. reflexivity.
Qed.

Lemma ends_slash_app : forall p, ends_slash (p ++ [slash]) = true.
Proof.
  induction p as [|x p IH]; [reflexivity|].
  cbn [app ends_slash]. destruct (p ++ [slash]) eqn:E; [destruct p; discriminate | exact IH].
Qed.

Lemma ends_slash_cons : forall c s, s <> [] -> ends_slash (c :: s) = ends_slash s.
Proof. intros c [|y s] H; [contradiction | reflexivity]. Qed.

Lemma ends_slash_app_r : forall p x, x <> [] -> ends_slash (p ++ x) = ends_slash x.
Proof.
  induction p as [|c p IH]; intros x Hx; [reflexivity|].
  cbn [app]. rewrite ends_slash_cons; [apply IH; exact Hx | destruct p; cbn; [exact Hx | discriminate]].
Qed.

Lemma has_prefix_firstn : forall p s, has_prefix p s = true -> p = firstn (length p) s.
Proof.
  intros p s H. apply has_prefix_iff in H. destruct H as [r Hr]. subst.
  rewrite firstn_app, Nat.sub_diag, firstn_all. cbn. rewrite app_nil_r. reflexivity.
Qed.

(* ---- claims ------------------------------------------------------------------------------------ *)
Lemma claims_firstn : forall q path, claims q path = true -> q = firstn (length q) path.
Proof.
  intros q path H. unfold claims in H. destruct (ends_slash q).
  - apply has_prefix_firstn. exact H.
  - apply str_eqb_eq in H. subst. rewrite firstn_all. reflexivity.
Qed.

Lemma claims_length : forall q path, claims q path = true -> length q <= length path.
Proof.
  intros q path H. apply claims_firstn in H. rewrite H, firstn_length. lia.
Qed.

Lemma claims_same_length : forall q1 q2 path,
  claims q1 path = true -> claims q2 path = true -> length q1 = length q2 -> q1 = q2.
Proof.
  intros q1 q2 path H1 H2 L. apply claims_firstn in H1. apply claims_firstn in H2.
  rewrite H1, H2, L. reflexivity.
Qed.

Lemma claims_subtree : forall p r, claims (p ++ [slash]) (p ++ [slash] ++ r) = true.
Proof.
  intros p r. unfold claims. rewrite ends_slash_app. rewrite app_assoc. apply has_prefix_app.
Qed.

Lemma claims_self : forall q, claims q q = true.
Proof.
  intros q. unfold claims. destruct (ends_slash q); [|apply str_eqb_refl].
  rewrite <- (app_nil_r q) at 2. apply has_prefix_app.
Qed.

(* ---- best -------------------------------------------------------------------------------------- *)
Lemma best_in : forall t path acc r,
  best t path acc = Some r -> acc = Some r \/ (In r t /\ claims (e_pat r) path = true).
Proof.
  induction t as [|e t IH]; intros path acc r H; cbn [best] in H.
  - left. exact H.
  - destruct (claims (e_pat e) path) eqn:C.
    + destruct acc as [a|].
      * destruct (length (e_pat a) <? length (e_pat e)).
        -- apply IH in H. destruct H as [H|[H1 H2]].
           ++ inversion H; subst. right. split; [left; reflexivity | exact C].
           ++ right. split; [right; exact H1 | exact H2].
        -- apply IH in H. destruct H as [H|[H1 H2]]; [left; exact H | right; split; [right; exact H1 | exact H2]].
      * apply IH in H. destruct H as [H|[H1 H2]].
        -- inversion H; subst. right. split; [left; reflexivity | exact C].
        -- right. split; [right; exact H1 | exact H2].
    + apply IH in H. destruct H as [H|[H1 H2]]; [left; exact H | right; split; [right; exact H1 | exact H2]].
Qed.

Lemma best_max : forall t path acc r,
  best t path acc = Some r ->
  (forall a, acc = Some a -> length (e_pat a) <= length (e_pat r)) /\
  (forall e, In e t -> claims (e_pat e) path = true -> length (e_pat e) <= length (e_pat r)).
Proof.
  induction t as [|e t IH]; intros path acc r H; cbn [best] in H.
  - split; [intros a Ha; subst; inversion Ha; subst; lia | intros e [] ].
  - destruct (claims (e_pat e) path) eqn:C.
    + destruct acc as [a|].
      * destruct (length (e_pat a) <? length (e_pat e)) eqn:L.
        -- apply IH in H. destruct H as [H1 H2]. apply Nat.ltb_lt in L. split.
           ++ intros a0 Ha0. inversion Ha0; subst. specialize (H1 e eq_refl). lia.
           ++ intros e0 [E|I] C0; [subst; apply H1; reflexivity | apply H2; assumption].
        -- apply IH in H. destruct H as [H1 H2]. apply Nat.ltb_ge in L. split.
           ++ exact H1.
           ++ intros e0 [E|I] C0; [subst; specialize (H1 a eq_refl); lia | apply H2; assumption].
      * apply IH in H. destruct H as [H1 H2]. split; [intros a Ha; discriminate|].
        intros e0 [E|I] C0; [subst; apply H1; reflexivity | apply H2; assumption].
    + apply IH in H. destruct H as [H1 H2]. split; [exact H1|].
      intros e0 [E|I] C0; [subst; congruence | apply H2; assumption].
Qed.

Lemma best_exists : forall t path acc e,
  In e t -> claims (e_pat e) path = true -> exists r, best t path acc = Some r.
Proof.
  assert (A : forall t path a, exists r, best t path (Some a) = Some r).
  { induction t as [|e t IH]; intros path a; cbn [best]; [eexists; reflexivity|].
    destruct (claims (e_pat e) path); [destruct (length (e_pat a) <? length (e_pat e))|]; apply IH. }
  induction t as [|e0 t IH]; intros path acc e I C; [destruct I|].
  cbn [best]. destruct I as [E|I].
  - subst. rewrite C. destruct acc as [a|]; [destruct (length (e_pat a) <? length (e_pat e))|]; apply A.
  - destruct (claims (e_pat e0) path); [destruct acc as [a|]; [destruct (length (e_pat a) <? length (e_pat e0))|]|];
      try apply A; eapply IH; eassumption.
Qed.

Lemma best_none : forall t path, best t path None = None -> forall e, In e t -> claims (e_pat e) path = false.
Proof.
  intros t path H e I. destruct (claims (e_pat e) path) eqn:C; [|reflexivity].
  destruct (best_exists t path None e I C) as [r Hr]. congruence.
Qed.

Lemma map_inj_in : forall (A B : Type) (f : A -> B) l a b,
  NoDup (map f l) -> In a l -> In b l -> f a = f b -> a = b.
Proof.
  induction l as [|x l IH]; intros a b ND Ia Ib E; [destruct Ia|].
  cbn in ND. inversion ND as [|? ? N1 N2]; subst.
  destruct Ia as [Ea|Ia], Ib as [Eb|Ib]; subst.
  - reflexivity.
  - exfalso. apply N1. rewrite E. apply in_map. exact Ib.
  - exfalso. apply N1. rewrite <- E. apply in_map. exact Ia.
  - apply IH; assumption.
Qed.

(* the longest matching pattern of a table without duplicates is what best returns *)
Lemma best_owner : forall t path e,
  NoDup (map e_pat t) -> In e t -> claims (e_pat e) path = true ->
  (forall e', In e' t -> claims (e_pat e') path = true -> length (e_pat e') <= length (e_pat e)) ->
  best t path None = Some e.
Proof.
  intros t path e ND I C M.
  destruct (best_exists t path None e I C) as [r Hr]. rewrite Hr. f_equal.
  destruct (best_in _ _ _ _ Hr) as [H|[Ir Cr]]; [discriminate|].
  destruct (best_max _ _ _ _ Hr) as [_ Mr].
  apply (map_inj_in _ _ e_pat t); try assumption.
  eapply claims_same_length; try eassumption.
  specialize (M r Ir Cr). specialize (Mr e I C). lia.
Qed.

(* ---- registration ------------------------------------------------------------------------------ *)
Definition table_ok (t : list entry) : Prop :=
  NoDup (map e_pat t) /\ Forall (fun e => plain (e_pat e) = true) t.

Lemma has_pat_false : forall t p, has_pat t p = false -> ~ In p (map e_pat t).
Proof.
  intros t p H I. apply in_map_iff in I. destruct I as [e [E I]].
  unfold has_pat in H. assert (X : existsb (fun e => str_eqb (e_pat e) p) t = true).
  { apply existsb_exists. exists e. split; [exact I | apply str_eqb_eq; exact E]. }
  congruence.
Qed.

Lemma has_pat_true : forall t p, has_pat t p = true <-> In p (map e_pat t).
Proof.
  intros t p. unfold has_pat. rewrite existsb_exists. split.
  - intros [e [I E]]. apply str_eqb_eq in E. subst. apply in_map. exact I.
  - intros I. apply in_map_iff in I. destruct I as [e [E I]]. exists e. split; [exact I | apply str_eqb_eq; exact E].
Qed.

Lemma register_ok : forall t pat nilh tg t',
  register t pat nilh tg = ROk t' ->
  t' = t ++ [mk_entry pat tg] /\ nilh = false /\ plain pat = true /\ ~ In pat (map e_pat t).
Proof.
  intros t pat nilh tg t' H. unfold register in H.
  destruct pat as [|c pat]; [discriminate|].
  destruct nilh; [discriminate|]. destruct (plain (c :: pat)) eqn:P; cbn [negb] in H; [|discriminate].
  destruct (has_pat t (c :: pat)) eqn:HP; [discriminate|]. inversion H; subst.
  repeat split. apply has_pat_false. exact HP.
Qed.

Lemma register_complete : forall t pat tg,
  plain pat = true -> ~ In pat (map e_pat t) -> register t pat false tg = ROk (t ++ [mk_entry pat tg]).
Proof.
  intros t pat tg P N. unfold register. destruct pat as [|c pat]; [discriminate P|].
  rewrite P. cbn [negb]. destruct (has_pat t (c :: pat)) eqn:H; [|reflexivity].
  apply has_pat_true in H. contradiction.
Qed.

Lemma NoDup_snoc : forall (A : Type) (l : list A) a, NoDup l -> ~ In a l -> NoDup (l ++ [a]).
Proof.
  induction l as [|x l IH]; intros a ND N; cbn [app].
  - constructor; [intros [] | constructor].
  - inversion ND as [|? ? N1 N2]; subst. constructor.
    + intros I. apply in_app_or in I. destruct I as [I|[E|[]]]; [contradiction|]. subst. apply N. left. reflexivity.
    + apply IH; [exact N2|]. intros I. apply N. right. exact I.
Qed.

Lemma table_ok_snoc : forall t pat tg,
  table_ok t -> plain pat = true -> ~ In pat (map e_pat t) -> table_ok (t ++ [mk_entry pat tg]).
Proof.
  intros t pat tg [ND PL] P N. split.
  - rewrite map_app. cbn [map e_pat]. apply NoDup_snoc; assumption.
  - apply Forall_app. split; [exact PL | constructor; [exact P | constructor]].
Qed.

(* ---- the option loop and the mount registrations ------------------------------------------------ *)
Definition extra_entry (ie : nat * str) : entry := mk_entry (snd ie) (TExtra (fst ie)).

Lemma apply_opts_ok : forall opts i t pats t' pats',
  apply_opts opts i t pats = OOk t' pats' -> table_ok t ->
  t' = t ++ map extra_entry (opt_extras opts i) /\ table_ok t' /\
  pats' = match pats with Some l => Some l | None => opt_mounts_raw opts end.
Proof.
  induction opts as [|o opts IH]; intros i t pats t' pats' H OK.
  - cbn in H. inversion H; subst. cbn. rewrite app_nil_r. split; [reflexivity|split; [exact OK|]]. destruct pats'; reflexivity.
  - destruct o as [|ps|pat nilh]; cbn [apply_opts] in H.
    + apply IH in H; [|exact OK]. cbn [opt_extras opt_mounts_raw]. exact H.
    + destruct pats as [l|]; [discriminate|]. apply IH in H; [|exact OK].
      destruct H as [H1 [H2 H3]]. cbn [opt_extras]. split; [exact H1|split; [exact H2|]].
      cbn [opt_mounts_raw]. destruct ps as [l|]; exact H3.
    + destruct (register t pat nilh (TExtra i)) as [t1| |] eqn:R; try discriminate.
      apply register_ok in R. destruct R as [R1 [R2 [R3 R4]]]. subst t1 nilh.
      apply IH in H; [|apply table_ok_snoc; assumption].
      destruct H as [H1 [H2 H3]]. cbn [opt_extras opt_mounts_raw map]. split; [|split; [exact H2|exact H3]].
      rewrite H1, <- app_assoc. reflexivity.
Qed.

Lemma reg_mounts_ok : forall ps t t',
  reg_mounts ps t = ROk t' -> table_ok t -> t' = t ++ map mount_entry ps /\ table_ok t'.
Proof.
  induction ps as [|p ps IH]; intros t t' H OK; cbn [reg_mounts] in H.
  - inversion H; subst. cbn. rewrite app_nil_r. split; [reflexivity | exact OK].
  - destruct (register t (e_pat (mount_entry p)) false (e_tgt (mount_entry p))) as [t1| |] eqn:R; try discriminate.
    apply register_ok in R. destruct R as [R1 [_ [R3 R4]]]. subst t1.
    apply IH in H; [|apply table_ok_snoc; assumption]. destruct H as [H1 H2]. split; [|exact H2].
    rewrite H1, <- app_assoc. reflexivity.
Qed.

Lemma table_ok_nil : table_ok [].
Proof. split; constructor. Qed.

Lemma new_server_ok : forall nm opts srv,
  new_server nm opts = NSOk srv ->
  nm = false /\ s_mounts srv = opt_mounts opts /\
  s_tbl srv = map extra_entry (opt_extras opts 0) ++ map mount_entry (opt_mounts opts) /\
  table_ok (s_tbl srv).
Proof.
  intros nm opts srv H. unfold new_server in H. destruct nm; [discriminate|].
  destruct (apply_opts opts 0 [] None) as [t pats| | |] eqn:A; try discriminate.
  apply apply_opts_ok in A; [|apply table_ok_nil]. destruct A as [A1 [A2 A3]]. cbn [app] in A1. subst t pats.
  assert (E : effective_mounts (opt_mounts_raw opts) = opt_mounts opts) by reflexivity.
  rewrite E in H.
  destruct (reg_mounts (opt_mounts opts) (map extra_entry (opt_extras opts 0))) as [t'| |] eqn:R; try discriminate.
  apply reg_mounts_ok in R; [|exact A2]. destruct R as [R1 R2]. inversion H; subst. cbn [s_tbl s_mounts].
  split; [reflexivity|split; [reflexivity|split; [reflexivity|exact R2]]].
Qed.

Lemma in_table : forall opts srv e,
  new_server false opts = NSOk srv -> In e (s_tbl srv) ->
  (exists ie, In ie (opt_extras opts 0) /\ e = extra_entry ie) \/ (exists m, In m (s_mounts srv) /\ e = mount_entry m).
Proof.
  intros opts srv e H I. apply new_server_ok in H. destruct H as [_ [H1 [H2 _]]]. rewrite H2 in I.
  apply in_app_or in I. destruct I as [I|I]; apply in_map_iff in I; destruct I as [y [E I]].
  - left. exists y. split; [exact I | symmetry; exact E].
  - right. exists y. rewrite H1. split; [exact I | symmetry; exact E].
Qed.

Lemma mount_in_table : forall opts srv m,
  new_server false opts = NSOk srv -> In m (s_mounts srv) -> In (mount_entry m) (s_tbl srv).
Proof.
  intros opts srv m H I. apply new_server_ok in H. destruct H as [_ [H1 [H2 _]]]. rewrite H2. rewrite H1 in I.
  apply in_or_app. right. apply in_map. exact I.
Qed.

Lemma extra_in_table : forall opts srv ie,
  new_server false opts = NSOk srv -> In ie (opt_extras opts 0) -> In (extra_entry ie) (s_tbl srv).
Proof.
  intros opts srv ie H I. apply new_server_ok in H. destruct H as [_ [_ [H2 _]]]. rewrite H2.
  apply in_or_app. left. apply in_map. exact I.
Qed.

Lemma opt_extras_nth : forall opts k i pat,
  In (i, pat) (opt_extras opts k) <-> k <= i /\ nth_error opts (i - k) = Some (OHandler pat false).
Proof.
  induction opts as [|o opts IH]; intros k i pat.
  - cbn. split; [intros [] | intros [_ H]; destruct (i - k); discriminate].
  - assert (step : In (i, pat) (opt_extras opts (S k)) <-> S k <= i /\ nth_error (o :: opts) (i - k) = Some (OHandler pat false) ).
    { rewrite IH. split; intros [L H]; (split; [lia|]).
      - replace (i - k) with (S (i - S k)) by lia. exact H.
      - replace (i - k) with (S (i - S k)) in H by lia. exact H. }
    assert (here : forall (P : Prop), (k <= i /\ nth_error (o :: opts) (i - k) = Some (OHandler pat false)) <->
                   ((i = k /\ o = OHandler pat false) \/ (S k <= i /\ nth_error (o :: opts) (i - k) = Some (OHandler pat false)))).
    { intros _. split.
      - intros [L H]. destruct (Nat.eq_dec i k) as [E|NE].
        + left. subst. rewrite Nat.sub_diag in H. cbn in H. inversion H. split; reflexivity.
        + right. split; [lia | exact H].
      - intros [[E1 E2]|[L H]]; [subst; rewrite Nat.sub_diag; split; [lia | reflexivity] | split; [lia | exact H]]. }
    rewrite (here True). rewrite <- step.
    destruct o as [|ps|p nilh]; cbn [opt_extras]; try (split; [intros H; right; exact H | intros [[_ H]|H]; [discriminate | exact H]]).
    destruct nilh; [split; [intros H; right; exact H | intros [[_ H]|H]; [discriminate | exact H]]|].
    cbn [In]. split.
    + intros [E|H]; [left; inversion E; split; reflexivity | right; exact H].
    + intros [[E1 E2]|H]; [left; inversion E2; subst; reflexivity | right; exact H].
Qed.

(* ---- StripPrefix as NewServer uses it ------------------------------------------------------------ *)
Lemma strip_serve_app : forall p x, strip_serve p (p ++ x) = ToMux x.
Proof.
  intros p x. unfold strip_serve. destruct p as [|c p]; [reflexivity|].
  rewrite drop_prefix_app. rewrite app_length. cbn [length].
  destruct (length x <? S (length p) + length x) eqn:L; [reflexivity|]. apply Nat.ltb_ge in L. lia.
Qed.

Lemma mount_claims_split : forall m path,
  claims (e_pat (mount_entry m)) path = true -> exists r, path = mount_prefix m ++ slash :: r.
Proof.
  intros m path H. cbn [mount_entry e_pat] in H. unfold claims in H. rewrite ends_slash_app in H.
  apply has_prefix_iff in H. destruct H as [r Hr]. exists r. rewrite Hr, <- app_assoc. reflexivity.
Qed.

Lemma run_mount_entry : forall m path,
  claims (e_pat (mount_entry m)) path = true ->
  exists r, path = mount_prefix m ++ slash :: r /\ run_entry (mount_entry m) path = ToMux (slash :: r).
Proof.
  intros m path H. destruct (mount_claims_split _ _ H) as [r Hr]. exists r. split; [exact Hr|].
  unfold run_entry. cbn [mount_entry e_tgt]. rewrite Hr. apply strip_serve_app.
Qed.

(* ---- serve ----------------------------------------------------------------------------------------- *)
Lemma serve_inv : forall s path r,
  serve s path = r ->
  (is_clean path = false /\ r = RedirectClean) \/
  (is_clean path = true /\
   ((exists e, best (s_tbl s) path None = Some e /\ r = run_entry e path /\
               (e_pat e = path \/ ends_slash path = true \/ has_pat (s_tbl s) (path ++ [slash]) = false)) \/
    (r = Redirect (path ++ [slash]) /\ ends_slash path = false /\ has_pat (s_tbl s) (path ++ [slash]) = true) \/
    (r = NotFound /\ best (s_tbl s) path None = None))).
Proof.
  intros s path r H. unfold serve in H. destruct (is_clean path); cbn [negb] in H; [right; split; [reflexivity|] | left; split; [reflexivity | symmetry; exact H]].
  destruct (best (s_tbl s) path None) as [e|] eqn:B.
  - destruct (str_eqb (e_pat e) path) eqn:E.
    + left. exists e. apply str_eqb_eq in E. repeat split; [symmetry; exact H | left; exact E].
    + destruct (ends_slash path) eqn:ES; cbn [negb andb] in H.
      * left. exists e. repeat split; [symmetry; exact H | right; left; reflexivity].
      * destruct (has_pat (s_tbl s) (path ++ [slash])) eqn:HP.
        -- right. left. repeat split. symmetry. exact H.
        -- left. exists e. repeat split; [symmetry; exact H | right; right; reflexivity].
  - destruct (ends_slash path) eqn:ES; cbn [negb andb] in H.
    + right. right. split; [symmetry; exact H | reflexivity].
    + destruct (has_pat (s_tbl s) (path ++ [slash])) eqn:HP.
      * right. left. repeat split. symmetry. exact H.
      * right. right. split; [symmetry; exact H | reflexivity].
Qed.

Lemma serve_owner : forall s path e,
  NoDup (map e_pat (s_tbl s)) -> is_clean path = true ->
  In e (s_tbl s) -> claims (e_pat e) path = true ->
  (forall e', In e' (s_tbl s) -> claims (e_pat e') path = true -> length (e_pat e') <= length (e_pat e)) ->
  (e_pat e = path \/ ends_slash path = true \/ ~ In (path ++ [slash]) (map e_pat (s_tbl s))) ->
  serve s path = run_entry e path.
Proof.
  intros s path e ND CL I C M R. unfold serve. rewrite CL. cbn [negb].
  rewrite (best_owner _ _ e ND I C M).
  destruct (str_eqb (e_pat e) path) eqn:E; [reflexivity|].
  destruct R as [R|[R|R]].
  - apply str_eqb_neq in E. contradiction.
  - rewrite R. reflexivity.
  - destruct (has_pat (s_tbl s) (path ++ [slash])) eqn:HP; [apply has_pat_true in HP; contradiction|].
    rewrite andb_false_r. reflexivity.
Qed.

(* ---- the property --------------------------------------------------------------------------------- *)
Definition patterns (s : server) : list str := map e_pat (s_tbl s).

Lemma in_patterns : forall s q, In q (patterns s) <-> exists e, In e (s_tbl s) /\ e_pat e = q.
Proof. intros s q. unfold patterns. rewrite in_map_iff. split; intros [e [A B]]; exists e; tauto. Qed.

(* transparency: under the mount with prefix p, a path p ++ x that this mount owns reaches the mux as x *)
Lemma transparent : forall opts srv m x,
  new_server false opts = NSOk srv -> In m (s_mounts srv) ->
  let p := mount_prefix m in
  let path := p ++ slash :: x in
  is_clean path = true ->
  (forall q, In q (patterns srv) -> claims q path = true -> length q <= length (p ++ [slash])) ->
  (ends_slash path = false -> ~ In (path ++ [slash]) (patterns srv)) ->
  serve srv path = ToMux (slash :: x).
Proof.
  intros opts srv m x H I p path CL M R.
  pose proof (mount_in_table _ _ _ H I) as IT.
  pose proof (new_server_ok _ _ _ H) as [_ [_ [_ [ND _]]]].
  assert (C : claims (e_pat (mount_entry m)) path = true).
  { cbn [mount_entry e_pat]. apply (claims_subtree (mount_prefix m) x). }
  rewrite (serve_owner srv path (mount_entry m) ND CL IT C).
  - destruct (run_mount_entry _ _ C) as [r [E1 E2]]. rewrite E2. f_equal.
    unfold path, p in E1. apply app_inv_head in E1. symmetry. exact E1.
  - intros e' Ie' Ce'. apply M; [apply in_patterns; exists e'; split; [exact Ie' | reflexivity] | exact Ce'].
  - destruct (ends_slash path) eqn:ES; [right; left; reflexivity | right; right; apply R; reflexivity].
Qed.

(* whatever reaches the mux lies under a mount prefix and arrives without it *)
Lemma mux_only_under_mount : forall opts srv path x,
  new_server false opts = NSOk srv -> serve srv path = ToMux x ->
  exists m, In m (s_mounts srv) /\ path = mount_prefix m ++ x /\ has_prefix [slash] x = true /\
            has_prefix (mount_prefix m ++ [slash]) path = true /\
            (forall q, In q (patterns srv) -> claims q path = true -> length q <= length (mount_prefix m ++ [slash])).
Proof.
  intros opts srv path x H S.
  destruct (serve_inv _ _ _ S) as [[_ A]|[CL [[e [B [E _]]]|[[A _]|[A _]]]]]; try discriminate.
  destruct (best_in _ _ _ _ B) as [X|[Ie Ce]]; [discriminate|].
  destruct (in_table _ _ _ H Ie) as [[ie [_ Ee]]|[m [Im Ee]]]; subst e.
  - unfold run_entry in E. cbn in E. discriminate.
  - destruct (run_mount_entry _ _ Ce) as [r [E1 E2]]. rewrite E2 in E. inversion E; subst x.
    exists m. split; [exact Im|]. split; [exact E1|]. split; [reflexivity|]. split.
    + rewrite E1. replace (mount_prefix m ++ slash :: r) with ((mount_prefix m ++ [slash]) ++ r) by (rewrite <- app_assoc; reflexivity).
      apply has_prefix_app.
    + intros q Iq Cq. apply in_patterns in Iq. destruct Iq as [e' [Ie' Ee']]. subst q.
      destruct (best_max _ _ _ _ B) as [_ Mx]. apply (Mx e' Ie' Cq).
Qed.

Lemma outside_not_served : forall opts srv path,
  new_server false opts = NSOk srv ->
  (forall m, In m (s_mounts srv) -> has_prefix (mount_prefix m ++ [slash]) path = false) ->
  forall x, serve srv path <> ToMux x.
Proof.
  intros opts srv path H N x S. destruct (mux_only_under_mount _ _ _ _ H S) as [m [Im [_ [_ [P _]]]]].
  rewrite (N m Im) in P. discriminate.
Qed.

(* other handlers: what they see *)
Lemma extra_sees_only_own : forall opts srv path i x,
  new_server false opts = NSOk srv -> serve srv path = ToExtra i x ->
  x = path /\ exists pat, nth_error opts i = Some (OHandler pat false) /\ claims pat path = true.
Proof.
  intros opts srv path i x H S.
  destruct (serve_inv _ _ _ S) as [[_ A]|[CL [[e [B [E _]]]|[[A _]|[A _]]]]]; try discriminate.
  destruct (best_in _ _ _ _ B) as [X|[Ie Ce]]; [discriminate|].
  destruct (in_table _ _ _ H Ie) as [[[j pat] [Iie Ee]]|[m [Im Ee]]]; subst e.
  - unfold run_entry in E. cbn in E. inversion E; subst. split; [reflexivity|]. exists pat. split; [|exact Ce].
    apply opt_extras_nth in Iie. destruct Iie as [_ Iie]. rewrite Nat.sub_0_r in Iie. exact Iie.
  - destruct (run_mount_entry _ _ Ce) as [r [_ E2]]. rewrite E2 in E. discriminate.
Qed.

(* other handlers: what they keep *)
Lemma extra_keeps_pattern : forall opts srv i pat path,
  new_server false opts = NSOk srv -> nth_error opts i = Some (OHandler pat false) ->
  is_clean path = true -> claims pat path = true ->
  (forall q, In q (patterns srv) -> claims q path = true -> length q <= length pat) ->
  (pat = path \/ ends_slash path = true \/ ~ In (path ++ [slash]) (patterns srv)) ->
  serve srv path = ToExtra i path.
Proof.
  intros opts srv i pat path H N CL C M R.
  assert (Iie : In (i, pat) (opt_extras opts 0)).
  { apply opt_extras_nth. split; [lia | rewrite Nat.sub_0_r; exact N]. }
  pose proof (extra_in_table _ _ _ H Iie) as IT.
  pose proof (new_server_ok _ _ _ H) as [_ [_ [_ [ND _]]]].
  rewrite (serve_owner srv path (extra_entry (i, pat)) ND CL IT C).
  - reflexivity.
  - intros e' Ie' Ce'. apply M; [apply in_patterns; exists e'; split; [exact Ie' | reflexivity] | exact Ce'].
  - exact R.
Qed.

Lemma plain_clean : forall p, plain p = true -> is_clean p = true.
Proof. intros p H. unfold plain in H. apply andb_true_iff in H. tauto. Qed.

(* an exact pattern always receives exactly its path *)
Lemma extra_exact : forall opts srv i pat,
  new_server false opts = NSOk srv -> nth_error opts i = Some (OHandler pat false) ->
  serve srv pat = ToExtra i pat.
Proof.
  intros opts srv i pat H N.
  assert (Iie : In (i, pat) (opt_extras opts 0)).
  { apply opt_extras_nth. split; [lia | rewrite Nat.sub_0_r; exact N]. }
  pose proof (extra_in_table _ _ _ H Iie) as IT.
  pose proof (new_server_ok _ _ _ H) as [_ [_ [_ [_ PL]]]].
  rewrite Forall_forall in PL. specialize (PL _ IT). cbn in PL.
  eapply extra_keeps_pattern; try eassumption.
  - apply plain_clean. exact PL.
  - apply claims_self.
  - intros q _ Cq. apply claims_length. exact Cq.
  - left. reflexivity.
Qed.

(* net/http's 404 page appears only for paths no pattern matches: the StripPrefix wrappers NewServer
   installs never miss *)
Lemma not_found_unclaimed : forall opts srv path,
  new_server false opts = NSOk srv -> serve srv path = NotFound ->
  forall q, In q (patterns srv) -> claims q path = false.
Proof.
  intros opts srv path H S q Iq.
  destruct (serve_inv _ _ _ S) as [[_ A]|[CL [[e [B [E _]]]|[[A _]|[_ B]]]]]; try discriminate.
  - destruct (best_in _ _ _ _ B) as [X|[Ie Ce]]; [discriminate|].
    destruct (in_table _ _ _ H Ie) as [[ie [_ Ee]]|[m [Im Ee]]]; subst e.
    + unfold run_entry in E. cbn in E. discriminate.
    + destruct (run_mount_entry _ _ Ce) as [r [_ E2]]. rewrite E2 in E. discriminate.
  - apply in_patterns in Iq. destruct Iq as [e [Ie Ee]]. subst q. apply (best_none _ _ B e Ie).
Qed.

(* the bare prefix: "/p" is redirected to "/p/" unless something is registered for "/p" itself *)
Lemma bare_prefix_redirects : forall opts srv m,
  new_server false opts = NSOk srv -> In m (s_mounts srv) ->
  let p := mount_prefix m in
  is_clean p = true -> ends_slash p = false -> ~ In p (patterns srv) ->
  serve srv p = Redirect (p ++ [slash]).
Proof.
  intros opts srv m H I p CL ES NI.
  pose proof (mount_in_table _ _ _ H I) as IT.
  assert (HP : has_pat (s_tbl srv) (p ++ [slash]) = true).
  { apply has_pat_true. apply in_map_iff. exists (mount_entry m). split; [reflexivity | exact IT]. }
  unfold serve. rewrite CL, ES, HP. cbn [negb andb].
  destruct (best (s_tbl srv) p None) as [e|] eqn:B; [|reflexivity].
  destruct (str_eqb (e_pat e) p) eqn:E; [|reflexivity].
  exfalso. apply NI. apply str_eqb_eq in E. destruct (best_in _ _ _ _ B) as [X|[Ie _]]; [discriminate|].
  apply in_patterns. exists e. split; assumption.
Qed.

(* unclean paths never reach a handler *)
Lemma unclean_no_handler : forall srv path, is_clean path = false -> serve srv path = RedirectClean.
Proof. intros srv path H. unfold serve. rewrite H. reflexivity. Qed.

(* ---- validation of options ---------------------------------------------------------------------- *)
Definition is_some {A} (o : option A) : bool := match o with Some _ => true | None => false end.

Lemma apply_opts_ok_wf : forall opts i t pats t' pats',
  apply_opts opts i t pats = OOk t' pats' -> mux_dup (is_some pats) opts = false /\ nil_handler_free opts = true.
Proof.
  induction opts as [|o opts IH]; intros i t pats t' pats' H; [split; reflexivity|].
  destruct o as [|ps|pat nilh]; cbn [apply_opts] in H.
  - apply IH in H. exact H.
  - destruct pats as [l|]; [discriminate|]. apply IH in H. cbn [mux_dup is_some orb nil_handler_free forallb andb].
    destruct ps; exact H.
  - destruct (register t pat nilh (TExtra i)) as [t1| |] eqn:R; try discriminate.
    apply register_ok in R. destruct R as [_ [R2 _]]. subst nilh. apply IH in H.
    cbn [mux_dup nil_handler_free forallb andb]. exact H.
Qed.

Lemma apply_opts_err : forall opts i t pats e,
  apply_opts opts i t pats = OErr e -> e = EDupPatterns /\ mux_dup (is_some pats) opts = true.
Proof.
  induction opts as [|o opts IH]; intros i t pats e H; [discriminate|].
  destruct o as [|ps|pat nilh]; cbn [apply_opts] in H.
  - apply IH in H. exact H.
  - destruct pats as [l|].
    + inversion H. split; reflexivity.
    + apply IH in H. destruct H as [H1 H2]. split; [exact H1|]. cbn [mux_dup is_some orb]. destruct ps; exact H2.
  - destruct (register t pat nilh (TExtra i)) as [t1| |] eqn:R; try discriminate.
    apply IH in H. exact H.
Qed.

Lemma NoDup_app_mid : forall (A : Type) (l1 l2 : list A) a, NoDup (l1 ++ a :: l2) -> ~ In a l1 /\ NoDup ((l1 ++ [a]) ++ l2).
Proof.
  intros A l1 l2 a H. split.
  - apply NoDup_remove_2 in H. intros I. apply H. apply in_or_app. left. exact I.
  - rewrite <- app_assoc. exact H.
Qed.

Lemma apply_opts_complete : forall opts i t pats,
  mux_dup (is_some pats) opts = false -> nil_handler_free opts = true ->
  NoDup (map e_pat t ++ map snd (opt_extras opts i)) ->
  Forall (fun p => plain p = true) (map snd (opt_extras opts i)) ->
  apply_opts opts i t pats =
    OOk (t ++ map extra_entry (opt_extras opts i)) (match pats with Some l => Some l | None => opt_mounts_raw opts end).
Proof.
  induction opts as [|o opts IH]; intros i t pats D NF ND PL.
  - cbn. rewrite app_nil_r. destruct pats; reflexivity.
  - destruct o as [|ps|pat nilh]; cbn [apply_opts opt_extras opt_mounts_raw].
    + apply IH; assumption.
    + cbn [mux_dup] in D. apply orb_false_iff in D. destruct D as [D1 D2].
      destruct pats as [l|]; [discriminate|]. cbn [opt_extras] in ND, PL.
      rewrite (IH (S i) t ps D2 NF ND PL). destruct ps; reflexivity.
    + cbn [nil_handler_free forallb] in NF. destruct nilh; [discriminate|]. cbn [andb] in NF.
      cbn [opt_extras map snd] in ND, PL. inversion PL as [|? ? P1 P2]; subst.
      apply NoDup_app_mid in ND. destruct ND as [N1 N2].
      rewrite (register_complete t pat (TExtra i) P1 N1).
      cbn [mux_dup] in D.
      rewrite (IH (S i) (t ++ [mk_entry pat (TExtra i)]) pats D NF).
      * cbn [map]. rewrite <- app_assoc. reflexivity.
      * rewrite map_app. exact N2.
      * exact P2.
Qed.

Lemma reg_mounts_complete : forall ps t,
  NoDup (map e_pat t ++ map mount_pat ps) -> Forall (fun p => plain p = true) (map mount_pat ps) ->
  reg_mounts ps t = ROk (t ++ map mount_entry ps).
Proof.
  induction ps as [|p ps IH]; intros t ND PL; cbn [reg_mounts map].
  - rewrite app_nil_r. reflexivity.
  - cbn [map] in ND, PL. inversion PL as [|? ? P1 P2]; subst.
    apply NoDup_app_mid in ND. destruct ND as [N1 N2].
    change (e_pat (mount_entry p)) with (mount_pat p). 
    rewrite (register_complete t (mount_pat p) (e_tgt (mount_entry p)) P1 N1).
    rewrite IH.
    + rewrite <- app_assoc. reflexivity.
    + rewrite map_app. exact N2.
    + exact P2.
Qed.

Lemma NoDup_app_l : forall (A : Type) (l1 l2 : list A), NoDup (l1 ++ l2) -> NoDup l1.
Proof.
  induction l1 as [|x l1 IH]; intros l2 H; [constructor|].
  cbn in H. inversion H as [|? ? N1 N2]; subst. constructor.
  - intros I. apply N1. apply in_or_app. left. exact I.
  - eapply IH. exact N2.
Qed.

Lemma map_extra_pat : forall l, map e_pat (map extra_entry l) = map snd l.
Proof. induction l as [|x l IH]; [reflexivity|]. cbn. rewrite IH. reflexivity. Qed.
Lemma map_mount_pat : forall l, map e_pat (map mount_entry l) = map mount_pat l.
Proof. induction l as [|x l IH]; [reflexivity|]. cbn [map]. rewrite IH. reflexivity. Qed.

Lemma accepted_iff_wf : forall opts,
  (exists srv, new_server false opts = NSOk srv) <-> wf_options opts.
Proof.
  intros opts. split.
  - intros [srv H]. pose proof (new_server_ok _ _ _ H) as [_ [_ [T [ND PL]]]].
    unfold new_server in H. destruct (apply_opts opts 0 [] None) as [t pats| | |] eqn:A; try discriminate.
    apply apply_opts_ok_wf in A. destruct A as [A1 A2]. unfold wf_options, config_patterns.
    split; [exact A1|]. split; [exact A2|]. rewrite T in ND, PL.
    rewrite map_app, map_extra_pat, map_mount_pat in ND. split; [exact ND|].
    rewrite <- map_extra_pat, <- map_mount_pat, <- map_app. apply Forall_map. exact PL.
  - intros [D [NF [ND PL]]]. unfold config_patterns in ND, PL. apply Forall_app in PL. destruct PL as [PL1 PL2].
    unfold new_server. rewrite (apply_opts_complete opts 0 [] None D NF).
    + cbn [app]. change (effective_mounts (opt_mounts_raw opts)) with (opt_mounts opts).
      rewrite reg_mounts_complete.
      * eexists. reflexivity.
      * rewrite map_extra_pat. exact ND.
      * exact PL2.
    + cbn [map app]. apply NoDup_app_l in ND. exact ND.
    + exact PL1.
Qed.

Lemma refused_only_dup : forall opts e,
  new_server false opts = NSErr e -> e = EDupPatterns /\ mux_dup false opts = true.
Proof.
  intros opts e H. unfold new_server in H.
  destruct (apply_opts opts 0 [] None) as [t pats|e'| |] eqn:A; try discriminate.
  - destruct (reg_mounts (effective_mounts pats) t); discriminate.
  - inversion H; subst. apply apply_opts_err in A. exact A.
Qed.

Lemma dup_never_accepted : forall opts, mux_dup false opts = true -> forall srv, new_server false opts <> NSOk srv.
Proof.
  intros opts D srv H. assert (W : wf_options opts) by (apply accepted_iff_wf; exists srv; exact H).
  destruct W as [W _]. congruence.
Qed.

(* ---- the specification predicate the harness evaluates holds of the model -------------------------- *)
Lemma all_pats_patterns : forall opts srv q,
  new_server false opts = NSOk srv ->
  (In q (all_pats (opt_mounts opts) (opt_extras opts 0)) <-> In q (patterns srv)).
Proof.
  intros opts srv q H. pose proof (new_server_ok _ _ _ H) as [_ [_ [T _]]].
  unfold patterns, all_pats. rewrite T, map_app, map_extra_pat, map_mount_pat.
  rewrite !in_app_iff. tauto.
Qed.

Lemma owns_inv : forall pats q path,
  owns pats q path = true ->
  claims q path = true /\ forall q', In q' pats -> claims q' path = true -> length q' <= length q.
Proof.
  intros pats q path H. unfold owns in H. apply andb_true_iff in H. destruct H as [C F].
  split; [exact C|]. intros q' I C'. rewrite forallb_forall in F. specialize (F q' I).
  rewrite C' in F. cbn in F. apply Nat.leb_le. exact F.
Qed.

Lemma not_redirected_inv : forall pats q path,
  slash_redirected pats path = false -> owns pats q path = true -> In q pats ->
  q = path \/ ends_slash path = true \/ ~ In (path ++ [slash]) pats.
Proof.
  intros pats q path R O Iq. destruct (owns_inv _ _ _ O) as [C M].
  unfold slash_redirected in R. apply andb_false_iff in R. destruct R as [R|R].
  - apply andb_false_iff in R. destruct R as [R|R].
    + apply negb_false_iff in R. apply existsb_exists in R. destruct R as [q' [I' E']].
      apply str_eqb_eq in E'. subst q'. left.
      apply (claims_same_length q path path C (claims_self path)).
      pose proof (M path I' (claims_self path)). pose proof (claims_length _ _ C). lia.
    + right. left. apply negb_false_iff in R. exact R.
  - right. right. intros I. assert (X : existsb (str_eqb (path ++ [slash])) pats = true).
    { apply existsb_exists. exists (path ++ [slash]). split; [exact I | apply str_eqb_refl]. }
    congruence.
Qed.

Lemma spec_sound : forall opts srv path,
  new_server false opts = NSOk srv ->
  spec_ok (opt_mounts opts) (opt_extras opts 0) path (serve srv path) = true.
Proof.
  intros opts srv path H. unfold spec_ok.
  destruct (is_clean path) eqn:CL; cbn [negb].
  2:{ rewrite unclean_no_handler; [reflexivity | exact CL]. }
  pose proof (new_server_ok _ _ _ H) as [_ [SM [_ [ND _]]]].
  set (pats := all_pats (opt_mounts opts) (opt_extras opts 0)).
  assert (PP : forall q, In q pats <-> In q (patterns srv)) by (intros q; apply all_pats_patterns; exact H).
  repeat (apply andb_true_iff; split).
  - (* transparent *)
    apply forallb_forall. intros m Im.
    destruct (owns pats (mount_pat m) path && negb (slash_redirected pats path)) eqn:G; [|reflexivity].
    apply andb_true_iff in G. destruct G as [O R]. apply negb_true_iff in R.
    assert (Im' : In m (s_mounts srv)) by (rewrite SM; exact Im).
    pose proof (mount_in_table _ _ _ H Im') as IT.
    assert (Iq : In (mount_pat m) pats).
    { apply PP. apply in_patterns. exists (mount_entry m). split; [exact IT | reflexivity]. }
    destruct (owns_inv _ _ _ O) as [C M].
    rewrite (serve_owner srv path (mount_entry m) ND CL IT C).
    + destruct (run_mount_entry m path C) as [r [E1 E2]]. rewrite E2. apply str_eqb_eq. symmetry. exact E1.
    + intros e' Ie' Ce'. apply (M (e_pat e')); [|exact Ce']. apply PP. apply in_patterns. exists e'. split; [exact Ie' | reflexivity].
    + destruct (not_redirected_inv _ _ _ R O Iq) as [X|[X|X]]; [left; exact X | right; left; exact X | right; right].
      intros I. apply X. apply PP. exact I.
  - (* outside *)
    destruct (serve srv path) as [x| | | |] eqn:S; try reflexivity.
    destruct (mux_only_under_mount _ _ _ _ H S) as [m [Im [E [_ [P _]]]]].
    apply existsb_exists. exists m. split; [rewrite <- SM; exact Im|].
    apply andb_true_iff. split; [apply str_eqb_eq; symmetry; exact E | exact P].
  - (* other handlers keep their patterns *)
    apply forallb_forall. intros [i pat] Iie. cbn [fst snd].
    destruct (owns pats pat path && negb (slash_redirected pats path)) eqn:G; [|reflexivity].
    apply andb_true_iff in G. destruct G as [O R]. apply negb_true_iff in R.
    pose proof (extra_in_table _ _ _ H Iie) as IT.
    assert (Iq : In pat pats).
    { apply PP. apply in_patterns. exists (extra_entry (i, pat)). split; [exact IT | reflexivity]. }
    destruct (owns_inv _ _ _ O) as [C M].
    rewrite (serve_owner srv path (extra_entry (i, pat)) ND CL IT C).
    + unfold run_entry. cbn. rewrite Nat.eqb_refl, str_eqb_refl. reflexivity.
    + intros e' Ie' Ce'. apply (M (e_pat e')); [|exact Ce']. apply PP. apply in_patterns. exists e'. split; [exact Ie' | reflexivity].
    + destruct (not_redirected_inv _ _ _ R O Iq) as [X|[X|X]]; [left; exact X | right; left; exact X | right; right].
      intros I. apply X. apply PP. exact I.
  - (* other handlers see only their own paths *)
    destruct (serve srv path) as [|j x| | |] eqn:S; try reflexivity.
    destruct (extra_sees_only_own _ _ _ _ _ H S) as [E [pat [N C]]]. subst x.
    rewrite str_eqb_refl. cbn [andb]. apply existsb_exists. exists (j, pat). split.
    + apply opt_extras_nth. split; [lia | rewrite Nat.sub_0_r; exact N].
    + cbn [fst snd]. rewrite Nat.eqb_refl. exact C.
Qed.

(* ---- clean paths: the prefix of an accepted mount is itself a clean path without trailing slash ---- *)
Lemma split_snoc : forall q cur, split_slash cur (q ++ [slash]) = split_slash cur q ++ [[]].
Proof.
  induction q as [|c q IH]; intros cur; cbn [app split_slash].
  - reflexivity.
  - destruct (is_slash c); [rewrite IH; reflexivity | apply IH].
Qed.

Lemma split_nonempty : forall q cur, split_slash cur q <> [].
Proof. induction q as [|c q IH]; intros cur; cbn [split_slash]; [discriminate|]. destruct (is_slash c); [discriminate | apply IH]. Qed.

Lemma segs_clean_snoc : forall l, l <> [] -> segs_clean (l ++ [[]]) = true -> segs_clean l = true /\ last l [] <> [].
Proof.
  induction l as [|s l IH]; intros NE H; [contradiction|].
  destruct l as [|s' l].
  - cbn in H. apply andb_true_iff in H. destruct H as [H _]. apply andb_true_iff in H. destruct H as [H1 H2].
    cbn. split; [exact H1|]. destruct s; [discriminate | discriminate].
  - change ((s :: s' :: l) ++ [[]]) with (s :: (s' :: l) ++ [[]]) in H.
    assert (X : segs_clean (s :: (s' :: l) ++ [[]]) =
                negb (is_dot s) && negb match s with [] => true | _ => false end && segs_clean ((s' :: l) ++ [[]])) by reflexivity.
    rewrite X in H. apply andb_true_iff in H. destruct H as [H1 H2].
    destruct (IH ltac:(discriminate) H2) as [A B]. split.
    + change (segs_clean (s :: s' :: l)) with
        (negb (is_dot s) && negb match s with [] => true | _ => false end && segs_clean (s' :: l)).
      rewrite H1, A. reflexivity.
    + exact B.
Qed.

Lemma last_cons_ne : forall (A : Type) (x : A) l d, l <> [] -> last (x :: l) d = last l d.
Proof. intros A x [|y l] d H; [contradiction | reflexivity]. Qed.

Lemma last_split_ends : forall q cur, ends_slash q = true -> last (split_slash cur q) [] = [].
Proof.
  induction q as [|c q IH]; intros cur H; [discriminate|].
  destruct q as [|d q].
  - cbn in H. cbn [split_slash]. rewrite H. reflexivity.
  - rewrite ends_slash_cons in H by discriminate.
    change (split_slash cur (c :: d :: q)) with
      (if is_slash c then rev cur :: split_slash [] (d :: q) else split_slash (c :: cur) (d :: q)).
    destruct (is_slash c).
    + rewrite last_cons_ne by apply split_nonempty. apply IH. exact H.
    + apply IH. exact H.
Qed.

Lemma clean_prefix : forall p, p <> [] -> is_clean (p ++ [slash]) = true -> is_clean p = true /\ ends_slash p = false.
Proof.
  intros [|c q] NE H; [contradiction|]. cbn [app] in H. unfold is_clean in *.
  apply andb_true_iff in H. destruct H as [H1 H2]. rewrite H1. cbn [andb].
  rewrite split_snoc in H2. destruct (segs_clean_snoc _ (split_nonempty q []) H2) as [A B].
  split; [exact A|]. destruct (ends_slash (c :: q)) eqn:E; [|reflexivity]. exfalso. apply B.
  destruct q as [|d q]; [reflexivity|]. rewrite ends_slash_cons in E by discriminate. apply last_split_ends. exact E.
Qed.

Lemma mount_prefix_clean : forall opts srv m,
  new_server false opts = NSOk srv -> In m (s_mounts srv) -> mount_prefix m <> [] ->
  is_clean (mount_prefix m) = true /\ ends_slash (mount_prefix m) = false.
Proof.
  intros opts srv m H I NE. pose proof (mount_in_table _ _ _ H I) as IT.
  pose proof (new_server_ok _ _ _ H) as [_ [_ [_ [_ PL]]]]. rewrite Forall_forall in PL.
  specialize (PL _ IT). cbn [mount_entry e_pat] in PL. apply plain_clean in PL. apply clean_prefix; assumption.
Qed.

Lemma bare_prefix_redirects' : forall opts srv m,
  new_server false opts = NSOk srv -> In m (s_mounts srv) -> mount_prefix m <> [] ->
  ~ In (mount_prefix m) (patterns srv) ->
  serve srv (mount_prefix m) = Redirect (mount_prefix m ++ [slash]).
Proof.
  intros opts srv m H I NE NI. destruct (mount_prefix_clean _ _ _ H I NE) as [A B].
  apply (bare_prefix_redirects opts srv m H I A B NI).
Qed.

(* ---- a mount with nothing registered inside its subtree is transparent for every path -------------- *)
Lemma claims_prefix : forall q path, claims q path = true -> has_prefix q path = true.
Proof.
  intros q path H. unfold claims in H. destruct (ends_slash q); [exact H|].
  apply str_eqb_eq in H. subst. rewrite <- (app_nil_r path) at 2. apply has_prefix_app.
Qed.

Lemma prefixes_nest : forall a b s,
  has_prefix a s = true -> has_prefix b s = true -> length a <= length b -> has_prefix a b = true.
Proof.
  intros a b s Ha Hb L. apply has_prefix_firstn in Ha. apply has_prefix_firstn in Hb.
  apply has_prefix_iff. exists (skipn (length a) b).
  rewrite <- (firstn_skipn (length a) b) at 1. f_equal.
  rewrite Hb at 1. rewrite firstn_firstn. rewrite Nat.min_l by exact L. symmetry. exact Ha.
Qed.

Lemma transparent_unnested : forall opts srv m x,
  new_server false opts = NSOk srv -> In m (s_mounts srv) ->
  let p := mount_prefix m in
  (forall q, In q (patterns srv) -> has_prefix (p ++ [slash]) q = true -> q = p ++ [slash]) ->
  is_clean (p ++ slash :: x) = true ->
  serve srv (p ++ slash :: x) = ToMux (slash :: x).
Proof.
  intros opts srv m x H I p U CL.
  assert (PP : has_prefix (p ++ [slash]) (p ++ slash :: x) = true).
  { replace (p ++ slash :: x) with ((p ++ [slash]) ++ x) by (rewrite <- app_assoc; reflexivity). apply has_prefix_app. }
  apply (transparent opts srv m x H I CL).
  - intros q Iq Cq. destruct (Nat.le_gt_cases (length q) (length (p ++ [slash]))) as [L|L]; [exact L|].
    exfalso. assert (E : q = p ++ [slash]).
    { apply U; [exact Iq|]. apply (prefixes_nest _ _ (p ++ slash :: x)); [exact PP | apply claims_prefix; exact Cq | lia]. }
    subst q. lia.
  - intros _ Iq. assert (E : (p ++ slash :: x) ++ [slash] = p ++ [slash]).
    { apply U; [exact Iq|]. replace ((p ++ slash :: x) ++ [slash]) with ((p ++ [slash]) ++ (x ++ [slash])).
      - apply has_prefix_app.
      - rewrite <- !app_assoc. reflexivity. }
    apply (f_equal (@length N)) in E. rewrite !app_length in E. cbn [length] in E. lia.
Qed.

(* ---- the same, at the level of responses, for an arbitrary mux -------------------------------------- *)
Section RespondProofs.
  Variables Meth Hdr Body Resp : Type.
  Variable mux : Meth -> str -> Hdr -> Body -> Resp.
  Variable extra : nat -> Meth -> str -> Hdr -> Body -> Resp.
  Variable not_found : Resp.
  Variable redirect : str -> Resp.
  Variable redirect_clean : str -> Resp.
  Notation respond := (respond Meth Hdr Body Resp mux extra not_found redirect redirect_clean).

  Lemma respond_transparent : forall opts srv m x meth h b,
    new_server false opts = NSOk srv -> In m (s_mounts srv) ->
    let p := mount_prefix m in
    let path := p ++ slash :: x in
    is_clean path = true ->
    (forall q, In q (patterns srv) -> claims q path = true -> length q <= length (p ++ [slash])) ->
    (ends_slash path = false -> ~ In (path ++ [slash]) (patterns srv)) ->
    respond srv meth path h b = mux meth (slash :: x) h b.
  Proof.
    intros opts srv m x meth h b H I p path CL M R. unfold Mount.respond.
    pose proof (transparent opts srv m x H I CL M R) as T. cbv zeta in T. subst path p. rewrite T. reflexivity.
  Qed.

  Lemma respond_transparent_unnested : forall opts srv m x meth h b,
    new_server false opts = NSOk srv -> In m (s_mounts srv) ->
    let p := mount_prefix m in
    (forall q, In q (patterns srv) -> has_prefix (p ++ [slash]) q = true -> q = p ++ [slash]) ->
    is_clean (p ++ slash :: x) = true ->
    respond srv meth (p ++ slash :: x) h b = mux meth (slash :: x) h b.
  Proof.
    intros opts srv m x meth h b H I p U CL. unfold Mount.respond.
    pose proof (transparent_unnested opts srv m x H I U CL) as T. cbv zeta in T. subst p. rewrite T. reflexivity.
  Qed.

  Lemma respond_extra : forall opts srv i pat path meth h b,
    new_server false opts = NSOk srv -> nth_error opts i = Some (OHandler pat false) ->
    is_clean path = true -> claims pat path = true ->
    (forall q, In q (patterns srv) -> claims q path = true -> length q <= length pat) ->
    (pat = path \/ ends_slash path = true \/ ~ In (path ++ [slash]) (patterns srv)) ->
    respond srv meth path h b = extra i meth path h b.
  Proof.
    intros opts srv i pat path meth h b H N CL C M R. unfold Mount.respond.
    rewrite (extra_keeps_pattern opts srv i pat path H N CL C M R). reflexivity.
  Qed.
End RespondProofs.
