(* C09: the totality lemmas that no other property needed.
   A. request decoding (Model/Params.v, Model/Transcode.v): parseParam, fieldPath, params.set,
      parseQueryParams, path parameters, decodeRequestArgs, RecvMsg on the first message,
      serveHTTP's decode -- never Panic, never OutOfFuel, for every schema, every oracle, every
      query string, every capture, every body; the rule is one that registration accepts.
   B. the receive loops of the three stream transports never end in a panic (corollaries of the
      refinement theorems of C06).
   C. the entry dispatch of Mux.ServeHTTP (Model/Serve.v): one path per request, refusals are
      HTTP statuses, a handler is reached only by a request that passed every check. *)
From Larking Require Import Base.GoSem Base.Reader
  Model.Codec Model.StreamHTTP Model.GrpcFrame Model.Timeout Model.Serve Model.Lexer Model.Trie Model.Match
  Spec.Frames Spec.StreamSpec Proofs.CodecProofs Proofs.StreamProofs
  Proofs.LexerProofs Proofs.MatchProofs Proofs.TrieProofs Proofs.RoutingProofs.
(* last: Transcode's rule / request / path_params / BField are the ones meant in part A *)
From Larking Require Import Model.Schema Model.Params Model.Transcode.

(* ================= A. request decoding ================= *)
Section Decoding.
Variable ofloat : bool -> bytes -> option N.
Variable owkt : wkt -> bool -> bytes -> option subtree.
Variable unmarshal : nat -> nat -> bytes -> option subtree.
Variable inflate : bytes -> option bytes.

Lemma lift_no_crash {A} (o : option A) : no_crash (lift o).
Proof. destruct o; exact I. Qed.

Lemma bind_no_crash {A B} (x : outcome A) (f : A -> outcome B) :
  no_crash x -> (forall a, x = Ok a -> no_crash (f a)) -> no_crash (bind x f).
Proof. destruct x; cbn; auto. Qed.

Lemma parse_kind_no_crash sch k raw : no_crash (parse_kind ofloat owkt sch k raw).
Proof.
  destruct k; cbn [parse_kind]; unfold int_param; try apply lift_no_crash; try exact I.
  - unfold parse_enum. destruct (json_iclass I32 raw); [exact I|].
    destruct (nth_error (s_enums sch) e); [|exact I].
    destruct (e_null e0 && bytes_eqb raw lit_null); [exact I|apply lift_no_crash].
  - destruct (msg_wkt sch m); try exact I; apply lift_no_crash.
Qed.

Theorem parse_param_no_crash sch fds raw : no_crash (parse_param ofloat owkt sch fds raw).
Proof. unfold parse_param. destruct fds; [exact I|apply parse_kind_no_crash]. Qed.

(* what fieldPath returns: every step but the last goes through a message-typed field *)
Fixpoint chained (fds : list step) : bool :=
  match fds with
  | [] => true
  | st :: rest =>
    match rest with
    | [] => true
    | _ => match field_msg (snd st) with Some _ => chained rest | None => false end
    end
  end.

Lemma field_path_chained sch : forall names pf fds, field_path sch pf names = Some fds -> chained fds = true.
Proof.
  induction names as [|n rest IH]; intros pf fds H; cbn [field_path] in H.
  - inversion H; reflexivity.
  - destruct (find_field pf n) as [fd|]; [|discriminate].
    destruct rest as [|n' rest'].
    + inversion H; reflexivity.
    + destruct (field_msg fd) as [m|] eqn:Em; [|discriminate].
      destruct (field_path sch (msg_fields sch m) (n' :: rest')) as [tl|] eqn:Et; [|discriminate].
      cbn in H. inversion H; subst fds. specialize (IH _ _ Et).
      cbn [chained snd]. destruct tl as [|s tl']; [reflexivity|]. rewrite Em. exact IH.
Qed.

(* params.set on one parameter: after the fix a repeated or map field on the way is an error; the
   remaining Panic of the model (Mutable(fd).Message() on a scalar) needs a path fieldPath never returns *)
Lemma set_walk_no_crash : forall fds pp v M, chained fds = true -> no_crash (set_walk fds pp v M).
Proof.
  induction fds as [|st rest IH]; intros pp v M H; cbn [set_walk]; [exact I|].
  destruct rest as [|st' rest'].
  - destruct (f_card (snd st)); exact I.
  - cbn [chained] in H. destruct (field_msg (snd st)) eqn:Em; [|discriminate].
    destruct (f_card (snd st)); try exact I. apply IH. exact H.
Qed.

Lemma params_set_no_crash : forall ps M, (forall p, In p ps -> chained (fst p) = true) -> no_crash (params_set ps M).
Proof.
  induction ps as [|p r IH]; intros M H; cbn [params_set]; [exact I|].
  apply bind_no_crash.
  - unfold set_param. apply set_walk_no_crash. apply H. now left.
  - intros M1 _. apply IH. intros q Hq. apply H. now right.
Qed.

Lemma parse_values_spec sch fds : forall vs,
  no_crash (parse_values ofloat owkt sch fds vs) /\
  forall ps, parse_values ofloat owkt sch fds vs = Ok ps -> forall p, In p ps -> fst p = fds.
Proof.
  induction vs as [|v r [IH1 IH2]]; cbn [parse_values].
  - split; [exact I|]. intros ps H p Hp. inversion H; subst. contradiction.
  - pose proof (parse_param_no_crash sch fds v) as Hp.
    destruct (parse_param ofloat owkt sch fds v) as [pv| | |]; cbn in Hp; try contradiction; cbn [bind]; [|split; [exact I|discriminate]].
    destruct (parse_values ofloat owkt sch fds r) as [ps'| | |]; cbn in IH1; try contradiction; cbn [bind]; [|split; [exact I|discriminate]].
    split; [exact I|]. intros ps H p Hin. inversion H; subst. destruct Hin as [<-|Hin]; [reflexivity|]. eapply IH2; eauto.
Qed.

(* parseQueryParams: any raw query (keys and values are arbitrary byte strings) *)
Theorem parse_query_spec sch root : forall q,
  no_crash (parse_query ofloat owkt sch root q) /\
  forall ps, parse_query ofloat owkt sch root q = Ok ps -> forall p, In p ps -> chained (fst p) = true.
Proof.
  induction q as [|[key vs] r [IH1 IH2]]; cbn [parse_query].
  - split; [exact I|]. intros ps H p Hp. inversion H; subst. contradiction.
  - destruct (field_path sch root (split_dots [] key)) as [fds|] eqn:Ef; [|split; [exact I|discriminate]].
    destruct (parse_values_spec sch fds vs) as [V1 V2].
    destruct (parse_values ofloat owkt sch fds vs) as [ps1| | |]; cbn in V1; try contradiction; cbn [bind]; [|split; [exact I|discriminate]].
    destruct (parse_query ofloat owkt sch root r) as [ps2| | |]; cbn in IH1; try contradiction; cbn [bind]; [|split; [exact I|discriminate]].
    split; [exact I|]. intros ps H p Hin. inversion H; subst. apply in_app_or in Hin. destruct Hin as [Hin|Hin].
    + rewrite (V2 _ eq_refl p Hin). eapply field_path_chained; eauto.
    + eapply IH2; eauto.
Qed.

(* the captures of the matched rule, converted (path.search) *)
Lemma path_params_spec sch : forall vcs,
  Forall (fun vc => chained (fst vc) = true) vcs ->
  no_crash (path_params ofloat owkt sch vcs) /\
  forall ps, path_params ofloat owkt sch vcs = Ok ps -> forall p, In p ps -> chained (fst p) = true.
Proof.
  induction vcs as [|[fds c] r IH]; intros HF; cbn [path_params].
  - split; [exact I|]. intros ps H p Hp. inversion H; subst. contradiction.
  - inversion HF as [|x l Hx Hr]; subst. cbn [fst] in Hx. destruct (IH Hr) as [IH1 IH2].
    destruct (path_params ofloat owkt sch r) as [ps'| | |]; cbn in IH1; try contradiction; cbn [bind]; [|split; [exact I|discriminate]].
    destruct fds as [|st fds'].
    + split; [exact I|]. intros ps H p Hin. inversion H; subst. apply in_app_or in Hin.
      destruct Hin as [Hin|[<-|[]]]; [eapply IH2; eauto|reflexivity].
    + pose proof (parse_param_no_crash sch (st :: fds') c) as Hp.
      destruct (parse_param ofloat owkt sch (st :: fds') c) as [pv| | |]; cbn in Hp; try contradiction; [|split; [exact I|discriminate]].
      split; [exact I|]. intros ps H p Hin. inversion H; subst. apply in_app_or in Hin.
      destruct Hin as [Hin|[<-|[]]]; [eapply IH2; eauto|exact Hx].
Qed.

(* a body selector as addRule accepts it (after the fix of T4): singular message fields only *)
Definition body_step_ok (st : step) : bool :=
  match f_card (snd st), field_msg (snd st) with Singular, Some _ => true | _, _ => false end.
Definition body_sel_ok (b : body_sel) : bool :=
  match b with BField fds => forallb body_step_ok fds | _ => true end.

Lemma body_walk_no_crash : forall fds pp M, forallb body_step_ok fds = true -> no_crash (body_walk fds pp M).
Proof.
  induction fds as [|st rest IH]; intros pp M H; cbn [body_walk]; [exact I|].
  cbn [forallb] in H. apply andb_true_iff in H. destruct H as [H1 H2]. unfold body_step_ok in H1.
  destruct (f_card (snd st)); try discriminate. destruct (field_msg (snd st)); try discriminate. apply IH. exact H2.
Qed.

Lemma decode_body_no_crash sch r rq fds b : forallb body_step_ok fds = true ->
  no_crash (decode_body unmarshal inflate sch r rq fds b).
Proof.
  intros H. unfold decode_body. apply bind_no_crash; [apply body_walk_no_crash; exact H|].
  intros M0 _. destruct (q_codec rq) as [cd|]; [|exact I]. destruct (if q_gzip rq then inflate b else Some b) as [raw|]; [|exact I].
  destruct (unmarshal cd (body_type sch r) raw); exact I.
Qed.

Definition rule_ok (r : rule) : Prop :=
  Forall (fun fds => chained fds = true) (r_vars r) /\ body_sel_ok (r_body r) = true.

Lemma recv_first_no_crash sch r rq ps : body_sel_ok (r_body r) = true ->
  (forall p, In p ps -> chained (fst p) = true) ->
  no_crash (recv_first unmarshal inflate sch r rq ps).
Proof.
  intros Hb Hps. unfold recv_first. apply bind_no_crash; [|intros M0 _; apply params_set_no_crash; exact Hps].
  destruct (r_body r) as [| |fds] eqn:Eb; destruct (q_body rq); try exact I.
  - apply decode_body_no_crash. reflexivity.
  - apply decode_body_no_crash. exact Hb.
Qed.

Lemma combine_Forall_fst {A B} (P : A -> Prop) : forall (l : list A) (l' : list B),
  Forall P l -> Forall (fun ab => P (fst ab)) (combine l l').
Proof.
  induction l as [|a l IH]; intros l' H; cbn; [constructor|].
  destruct l' as [|b l']; [constructor|]. inversion H; subst. constructor; auto.
Qed.

(* serveHTTP + RecvMsg: every request against every rule registration accepts *)
Theorem decode_request_no_crash sch r rq : rule_ok r ->
  no_crash (decode_request ofloat owkt unmarshal inflate sch r rq).
Proof.
  intros [Hv Hb]. unfold decode_request.
  destruct (path_params_spec sch (combine (r_vars r) (q_caps rq))) as [P1 P2].
  { apply (combine_Forall_fst (fun fds => chained fds = true)). exact Hv. }
  destruct (path_params ofloat owkt sch (combine (r_vars r) (q_caps rq))) as [ps| | |]; cbn in P1; try contradiction; cbn [bind]; [|exact I].
  destruct (parse_query_spec sch (msg_fields sch (r_input r)) (q_query rq)) as [Q1 Q2].
  destruct (parse_query ofloat owkt sch (msg_fields sch (r_input r)) (q_query rq)) as [qs| | |]; cbn in Q1; try contradiction; cbn [bind]; [|exact I].
  destruct (if q_gzip rq then match q_body rq with Some b => inflate b | None => Some [] end else Some []); [|exact I].
  apply recv_first_no_crash; [exact Hb|].
  intros p Hin. apply in_app_or in Hin. destruct Hin as [Hin|Hin]; [eapply Q2|eapply P2]; eauto.
Qed.
End Decoding.

(* the hypothesis is needed: a body selector through a scalar field (what addRule accepted before
   the fix of T4) makes the model panic on the first request with a body *)
Definition f_scalar : field := mkField 1%N [110%N] [110%N] KString Singular None false.
Definition bad_rule : rule := mkRule 0 [] (BField [([f_scalar], f_scalar)]).
Definition any_req : request := mkReq [] [] (Some [123; 125]%N) (Some 0) false.
Lemma decode_request_bad_selector_panics :
  decode_request (fun _ _ => None) (fun _ _ _ => None) (fun _ _ _ => Some []) (fun b => Some b)
    (mkSchema [mkMsg WNone [f_scalar]] []) bad_rule any_req = Panic PKind.
Proof. reflexivity. Qed.

(* a rule that registration accepts, and a request against it *)
Definition f_sub : field := mkField 2%N [115%N] [115%N] (KMessage 0) Singular None true.
Definition f_rep : field := mkField 3%N [114%N] [114%N] KString Repeated None false.
Definition good_rule : rule := mkRule 0 [[([f_scalar; f_sub; f_rep], f_sub); ([f_scalar; f_sub; f_rep], f_scalar)]] (BField [([f_scalar; f_sub; f_rep], f_sub)]).
Lemma good_rule_ok : rule_ok good_rule.
Proof. split; [repeat constructor|reflexivity]. Qed.

(* ================= B. receive loops ================= *)
Definition ended (e : rend) : Prop := match e with EndPanic | EndFuel => False | _ => True end.

Lemma end_rel_ended e p : end_rel e p -> ended e.
Proof. destruct e, p; cbn; auto. Qed.
Lemma end_sim_ended e p : end_sim e p -> ended e.
Proof. destruct e, p; cbn; auto. Qed.

(* HTTP client streams: every codec, limit, body, read schedule, EOF style, validity oracle *)
Theorem http_recv_all_ends c limit valid body sch eofwd :
  0 < limit -> (N.of_nat limit < 2 ^ 63)%N ->
  ended (snd (http_recv_all (S (length body)) (HCfg c limit true true) valid (hst0 (Src body sch eofwd)))).
Proof.
  intros Hl Hi. pose proof (http_recv_is_parser c limit valid (Src body sch eofwd) Hl Hi) as H.
  cbv zeta in H. cbn [rem] in H. destruct H as [_ H]. eapply end_rel_ended; eauto.
Qed.

(* gRPC: every limit, decompressor, validity oracle, body, schedule, tail error *)
Theorem grpc_recv_all_ends limit gunzip valid body t sch eofwd :
  ended (snd (grpc_recv_all (S (length body)) limit gunzip valid (XSrc (Src body sch eofwd) t))).
Proof.
  pose proof (grpc_recv_refines (S (length body)) limit gunzip valid (XSrc (Src body sch eofwd) t)) as H.
  cbn [xs rem xtail] in H. assert (Hlt : length body < S (length body)) by lia.
  destruct (H Hlt) as [_ H2]. eapply end_sim_ended; eauto.
Qed.

(* gRPC-web, binary and base64 text bodies (any bytes: bad alphabet, bad padding, cut quanta) *)
Theorem web_recv_all_ends (text : bool) (body : bytes) sch eofwd limit gunzip valid :
  let L := fst (if text then web_text_decode body else (body, TClean)) in
  ended (snd (grpc_recv_all (S (length L)) limit gunzip valid (web_src text body sch eofwd))).
Proof.
  pose proof (web_recv_refines text body sch eofwd limit gunzip valid) as H. cbv zeta in H.
  destruct (if text then web_text_decode body else (body, TClean)) as [L t]. cbn [fst].
  destruct H as [_ H]. eapply end_sim_ended; eauto.
Qed.

(* ================= C. entry dispatch ================= *)
(* the path a request lands on, stated without the order of the tests *)
Definition lands (r : req) (e : Serve.entry) : Prop :=
  let web := has_prefix grpc_web (q_ctype r) = true in
  let grpc := q_major r = 2%N /\ has_prefix grpc_base (q_ctype r) = true in
  let ws := is_websocket_request r = true in
  match e with
  | EWeb => web
  | EGrpc => ~ web /\ grpc
  | EWs => ~ web /\ ~ grpc /\ ws
  | EHttp => ~ web /\ ~ grpc /\ ~ ws
  end.

Theorem dispatch_lands r e : dispatch r = e <-> lands r e.
Proof.
  unfold dispatch, lands.
  destruct (has_prefix grpc_web (q_ctype r)) eqn:W;
    destruct (N.eqb_spec (q_major r) 2) as [M|M]; cbn [andb];
    destruct (has_prefix grpc_base (q_ctype r)) eqn:G;
    destruct (is_websocket_request r) eqn:S; destruct e;
    split; intros H; try discriminate; try reflexivity; try (exfalso; intuition congruence); intuition congruence.
Qed.

(* every request lands on exactly one of the four paths *)
Theorem one_path r : exists e, lands r e /\ forall e', lands r e' -> e' = e.
Proof.
  exists (dispatch r). split; [apply dispatch_lands; reflexivity|].
  intros e' H. apply dispatch_lands in H. auto.
Qed.

Lemma grpc_pre_status c web major ct r s : grpc_pre c web major ct r = Refuse s -> In s [400; 404; 415]%N.
Proof.
  unfold grpc_pre.
  repeat match goal with |- (if ?b then _ else _) = _ -> _ => destruct b end; intros H; inversion H; subst; cbn; auto.
Qed.

(* a refusal before any handler is one of four HTTP statuses *)
Theorem serve_pre_refusals c r s : serve_pre c r = Refuse s -> In s [400; 404; 415; 500]%N.
Proof.
  unfold serve_pre. destruct (dispatch r); try discriminate.
  - unfold web_pre. destruct (negb _); [intros H; inversion H; subst; cbn; auto|].
    destruct (cut_plus (q_ctype r)) as [[typ enc] ok].
    destruct (negb _); [intros H; inversion H; subst; cbn; auto|].
    destruct (equal_fold_ascii _ _); [intros H; inversion H; subst; cbn; auto|].
    intros H. apply grpc_pre_status in H. cbn in *. tauto.
  - intros H. apply grpc_pre_status in H. cbn in *. tauto.
Qed.

Lemma grpc_pre_reach c web major ct r w : grpc_pre c web major ct r = ReachGrpc w ->
  w = web /\ major = 2%N /\ q_method r = post /\ grpc_codec_ok c ct = true /\ q_known r = true /\
  (q_encoding r = [] \/ memb (q_encoding r) (compressor_keys c) = true) /\
  (q_timeout r = [] \/ exists ns, decode_timeout (q_timeout r) = Some ns).
Proof.
  unfold grpc_pre.
  destruct (N.eqb_spec major 2) as [M|M]; cbn [negb]; [|discriminate].
  destruct (bytes_eqb (q_method r) post) eqn:P; cbn [negb]; [|discriminate].
  destruct (grpc_codec_ok c ct) eqn:C; cbn [negb]; [|discriminate].
  destruct (negb (is_nil (q_encoding r)) && negb (memb (q_encoding r) (compressor_keys c))) eqn:E; [discriminate|].
  destruct (negb (is_nil (q_timeout r)) && match decode_timeout (q_timeout r) with None => true | Some _ => false end) eqn:T; [discriminate|].
  destruct (q_known r) eqn:K; cbn [negb]; [|discriminate].
  intros H. inversion H; subst. apply bytes_eqb_eq in P. repeat split; auto.
  - apply andb_false_iff in E. destruct E as [E|E].
    + left. destruct (q_encoding r); [reflexivity|discriminate].
    + right. now apply negb_false_iff in E.
  - apply andb_false_iff in T. destruct T as [T|T].
    + left. destruct (q_timeout r); [reflexivity|discriminate].
    + right. destruct (decode_timeout (q_timeout r)); [eauto|discriminate].
Qed.

(* a handler runs on a gRPC stream only for a POST naming a registered method, with a codec and a
   compressor the mux has, and a timeout the wire grammar allows *)
Theorem serve_pre_reach c r w : serve_pre c r = ReachGrpc w ->
  q_method r = post /\ q_known r = true /\
  (q_encoding r = [] \/ memb (q_encoding r) (compressor_keys c) = true) /\
  (q_timeout r = [] \/ exists ns, decode_timeout (q_timeout r) = Some ns) /\
  (w = true <-> dispatch r = EWeb).
Proof.
  unfold serve_pre. destruct (dispatch r) eqn:D; try discriminate.
  - unfold web_pre. destruct (negb _); [discriminate|].
    destruct (cut_plus (q_ctype r)) as [[typ enc] ok].
    destruct (negb _); [discriminate|]. destruct (equal_fold_ascii _ _); [discriminate|].
    intros H. apply grpc_pre_reach in H. destruct H as (-> & _ & A & _ & B & C & E). repeat split; auto.
  - intros H. apply grpc_pre_reach in H. destruct H as (-> & _ & A & _ & B & C & E). repeat split; auto; discriminate.
Qed.

(* transcoding is entered exactly by the requests that are neither gRPC-web nor gRPC; the verb is
   WEBSOCKET exactly when an Upgrade value is "websocket" *)
Theorem serve_pre_transcode c r ws : serve_pre c r = Transcode ws <->
  (dispatch r = EWs /\ ws = true) \/ (dispatch r = EHttp /\ ws = false).
Proof.
  unfold serve_pre. destruct (dispatch r) eqn:D.
  - split; [|intros [[X _]|[X _]]; discriminate].
    unfold web_pre. destruct (negb _); [discriminate|]. destruct (cut_plus (q_ctype r)) as [[typ enc] ok].
    destruct (negb _); [discriminate|]. destruct (equal_fold_ascii _ _); [discriminate|].
    unfold grpc_pre. repeat match goal with |- (if ?b then _ else _) = _ -> _ => destruct b end; discriminate.
  - split; [|intros [[X _]|[X _]]; discriminate].
    unfold grpc_pre. repeat match goal with |- (if ?b then _ else _) = _ -> _ => destruct b end; discriminate.
  - split; [intros H; inversion H; auto|intros [[_ ->]|[X _]]; [reflexivity|discriminate]].
  - split; [intros H; inversion H; auto|intros [[X _]|[_ ->]]; [discriminate|reflexivity]].
Qed.

(* composition: whatever the request, the entry point refuses with an HTTP status, or hands a checked
   request to a gRPC handler, or routes it -- and routing on any published trie is benign *)
Section Entry.
Variables isLetter isNumber : N -> bool.
Variable resolves body_ok resp_ok : str -> list str -> bool.
Variable okconv : list str -> str -> bool.

Definition ws_verb : str := [87; 69; 66; 83; 79; 67; 75; 69; 84]%N.   (* "WEBSOCKET" *)

Theorem serve_entry_total c r L root verb p :
  TrieProofs.Inv isLetter isNumber resolves L root ->
  match serve_pre c r with
  | Refuse s => status_ok s = true
  | ReachGrpc _ => q_known r = true
  | Transcode ws => MatchProofs.benign (route okconv isLetter isNumber root (if ws then ws_verb else verb) p)
  end.
Proof.
  intros HI. destruct (serve_pre c r) as [s|w|ws] eqn:E.
  - apply serve_pre_refusals in E. cbn in E. destruct E as [<-|[<-|[<-|[<-|[]]]]]; reflexivity.
  - apply serve_pre_reach in E. tauto.
  - eapply route_total; eauto.
Qed.
End Entry.

(* ================= D. small corollaries used by Properties/C09.v ================= *)
Section Published.
Variables isLetter isNumber : N -> bool.
Variable resolves body_ok resp_ok : str -> list str -> bool.
Variable okconv : list str -> str -> bool.

(* routing on whatever a history of registerService calls (accepted or refused, in any order, with
   any rule texts) has published, starting from the empty mux *)
Theorem route_published_total (svcs : list (list mdecl)) verb p :
  MatchProofs.benign (route okconv isLetter isNumber
    (run_services isLetter isNumber resolves body_ok resp_ok empty_node svcs) verb p).
Proof.
  destruct (published_Inv isLetter isNumber resolves body_ok resp_ok svcs [] empty_node
              (Inv_empty isLetter isNumber resolves)) as (L' & HI & _).
  eapply route_total; eauto.
Qed.
End Published.

From Larking Require Import Model.Limits Proofs.LimitsProofs Proofs.TimeoutProofs.

Lemma send_total p c size : match Limits.send p c size with Ok _ | Err _ => True | _ => False end.
Proof. destruct p; cbn [Limits.send]; unfold send_plain, send_grpc; gate; exact I. Qed.

(* decodeTimeout: refusal or a duration that fits time.Duration -- the int64 product never wraps *)
Lemma decode_timeout_range s : decode_timeout s = None \/ exists ns, decode_timeout s = Some ns /\ (0 <= ns <= max_i64)%Z.
Proof.
  destruct (decode_timeout s) as [ns|] eqn:E; [right|left; reflexivity].
  exists ns. split; [reflexivity|].
  apply decode_timeout_sound in E. destruct E as (ds & u & d & _ & Hl & Hd & Hu & ->).
  pose proof (digits_val_bound ds 0%Z Hd ltac:(lia)). pose proof (unit_ns_pos _ _ Hu).
  assert (0 < 10 ^ Z.of_nat (length ds))%Z by (apply Z.pow_pos_nonneg; lia). unfold max_i64. nia.
Qed.
